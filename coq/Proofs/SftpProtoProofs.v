(* Proofs about Model/SftpProto.v (property C14). *)
From AV Require Import Base.Prelude Model.SftpProto Gen.SftpTables.

Local Ltac bool_hyps :=
  repeat match goal with
         | H : _ && _ = true |- _ => apply andb_true_iff in H; destruct H
         | H : negb _ = true |- _ => apply negb_true_iff in H
         | H : negb _ = false |- _ => apply negb_false_iff in H
         end.

(* ------------------------------------------------------------------------------------------ *)
(* 1. wire primitives                                                                           *)

Lemma get_put_u32 x r : 0 <= x < TWO32 -> get_u32 (put_u32 x ++ r) = Some (x, r).
Proof.
  intros H. unfold put_u32, get_u32, TWO32 in *. cbn [app]. f_equal. f_equal. lia.
Qed.

Lemma get_put_u64 x r : 0 <= x < TWO64 -> get_u64 (put_u64 x ++ r) = Some (x, r).
Proof.
  intros H. unfold get_u64, put_u64. rewrite <- app_assoc.
  rewrite get_put_u32 by (unfold TWO32, TWO64 in *; lia).
  rewrite get_put_u32 by (unfold TWO32; lia).
  f_equal. f_equal. unfold TWO32. lia.
Qed.

Lemma in_u32_spec x : in_u32 x = true <-> 0 <= x < TWO32.
Proof. unfold in_u32. lia. Qed.
Lemma in_u64_spec x : in_u64 x = true <-> 0 <= x < TWO64.
Proof. unfold in_u64. lia. Qed.
Lemma in_u8_spec x : in_u8 x = true <-> 0 <= x < 256.
Proof. unfold in_u8. lia. Qed.

Lemma get_bytes_app s r : get_bytes (Z.of_nat (length s)) (s ++ r) = Some (s, r).
Proof.
  unfold get_bytes. rewrite app_length, Nat2Z.id.
  replace (Z.of_nat (length s) <=? Z.of_nat (length s + length r)) with true by lia.
  rewrite firstn_app, Nat.sub_diag, firstn_all. cbn [firstn]. rewrite app_nil_r.
  rewrite skipn_app, Nat.sub_diag, skipn_all. reflexivity.
Qed.

Lemma get_put_string s r : str_ok s = true -> get_string (put_string s ++ r) = Some (s, r).
Proof.
  intros H. unfold str_ok in H. unfold get_string, put_string. rewrite <- app_assoc.
  rewrite get_put_u32 by lia. apply get_bytes_app.
Qed.

Lemma get_put_byte x r : get_byte ([x] ++ r) = Some (x, r).
Proof. reflexivity. Qed.

(* ------------------------------------------------------------------------------------------ *)
(* 5. status codes                                                                              *)

Local Ltac split_ifs :=
  repeat match goal with
         | |- context [if ?c then _ else _] => let E := fresh "E" in destruct c eqn:E
         | H : context [if ?c then _ else _] |- _ => let E := fresh "E" in destruct c eqn:E
         end.

Lemma status_code_representable v code :
  3 <= v <= 6 -> status_code_for v code <= FX_V6_END -> fx_min_version (status_code_for v code) <= v.
Proof.
  intros Hv. unfold status_code_for, fx_min_version, FX_NOT_A_DIRECTORY, FX_NO_SUCH_FILE, FX_FAILURE,
    FX_V3_END, FX_V4_END, FX_V5_END, FX_V6_END.
  intros H. split_ifs; lia.
Qed.

(* a code the version defines is sent unchanged, except NOT_A_DIRECTORY below v6 *)
Lemma status_code_unchanged v code :
  0 <= code <= FX_V6_END -> fx_min_version code <= v -> code <> FX_NOT_A_DIRECTORY \/ 6 <= v ->
  status_code_for v code = code.
Proof.
  unfold status_code_for, fx_min_version, FX_NOT_A_DIRECTORY, FX_NO_SUCH_FILE, FX_FAILURE,
    FX_V3_END, FX_V4_END, FX_V5_END, FX_V6_END.
  intros H1 H2 H3. split_ifs; lia.
Qed.

Lemma errno_code_range sym : 0 <= errno_code sym <= FX_V6_END.
Proof.
  unfold errno_code, FX_V6_END.
  repeat match goal with |- context [if ?c then _ else _] => destruct c end; cbv; split; discriminate.
Qed.

(* ------------------------------------------------------------------------------------------ *)
(* 7. client                                                                                    *)

Lemma nodup_app {A} (l l' : list A) :
  NoDup l -> NoDup l' -> (forall a, In a l -> In a l' -> False) -> NoDup (l ++ l').
Proof.
  induction l as [|x l IH]; cbn; intros H1 H2 H3; [exact H2|].
  inversion H1; subst. constructor.
  - rewrite in_app_iff. intros [H|H]; [contradiction|]. apply (H3 x); [left; reflexivity|exact H].
  - apply IH; [assumption|assumption|]. intros a Ha. apply H3. right. exact Ha.
Qed.

Lemma dict_set_in d k w k' w' :
  In (k', w') (dict_set d k w) -> (k' = k /\ w' = w) \/ In (k', w') d.
Proof.
  induction d as [|[k0 w0] d IH]; cbn [dict_set]; intros H.
  - destruct H as [H|[]]. inversion H. auto.
  - destruct (k0 =? k) eqn:E.
    + destruct H as [H|H]; [inversion H; auto|]. right. right. exact H.
    + destruct H as [H|H]; [right; left; exact H|]. apply IH in H. destruct H; [auto|right; right; assumption].
Qed.

Lemma dict_set_keys d k w :
  NoDup (map fst d) -> NoDup (map fst (dict_set d k w)) /\
  (forall x, In x (map fst (dict_set d k w)) <-> x = k \/ In x (map fst d)).
Proof.
  induction d as [|[k0 w0] d IH]; cbn [dict_set map fst]; intros ND.
  - split; [repeat constructor; intros []|]. intros x. cbn. intuition congruence.
  - inversion ND as [|? ? Hn ND']; subst. destruct (k0 =? k) eqn:E.
    + apply Z.eqb_eq in E. subst. cbn [map fst]. split; [constructor; assumption|].
      intros x. cbn. intuition congruence.
    + apply Z.eqb_neq in E. destruct (IH ND') as [IH1 IH2]. cbn [map fst]. split.
      * constructor; [|exact IH1]. rewrite IH2. intros [->|H]; [congruence|contradiction].
      * intros x. cbn. rewrite IH2. intuition congruence.
Qed.

Lemma dict_set_vals d k w :
  NoDup (map snd d) -> ~ In w (map snd d) -> NoDup (map snd (dict_set d k w)) /\
  (forall x, In x (map snd (dict_set d k w)) -> x = w \/ In x (map snd d)).
Proof.
  induction d as [|[k0 w0] d IH]; cbn [dict_set map snd]; intros ND Hw.
  - split; [repeat constructor; intros []|]. intros x. cbn. intuition congruence.
  - inversion ND as [|? ? Hn ND']; subst. destruct (k0 =? k) eqn:E.
    + cbn [map snd]. split.
      * constructor; [|assumption]. intros H. apply Hw. right. exact H.
      * intros x. cbn. intuition congruence.
    + destruct (IH ND') as [IH1 IH2]; [intros H; apply Hw; right; exact H|].
      cbn [map snd]. split.
      * constructor; [|exact IH1]. intros H. apply IH2 in H. destruct H as [->|H]; [|contradiction].
        apply Hw. left. reflexivity.
      * intros x. cbn. intros [->|H]; [auto|]. apply IH2 in H. tauto.
Qed.

Lemma dict_pop_some d k w r :
  dict_pop d k = Some (w, r) ->
  In (k, w) d /\ (forall x, In x r -> In x d) /\
  (forall x, In x d -> x = (k, w) \/ In x r) /\
  (NoDup (map fst d) -> NoDup (map fst r) /\ ~ In k (map fst r)) /\
  (NoDup (map snd d) -> NoDup (map snd r) /\ ~ In w (map snd r)).
Proof.
  revert w r. induction d as [|[k0 w0] d IH]; cbn [dict_pop]; intros w r H; [discriminate|].
  destruct (k0 =? k) eqn:E.
  - apply Z.eqb_eq in E. inversion H; subst. repeat split.
    + left. reflexivity.
    + intros x Hx. right. exact Hx.
    + intros x [Hx|Hx]; [left; symmetry; exact Hx|right; exact Hx].
    + inversion H0; assumption.
    + inversion H0; assumption.
    + inversion H0; assumption.
    + inversion H0; assumption.
  - destruct (dict_pop d k) as [[x r']|] eqn:P; [|discriminate]. inversion H; subst.
    destruct (IH _ _ eq_refl) as (I1 & I2 & I3 & I4 & I5). apply Z.eqb_neq in E. repeat split.
    + right. exact I1.
    + intros y [Hy|Hy]; [left; exact Hy|right; apply I2; exact Hy].
    + intros y [Hy|Hy]; [right; left; exact Hy|]. destruct (I3 _ Hy); [left; assumption|right; right; assumption].
    + cbn [map fst]. inversion H0; subst. destruct (I4 H4) as [J1 J2]. constructor; [|exact J1].
      intros Hin. apply H3. apply in_map_iff in Hin. destruct Hin as [[a b] [Ha Hb]]. cbn in Ha. subst.
      apply in_map_iff. exists (k0, b). split; [reflexivity|apply I2; exact Hb].
    + cbn [map fst]. inversion H0; subst. destruct (I4 H4) as [J1 J2]. intros [Hc|Hc]; [congruence|contradiction].
    + cbn [map snd]. inversion H0; subst. destruct (I5 H4) as [J1 J2]. constructor; [|exact J1].
      intros Hin. apply H3. apply in_map_iff in Hin. destruct Hin as [[a b] [Ha Hb]]. cbn in Ha. subst.
      apply in_map_iff. exists (a, w0). split; [reflexivity|apply I2; exact Hb].
    + cbn [map snd]. inversion H0; subst. destruct (I5 H4) as [J1 J2]. intros [Hc|Hc]; [|contradiction].
      subst. apply H3. apply in_map_iff. exists (k, w). split; [reflexivity|exact I1].
Qed.

Lemma dict_pop_none d k : dict_pop d k = None -> forall w, ~ In (k, w) d.
Proof.
  induction d as [|[k0 w0] d IH]; cbn [dict_pop]; intros H w Hin; [exact Hin|].
  destruct (k0 =? k) eqn:E; [discriminate|].
  destruct (dict_pop d k) as [[x r']|] eqn:P; [discriminate|].
  destruct Hin as [Hin|Hin]; [inversion Hin; subst; rewrite Z.eqb_refl in E; discriminate|].
  exact (IH eq_refl w Hin).
Qed.

Lemma dict_pop_in d k w : NoDup (map fst d) -> In (k, w) d -> exists r, dict_pop d k = Some (w, r).
Proof.
  induction d as [|[k0 w0] d IH]; cbn [dict_pop]; intros ND Hin; [destruct Hin|].
  inversion ND as [|? ? Hn ND']; subst. destruct (k0 =? k) eqn:E.
  - apply Z.eqb_eq in E. subst. destruct Hin as [Hin|Hin]; [inversion Hin; subst; eexists; reflexivity|].
    exfalso. apply Hn. apply in_map_iff. exists (k, w). split; [reflexivity|exact Hin].
  - destruct Hin as [Hin|Hin]; [inversion Hin; subst; rewrite Z.eqb_refl in E; discriminate|].
    destruct (IH ND' Hin) as [r Hr]. rewrite Hr. eexists. reflexivity.
Qed.

(* who received an outcome (reply, failure, refusal or cancellation) *)
Definition out_waiter (o : cout) : list Z :=
  match o with
  | OSent _ _ => []
  | ORefused w => [w]
  | ODeliver w _ _ _ => [w]
  | OFail w _ => [w]
  | OCancelled w => [w]
  end.
Definition outcome_waiters (outs : list cout) : list Z := flat_map out_waiter outs.

Lemma memz_in x l : memz x l = true <-> In x l.
Proof.
  unfold memz. rewrite existsb_exists. split.
  - intros [y [H1 H2]]. apply Z.eqb_eq in H2. subst. exact H1.
  - intros H. exists x. split; [exact H|apply Z.eqb_refl].
Qed.

Lemma memz_removez x y l : x <> y -> memz x (removez y l) = memz x l.
Proof.
  intros Hne. induction l as [|z l IH]; [reflexivity|]. cbn [removez]. destruct (y =? z) eqn:E.
  - apply Z.eqb_eq in E. subst z. cbn [memz existsb]. fold (memz x l). replace (x =? y) with false by lia. exact IH.
  - cbn [memz existsb]. fold (memz x l) (memz x (removez y l)). rewrite IH. reflexivity.
Qed.

(* invariant of every reachable client state together with everything output so far *)
Record cinv (start : Z) (s : cstate) (outs : list cout) : Prop := {
  ci_count : 0 <= c_count s;
  ci_next : c_next s = (start + c_count s) mod TWO32;
  ci_ids : forall id w, In (id, w) (c_reqs s) -> 0 <= w < c_count s /\ id = (start + w) mod TWO32;
  ci_keys : NoDup (map fst (c_reqs s));
  ci_vals : NoDup (map snd (c_reqs s));
  ci_sent : c_open s = true -> forall id w, In (id, w) (c_reqs s) -> In (OSent w id) outs;
  ci_fresh : c_open s = true -> forall id w, In (id, w) (c_reqs s) -> memz w (c_cancelled s) = false ->
             ~ In w (outcome_waiters outs);
  ci_bound : forall w, In w (outcome_waiters outs) -> 0 <= w < c_count s;
  ci_once : NoDup (outcome_waiters outs);
  ci_deliv : forall w ty id p, In (ODeliver w ty id p) outs -> In (OSent w id) outs;
  ci_sentid : forall w id, In (OSent w id) outs -> 0 <= w < c_count s /\ id = (start + w) mod TWO32
}.

Lemma outcome_waiters_app a b : outcome_waiters (a ++ b) = outcome_waiters a ++ outcome_waiters b.
Proof. unfold outcome_waiters. apply flat_map_app. Qed.

Lemma outcome_waiters_fail l e : outcome_waiters (map (fun kw : Z * Z => OFail (snd kw) e) l) = map snd l.
Proof. induction l as [|x l IH]; cbn; [reflexivity|]. f_equal. exact IH. Qed.

Lemma nodup_map_filter {A B} (f : A -> B) (p : A -> bool) l : NoDup (map f l) -> NoDup (map f (filter p l)).
Proof.
  induction l as [|x l IH]; cbn; intros H; [constructor|]. inversion H; subst.
  destruct (p x); cbn; [|apply IH; assumption]. constructor; [|apply IH; assumption].
  intros Hin. apply H2. apply in_map_iff in Hin. destruct Hin as [y [Hy1 Hy2]]. apply filter_In in Hy2.
  apply in_map_iff. exists y. tauto.
Qed.

Lemma cinv_init start : cinv start (mkc (start mod TWO32) 0 [] true []) [].
Proof.
  constructor; cbn; try (intros; contradiction); try lia; try constructor.
  - rewrite Z.add_0_r. reflexivity.
Qed.

Lemma cinv_cleanup start s outs e :
  cinv start s outs -> c_open s = true ->
  cinv start (fst (c_cleanup s e)) (outs ++ snd (c_cleanup s e)).
Proof.
  intros I Ho. unfold c_cleanup. cbn [fst snd]. destruct I.
  constructor; cbn [c_next c_count c_reqs c_open c_cancelled]; try assumption.
  - intros ? ? [].
  - constructor.
  - constructor.
  - discriminate.
  - discriminate.
  - intros w. rewrite outcome_waiters_app, in_app_iff, outcome_waiters_fail. intros [H|H]; [apply ci_bound0; exact H|].
    apply in_map_iff in H. destruct H as [[id w'] [H1 H2]]. cbn in H1. subst. apply filter_In in H2.
    apply (ci_ids0 _ _ (proj1 H2)).
  - rewrite outcome_waiters_app, outcome_waiters_fail.
    apply nodup_app; [assumption|apply nodup_map_filter; assumption|].
    intros w H1 H2. apply in_map_iff in H2. destruct H2 as [[id w'] [H2 H3]]. cbn in H2. subst.
    apply filter_In in H3. destruct H3 as [H3 H4]. cbn [snd] in H4. apply negb_true_iff in H4.
    exact (ci_fresh0 Ho _ _ H3 H4 H1).
  - intros w ty id p. rewrite !in_app_iff. intros [H|H]; [left; eapply ci_deliv0; exact H|].
    apply in_map_iff in H. destruct H as [? [H _]]. discriminate.
  - intros w id. rewrite in_app_iff. intros [H|H]; [apply ci_sentid0; exact H|].
    apply in_map_iff in H. destruct H as [? [H _]]. discriminate.
Qed.

Lemma mod_shift_neq (a d : Z) : 0 < d < TWO32 -> (a + d) mod TWO32 <> a mod TWO32.
Proof.
  intros Hd Heq.
  assert (H : ((a + d) - a) mod TWO32 = 0).
  { rewrite Zminus_mod, Heq, Z.sub_diag. reflexivity. }
  replace (a + d - a) with d in H by lia. rewrite Z.mod_small in H by lia. lia.
Qed.

Lemma cinv_step start s outs e :
  cinv start s outs -> cinv start (fst (c_step s e)) (outs ++ snd (c_step s e)).
Proof.
  intros I. destruct e as [|ty id p| | |cw|].
  6: { cbn [c_step]. destruct (c_open s) eqn:Ho; [apply cinv_cleanup; assumption|]. cbn [fst snd]. rewrite app_nil_r. exact I. }
  - (* CSend *)
    cbn [c_step fst snd]. destruct I.
    pose proof (dict_set_keys (c_reqs s) (c_next s) (c_count s) ci_keys0) as [K1 K2].
    assert (Hnw : ~ In (c_count s) (map snd (c_reqs s))).
    { intros H. apply in_map_iff in H. destruct H as [[id w] [H1 H2]]. cbn in H1. subst.
      apply ci_ids0 in H2. lia. }
    pose proof (dict_set_vals (c_reqs s) (c_next s) (c_count s) ci_vals0 Hnw) as [V1 V2].
    constructor; cbn [c_next c_count c_reqs c_open c_cancelled].
    + lia.
    + rewrite ci_next0. rewrite Zplus_mod_idemp_l. f_equal. lia.
    + intros id w H. apply dict_set_in in H. destruct H as [[-> ->]|H].
      * split; [lia|exact ci_next0].
      * apply ci_ids0 in H. split; [lia|tauto].
    + exact K1.
    + exact V1.
    + intros Ho id w H. rewrite Ho. apply in_app_iff. apply dict_set_in in H. destruct H as [[-> ->]|H].
      * right. left. reflexivity.
      * left. exact (ci_sent0 Ho _ _ H).
    + intros Ho id w H Hc. rewrite Ho. rewrite outcome_waiters_app. cbn. rewrite app_nil_r.
      apply dict_set_in in H. destruct H as [[-> ->]|H].
      * intros Hin. apply ci_bound0 in Hin. lia.
      * exact (ci_fresh0 Ho _ _ H Hc).
    + intros w. rewrite outcome_waiters_app, in_app_iff. intros [H|H]; [apply ci_bound0 in H; lia|].
      destruct (c_open s); cbn in H; [contradiction|]. destruct H as [<-|[]]. lia.
    + rewrite outcome_waiters_app. destruct (c_open s); cbn; [rewrite app_nil_r; assumption|].
      apply nodup_app; [assumption|repeat constructor; intros []|].
      intros a Ha [<-|[]]. apply ci_bound0 in Ha. lia.
    + intros w ty id p. rewrite !in_app_iff. intros [H|H]; [left; eapply ci_deliv0; exact H|].
      destruct (c_open s); destruct H as [H|[]]; discriminate.
    + intros w id. rewrite in_app_iff. intros [H|H].
      * apply ci_sentid0 in H. split; [lia|tauto].
      * destruct (c_open s); destruct H as [H|[]]; [|discriminate]. inversion H; subst. split; [lia|exact ci_next0].
  - (* CRecv *)
    cbn [c_step]. destruct (c_open s) eqn:Ho.
    + destruct (dict_pop (c_reqs s) id) as [[w rest]|] eqn:P.
      * destruct I. destruct (dict_pop_some _ _ _ _ P) as (P1 & P2 & P3 & P4 & P5).
        destruct (P4 ci_keys0) as [K1 K2]. destruct (P5 ci_vals0) as [V1 V2].
        assert (Hother : forall id' w', In (id', w') rest -> w' <> w).
        { intros id' w' H ->. apply V2. apply in_map_iff. exists (id', w). split; [reflexivity|exact H]. }
        destruct (memz w (c_cancelled s)) eqn:Hc; cbn [fst snd].
        -- (* late reply to a cancelled waiter: dropped *)
           rewrite app_nil_r.
           constructor; cbn [c_next c_count c_reqs c_open c_cancelled]; try assumption.
           ++ intros id' w' H. apply ci_ids0. apply P2. exact H.
           ++ intros _ id' w' H. apply ci_sent0; [assumption|apply P2; exact H].
           ++ intros _ id' w' H Hc'. rewrite memz_removez in Hc' by (apply (Hother _ _ H)).
              exact (ci_fresh0 Ho _ _ (P2 _ H) Hc').
        -- constructor; cbn [c_next c_count c_reqs c_open c_cancelled]; try assumption.
           ++ intros id' w' H. apply ci_ids0. apply P2. exact H.
           ++ intros _ id' w' H. apply in_app_iff. left. apply ci_sent0; [assumption|apply P2; exact H].
           ++ intros _ id' w' H Hc'. rewrite outcome_waiters_app, in_app_iff. cbn. intros [Hin|[<-|[]]].
              ** exact (ci_fresh0 Ho _ _ (P2 _ H) Hc' Hin).
              ** exact (Hother _ _ H eq_refl).
           ++ intros w'. rewrite outcome_waiters_app, in_app_iff. cbn. intros [H|[<-|[]]]; [apply ci_bound0; exact H|].
              apply (ci_ids0 _ _ P1).
           ++ rewrite outcome_waiters_app. cbn. apply nodup_app; [assumption|repeat constructor; intros []|].
              intros a Ha [<-|[]]. exact (ci_fresh0 Ho _ _ P1 Hc Ha).
           ++ intros w' ty' id' p'. rewrite !in_app_iff. intros [H|[H|[]]]; [left; eapply ci_deliv0; exact H|].
              inversion H; subst. left. apply ci_sent0; assumption.
           ++ intros w' id'. rewrite in_app_iff. intros [H|[H|[]]]; [apply ci_sentid0; exact H|discriminate].
      * apply cinv_cleanup; assumption.
    + cbn [fst snd]. rewrite app_nil_r. exact I.
  - cbn [c_step]. destruct (c_open s) eqn:Ho; [apply cinv_cleanup; assumption|]. cbn [fst snd]. rewrite app_nil_r. exact I.
  - cbn [c_step]. destruct (c_open s) eqn:Ho; [apply cinv_cleanup; assumption|]. cbn [fst snd]. rewrite app_nil_r. exact I.
  - (* CCancel *)
    cbn [c_step].
    destruct (c_open s && memz cw (map snd (c_reqs s)) && negb (memz cw (c_cancelled s))) eqn:C;
      cbn [fst snd]; [|rewrite app_nil_r; exact I].
    apply andb_true_iff in C. destruct C as [C C3]. apply andb_true_iff in C. destruct C as [Ho C2].
    apply negb_true_iff in C3. apply memz_in in C2. apply in_map_iff in C2. destruct C2 as [[cid cw'] [C2 C4]].
    cbn in C2. subst cw'. destruct I.
    constructor; cbn [c_next c_count c_reqs c_open c_cancelled]; try assumption.
    + intros _ id w H. apply in_app_iff. left. apply ci_sent0; assumption.
    + intros _ id w H Hc. cbn [memz existsb] in Hc. fold (memz w (c_cancelled s)) in Hc.
      apply orb_false_iff in Hc. destruct Hc as [Hc1 Hc2].
      rewrite outcome_waiters_app, in_app_iff. cbn. intros [Hin|[<-|[]]].
      * exact (ci_fresh0 Ho _ _ H Hc2 Hin).
      * rewrite Z.eqb_refl in Hc1. discriminate.
    + intros w. rewrite outcome_waiters_app, in_app_iff. cbn. intros [H|[<-|[]]]; [apply ci_bound0; exact H|].
      apply (ci_ids0 _ _ C4).
    + rewrite outcome_waiters_app. cbn. apply nodup_app; [assumption|repeat constructor; intros []|].
      intros a Ha [<-|[]]. exact (ci_fresh0 Ho _ _ C4 C3 Ha).
    + intros w ty id p. rewrite !in_app_iff. intros [H|[H|[]]]; [left; eapply ci_deliv0; exact H|discriminate].
    + intros w id. rewrite in_app_iff. intros [H|[H|[]]]; [apply ci_sentid0; exact H|discriminate].
Qed.

Lemma c_run_app s evs : forall outs0 start,
  cinv start s outs0 -> cinv start (fst (c_run s evs)) (outs0 ++ snd (c_run s evs)).
Proof.
  revert s. induction evs as [|e evs IH]; intros s outs0 start I; cbn [c_run].
  - cbn. rewrite app_nil_r. exact I.
  - destruct (c_step s e) as [s1 o1] eqn:E1. destruct (c_run s1 evs) as [s2 o2] eqn:E2. cbn [fst snd].
    pose proof (cinv_step start s outs0 e I) as I1. rewrite E1 in I1. cbn [fst snd] in I1.
    pose proof (IH s1 (outs0 ++ o1) start I1) as I2. rewrite E2 in I2. cbn [fst snd] in I2.
    rewrite app_assoc. exact I2.
Qed.

Lemma c_run_inv evs : cinv 0 (fst (c_run c_init evs)) (snd (c_run c_init evs)).
Proof. exact (c_run_app c_init evs [] 0 (cinv_init 0)). Qed.

(* ids: the id the next request will get differs from the id of every outstanding request that was
   issued fewer than 2^32 requests ago *)
Lemma next_id_fresh evs :
  let s := fst (c_run c_init evs) in
  forall id w, In (id, w) (c_reqs s) -> c_count s - w < TWO32 -> id <> c_next s.
Proof.
  intros s id w Hin Hd. destruct (c_run_inv evs) as [? Hn Hi ? ? ? ? ? ? ? ?]. fold s in Hn, Hi.
  destruct (Hi _ _ Hin) as [Hw ->]. rewrite Hn.
  replace (0 + c_count s) with ((0 + w) + (c_count s - w)) by lia.
  intros Heq. symmetry in Heq. revert Heq. apply mod_shift_neq. lia.
Qed.

(* outstanding ids are pairwise distinct (they are keys of the table), and so are the waiters *)
Lemma outstanding_distinct evs :
  let s := fst (c_run c_init evs) in NoDup (map fst (c_reqs s)) /\ NoDup (map snd (c_reqs s)).
Proof. intros s. destruct (c_run_inv evs). split; assumption. Qed.

(* a request sent while every outstanding request is younger than 2^32 requests displaces nobody *)
Lemma send_keeps_waiters evs :
  let s := fst (c_run c_init evs) in
  (forall id w, In (id, w) (c_reqs s) -> c_count s - w < TWO32) ->
  forall id w, In (id, w) (c_reqs s) -> In (id, w) (c_reqs (fst (c_step s CSend))).
Proof.
  intros s Hy id w Hin. cbn [c_step fst c_reqs].
  assert (Hne : id <> c_next s) by (eapply next_id_fresh; [exact Hin|apply (Hy _ _ Hin)]).
  clear Hy. induction (c_reqs s) as [|[k0 w0] d IH]; [destruct Hin|]. cbn [dict_set].
  destruct Hin as [Hin|Hin].
  - inversion Hin; subst. destruct (id =? c_next s) eqn:E; [apply Z.eqb_eq in E; contradiction|]. left. reflexivity.
  - destruct (k0 =? c_next s); [right; exact Hin|]. right. apply IH. exact Hin.
Qed.

(* routing over whole runs *)
Lemma route_run evs :
  let '(s, outs) := c_run c_init evs in
  (forall w ty id p, In (ODeliver w ty id p) outs -> In (OSent w id) outs) /\
  (forall w id, In (OSent w id) outs -> id = w mod TWO32) /\
  NoDup (outcome_waiters outs).
Proof.
  pose proof (c_run_inv evs) as I. destruct (c_run c_init evs) as [s outs]. cbn [fst snd] in I.
  destruct I. repeat split; try assumption.
  intros w id H. apply ci_sentid0 in H. destruct H as [_ ->]. f_equal.
Qed.

(* one reply, any reachable state *)
Lemma route_step evs ty id p :
  let s := fst (c_run c_init evs) in
  c_open s = true ->
  (forall w, In (id, w) (c_reqs s) ->
     exists rest,
       (forall x, In x (c_reqs s) -> x = (id, w) \/ In x rest) /\ ~ In id (map fst rest) /\
       c_step s (CRecv ty id p) =
         if memz w (c_cancelled s)
         then (mkc (c_next s) (c_count s) rest true (removez w (c_cancelled s)), [])
         else (mkc (c_next s) (c_count s) rest true (c_cancelled s), [ODeliver w ty id p])) /\
  ((forall w, ~ In (id, w) (c_reqs s)) ->
     c_step s (CRecv ty id p) =
       (mkc (c_next s) (c_count s) [] false [],
        map (fun kw => OFail (snd kw) (ESftp FX_BAD_MESSAGE))
            (filter (fun kw => negb (memz (snd kw) (c_cancelled s))) (c_reqs s)))).
Proof.
  intros s Ho. destruct (c_run_inv evs) as [? ? ? Hk ? ? ? ? ? ? ?]. fold s in Hk. split.
  - intros w Hin. destruct (dict_pop_in _ _ _ Hk Hin) as [r Hr]. exists r.
    destruct (dict_pop_some _ _ _ _ Hr) as (_ & _ & P3 & P4 & _).
    split; [exact P3|]. split; [exact (proj2 (P4 Hk))|].
    cbn [c_step]. rewrite Ho, Hr. destruct (memz w (c_cancelled s)); reflexivity.
  - intros Hno. cbn [c_step]. rewrite Ho. destruct (dict_pop (c_reqs s) id) as [[w r]|] eqn:P; [|reflexivity].
    exfalso. apply (Hno w). exact (proj1 (dict_pop_some _ _ _ _ P)).
Qed.

(* cancelling a caller leaves its table entry in place: the ids of all other requests, and its own, stay known *)
Lemma cancel_keeps_table s w : c_reqs (fst (c_step s (CCancel w))) = c_reqs s /\ c_open (fst (c_step s (CCancel w))) = c_open s.
Proof.
  cbn [c_step]. destruct (c_open s && memz w (map snd (c_reqs s)) && negb (memz w (c_cancelled s))) eqn:E; cbn [fst c_reqs c_open]; [|auto].
  split; [reflexivity|]. apply andb_true_iff in E. destruct E as [E _]. apply andb_true_iff in E. destruct E as [E _]. symmetry. exact E.
Qed.

(* reply type check of _make_request *)
Lemma accept_old_type v rt ty p val :
  accept_old v rt ty p = Ok val -> (ty = FXP_STATUS /\ rt = None /\ val = VNone) \/ (rt = Some ty /\ ty <> FXP_STATUS).
Proof.
  unfold accept_old. destruct (negb ((ty =? FXP_STATUS) || match rt with Some t => ty =? t | None => false end)) eqn:E; [discriminate|].
  destruct (ty =? FXP_STATUS) eqn:Es.
  - apply Z.eqb_eq in Es. destruct (status_decode v p) as [cr|]; [|discriminate].
    destruct (fst (fst cr) =? FX_OK); [|discriminate]. destruct rt; [discriminate|].
    intros H. inversion H. left. auto.
  - intros _. right. apply Z.eqb_neq in Es. split; [|exact Es].
    apply negb_false_iff in E. rewrite orb_false_l in E. destruct rt as [t|]; [|discriminate].
    apply Z.eqb_eq in E. subst. reflexivity.
Qed.

Lemma accept_ok v rt ty p val : accept v rt ty p = Ok val -> accept_old v rt ty p = Ok val.
Proof. unfold accept. destruct (accept_old v rt ty p) as [x|[|c|]]; intros H; try discriminate; exact H. Qed.

Lemma accept_type v rt ty p val :
  accept v rt ty p = Ok val -> (ty = FXP_STATUS /\ rt = None /\ val = VNone) \/ (rt = Some ty /\ ty <> FXP_STATUS).
Proof. intros H. eapply accept_old_type. apply accept_ok. exact H. Qed.

Lemma accept_wrong_type v rt ty p :
  ty <> FXP_STATUS -> rt <> Some ty -> accept v rt ty p = Err (ESftp FX_BAD_MESSAGE).
Proof.
  intros H1 H2. unfold accept, accept_old. apply Z.eqb_neq in H1. rewrite H1. cbn [orb].
  destruct rt as [t|]; [|reflexivity]. destruct (ty =? t) eqn:E; [|reflexivity].
  apply Z.eqb_eq in E. subst. contradiction H2. reflexivity.
Qed.

(* a malformed reply never reaches its caller as a decode error *)
Lemma accept_no_decode_error v rt ty p : accept v rt ty p <> Err EDecode.
Proof. unfold accept. destruct (accept_old v rt ty p) as [x|[|c|]]; discriminate. Qed.

(* ... which the code before the fix did: a 2-byte FXP_ATTRS reply to a STAT request *)
Lemma accept_old_leaks : exists v rt ty p, accept_old v rt ty p = Err EDecode.
Proof. exists 3, (Some FXP_ATTRS), FXP_ATTRS, [0; 0]. vm_compute. reflexivity. Qed.

(* ------------------------------------------------------------------------------------------ *)
(* 8. server                                                                                    *)

(* the request kind named by a packet: None when an FXP_EXTENDED packet has no readable name *)
Definition pkt_key (ty : Z) (body : bytes) : option hkey :=
  if ty =? FXP_EXTENDED then
    match get_string body with Some (n, _) => Some (HExt n) | None => None end
  else Some (HInt ty).

Definition legal_reply (ty : Z) (body : bytes) (r : reply) : Prop :=
  r_type r = FXP_STATUS \/ exists k, pkt_key ty body = Some k /\ return_type k = Some (r_type r).

(* a status code below 32 is one the negotiated version defines *)
Definition code_ok (v : Z) (rb : rbody) : Prop :=
  match rb with RStatus c => c <= FX_V6_END -> fx_min_version c <= v | _ => True end.

Lemma code_ok_small v c : 3 <= v -> c <= 8 -> code_ok v (RStatus c).
Proof.
  intros Hv Hc _. unfold fx_min_version, FX_V3_END. destruct (c <=? 8) eqn:E; lia.
Qed.

Lemma ladder_code_ok v e : 3 <= v <= 6 -> code_ok v (ladder v e).
Proof.
  intros Hv. destruct e as [|c|]; cbn [ladder].
  - apply code_ok_small; [lia|unfold FX_BAD_MESSAGE; lia].
  - cbn [code_ok]. apply status_code_representable. exact Hv.
  - apply code_ok_small; [lia|unfold FX_FAILURE; lia].
Qed.

Section ServerProofs.
Variable fmt_ok : attrs -> bool.

Lemma handler_sem_shape v s k xs :
  match handler_sem fmt_ok v s k xs with
  | HReply s' rb => s_open s' = s_open s /\ (rb = RStatus FX_OK \/ rb = RValue \/ exists h, rb = RHandle h)
  | HRaise s' _ => s_open s' = s_open s
  | HBackend s' => s_open s' = s_open s
  end.
Proof.
  unfold handler_sem. destruct k as [t|n].
  - repeat match goal with
           | |- context [if ?c then _ else _] => destruct c
           | |- context [let '(_, _) := ?p in _] => destruct p
           end; cbn [s_open]; auto; split; eauto.
  - repeat match goal with
           | |- context [if ?c then _ else _] => destruct c
           end; cbn [s_open]; auto.
Qed.

Lemma s_process_once v s ty id body br :
  s_open s = true ->
  exists s' r, s_process fmt_ok v s ty id body br = (s', [r]) /\ s_open s' = true /\ r_id r = id /\
               legal_reply ty body r /\ (3 <= v <= 6 -> code_ok v (r_body r)).
Proof.
  intros Ho. unfold s_process. cbv zeta.
  assert (ST : forall s' rb, s_open s' = true -> (3 <= v <= 6 -> code_ok v rb) ->
     exists s'' r, (s', [mkreply FXP_STATUS id rb]) = (s'', [r]) /\ s_open s'' = true /\ r_id r = id /\
                   legal_reply ty body r /\ (3 <= v <= 6 -> code_ok v (r_body r))).
  { intros s' rb H1 H2. eexists _, _. split; [reflexivity|]. repeat split; [exact H1| |exact H2]. left. reflexivity. }
  assert (C5 : 3 <= v <= 6 -> code_ok v (RStatus FX_BAD_MESSAGE)) by (intros [? ?]; apply code_ok_small; [lia|unfold FX_BAD_MESSAGE; lia]).
  assert (C8 : 3 <= v <= 6 -> code_ok v (RStatus FX_OP_UNSUPPORTED)) by (intros [? ?]; apply code_ok_small; [lia|unfold FX_OP_UNSUPPORTED; lia]).
  assert (C4 : 3 <= v <= 6 -> code_ok v (RStatus FX_FAILURE)) by (intros [? ?]; apply code_ok_small; [lia|unfold FX_FAILURE; lia]).
  assert (C1 : 3 <= v <= 6 -> code_ok v (RStatus FX_EOF)) by (intros [? ?]; apply code_ok_small; [lia|unfold FX_EOF; lia]).
  assert (C0 : 3 <= v <= 6 -> code_ok v (RStatus FX_OK)) by (intros [? ?]; apply code_ok_small; [lia|unfold FX_OK; lia]).
  destruct (if ty =? FXP_EXTENDED then _ else _) as [[k b]|e] eqn:EK; [|apply ST; [exact Ho|intros; apply ladder_code_ok; assumption]].
  assert (HK : pkt_key ty body = Some k).
  { unfold pkt_key. destruct (ty =? FXP_EXTENDED).
    - destruct (get_string body) as [[n r]|]; cbn [lift] in EK; inversion EK; reflexivity.
    - inversion EK; reflexivity. }
  clear EK. rename HK into EK.
  destruct (req_spec v k) as [[fs ec]|]; [|apply ST; assumption].
  destruct (parse_flds v fs b) as [[xs rest]|e]; [|apply ST; [exact Ho|intros; apply ladder_code_ok; assumption]].
  match goal with |- context [if ?c then _ else _] => destruct c end; [apply ST; assumption|].
  pose proof (handler_sem_shape v s k xs) as HS.
  assert (OKR : forall s', s_open s' = true ->
     exists s'' r, (s', [mkreply (reply_type_of k) id (match return_type k with None => RStatus FX_OK | Some _ => RValue end)]) = (s'', [r]) /\
       s_open s'' = true /\ r_id r = id /\ legal_reply ty body r /\ (3 <= v <= 6 -> code_ok v (r_body r))).
  { intros s' H1. eexists _, _. split; [reflexivity|]. cbn [r_id r_body r_type]. repeat split; [exact H1| |].
    - unfold legal_reply, reply_type_of. cbn [r_type]. destruct (return_type k) as [t|] eqn:RT; [right; exists k; auto|left; reflexivity].
    - destruct (return_type k); [intros; exact I|exact C0]. }
  destruct (handler_sem fmt_ok v s k xs) as [s' rb|s' e|s'].
  - destruct HS as [HS1 HS2]. eexists _, _. split; [reflexivity|]. cbn [r_id r_body r_type].
    repeat split; [congruence| |].
    + unfold legal_reply, reply_type_of. cbn [r_type]. destruct (return_type k) as [t|] eqn:RT; [right; exists k; auto|left; reflexivity].
    + intros Hv. destruct HS2 as [->|[->|[h ->]]]; [apply C0; exact Hv|exact I|exact I].
  - apply ST; [congruence|intros; apply ladder_code_ok; assumption].
  - assert (Ho' : s_open s' = true) by congruence.
    destruct br as [| |code|sym| |]; cbv beta iota.
    + (* BOk *)
      destruct k as [t|n]; [|apply OKR; exact Ho'].
      destruct (t =? FXP_OPEN) eqn:Et; [|apply OKR; exact Ho'].
      destruct (next_handle _ _ _) as [n' h]. eexists _, _. split; [reflexivity|]. cbn [r_id r_body r_type s_open].
      split; [exact Ho'|]. split; [reflexivity|]. split; [|intros; exact I].
      right. exists (HInt t). split; [exact EK|]. apply Z.eqb_eq in Et. subst. reflexivity.
    + (* BEmpty *)
      destruct (empty_is_eof k).
      * apply ST; assumption.
      * destruct k as [t|n]; [|apply OKR; exact Ho'].
        destruct (t =? FXP_OPEN) eqn:Et; [|apply OKR; exact Ho'].
        destruct (next_handle _ _ _) as [n' h]. eexists _, _. split; [reflexivity|]. cbn [r_id r_body r_type s_open].
        split; [exact Ho'|]. split; [reflexivity|]. split; [|intros; exact I].
        right. exists (HInt t). split; [exact EK|]. apply Z.eqb_eq in Et. subst. reflexivity.
    + apply ST; [exact Ho'|intros; apply ladder_code_ok; assumption].
    + apply ST; [exact Ho'|]. intros Hv. cbn [code_ok]. apply status_code_representable. exact Hv.
    + apply ST; assumption.
    + apply ST; assumption.
Qed.

(* id and body of a packet long enough to carry them *)
Definition pkt_parts (pkt : bytes) : option (Z * Z * bytes) :=
  match get_byte pkt with
  | Some (ty, b) => match get_u32 b with Some (id, body) => Some (ty, id, body) | None => None end
  | None => None
  end.

Lemma pkt_parts_long pkt : (5 <= length pkt)%nat -> exists ty id body, pkt_parts pkt = Some (ty, id, body).
Proof.
  intros H. destruct pkt as [|a [|b [|c [|d [|e r]]]]]; cbn in H; try lia.
  unfold pkt_parts. cbn. eauto.
Qed.

Definition answered_once (v : Z) (pkt : bytes) (rs : list reply) : Prop :=
  exists ty id body r, pkt_parts pkt = Some (ty, id, body) /\ rs = [r] /\ r_id r = id /\
                       legal_reply ty body r /\ (3 <= v <= 6 -> code_ok v (r_body r)).

Lemma s_step_once v s pkt br :
  s_open s = true -> (5 <= length pkt)%nat ->
  s_open (fst (s_step fmt_ok v s (pkt, br))) = true /\ answered_once v pkt (snd (s_step fmt_ok v s (pkt, br))).
Proof.
  intros Ho Hl. destruct (pkt_parts_long pkt Hl) as (ty & id & body & Hp).
  unfold s_step. rewrite Ho. cbn [fst snd]. pose proof Hp as Hp'. unfold pkt_parts in Hp.
  destruct (get_byte pkt) as [[ty' b]|]; [|discriminate].
  destruct (get_u32 b) as [[id' body']|]; [|discriminate]. inversion Hp; subst.
  destruct (s_process_once v s ty id body br Ho) as (s' & r & E & H1 & H2 & H3 & H4). rewrite E. cbn [fst snd].
  split; [exact H1|]. exists ty, id, body, r. split; [exact Hp'|]. split; [reflexivity|]. split; [exact H2|]. split; assumption.
Qed.

(* every request of a session, whatever its body and whatever the application does, is answered by
   exactly one reply with its id and a legal type, and the session goes on *)
Lemma s_run_once v pkts : forall s,
  s_open s = true -> Forall (fun pb => (5 <= length (fst pb))%nat) pkts ->
  s_open (fst (s_run fmt_ok v s pkts)) = true /\
  Forall2 (fun pb rs => answered_once v (fst pb) rs) pkts (snd (s_run fmt_ok v s pkts)).
Proof.
  induction pkts as [|[pkt br] pkts IH]; intros s Ho HF; cbn [s_run].
  - split; [exact Ho|constructor].
  - inversion HF as [|? ? Hl HF']; subst. cbn [fst] in Hl.
    destruct (s_step_once v s pkt br Ho Hl) as [H1 H2].
    destruct (s_step fmt_ok v s (pkt, br)) as [s1 o1]. cbn [fst snd] in H1, H2.
    destruct (IH s1 H1 HF') as [I1 I2]. destruct (s_run fmt_ok v s1 pkts) as [s2 o2]. cbn [fst snd] in *.
    split; [exact I1|]. constructor; [exact H2|exact I2].
Qed.

(* a request the server has no handler for is answered by OP_UNSUPPORTED, a body that cannot be decoded
   by BAD_MESSAGE (or the SFTP error its attribute block raised), and neither touches the state *)
Definition key_and_body (ty : Z) (body : bytes) : res (hkey * bytes) :=
  if ty =? FXP_EXTENDED then let* (n, r) := lift (get_string body) in Ok (HExt n, r)
  else Ok (HInt ty, body).

Lemma s_process_unsupported v s ty id body br k b :
  key_and_body ty body = Ok (k, b) -> req_spec v k = None ->
  s_process fmt_ok v s ty id body br = (s, [mkreply FXP_STATUS id (RStatus FX_OP_UNSUPPORTED)]).
Proof.
  unfold key_and_body, s_process. cbv zeta. intros HK HR. rewrite HK, HR. reflexivity.
Qed.

Lemma s_process_malformed v s ty id body br k b fs ec e :
  key_and_body ty body = Ok (k, b) -> req_spec v k = Some (fs, ec) -> parse_flds v fs b = Err e ->
  s_process fmt_ok v s ty id body br = (s, [mkreply FXP_STATUS id (ladder v e)]).
Proof.
  unfold key_and_body, s_process. cbv zeta. intros HK HR HP. rewrite HK, HR, HP. reflexivity.
Qed.

Lemma s_process_noname v s id body br :
  get_string body = None ->
  s_process fmt_ok v s FXP_EXTENDED id body br = (s, [mkreply FXP_STATUS id (RStatus FX_BAD_MESSAGE)]).
Proof.
  unfold s_process. cbv zeta. intros H. cbn [Z.eqb FXP_EXTENDED Pos.eqb]. rewrite H. reflexivity.
Qed.

Lemma s_process_trailing v s ty id body br k b fs ec xs rest :
  key_and_body ty body = Ok (k, b) -> req_spec v k = Some (fs, ec) -> parse_flds v fs b = Ok (xs, rest) ->
  rest <> [] -> (ec = EndAlways \/ (ec = EndLt6 /\ v < 6)) ->
  s_process fmt_ok v s ty id body br = (s, [mkreply FXP_STATUS id (RStatus FX_BAD_MESSAGE)]).
Proof.
  unfold key_and_body, s_process. cbv zeta. intros HK HR HP Hne Hec. rewrite HK, HR, HP.
  destruct rest as [|x rest]; [contradiction|]. cbn [negb andb].
  destruct Hec as [->|[-> Hv]]; [reflexivity|]. replace (v <? 6) with true by lia. reflexivity.
Qed.

End ServerProofs.

(* ------------------------------------------------------------------------------------------ *)
(* 9. tables taken from the running code (Gen/SftpTables.v)                                     *)

Lemma errno_table_checked : errno_table_ok gen_errno_status = true.
Proof. vm_compute. reflexivity. Qed.
Lemma sftp_table_checked : sftp_table_ok gen_sftp_status = true.
Proof. vm_compute. reflexivity. Qed.
Lemma handled_table_checked : handled_table_ok gen_handled_types = true.
Proof. vm_compute. reflexivity. Qed.
Lemma attr_bits_table_checked : attr_bits_table_ok gen_accepted_attr_bits = true.
Proof. vm_compute. reflexivity. Qed.
Lemma client_err_table_checked : client_err_table_ok gen_client_error_code = true.
Proof. vm_compute. reflexivity. Qed.
Lemma return_types_table_checked :
  return_types_table_ok gen_return_types_available gen_return_types_int gen_return_types_ext = true.
Proof. vm_compute. reflexivity. Qed.

Lemma nth_map_versions (f : Z -> Z) v : 3 <= v <= 6 -> nth (Z.to_nat (v - 3)) (map f VERSIONS) 0 = f v.
Proof.
  intros H. assert (v = 3 \/ v = 4 \/ v = 5 \/ v = 6) as [->|[->|[->| ->]]] by lia; reflexivity.
Qed.

Lemma list_eqb_Z_eq (a b : list Z) : list_eqb Z.eqb a b = true -> a = b.
Proof.
  revert b. induction a as [|x a IH]; intros [|y b]; cbn; try discriminate; [reflexivity|].
  intros H. apply andb_true_iff in H. destruct H as [H1 H2]. apply Z.eqb_eq in H1. subst. f_equal. apply IH. exact H2.
Qed.

(* every errno the running server was probed with is reported, in every version, as the status code the
   documented mapping (errno_code) gives after the version down-mapping, and that code is defined in the version *)
Lemma errno_table_spec e sym codes v :
  In (e, sym, codes) gen_errno_status -> 3 <= v <= 6 ->
  nth (Z.to_nat (v - 3)) codes 0 = status_code_for v (errno_code sym) /\
  fx_min_version (nth (Z.to_nat (v - 3)) codes 0) <= v.
Proof.
  intros Hin Hv. pose proof errno_table_checked as T. unfold errno_table_ok in T.
  rewrite forallb_forall in T. specialize (T _ Hin). cbn beta iota in T.
  apply list_eqb_Z_eq in T. subst codes. rewrite (nth_map_versions (fun v => status_code_for v (errno_code sym)) v Hv).
  split; [reflexivity|]. apply status_code_representable; [exact Hv|].
  pose proof (errno_code_range sym) as R. unfold status_code_for. split_ifs; unfold FX_NO_SUCH_FILE, FX_FAILURE, FX_V6_END in *; lia.
Qed.

Lemma sftp_table_spec c codes v :
  In (c, codes) gen_sftp_status -> 3 <= v <= 6 -> nth (Z.to_nat (v - 3)) codes 0 = status_code_for v c.
Proof.
  intros Hin Hv. pose proof sftp_table_checked as T. unfold sftp_table_ok in T.
  rewrite forallb_forall in T. specialize (T _ Hin). cbn [fst snd] in T.
  apply list_eqb_Z_eq in T. subst codes. apply (nth_map_versions (fun v => status_code_for v c) v Hv).
Qed.

(* ------------------------------------------------------------------------------------------ *)
(* 3. attribute codec: flags                                                                     *)

Lemma has_lor a b m : has (Z.lor a b) m = has a m || has b m.
Proof.
  unfold has. rewrite Z.land_lor_distr_l.
  destruct (Z.land a m =? 0) eqn:Ea; destruct (Z.land b m =? 0) eqn:Eb; cbn [negb orb].
  - apply Z.eqb_eq in Ea, Eb. rewrite Ea, Eb. reflexivity.
  - apply negb_true_iff. apply Z.eqb_neq. intros H. apply Z.lor_eq_0_iff in H. apply Z.eqb_neq in Eb. tauto.
  - apply negb_true_iff. apply Z.eqb_neq. intros H. apply Z.lor_eq_0_iff in H. apply Z.eqb_neq in Ea. tauto.
  - apply negb_true_iff. apply Z.eqb_neq. intros H. apply Z.lor_eq_0_iff in H. apply Z.eqb_neq in Ea. tauto.
Qed.

Lemma has_FL p m' m : has (FL p m') m = p && has m' m.
Proof. destruct p; reflexivity. Qed.

Lemma has_flagsum l m : has (flagsum l) m = existsb (fun pm => fst pm && has (snd pm) m) l.
Proof.
  induction l as [|[p m'] l IH]; [reflexivity|].
  cbn [flagsum fold_right existsb fst snd]. fold (flagsum l). rewrite has_lor, has_FL, IH. reflexivity.
Qed.

Lemma has_mask_lor f m1 m2 : has f (Z.lor m1 m2) = has f m1 || has f m2.
Proof.
  unfold has. rewrite Z.land_lor_distr_r.
  destruct (Z.land f m1 =? 0) eqn:Ea; destruct (Z.land f m2 =? 0) eqn:Eb; cbn [negb orb].
  - apply Z.eqb_eq in Ea, Eb. rewrite Ea, Eb. reflexivity.
  - apply negb_true_iff. apply Z.eqb_neq. intros H. apply Z.lor_eq_0_iff in H. apply Z.eqb_neq in Eb. tauto.
  - apply negb_true_iff. apply Z.eqb_neq. intros H. apply Z.lor_eq_0_iff in H. apply Z.eqb_neq in Ea. tauto.
  - apply negb_true_iff. apply Z.eqb_neq. intros H. apply Z.lor_eq_0_iff in H. apply Z.eqb_neq in Ea. tauto.
Qed.

Lemma land_lnot_nohas f m : has f m = false -> Z.land f (Z.lnot m) = f.
Proof.
  unfold has. intros H. apply negb_false_iff, Z.eqb_eq in H.
  rewrite <- Z.ldiff_land. pose proof (Z.lor_ldiff_and f m) as L. rewrite H, Z.lor_0_r in L. exact L.
Qed.

Lemma lor_bound a b : 0 <= a < TWO32 -> 0 <= b < TWO32 -> 0 <= Z.lor a b < TWO32.
Proof.
  intros Ha Hb. assert (H0 : 0 <= Z.lor a b) by (apply Z.lor_nonneg; lia). split; [exact H0|].
  destruct (Z.eq_dec (Z.lor a b) 0) as [E|E]; [rewrite E; reflexivity|].
  change TWO32 with (2 ^ 32). apply Z.log2_lt_pow2; [lia|]. rewrite Z.log2_lor by lia.
  assert (La : Z.log2 a < 32).
  { destruct (Z.eq_dec a 0) as [->|]; [reflexivity|]. apply Z.log2_lt_pow2; [lia|]. change (2 ^ 32) with TWO32. lia. }
  assert (Lb : Z.log2 b < 32).
  { destruct (Z.eq_dec b 0) as [->|]; [reflexivity|]. apply Z.log2_lt_pow2; [lia|]. change (2 ^ 32) with TWO32. lia. }
  lia.
Qed.

Lemma flagsum_range l : Forall (fun pm : bool * Z => 0 <= snd pm < TWO32) l -> 0 <= flagsum l < TWO32.
Proof.
  induction 1 as [|[p m] l H _ IH]; [cbv; split; [discriminate|reflexivity]|].
  cbn [flagsum fold_right fst snd]. fold (flagsum l). apply lor_bound; [|exact IH].
  destruct p; cbn [FL]; [exact H|cbv; split; [discriminate|reflexivity]].
Qed.

Lemma attr_flags_range v a : 0 <= attr_flags v a < TWO32.
Proof.
  unfold attr_flags. apply flagsum_range.
  repeat (constructor; [cbv; split; [discriminate|reflexivity]|]). constructor.
Qed.

(* no flag outside c is set when every entry that is switched on lies inside c *)
Lemma flagsum_within l c :
  Forall (fun pm : bool * Z => fst pm = true -> Z.land (snd pm) c = 0) l -> Z.land (flagsum l) c = 0.
Proof.
  induction 1 as [|[p m] l H _ IH]; [reflexivity|].
  cbn [flagsum fold_right fst snd]. fold (flagsum l). rewrite Z.land_lor_distr_l, IH, Z.lor_0_r.
  destruct p; cbn [FL]; [apply H; reflexivity|reflexivity].
Qed.

(* ------------------------------------------------------------------------------------------ *)
(* 3. attribute codec: fields                                                                   *)

Lemma p_opt_rt {A B} (g : bytes -> option (B * bytes)) (f : A -> bytes) (h : A -> B) (o : option A) r :
  (forall x, o = Some x -> g (f x ++ r) = Some (h x, r)) ->
  p_opt (is_some o) g (enc_opt f o ++ r) = Ok (option_map h o, r).
Proof.
  intros H. destruct o as [x|]; cbn [is_some p_opt enc_opt option_map app]; [|reflexivity].
  rewrite (H x eq_refl). reflexivity.
Qed.

Lemma get_put_pair32 p r : in_u32 (fst p) = true -> in_u32 (snd p) = true ->
  get_pair get_u32 get_u32 (put_pair32 p ++ r) = Some (p, r).
Proof.
  intros H1 H2. apply in_u32_spec in H1, H2. unfold get_pair, put_pair32. rewrite <- app_assoc.
  rewrite get_put_u32 by exact H1. rewrite get_put_u32 by exact H2. destruct p; reflexivity.
Qed.

Lemma get_put_time sub ns t r :
  in_u64 t = true -> (sub = true -> exists n, ns = Some n /\ in_u32 n = true) -> (sub = false -> ns = None) ->
  get_time sub (put_time sub ns t ++ r) = Some ((t, ns), r).
Proof.
  intros Ht H1 H2. apply in_u64_spec in Ht. unfold get_time, put_time. rewrite <- app_assoc.
  rewrite get_put_u64 by exact Ht. destruct sub.
  - destruct (H1 eq_refl) as [n [-> Hn]]. apply in_u32_spec in Hn. cbn [or0]. rewrite get_put_u32 by exact Hn. reflexivity.
  - rewrite (H2 eq_refl). reflexivity.
Qed.

Lemma get_put_owngrp o g r :
  str_ok o = true -> utf8_valid o = true -> str_ok g = true -> utf8_valid g = true ->
  get_owngrp (put_strpair (o, g) ++ r) = Ok (Some (o, g), r).
Proof.
  intros H1 H2 H3 H4. unfold get_owngrp, put_strpair. cbn [fst snd]. rewrite <- app_assoc.
  rewrite get_put_string by exact H1. cbn [lift]. rewrite H2. cbn [negb].
  rewrite get_put_string by exact H3. cbn [lift]. rewrite H4. reflexivity.
Qed.

Lemma ext_length_le l r : (length l <= length (flat_map put_strpair l ++ r))%nat.
Proof.
  induction l as [|[k d] l IH]; cbn [flat_map length]; [lia|].
  rewrite <- app_assoc. unfold put_strpair at 1. cbn [fst snd]. unfold put_string, put_u32.
  rewrite !app_length. cbn [length]. rewrite !app_length in *. cbn [length] in *. lia.
Qed.

Lemma get_put_ext l : forall fuel r,
  (length l <= fuel)%nat -> forallb (fun p => str_ok (fst p) && str_ok (snd p)) l = true ->
  get_ext fuel (Z.of_nat (length l)) (flat_map put_strpair l ++ r) = Some (l, r).
Proof.
  induction l as [|[k d] l IH]; intros fuel r Hf Hok.
  - destruct fuel; reflexivity.
  - destruct fuel as [|fuel]; [cbn in Hf; lia|].
    cbn [forallb fst snd] in Hok. apply andb_true_iff in Hok. destruct Hok as [Hkd Hok].
    apply andb_true_iff in Hkd. destruct Hkd as [Hk Hd].
    cbn [get_ext length flat_map]. replace (Z.of_nat (S (length l)) <=? 0) with false by lia.
    rewrite <- app_assoc. unfold get_pair, put_strpair at 1. cbn [fst snd]. rewrite <- app_assoc.
    rewrite get_put_string by exact Hk. rewrite get_put_string by exact Hd.
    replace (Z.of_nat (S (length l)) - 1) with (Z.of_nat (length l)) by lia.
    rewrite IH; [reflexivity|cbn in Hf; lia|exact Hok].
Qed.

Lemma land_small m n : 0 <= m < 2 ^ n -> 0 <= n -> Z.land m (2 ^ n - 1) = m.
Proof.
  intros Hm Hn. replace (2 ^ n - 1) with (Z.ones n) by (rewrite Z.ones_equiv; lia).
  rewrite Z.land_ones by exact Hn. apply Z.mod_small. exact Hm.
Qed.

(* ------------------------------------------------------------------------------------------ *)
(* 3. attribute codec: round trip                                                               *)

Lemma if_same {A} (c : bool) (x : A) : (if c then x else x) = x.
Proof. destruct c; reflexivity. Qed.

Lemma p_opt_rt_id {A} (g : bytes -> option (A * bytes)) (f : A -> bytes) (o : option A) r :
  (forall x, o = Some x -> g (f x ++ r) = Some (x, r)) ->
  p_opt (is_some o) g (enc_opt f o ++ r) = Ok (o, r).
Proof.
  intros H. rewrite (p_opt_rt g f (fun x => x) o r H). destruct o; reflexivity.
Qed.

Lemma opt_pair_fst {A B} (x : option A) (y : option B) : both_or_none x y = true -> option_map fst (opt_pair x y) = x.
Proof. destruct x, y; cbn; intros; try reflexivity; discriminate. Qed.
Lemma opt_pair_snd {A B} (x : option A) (y : option B) : both_or_none x y = true -> option_map snd (opt_pair x y) = y.
Proof. destruct x, y; cbn; intros; try reflexivity; discriminate. Qed.

Lemma pair32_rt (x y : option Z) r :
  opt_all in_u32 x = true -> opt_all in_u32 y = true ->
  p_opt (is_some (opt_pair x y)) (get_pair get_u32 get_u32) (enc_opt put_pair32 (opt_pair x y) ++ r) = Ok (opt_pair x y, r).
Proof.
  intros Hx Hy. apply p_opt_rt_id. intros [u g] E. destruct x, y; try discriminate E. inversion E; subst.
  apply get_put_pair32; assumption.
Qed.

Lemma ext_rt ext rest : ext_ok ext = true ->
  (if negb match ext with [] => true | _ => false end then
     let* (count, b1) := lift (get_u32 (put_ext ext ++ rest)) in lift (get_ext (S (length b1)) count b1)
   else Ok ([], put_ext ext ++ rest)) = Ok (ext, rest).
Proof.
  intros H. unfold ext_ok in H. apply andb_true_iff in H. destruct H as [H1 H2].
  destruct ext as [|p l]; [reflexivity|]. cbn [negb]. unfold put_ext. rewrite <- app_assoc.
  rewrite get_put_u32 by lia. cbn [lift].
  rewrite get_put_ext; [reflexivity| |exact H2].
  pose proof (ext_length_le (p :: l) rest). lia.
Qed.

Lemma perm_mask_rt (n : Z) (perm : option Z) :
  0 <= n -> opt_all (fun m => (0 <=? m) && (m <? 2 ^ n)) perm = true ->
  option_map (fun m => Z.land m (2 ^ n - 1)) perm = perm.
Proof.
  intros Hn H. destruct perm as [m|]; [|reflexivity]. cbn in *. f_equal. apply land_small; lia.
Qed.

Lemma time_rt sub ns t r :
  time_carriable sub t ns = true -> (is_some ns = true -> sub = true) ->
  p_opt (is_some t) (get_time sub) (enc_opt (put_time sub ns) t ++ r) = Ok (option_map (fun x => (x, ns)) t, r).
Proof.
  intros H Hs. apply p_opt_rt. intros x ->. apply get_put_time.
  - destruct ns; cbn in H; apply andb_true_iff in H; tauto.
  - intros ->. destruct ns as [n|]; cbn in H; apply andb_true_iff in H; destruct H as [_ H]; [eauto|discriminate].
  - intros ->. destruct ns as [n|]; [|reflexivity]. discriminate (Hs eq_refl).
Qed.

Lemma tsec_map (t : option Z) ns : tsec (option_map (fun x => (x, ns)) t) = t.
Proof. destruct t; reflexivity. Qed.
Lemma tns_map sub (t : option Z) ns : time_carriable sub t ns = true -> tns (option_map (fun x => (x, ns)) t) = ns.
Proof. destruct t, ns; cbn; intros; try reflexivity; discriminate. Qed.

Lemma opt_all_and {A} (p q : A -> bool) (o : option A) :
  opt_all (fun x => p x && q x) o = true -> opt_all p o = true /\ opt_all q o = true.
Proof. destruct o; cbn; [apply andb_true_iff|auto]. Qed.

Lemma enc_filetype_id v a :
  ((5 <=? v) || (a_type a <? FT_SOCKET)) = true -> enc_filetype v a = a_type a.
Proof.
  unfold enc_filetype, FT_SOCKET. intros H. destruct ((v <? 5) && (6 <=? a_type a)) eqn:E; [lia|reflexivity].
Qed.

Ltac zconst x := match x with Z0 => idtac | Zpos _ => idtac | Zneg _ => idtac end.
Ltac simp_cmp := repeat match goal with
  | |- context [Z.eqb ?a ?b] => zconst a; zconst b; let r := eval vm_compute in (Z.eqb a b) in change (Z.eqb a b) with r
  | |- context [Z.leb ?a ?b] => zconst a; zconst b; let r := eval vm_compute in (Z.leb a b) in change (Z.leb a b) with r
  | |- context [Z.ltb ?a ?b] => zconst a; zconst b; let r := eval vm_compute in (Z.ltb a b) in change (Z.ltb a b) with r
  end.
Ltac simp_has := repeat match goal with
  | |- context [has ?a ?b] => is_const a; is_const b; let r := eval vm_compute in (has a b) in change (has a b) with r
  end.
Ltac simp_bools := rewrite ?andb_true_r, ?andb_false_r, ?orb_false_r; cbn [orb andb negb].
Ltac and_hyps :=
  repeat match goal with
         | H : _ && _ = true |- _ => apply andb_true_iff in H; destruct H
         end.
Ltac none_fields :=
  repeat match goal with
         | H : is_none ?o = true |- _ => destruct o; [discriminate H|clear H]
         end.
Ltac projs := cbn [a_type a_size a_alloc a_uid a_gid a_owner a_group a_perm a_atime a_atime_ns a_crtime a_crtime_ns
                   a_mtime a_mtime_ns a_ctime a_ctime_ns a_acl a_bits a_valid a_hint a_mime a_nlink a_untrans a_ext].

Lemma attrs_rt3 a rest : attrs_carriable 3 a = true -> attrs_decode 3 (attrs_encode 3 a ++ rest) = Ok (a, rest).
Proof.
  intros C. destruct a as [ty size alloc uid gid owner group perm atime atime_ns crtime crtime_ns mtime mtime_ns
                           ctime ctime_ns acl bits valid hint mime nlink untrans ext].
  unfold attrs_carriable in C. revert C. projs. simp_cmp. cbv iota. intros C. and_hyps. none_fields.
  unfold attrs_decode, attrs_encode. rewrite <- app_assoc.
  rewrite get_put_u32 by apply attr_flags_range. cbn [lift].
  unfold attr_flags. projs. cbn [subsecond]. projs. simp_cmp. cbn [is_some opt_pair negb andb orb].
  match goal with |- context [flagsum ?l] => set (F := flagsum l) end.
  assert (HS : forall m, has F m = existsb (fun pm => fst pm && has (snd pm) m) _) by (intros m; apply has_flagsum).
  cbn [existsb fst snd andb orb] in HS.
  assert (HM : has F F_MTIME = false) by (rewrite HS; simp_has; simp_bools; reflexivity).
  assert (HU : Z.land F (Z.lnot (valid_flags 3)) = 0).
  { subst F. apply flagsum_within. repeat (constructor; [cbn [fst snd]; first [discriminate | intros _; reflexivity]|]). constructor. }
  unfold attrs_decode_body. simp_cmp.
  rewrite (land_lnot_nohas F F_MTIME HM). rewrite if_same. cbv zeta. rewrite HU. cbn [Z.eqb negb andb].
  rewrite !HS. simp_has. simp_bools. cbn [p_opt].
  unfold attrs_encode_body. projs. cbn [subsecond]. projs. simp_cmp. cbn [enc_opt app is_some orb].
  rewrite <- !app_assoc.
  rewrite (p_opt_rt_id get_u64 put_u64); [|intros x ->; apply get_put_u64; apply in_u64_spec; assumption].
  cbv beta iota.
  rewrite pair32_rt by assumption. cbv beta iota.
  rewrite (p_opt_rt_id get_u32 put_u32);
    [|intros x ->; apply get_put_u32;
      match goal with Hp : opt_all _ (Some x) = true |- _ => cbn in Hp; unfold TWO32; lia end].
  cbv beta iota.
  rewrite pair32_rt by assumption. cbv beta iota.
  cbn [opt_all negb]. rewrite ext_rt by assumption. cbv beta iota.
  rewrite !opt_pair_fst, !opt_pair_snd by assumption.
  change 65535 with (2 ^ 16 - 1). rewrite (perm_mask_rt 16) by (try lia; assumption).
  match goal with Ht : (ty =? _) = true |- _ => apply Z.eqb_eq in Ht; rewrite <- Ht end.
  reflexivity.
Qed.

Lemma owngrp_rt (owner group : option bytes) r :
  both_or_none owner group = true ->
  opt_all str_ok owner = true -> opt_all utf8_valid owner = true ->
  opt_all str_ok group = true -> opt_all utf8_valid group = true ->
  (if is_some (opt_pair owner group) then get_owngrp (enc_opt put_strpair (opt_pair owner group) ++ r)
   else Ok (None, enc_opt put_strpair (opt_pair owner group) ++ r)) = Ok (opt_pair owner group, r).
Proof.
  intros B H1 H2 H3 H4. destruct owner as [o|], group as [g|]; try discriminate B; cbn [opt_pair is_some enc_opt app]; [|reflexivity].
  apply get_put_owngrp; assumption.
Qed.

Ltac field_step :=
  first
  [ rewrite (p_opt_rt_id get_u64 put_u64); [|intros ? ->; apply get_put_u64; apply in_u64_spec; assumption]
  | rewrite pair32_rt by assumption
  | rewrite (p_opt_rt_id get_u32 put_u32);
    [|intros x ->; apply get_put_u32;
      first [apply in_u32_spec; assumption
            | match goal with Hp : opt_all _ (Some x) = true |- _ => cbn in Hp; unfold TWO32; lia end]]
  | rewrite time_rt by assumption
  | rewrite (p_opt_rt_id get_string put_string); [|intros ? ->; apply get_put_string; assumption]
  | rewrite (p_opt_rt_id get_byte (fun h => [h])); [|intros ? ->; reflexivity]
  | rewrite owngrp_rt by assumption
  | rewrite ext_rt by assumption
  | match goal with Hm : opt_all utf8_valid ?m = true |- context [negb (opt_all utf8_valid ?m)] => rewrite Hm; cbn [negb] end
  | progress cbn [opt_all negb p_opt] ];
  cbv beta iota.

Lemma attrs_rt6 a rest : attrs_carriable 6 a = true -> attrs_decode 6 (attrs_encode 6 a ++ rest) = Ok (a, rest).
Proof.
  intros C.
  destruct a as [ty size alloc uid gid owner group perm atime atime_ns crtime crtime_ns mtime mtime_ns
                 ctime ctime_ns acl bits valid hint mime nlink untrans ext].
  unfold attrs_carriable in C. revert C. projs. unfold subsecond. projs. simp_cmp. cbv iota.
  set (sub := is_some atime_ns || is_some crtime_ns || is_some mtime_ns || is_some ctime_ns).
  intros C. and_hyps.
  assert (Sa : is_some atime_ns = true -> sub = true) by (unfold sub; intros ->; reflexivity).
  assert (Sc : is_some crtime_ns = true -> sub = true) by (unfold sub; intros ->; rewrite orb_true_r; reflexivity).
  assert (Sm : is_some mtime_ns = true -> sub = true) by (unfold sub; intros ->; rewrite !orb_true_r; reflexivity).
  assert (Sk : is_some ctime_ns = true -> sub = true) by (unfold sub; intros ->; rewrite !orb_true_r; reflexivity).
  none_fields.
  repeat match goal with
         | H : opt_all (fun s => str_ok s && utf8_valid s) _ = true |- _ => apply opt_all_and in H; destruct H
         end.
  unfold attrs_decode, attrs_encode. rewrite <- app_assoc.
  rewrite get_put_u32 by apply attr_flags_range. cbn [lift].
  unfold attr_flags. projs. unfold subsecond. projs. fold sub. simp_cmp. cbn [is_some opt_pair negb andb orb].
  match goal with |- context [flagsum ?l] => set (F := flagsum l) end.
  assert (HS : forall m, has F m = existsb (fun pm => fst pm && has (snd pm) m) _) by (intros m; apply has_flagsum).
  cbn [existsb fst snd andb orb] in HS.
  assert (HU : Z.land F (Z.lnot (valid_flags 6)) = 0)
    by (subst F; apply flagsum_within;
        repeat (constructor; [cbn [fst snd]; first [discriminate | intros _; reflexivity]|]); constructor).
  unfold attrs_decode_body. simp_cmp. cbn [andb]. cbv zeta. rewrite HU. cbn [Z.eqb negb andb].
  rewrite !HS. simp_has. simp_bools. cbn [p_opt].
  unfold attrs_encode_body. projs. unfold subsecond. projs. fold sub. simp_cmp. cbn [enc_opt app is_some orb].
  rewrite enc_filetype_id by (projs; assumption). projs.
  rewrite <- !app_assoc. cbn [app get_byte lift].
  match goal with |- context [enc_owngrp ?a] => change (enc_owngrp a) with (enc_opt put_strpair (opt_pair owner group)) end.
  repeat field_step.
  rewrite ?opt_pair_fst, ?opt_pair_snd by assumption.
  rewrite ?tsec_map. repeat (erewrite tns_map by eassumption).
  change 4095 with (2 ^ 12 - 1). rewrite (perm_mask_rt 12) by (try lia; assumption).
  destruct perm; reflexivity.
Qed.

Lemma attrs_rt5 a rest : attrs_carriable 5 a = true -> attrs_decode 5 (attrs_encode 5 a ++ rest) = Ok (a, rest).
Proof.
  intros C.
  destruct a as [ty size alloc uid gid owner group perm atime atime_ns crtime crtime_ns mtime mtime_ns
                 ctime ctime_ns acl bits valid hint mime nlink untrans ext].
  unfold attrs_carriable in C. revert C. projs. unfold subsecond. projs. simp_cmp. cbv iota.
  set (sub := is_some atime_ns || is_some crtime_ns || is_some mtime_ns || is_some ctime_ns).
  intros C. and_hyps.
  assert (Sa : is_some atime_ns = true -> sub = true) by (unfold sub; intros ->; reflexivity).
  assert (Sc : is_some crtime_ns = true -> sub = true) by (unfold sub; intros ->; rewrite orb_true_r; reflexivity).
  assert (Sm : is_some mtime_ns = true -> sub = true) by (unfold sub; intros ->; rewrite !orb_true_r; reflexivity).
  assert (Sk : is_some ctime_ns = true -> sub = true) by (unfold sub; intros ->; rewrite !orb_true_r; reflexivity).
  none_fields.
  repeat match goal with
         | H : opt_all (fun s => str_ok s && utf8_valid s) _ = true |- _ => apply opt_all_and in H; destruct H
         end.
  unfold attrs_decode, attrs_encode. rewrite <- app_assoc.
  rewrite get_put_u32 by apply attr_flags_range. cbn [lift].
  unfold attr_flags. projs. unfold subsecond. projs. fold sub. simp_cmp. cbn [is_some opt_pair negb andb orb].
  match goal with |- context [flagsum ?l] => set (F := flagsum l) end.
  assert (HS : forall m, has F m = existsb (fun pm => fst pm && has (snd pm) m) _) by (intros m; apply has_flagsum).
  cbn [existsb fst snd andb orb] in HS.
  assert (HU : Z.land F (Z.lnot (valid_flags 5)) = 0)
    by (subst F; apply flagsum_within;
        repeat (constructor; [cbn [fst snd]; first [discriminate | intros _; reflexivity]|]); constructor).
  unfold attrs_decode_body. simp_cmp. cbn [andb]. cbv zeta. rewrite HU. cbn [Z.eqb negb andb].
  rewrite !HS. simp_has. simp_bools. cbn [p_opt].
  unfold attrs_encode_body. projs. unfold subsecond. projs. fold sub. simp_cmp. cbn [enc_opt app is_some orb].
  rewrite enc_filetype_id by (projs; assumption). projs.
  rewrite <- !app_assoc. cbn [app get_byte lift].
  match goal with |- context [enc_owngrp ?a] => change (enc_owngrp a) with (enc_opt put_strpair (opt_pair owner group)) end.
  repeat field_step.
  rewrite ?opt_pair_fst, ?opt_pair_snd by assumption.
  rewrite ?tsec_map. repeat (erewrite tns_map by eassumption).
  change 4095 with (2 ^ 12 - 1). rewrite (perm_mask_rt 12) by (try lia; assumption).
  destruct perm; reflexivity.
Qed.

Lemma attrs_rt4 a rest : attrs_carriable 4 a = true -> attrs_decode 4 (attrs_encode 4 a ++ rest) = Ok (a, rest).
Proof.
  intros C.
  destruct a as [ty size alloc uid gid owner group perm atime atime_ns crtime crtime_ns mtime mtime_ns
                 ctime ctime_ns acl bits valid hint mime nlink untrans ext].
  unfold attrs_carriable in C. revert C. projs. unfold subsecond. projs. simp_cmp. cbv iota.
  set (sub := is_some atime_ns || is_some crtime_ns || is_some mtime_ns || is_some ctime_ns).
  intros C. and_hyps.
  assert (Sa : is_some atime_ns = true -> sub = true) by (unfold sub; intros ->; reflexivity).
  assert (Sc : is_some crtime_ns = true -> sub = true) by (unfold sub; intros ->; rewrite orb_true_r; reflexivity).
  assert (Sm : is_some mtime_ns = true -> sub = true) by (unfold sub; intros ->; rewrite !orb_true_r; reflexivity).
  assert (Sk : is_some ctime_ns = true -> sub = true) by (unfold sub; intros ->; rewrite !orb_true_r; reflexivity).
  none_fields.
  repeat match goal with
         | H : opt_all (fun s => str_ok s && utf8_valid s) _ = true |- _ => apply opt_all_and in H; destruct H
         end.
  unfold attrs_decode, attrs_encode. rewrite <- app_assoc.
  rewrite get_put_u32 by apply attr_flags_range. cbn [lift].
  unfold attr_flags. projs. unfold subsecond. projs. fold sub. simp_cmp. cbn [is_some opt_pair negb andb orb].
  match goal with |- context [flagsum ?l] => set (F := flagsum l) end.
  assert (HS : forall m, has F m = existsb (fun pm => fst pm && has (snd pm) m) _) by (intros m; apply has_flagsum).
  cbn [existsb fst snd andb orb] in HS.
  assert (HU : Z.land F (Z.lnot (valid_flags 4)) = 0)
    by (subst F; apply flagsum_within;
        repeat (constructor; [cbn [fst snd]; first [discriminate | intros _; reflexivity]|]); constructor).
  unfold attrs_decode_body. simp_cmp. cbn [andb]. cbv zeta. rewrite HU. cbn [Z.eqb negb andb].
  rewrite !HS. simp_has. simp_bools. cbn [p_opt].
  unfold attrs_encode_body. projs. unfold subsecond. projs. fold sub. simp_cmp. cbn [enc_opt app is_some orb].
  rewrite enc_filetype_id by (projs; assumption). projs.
  rewrite <- !app_assoc. cbn [app get_byte lift].
  match goal with |- context [enc_owngrp ?a] => change (enc_owngrp a) with (enc_opt put_strpair (opt_pair owner group)) end.
  repeat field_step.
  rewrite ?opt_pair_fst, ?opt_pair_snd by assumption.
  rewrite ?tsec_map. repeat (erewrite tns_map by eassumption).
  change 4095 with (2 ^ 12 - 1). rewrite (perm_mask_rt 12) by (try lia; assumption).
  destruct perm; reflexivity.
Qed.

Lemma attrs_rt v a rest :
  3 <= v <= 6 -> attrs_carriable v a = true -> attrs_decode v (attrs_encode v a ++ rest) = Ok (a, rest).
Proof.
  intros Hv. assert (v = 3 \/ v = 4 \/ v = 5 \/ v = 6) as [->|[->|[->| ->]]] by lia.
  - apply attrs_rt3.
  - apply attrs_rt4.
  - apply attrs_rt5.
  - apply attrs_rt6.
Qed.

(* a carriable record is always encodable (no OverflowError / ValueError) *)
Lemma pair_all_u32 (x y : option Z) : opt_all in_u32 x = true -> opt_all in_u32 y = true -> pair_all in_u32 (opt_pair x y) = true.
Proof. destruct x, y; cbn; intros H1 H2; try reflexivity. rewrite H1, H2. reflexivity. Qed.
Lemma pair_all_str (x y : option bytes) : opt_all str_ok x = true -> opt_all str_ok y = true -> pair_all str_ok (opt_pair x y) = true.
Proof. destruct x, y; cbn; intros H1 H2; try reflexivity. rewrite H1, H2. reflexivity. Qed.
Lemma time_enc_ok_of sub t ns : time_carriable sub t ns = true -> time_enc_ok sub t ns = true.
Proof.
  destruct t as [x|], ns as [n|]; cbn; intros H; try reflexivity; try discriminate.
  - apply andb_true_iff in H. destruct H as [-> ->]. rewrite orb_true_r. reflexivity.
  - apply andb_true_iff in H. destruct H as [-> ->]. reflexivity.
Qed.

Ltac leaf :=
  first [ assumption | reflexivity
        | apply pair_all_u32; assumption | apply pair_all_str; assumption
        | apply time_enc_ok_of; assumption
        | (apply orb_true_iff; right; leaf) | (apply orb_true_iff; left; leaf) ].

Lemma attrs_carriable_enc_ok v a : 3 <= v <= 6 -> attrs_carriable v a = true -> attrs_enc_ok v a = true.
Proof.
  intros Hv C.
  destruct a as [ty size alloc uid gid owner group perm atime atime_ns crtime crtime_ns mtime mtime_ns
                 ctime ctime_ns acl bits valid hint mime nlink untrans ext].
  assert (v = 3 \/ v = 4 \/ v = 5 \/ v = 6) as [->|[->|[->| ->]]] by lia;
    unfold attrs_carriable in C; revert C; unfold attrs_enc_ok; projs; unfold subsecond; projs; simp_cmp; cbv iota;
    intros C; and_hyps; none_fields;
    repeat match goal with
           | H : opt_all (fun s => str_ok s && utf8_valid s) _ = true |- _ => apply opt_all_and in H; destruct H
           end;
    cbn [opt_pair is_some negb orb andb opt_all pair_all time_enc_ok];
    try (rewrite enc_filetype_id by (projs; assumption); projs);
    repeat (apply andb_true_iff; split); try leaf.
  all: try (unfold ext_ok, in_u8 in *; and_hyps; assumption).
  all: try (destruct perm as [m|]; [|reflexivity]; cbn in *; unfold in_u32, TWO32; lia).
  all: try (destruct uid, gid; cbn in *; try reflexivity; discriminate).
Qed.

(* ------------------------------------------------------------------------------------------ *)
(* 4. names                                                                                     *)

Lemma name_rt v n rest :
  3 <= v <= 6 -> name_carriable v n = true -> name_decode v (name_encode v n ++ rest) = Ok (n, rest).
Proof.
  intros Hv C. destruct n as [f l a]. unfold name_carriable in C. cbn [n_filename n_longname n_attrs] in C.
  apply andb_true_iff in C. destruct C as [C Ca]. apply andb_true_iff in C. destruct C as [Cf Cl].
  unfold name_decode, name_encode. cbn [n_filename n_longname n_attrs]. rewrite <- !app_assoc.
  rewrite get_put_string by exact Cf. cbn [lift]. destruct (v =? 3) eqn:E.
  - destruct l as [l|]; [|discriminate]. rewrite get_put_string by exact Cl. cbn [lift].
    rewrite attrs_rt by assumption. reflexivity.
  - destruct l as [l|]; [discriminate|]. cbn [app]. rewrite attrs_rt by assumption. reflexivity.
Qed.

Lemma name_carriable_enc_ok v n : 3 <= v <= 6 -> name_carriable v n = true -> name_enc_ok v n = true.
Proof.
  intros Hv C. unfold name_carriable in C. unfold name_enc_ok.
  apply andb_true_iff in C. destruct C as [C Ca]. apply andb_true_iff in C. destruct C as [Cf Cl].
  rewrite Cf, (attrs_carriable_enc_ok v _ Hv Ca). cbn [andb]. rewrite andb_true_r.
  destruct (v =? 3); [exact Cl|reflexivity].
Qed.

Lemma name_encode_nonempty v n : (1 <= length (name_encode v n))%nat.
Proof. unfold name_encode, put_string, put_u32. rewrite !app_length. cbn [length]. lia. Qed.

(* the name list of an FXP_NAME reply *)
Lemma names_rt v l : forall fuel rest,
  3 <= v <= 6 -> (length l <= fuel)%nat -> forallb (name_carriable v) l = true ->
  names_decode fuel v (Z.of_nat (length l)) (flat_map (name_encode v) l ++ rest) = Ok (l, rest).
Proof.
  induction l as [|n l IH]; intros fuel rest Hv Hf Hc.
  - destruct fuel; reflexivity.
  - destruct fuel as [|fuel]; [cbn in Hf; lia|]. cbn [forallb] in Hc. apply andb_true_iff in Hc. destruct Hc as [Hn Hl].
    cbn [names_decode length flat_map]. replace (Z.of_nat (S (length l)) <=? 0) with false by lia.
    rewrite <- app_assoc. rewrite name_rt by assumption.
    replace (Z.of_nat (S (length l)) - 1) with (Z.of_nat (length l)) by lia.
    rewrite IH; [reflexivity|exact Hv|cbn in Hf; lia|exact Hl].
Qed.

(* ------------------------------------------------------------------------------------------ *)
(* 5. status replies                                                                            *)

Lemma status_rt v code reason lang :
  0 <= status_code_for v code < TWO32 -> status_code_for v code <> FX_UNKNOWN_PRINCIPAL ->
  str_ok reason = true -> utf8_valid reason = true -> str_ok lang = true -> ascii_valid lang = true ->
  status_decode v (status_encode v code reason lang) = Ok (status_code_for v code, reason, lang).
Proof.
  intros Hc Hn H1 H2 H3 H4. unfold status_decode, status_encode.
  rewrite get_put_u32 by exact Hc. cbn [lift].
  assert (Hne : exists x r, put_string reason ++ put_string lang = x :: r).
  { unfold put_string at 1, put_u32. cbn [app]. eauto. }
  destruct Hne as (x & r & Hne). rewrite Hne. rewrite <- Hne.
  rewrite get_put_string by exact H1. cbn [lift]. rewrite H2. cbn [negb].
  rewrite <- (app_nil_r (put_string lang)). rewrite get_put_string by exact H3. cbn [lift]. rewrite H4. cbn [negb].
  apply Z.eqb_neq in Hn. rewrite Hn. rewrite andb_false_r. reflexivity.
Qed.

(* ------------------------------------------------------------------------------------------ *)
(* the 32-bit wrap: a request left unanswered while 2^32 - 1 later ones are issued and answered is
   still in the table when the counter comes back to its id *)
Fixpoint cycles (n : nat) (k : Z) : list cev :=
  match n with
  | O => []
  | S n' => CSend :: CRecv FXP_STATUS k [] :: cycles n' (k + 1)
  end.

Lemma cycles_run n : forall k,
  1 <= k -> k + Z.of_nat n <= TWO32 ->
  fst (c_run (mkc (k mod TWO32) k [(0, 0)] true []) (cycles n k)) =
  mkc ((k + Z.of_nat n) mod TWO32) (k + Z.of_nat n) [(0, 0)] true [].
Proof.
  induction n as [|n IH]; intros k Hk Hn.
  - cbn [cycles c_run fst Z.of_nat]. rewrite Z.add_0_r. reflexivity.
  - cbn [cycles]. rewrite Nat2Z.inj_succ in *.
    rewrite (Z.mod_small k) by lia.
    change (c_run ?s (CSend :: ?r)) with (let '(s1, o1) := c_step s CSend in let '(s2, o2) := c_run s1 r in (s2, o1 ++ o2)).
    cbn [c_step c_next c_count c_reqs c_open c_cancelled dict_set].
    replace (0 =? k) with false by lia.
    change (c_run ?s (CRecv ?t ?i ?p :: ?r)) with
      (let '(s1, o1) := c_step s (CRecv t i p) in let '(s2, o2) := c_run s1 r in (s2, o1 ++ o2)).
    cbn [c_step c_next c_count c_reqs c_open c_cancelled dict_pop].
    replace (0 =? k) with false by lia. rewrite Z.eqb_refl. cbn [memz existsb].
    specialize (IH (k + 1)).
    destruct (c_run (mkc ((k + 1) mod TWO32) (k + 1) [(0, 0)] true []) (cycles n (k + 1))) as [s2 o2] eqn:R.
    cbn [fst] in IH |- *. rewrite IH by lia.
    replace (k + Z.succ (Z.of_nat n)) with (k + 1 + Z.of_nat n) by lia. reflexivity.
Qed.

Lemma stale_gen (N : nat) :
  Z.of_nat N = TWO32 - 1 ->
  let s := fst (c_run c_init (CSend :: cycles N 1)) in
  c_reqs s = [(0, 0)] /\ c_open s = true /\ c_next s = 0 /\ c_count s = TWO32.
Proof.
  intros HN.
  change (c_run c_init (CSend :: ?r)) with (let '(s1, o1) := c_step c_init CSend in let '(s2, o2) := c_run s1 r in (s2, o1 ++ o2)).
  cbn [c_step c_init c_next c_count c_reqs c_open c_cancelled dict_set].
  change (0 + 1) with 1.
  pose proof (cycles_run N 1) as H.
  destruct (c_run (mkc (1 mod TWO32) 1 [(0, 0)] true []) (cycles N 1)) as [s2 o2].
  cbn [fst] in *. rewrite H; [|lia|rewrite HN; lia].
  rewrite HN. cbn [c_reqs c_open c_next c_count].
  replace (1 + (TWO32 - 1)) with TWO32 by lia. rewrite Z.mod_same by (unfold TWO32; lia). auto.
Qed.

Lemma stale_request_meets_wrapped_counter :
  exists evs, let s := fst (c_run c_init evs) in
              c_reqs s = [(0, 0)] /\ c_open s = true /\ c_next s = 0 /\ c_count s = TWO32.
Proof.
  exists (CSend :: cycles (Z.to_nat (TWO32 - 1)) 1). apply stale_gen. apply Z2Nat.id. unfold TWO32. lia.
Qed.

(* ------------------------------------------------------------------------------------------ *)
(* 8b. every truncation of a well-formed body is malformed                                      *)

(* a reader is "extensible" when, having succeeded on b, it succeeds on b ++ t with the same value
   and leaves t behind as well *)
Definition oext {A} (g : bytes -> option (A * bytes)) : Prop :=
  forall b x r t, g b = Some (x, r) -> g (b ++ t) = Some (x, r ++ t).
Definition rext {A} (p : bytes -> res (A * bytes)) : Prop :=
  forall b x r t, p b = Ok (x, r) -> p (b ++ t) = Ok (x, r ++ t).

Lemma get_byte_ext : oext get_byte.
Proof. intros [|c b] x r t H; inversion H; reflexivity. Qed.
Lemma get_u32_ext : oext get_u32.
Proof. intros [|a [|b1 [|c [|d b]]]] x r t H; inversion H; reflexivity. Qed.
Lemma get_u64_ext : oext get_u64.
Proof.
  intros b x r t H. unfold get_u64 in *. destruct (get_u32 b) as [[hi r1]|] eqn:E1; [|discriminate].
  rewrite (get_u32_ext _ _ _ t E1). destruct (get_u32 r1) as [[lo r2]|] eqn:E2; [|discriminate].
  rewrite (get_u32_ext _ _ _ t E2). inversion H; reflexivity.
Qed.
Lemma get_bytes_ext n : oext (get_bytes n).
Proof.
  intros b x r t H. unfold get_bytes in *. destruct (n <=? Z.of_nat (length b)) eqn:E; [|discriminate].
  rewrite app_length. replace (n <=? Z.of_nat (length b + length t)) with true by lia.
  inversion H; subst. destruct (Z_lt_le_dec n 0) as [Hn|Hn].
  - replace (Z.to_nat n) with 0%nat by lia. reflexivity.
  - assert (Hl : (Z.to_nat n <= length b)%nat) by lia.
    rewrite firstn_app, skipn_app. replace (Z.to_nat n - length b)%nat with 0%nat by lia.
    cbn [firstn skipn]. rewrite app_nil_r. reflexivity.
Qed.
Lemma get_string_ext : oext get_string.
Proof.
  intros b x r t H. unfold get_string in *. destruct (get_u32 b) as [[n r1]|] eqn:E1; [|discriminate].
  rewrite (get_u32_ext _ _ _ t E1). apply get_bytes_ext. exact H.
Qed.
Lemma get_pair_ext {A B} (f : bytes -> option (A * bytes)) (g : bytes -> option (B * bytes)) :
  oext f -> oext g -> oext (get_pair f g).
Proof.
  intros Hf Hg b x r t H. unfold get_pair in *. destruct (f b) as [[a r1]|] eqn:E1; [|discriminate].
  rewrite (Hf _ _ _ t E1). destruct (g r1) as [[c r2]|] eqn:E2; [|discriminate].
  rewrite (Hg _ _ _ t E2). inversion H; reflexivity.
Qed.
Lemma get_time_ext sub : oext (get_time sub).
Proof.
  intros b x r t H. unfold get_time in *. destruct (get_u64 b) as [[s r1]|] eqn:E1; [|discriminate].
  rewrite (get_u64_ext _ _ _ t E1). destruct sub; [|inversion H; reflexivity].
  destruct (get_u32 r1) as [[ns r2]|] eqn:E2; [|discriminate]. rewrite (get_u32_ext _ _ _ t E2). inversion H; reflexivity.
Qed.
Lemma p_opt_ext {A} c (g : bytes -> option (A * bytes)) : oext g -> rext (p_opt c g).
Proof.
  intros Hg b x r t H. unfold p_opt in *. destruct c; [|inversion H; reflexivity].
  destruct (g b) as [[y r1]|] eqn:E; [|discriminate]. rewrite (Hg _ _ _ t E). inversion H; reflexivity.
Qed.
Lemma lift_ext {A} (g : bytes -> option (A * bytes)) : oext g -> rext (fun b => lift (g b)).
Proof.
  intros Hg b x r t H. destruct (g b) as [[y r1]|] eqn:E; [|discriminate]. rewrite (Hg _ _ _ t E).
  cbn [lift] in *. inversion H; reflexivity.
Qed.
Lemma get_owngrp_ext : rext get_owngrp.
Proof.
  intros b x r t H. unfold get_owngrp in *. destruct (get_string b) as [[o r1]|] eqn:E1; [|discriminate].
  rewrite (get_string_ext _ _ _ t E1). cbn [lift] in *. destruct (negb (utf8_valid o)); [discriminate|].
  destruct (get_string r1) as [[g r2]|] eqn:E2; [|discriminate]. rewrite (get_string_ext _ _ _ t E2). cbn [lift] in *.
  destruct (negb (utf8_valid g)); [discriminate|]. inversion H; reflexivity.
Qed.
Lemma get_ext_ext fuel : forall count b l r t fuel',
  (fuel <= fuel')%nat -> get_ext fuel count b = Some (l, r) -> get_ext fuel' count (b ++ t) = Some (l, r ++ t).
Proof.
  induction fuel as [|f IH]; intros count b l r t fuel' Hf H.
  - cbn [get_ext] in H. destruct (count <=? 0) eqn:E; [|discriminate]. inversion H; subst.
    destruct fuel'; cbn [get_ext]; rewrite E; reflexivity.
  - destruct fuel' as [|f']; [lia|]. cbn [get_ext] in *. destruct (count <=? 0) eqn:E; [inversion H; reflexivity|].
    destruct (get_pair get_string get_string b) as [[kd r1]|] eqn:E1; [|discriminate].
    rewrite (get_pair_ext _ _ get_string_ext get_string_ext _ _ _ t E1).
    destruct (get_ext f (count - 1) r1) as [[l1 r2]|] eqn:E2; [|discriminate].
    assert (Hle : (f <= f')%nat) by lia. rewrite (IH (count - 1) r1 l1 r2 t f' Hle E2). inversion H; reflexivity.
Qed.
Lemma ext_block_ext (c : bool) :
  rext (fun b => if c then let* (count, b1) := lift (get_u32 b) in lift (get_ext (S (length b1)) count b1)
                 else Ok (@nil (bytes * bytes), b)).
Proof.
  intros b x r t H. destruct c; [|inversion H; reflexivity].
  destruct (get_u32 b) as [[count b1]|] eqn:E1; [|discriminate]. rewrite (get_u32_ext _ _ _ t E1). cbn [lift] in *.
  destruct (get_ext (S (length b1)) count b1) as [[l r1]|] eqn:E2; [|discriminate].
  assert (Hle : (S (length b1) <= S (length (b1 ++ t)))%nat) by (rewrite app_length; lia).
  rewrite (get_ext_ext (S (length b1)) count b1 l r1 t (S (length (b1 ++ t))) Hle E2). cbn [lift] in *.
  inversion H; reflexivity.
Qed.

Lemma owngrp_if_ext (c : bool) : rext (fun b => if c then get_owngrp b else Ok (None, b)).
Proof. intros b x r t H. destruct c; [apply get_owngrp_ext; exact H|inversion H; reflexivity]. Qed.
Lemma type_if_ext (c : bool) : rext (fun b => if c then lift (get_byte b) else Ok (FT_UNKNOWN, b)).
Proof. intros b x r t H. destruct c; [apply (lift_ext _ get_byte_ext); exact H|inversion H; reflexivity]. Qed.

Ltac walk t :=
  repeat match goal with
         | H : (if ?c then Err _ else _) = Ok _ |- _ => destruct c; [discriminate H|]
         | H : match ?P with Ok _ => _ | Err _ => _ end = Ok _ |- _ =>
             let E := fresh "E" in
             destruct P as [[? ?]|] eqn:E; [|discriminate H];
             first [ apply (p_opt_ext _ _ get_u64_ext _ _ _ t) in E
                   | apply (p_opt_ext _ _ get_u32_ext _ _ _ t) in E
                   | apply (p_opt_ext _ _ get_byte_ext _ _ _ t) in E
                   | apply (p_opt_ext _ _ get_string_ext _ _ _ t) in E
                   | apply (p_opt_ext _ _ (get_pair_ext _ _ get_u32_ext get_u32_ext) _ _ _ t) in E
                   | apply (p_opt_ext _ _ (get_time_ext _) _ _ _ t) in E
                   | apply (owngrp_if_ext _ _ _ _ t) in E
                   | apply (type_if_ext _ _ _ _ t) in E
                   | apply (ext_block_ext _ _ _ _ t) in E ];
             rewrite E; cbv beta iota
         end.

Lemma attrs_decode_body_ext v f : rext (attrs_decode_body v f).
Proof.
  intros b a r t H. unfold attrs_decode_body in *. cbv zeta in *.
  walk t. inversion H; reflexivity.
Qed.

Lemma attrs_decode_ext v : rext (attrs_decode v).
Proof.
  intros b a r t H. unfold attrs_decode in *. destruct (get_u32 b) as [[f b1]|] eqn:E; [|discriminate].
  rewrite (get_u32_ext _ _ _ t E). cbn [lift] in *. apply attrs_decode_body_ext. exact H.
Qed.

Definition no_rest (fs : list fld) : Prop := ~ In FRest fs.

Lemma parse_fld_ext v f : f <> FRest -> rext (parse_fld v f).
Proof.
  intros Hf b x r t H. destruct f; cbn [parse_fld] in *; try contradiction.
  - destruct (get_string b) as [[s r1]|] eqn:E; [|discriminate]. rewrite (get_string_ext _ _ _ t E). cbn [lift] in *. inversion H; reflexivity.
  - destruct (get_u32 b) as [[s r1]|] eqn:E; [|discriminate]. rewrite (get_u32_ext _ _ _ t E). cbn [lift] in *. inversion H; reflexivity.
  - destruct (get_u64 b) as [[s r1]|] eqn:E; [|discriminate]. rewrite (get_u64_ext _ _ _ t E). cbn [lift] in *. inversion H; reflexivity.
  - destruct (get_byte b) as [[s r1]|] eqn:E; [|discriminate]. rewrite (get_byte_ext _ _ _ t E). cbn [lift] in *. inversion H; reflexivity.
  - destruct (attrs_decode v b) as [[s r1]|] eqn:E; [|discriminate]. rewrite (attrs_decode_ext _ _ _ _ t E). inversion H; reflexivity.
Qed.

Lemma parse_flds_ext v fs : no_rest fs -> rext (parse_flds v fs).
Proof.
  induction fs as [|f fs IH]; intros Hn b xs r t H; cbn [parse_flds] in *.
  - inversion H; reflexivity.
  - assert (Hf : f <> FRest) by (intros ->; apply Hn; left; reflexivity).
    assert (Hn' : no_rest fs) by (intros Hin; apply Hn; right; exact Hin).
    destruct (parse_fld v f b) as [[x b1]|] eqn:E1; [|discriminate]. rewrite (parse_fld_ext v f Hf _ _ _ t E1).
    destruct (parse_flds v fs b1) as [[ys b2]|] eqn:E2; [|discriminate]. rewrite (IH Hn' _ _ _ t E2).
    inversion H; reflexivity.
Qed.

(* a body that decodes completely (nothing left over) stops decoding as soon as bytes are cut off its end *)
Lemma parse_flds_truncated v fs b xs b' t :
  no_rest fs -> parse_flds v fs b = Ok (xs, []) -> b = b' ++ t -> t <> [] ->
  exists e, parse_flds v fs b' = Err e.
Proof.
  intros Hn H -> Ht. destruct (parse_flds v fs b') as [[ys r]|e] eqn:E; [|eauto].
  rewrite (parse_flds_ext v fs Hn _ _ _ t E) in H. inversion H as [[H1 H2]].
  apply app_eq_nil in H2. destruct H2 as [_ H2]. contradiction.
Qed.

(* and the reply is then an error status (never FX_OK): the decoders only fail with PacketDecodeError,
   BAD_MESSAGE, OWNER_INVALID or GROUP_INVALID *)
Definition parse_err (e : err) : Prop :=
  e = EDecode \/ e = ESftp FX_BAD_MESSAGE \/ e = ESftp FX_OWNER_INVALID \/ e = ESftp FX_GROUP_INVALID.

Lemma p_opt_err {A} c (g : bytes -> option (A * bytes)) b e : p_opt c g b = Err e -> e = EDecode.
Proof. unfold p_opt. destruct c; [|discriminate]. destruct (g b) as [[? ?]|]; [discriminate|]. intros H; inversion H; reflexivity. Qed.
Lemma lift_err {A} (o : option A) e : lift o = Err e -> e = EDecode.
Proof. destruct o; [discriminate|]. intros H; inversion H; reflexivity. Qed.
Lemma get_owngrp_err b e : get_owngrp b = Err e -> parse_err e.
Proof.
  unfold get_owngrp, parse_err. destruct (get_string b) as [[o r1]|]; cbn [lift]; [|intros H; inversion H; auto].
  destruct (negb (utf8_valid o)); [intros H; inversion H; auto|].
  destruct (get_string r1) as [[g r2]|]; cbn [lift]; [|intros H; inversion H; auto].
  destruct (negb (utf8_valid g)); [intros H; inversion H; auto|discriminate].
Qed.

Lemma attrs_decode_err v b e : attrs_decode v b = Err e -> parse_err e.
Proof.
  unfold attrs_decode. destruct (get_u32 b) as [[f b1]|]; cbn [lift]; [|intros H; inversion H; left; reflexivity].
  unfold attrs_decode_body. cbv zeta. unfold parse_err.
  repeat match goal with
         | |- (if ?c then Err ?x else _) = Err _ -> _ => destruct c; [intros H; inversion H; auto|]
         | |- match ?P with Ok _ => _ | Err _ => _ end = Err _ -> _ =>
             let E := fresh "E" in
             destruct P as [[? ?]|e'] eqn:E;
             [|intros H; inversion H; subst;
               first [ apply p_opt_err in E; auto
                     | apply lift_err in E; auto
                     | (destruct (4 <=? v); [apply lift_err in E; auto|discriminate E])
                     | match type of E with (if ?c then get_owngrp _ else _) = _ =>
                         destruct c; [apply get_owngrp_err in E; exact E|discriminate E] end
                     | match type of E with (if ?c then _ else _) = _ =>
                         destruct c; [|discriminate E];
                         match type of E with match lift (get_u32 ?x) with _ => _ end = _ =>
                           destruct (get_u32 x) as [[? ?]|]; cbn [lift] in E; [apply lift_err in E; auto|inversion E; auto] end end ]]
         end.
  discriminate.
Qed.

Lemma parse_flds_err v fs : forall b e, parse_flds v fs b = Err e -> parse_err e.
Proof.
  induction fs as [|f fs IH]; intros b e H; cbn [parse_flds] in H; [discriminate|].
  destruct (parse_fld v f b) as [[x b1]|e1] eqn:E1.
  - destruct (parse_flds v fs b1) as [[ys b2]|e2] eqn:E2; [discriminate|]. inversion H; subst. eapply IH; exact E2.
  - inversion H; subst. clear H. destruct f; cbn [parse_fld] in E1.
    + destruct (lift (get_string b)) as [[? ?]|] eqn:E; [discriminate|]. inversion E1; subst. left. eapply lift_err; exact E.
    + destruct (lift (get_u32 b)) as [[? ?]|] eqn:E; [discriminate|]. inversion E1; subst. left. eapply lift_err; exact E.
    + destruct (lift (get_u64 b)) as [[? ?]|] eqn:E; [discriminate|]. inversion E1; subst. left. eapply lift_err; exact E.
    + destruct (lift (get_byte b)) as [[? ?]|] eqn:E; [discriminate|]. inversion E1; subst. left. eapply lift_err; exact E.
    + destruct (attrs_decode v b) as [[? ?]|] eqn:E; [discriminate|]. inversion E1; subst. eapply attrs_decode_err; exact E.
    + destruct (lift (get_strings (S (length b)) b)) as [?|] eqn:E; [discriminate|]. inversion E1; subst. left. eapply lift_err; exact E.
Qed.

Lemma ladder_parse_err_nonzero v e : parse_err e -> exists c, ladder v e = RStatus c /\ c <> FX_OK.
Proof.
  unfold parse_err, FX_OK. intros [->|[->|[->| ->]]]; cbn [ladder].
  - exists FX_BAD_MESSAGE. split; [reflexivity|discriminate].
  - eexists. split; [reflexivity|]. unfold status_code_for, FX_BAD_MESSAGE, FX_NOT_A_DIRECTORY, FX_NO_SUCH_FILE, FX_FAILURE, FX_V3_END, FX_V4_END, FX_V5_END, FX_V6_END. split_ifs; lia.
  - eexists. split; [reflexivity|]. unfold status_code_for, FX_OWNER_INVALID, FX_NOT_A_DIRECTORY, FX_NO_SUCH_FILE, FX_FAILURE, FX_V3_END, FX_V4_END, FX_V5_END, FX_V6_END. split_ifs; lia.
  - eexists. split; [reflexivity|]. unfold status_code_for, FX_GROUP_INVALID, FX_NOT_A_DIRECTORY, FX_NO_SUCH_FILE, FX_FAILURE, FX_V3_END, FX_V4_END, FX_V5_END, FX_V6_END. split_ifs; lia.
Qed.

Section ServerTruncation.
Variable fmt_ok : attrs -> bool.

(* the server's answer to a request whose body is a well-formed body with bytes cut off its end *)
Lemma s_process_truncated v s ty id body' br k b b' t fs ec xs :
  req_spec v k = Some (fs, ec) -> no_rest fs -> parse_flds v fs b = Ok (xs, []) ->
  b = b' ++ t -> t <> [] -> key_and_body ty body' = Ok (k, b') ->
  exists c, s_process fmt_ok v s ty id body' br = (s, [mkreply FXP_STATUS id (RStatus c)]) /\ c <> FX_OK.
Proof.
  intros HR Hn HP Hb Ht HK. destruct (parse_flds_truncated v fs b xs b' t Hn HP Hb Ht) as [e He].
  destruct (ladder_parse_err_nonzero v e (parse_flds_err v fs b' e He)) as (c & Hc & Hnz).
  exists c. split; [|exact Hnz]. rewrite <- Hc. eapply s_process_malformed; eassumption.
Qed.
End ServerTruncation.

(* the only request whose body ends in an open-ended list is the SFTPv6 REALPATH (compose paths) *)
Lemma req_spec_rest v k fs ec :
  req_spec v k = Some (fs, ec) -> no_rest fs \/ (k = HInt FXP_REALPATH /\ 6 <= v).
Proof.
  unfold req_spec, no_rest. destruct k as [t|n].
  - repeat match goal with
           | |- context [if ?c then _ else _] => let E := fresh "E" in destruct c eqn:E
           end; intros H; inversion H; subst;
      try (left; cbn [In]; intros Hin; repeat (destruct Hin as [Hin|Hin]; [discriminate Hin|]); exact Hin).
    all: right; split; [f_equal; lia|lia].
  - repeat match goal with
           | |- context [if ?c then _ else _] => destruct c
           end; intros H; inversion H; subst;
      left; cbn [In]; intros Hin; repeat (destruct Hin as [Hin|Hin]; [discriminate Hin|]); exact Hin.
Qed.

(* ------------------------------------------------------------------------------------------ *)
(* 7b. every way a reply can fail to decode ends, for the caller, in an SFTPError                *)

Definition sftp_or_decode (e : err) : Prop := e = EDecode \/ exists c, e = ESftp c.

Lemma parse_err_sod e : parse_err e -> sftp_or_decode e.
Proof. unfold parse_err, sftp_or_decode. intros [->|[->|[->| ->]]]; eauto. Qed.

Lemma check_end_lt6_err {A} v (x : A) b e : check_end_lt6 v x b = Err e -> e = EDecode.
Proof. unfold check_end_lt6. destruct (_ && _); intros H; inversion H; reflexivity. Qed.

Lemma get_utf8_strings_err fuel : forall b e, get_utf8_strings fuel b = Err e -> sftp_or_decode e.
Proof.
  induction fuel as [|f IH]; intros b e H; destruct b as [|x b]; cbn [get_utf8_strings] in H; try discriminate.
  - inversion H. left. reflexivity.
  - destruct (get_string (x :: b)) as [[s r]|]; cbn [lift] in H; [|inversion H; left; reflexivity].
    destruct (negb (utf8_valid s)); [inversion H; right; eauto|].
    destruct (get_utf8_strings f r) as [l|e'] eqn:E; [discriminate|]. inversion H; subst. eapply IH; exact E.
Qed.

Lemma status_decode_err v b e : status_decode v b = Err e -> sftp_or_decode e.
Proof.
  unfold status_decode. destruct (get_u32 b) as [[code b1]|]; cbn [lift]; [|intros H; inversion H; left; reflexivity].
  destruct b1 as [|x b1].
  - destruct (code =? FX_UNKNOWN_PRINCIPAL).
    + destruct (get_utf8_strings _ _) as [l|e'] eqn:E; [|intros H; inversion H; subst; eapply get_utf8_strings_err; exact E].
      destruct (_ && _); intros H; inversion H. left. reflexivity.
    + destruct (_ && _); intros H; inversion H. left. reflexivity.
  - destruct (get_string (x :: b1)) as [[reason b2]|]; cbn [lift]; [|intros H; inversion H; left; reflexivity].
    destruct (negb (utf8_valid reason)); [intros H; inversion H; right; eauto|].
    destruct (get_string b2) as [[lang b3]|]; cbn [lift]; [|intros H; inversion H; left; reflexivity].
    destruct (negb (ascii_valid lang)); [intros H; inversion H; right; eauto|].
    destruct (code =? FX_UNKNOWN_PRINCIPAL).
    + destruct (get_utf8_strings _ _) as [l|e'] eqn:E; [|intros H; inversion H; subst; eapply get_utf8_strings_err; exact E].
      destruct (_ && _); intros H; inversion H. left. reflexivity.
    + destruct (_ && _); intros H; inversion H. left. reflexivity.
Qed.

Lemma name_decode_err v b e : name_decode v b = Err e -> sftp_or_decode e.
Proof.
  unfold name_decode. destruct (get_string b) as [[f b1]|]; cbn [lift]; [|intros H; inversion H; left; reflexivity].
  destruct (v =? 3).
  - destruct (get_string b1) as [[l b2]|]; cbn [lift]; [|intros H; inversion H; left; reflexivity].
    destruct (attrs_decode v b2) as [[a b3]|e'] eqn:E; [discriminate|].
    intros H; inversion H; subst. apply parse_err_sod. eapply attrs_decode_err; exact E.
  - destruct (attrs_decode v b1) as [[a b3]|e'] eqn:E; [discriminate|].
    intros H; inversion H; subst. apply parse_err_sod. eapply attrs_decode_err; exact E.
Qed.

Lemma names_decode_err fuel v : forall count b e, names_decode fuel v count b = Err e -> sftp_or_decode e.
Proof.
  induction fuel as [|f IH]; intros count b e H; cbn [names_decode] in H; destruct (count <=? 0); try discriminate.
  - inversion H. left. reflexivity.
  - destruct (name_decode v b) as [[n b1]|e1] eqn:E1; [|inversion H; subst; eapply name_decode_err; exact E1].
    destruct (names_decode f v (count - 1) b1) as [[l b2]|e2] eqn:E2; [discriminate|].
    inversion H; subst. eapply IH; exact E2.
Qed.

Lemma accept_old_err v rt ty p e : accept_old v rt ty p = Err e -> sftp_or_decode e.
Proof.
  unfold accept_old. destruct (negb _); [intros H; inversion H; right; eauto|].
  destruct (ty =? FXP_STATUS).
  - destruct (status_decode v p) as [cr|e'] eqn:E; [|intros H; inversion H; subst; eapply status_decode_err; exact E].
    destruct (fst (fst cr) =? FX_OK); [destruct rt; intros H; inversion H; right; eauto|intros H; inversion H; right; eauto].
  - destruct (ty =? FXP_HANDLE).
    { destruct (get_string p) as [[h b]|]; cbn [lift]; [|intros H; inversion H; left; reflexivity].
      intros H. left. eapply check_end_lt6_err; exact H. }
    destruct (ty =? FXP_DATA).
    { destruct (get_string p) as [[d b]|]; cbn [lift]; [|intros H; inversion H; left; reflexivity].
      unfold at_end_flag. destruct b as [|x b]; [|destruct (6 <=? v)]; intros H; left; eapply check_end_lt6_err; exact H. }
    destruct (ty =? FXP_NAME).
    { destruct (get_u32 p) as [[count b]|]; cbn [lift]; [|intros H; inversion H; left; reflexivity].
      destruct (names_decode _ v count b) as [[l b1]|e'] eqn:E; [|intros H; inversion H; subst; eapply names_decode_err; exact E].
      unfold at_end_flag. destruct b1 as [|x b1]; [|destruct (6 <=? v)]; intros H; left; eapply check_end_lt6_err; exact H. }
    destruct (ty =? FXP_ATTRS).
    { destruct (attrs_decode v p) as [[a b]|e'] eqn:E; [|intros H; inversion H; subst; apply parse_err_sod; eapply attrs_decode_err; exact E].
      intros H. left. eapply check_end_lt6_err; exact H. }
    discriminate.
Qed.

(* whatever arrives, a caller that is not given a value is given an SFTPError (never a bare decode error) *)
Lemma accept_err_is_sftp v rt ty p e : accept v rt ty p = Err e -> exists c, e = ESftp c.
Proof.
  unfold accept. destruct (accept_old v rt ty p) as [x|e'] eqn:E; [discriminate|].
  destruct (accept_old_err _ _ _ _ _ E) as [->|[c ->]]; intros H; inversion H; eauto.
Qed.

(* the session ends (clean EOF, short frame, or the stream failing with ConnectionLost / DisconnectError /
   reset): the table is drained and every waiter that was not cancelled is failed *)
Definition is_end (e : cev) : bool := match e with CEof | CBadFrame | CAbort => true | _ => false end.

Lemma session_end_drains s e :
  is_end e = true -> c_open s = true ->
  c_reqs (fst (c_step s e)) = [] /\ c_open (fst (c_step s e)) = false /\
  forall id w, In (id, w) (c_reqs s) -> memz w (c_cancelled s) = false ->
               exists x, In (OFail w x) (snd (c_step s e)).
Proof.
  intros He Ho.
  assert (H : exists x, c_step s e = c_cleanup s x).
  { destruct e; try discriminate He; cbn [c_step]; rewrite Ho; eauto. }
  destruct H as [x ->]. unfold c_cleanup. cbn [fst snd c_reqs c_open]. split; [reflexivity|]. split; [reflexivity|].
  intros id w Hin Hc. exists x. apply in_map_iff. exists (id, w). split; [reflexivity|].
  apply filter_In. split; [exact Hin|]. cbn [snd]. rewrite Hc. reflexivity.
Qed.
