(* C20 - proofs about the SOCKS4 / SOCKS4a / SOCKS5 request parser model (Model/Socks.v). *)
From AV Require Import Base.Prelude Model.Socks.
Local Open Scope Z_scope.

(* ---------------------------------------------------------------------------------------- *)
(* Generic list facts *)

Lemma firstn_len_app {A} (d r : list A) : firstn (length d) (d ++ r) = d.
Proof. induction d as [|x d IH]; cbn; [destruct r; reflexivity | rewrite IH; reflexivity]. Qed.

Lemma skipn_len_app {A} (d r : list A) : skipn (length d) (d ++ r) = r.
Proof. induction d as [|x d IH]; cbn; [reflexivity | exact IH]. Qed.

Lemma zmem0_app a b : zmem0 (a ++ b) = zmem0 a || zmem0 b.
Proof. unfold zmem0. apply existsb_app. Qed.

Lemma find0_app d r : zmem0 d = false -> find0 (d ++ 0 :: r) = Some (d, r).
Proof.
  induction d as [|x d IH]; intros Hd; cbn.
  - reflexivity.
  - change (zmem0 (x :: d)) with ((0 =? x) || zmem0 d) in Hd.
    apply orb_false_iff in Hd as [Hx Hd].
    rewrite Z.eqb_sym in Hx. rewrite Hx. rewrite (IH Hd). reflexivity.
Qed.

Lemma find0_none p : zmem0 p = false -> find0 p = None.
Proof.
  induction p as [|x p IH]; intros Hp; cbn.
  - reflexivity.
  - change (zmem0 (x :: p)) with ((0 =? x) || zmem0 p) in Hp.
    apply orb_false_iff in Hp as [Hx Hp].
    rewrite Z.eqb_sym in Hx. rewrite Hx. rewrite (IH Hp). reflexivity.
Qed.

(* ---------------------------------------------------------------------------------------- *)
(* Record plumbing *)

Ltac case_ifs :=
  repeat match goal with
         | |- context [if ?c then _ else _] => destruct c
         end.

Lemma set_buf_same s : set_buf s (k_buf s) = s.
Proof. destruct s; reflexivity. Qed.

Lemma add_early_nil s : add_early s [] = s.
Proof. destruct s; unfold add_early; cbn. rewrite app_nil_r. reflexivity. Qed.

Lemma add_early_add_early s a b : add_early (add_early s a) b = add_early s (a ++ b).
Proof. unfold add_early; cbn. rewrite app_assoc. reflexivity. Qed.

Lemma call_set_buf s b d : call (set_buf s b) d = set_buf (call s d) b.
Proof.
  destruct s as [h need buf host port atyp tr out req early cr oo].
  destruct h, tr, cr; unfold call; cbn;
    unfold sconnect, swrite, sclose, set_h, set_host, set_port, set_atyp, set_buf, crash; cbn;
    case_ifs; reflexivity.
Qed.

Lemma k_buf_call s d : k_buf (call s d) = k_buf s.
Proof.
  destruct s as [h need buf host port atyp tr out req early cr oo].
  destruct h, tr, cr; unfold call; cbn;
    unfold sconnect, swrite, sclose, set_h, set_host, set_port, set_atyp, set_buf, crash; cbn;
    case_ifs; reflexivity.
Qed.

Lemma fixup_set_buf fx s s' a b : fixup fx (set_buf s a) (set_buf s' b) = set_buf (fixup fx s s') b.
Proof. unfold fixup; cbn. destruct (fx && k_tr s && negb (k_tr s')); reflexivity. Qed.

Lemma callx_set_buf fx s b d : callx fx (set_buf s b) d = set_buf (callx fx s d) b.
Proof. unfold callx. rewrite call_set_buf. apply fixup_set_buf. Qed.

Lemma fixup_open fx s s' : k_tr s' = true -> fixup fx s s' = s'.
Proof. intros H. unfold fixup. rewrite H. rewrite andb_false_r. reflexivity. Qed.

Lemma callx_open fx s d : k_tr (call s d) = true -> callx fx s d = call s d.
Proof. intros H. unfold callx. apply fixup_open. exact H. Qed.

Lemma is_none_false h : h <> HNone -> is_none h = false.
Proof. destruct h; intros H; try reflexivity. congruence. Qed.

(* ---------------------------------------------------------------------------------------- *)
(* One iteration of the while loop (the L1 - L4 facts, on the loop itself) *)

Lemma pump_S fx f s :
  pump fx (S f) s =
  if k_crash s then (s, false)
  else if is_none (k_h s) then (s, true)
  else if k_need s <? 0 then
        match find0 (k_buf s) with
        | Some (d, rest) => pump fx f (callx fx (set_buf s rest) d)
        | None => if Z.of_nat (length (k_buf s)) >? 255 then (fixup fx s (sclose s), false)
                  else (s, false)
        end
      else
        if Z.of_nat (length (k_buf s)) >=? k_need s
        then pump fx f (callx fx (set_buf s (skipn (Z.to_nat (k_need s)) (k_buf s)))
                                 (firstn (Z.to_nat (k_need s)) (k_buf s)))
        else (s, false).
Proof. reflexivity. Qed.

Lemma pump_none fx f s : k_crash s = false -> k_h s = HNone -> pump fx f s = (s, true).
Proof. intros Hc Hh. destruct f; cbn [pump]; rewrite Hc, Hh; reflexivity. Qed.

Lemma pump_crashed fx f s : k_crash s = true -> pump fx f s = (s, false).
Proof. intros Hc. destruct f; cbn [pump]; rewrite Hc; reflexivity. Qed.

Lemma pump_step_C fx f s d rest :
  k_crash s = false -> k_h s <> HNone -> k_need s = Z.of_nat (length d) ->
  pump fx (S f) (set_buf s (d ++ rest)) = pump fx f (set_buf (callx fx s d) rest).
Proof.
  intros Hc Hh Hn. rewrite pump_S.
  change (k_crash (set_buf s (d ++ rest))) with (k_crash s).
  change (k_h (set_buf s (d ++ rest))) with (k_h s).
  change (k_need (set_buf s (d ++ rest))) with (k_need s).
  change (k_buf (set_buf s (d ++ rest))) with (d ++ rest).
  rewrite Hc, (is_none_false _ Hh), Hn.
  replace (Z.of_nat (length d) <? 0) with false by lia.
  replace (Z.of_nat (length (d ++ rest)) >=? Z.of_nat (length d)) with true
    by (rewrite app_length; lia).
  rewrite Nat2Z.id, firstn_len_app, skipn_len_app.
  change (set_buf (set_buf s (d ++ rest)) rest) with (set_buf s rest).
  rewrite callx_set_buf. reflexivity.
Qed.

Lemma pump_step_Z fx f s d rest :
  k_crash s = false -> k_h s <> HNone -> k_need s < 0 -> zmem0 d = false ->
  pump fx (S f) (set_buf s (d ++ 0 :: rest)) = pump fx f (set_buf (callx fx s d) rest).
Proof.
  intros Hc Hh Hn Hd. rewrite pump_S.
  change (k_crash (set_buf s (d ++ 0 :: rest))) with (k_crash s).
  change (k_h (set_buf s (d ++ 0 :: rest))) with (k_h s).
  change (k_need (set_buf s (d ++ 0 :: rest))) with (k_need s).
  change (k_buf (set_buf s (d ++ 0 :: rest))) with (d ++ 0 :: rest).
  rewrite Hc, (is_none_false _ Hh).
  replace (k_need s <? 0) with true by lia.
  rewrite (find0_app d rest Hd).
  change (set_buf (set_buf s (d ++ 0 :: rest)) rest) with (set_buf s rest).
  rewrite callx_set_buf. reflexivity.
Qed.

Lemma pump_wait_C fx f s p :
  k_crash s = false -> k_h s <> HNone -> 0 <= k_need s -> Z.of_nat (length p) < k_need s ->
  pump fx (S f) (set_buf s p) = (set_buf s p, false).
Proof.
  intros Hc Hh Hn Hp. rewrite pump_S.
  change (k_crash (set_buf s p)) with (k_crash s).
  change (k_h (set_buf s p)) with (k_h s).
  change (k_need (set_buf s p)) with (k_need s).
  change (k_buf (set_buf s p)) with p.
  rewrite Hc, (is_none_false _ Hh).
  replace (k_need s <? 0) with false by lia.
  replace (Z.of_nat (length p) >=? k_need s) with false by lia.
  reflexivity.
Qed.

Lemma pump_wait_Z fx f s p :
  k_crash s = false -> k_h s <> HNone -> k_need s < 0 -> zmem0 p = false ->
  (length p <= 255)%nat ->
  pump fx (S f) (set_buf s p) = (set_buf s p, false).
Proof.
  intros Hc Hh Hn Hp Hl. rewrite pump_S.
  change (k_crash (set_buf s p)) with (k_crash s).
  change (k_h (set_buf s p)) with (k_h s).
  change (k_need (set_buf s p)) with (k_need s).
  change (k_buf (set_buf s p)) with p.
  rewrite Hc, (is_none_false _ Hh).
  replace (k_need s <? 0) with true by lia.
  rewrite (find0_none p Hp).
  replace (Z.of_nat (length p) >? 255) with false by lia.
  reflexivity.
Qed.

(* ---------------------------------------------------------------------------------------- *)
(* Scripts: a request seen as the list of fields the handlers consume one after the other.
   FC d = a counted field (exactly the bytes d), FZ d = a NUL-terminated field (d, then 0). *)

Inductive field := FC (d : bytes) | FZ (d : bytes).
Definition fdata (F : field) : bytes := match F with FC d | FZ d => d end.
Definition wire (F : field) : bytes := match F with FC d => d | FZ d => d ++ [0] end.
Definition wires (fs : list field) : bytes := flat_map wire fs.

Definition fmatch (s : sk) (F : field) : Prop :=
  match F with
  | FC d => k_need s = Z.of_nat (length d)
  | FZ d => k_need s < 0 /\ zmem0 d = false /\ (length d <= 255)%nat
  end.

Definition live (s : sk) : Prop := k_tr s = true /\ k_crash s = false.

(* every handler call along the script finds the parser open, waiting for exactly that field,
   and the last one leaves it connected (handler None) *)
Fixpoint good (s : sk) (fs : list field) : Prop :=
  match fs with
  | [] => k_h s = HNone /\ live s
  | F :: fs' => k_h s <> HNone /\ live s /\ fmatch s F /\ good (call s (fdata F)) fs'
  end.

Definition run (s : sk) (fs : list field) : sk :=
  fold_left (fun s F => call s (fdata F)) fs s.

(* p is a proper prefix of the field's wire form *)
Definition incomplete (F : field) (p : bytes) : Prop := exists l, l <> [] /\ wire F = p ++ l.

Lemma wires_cons F fs : wires (F :: fs) = wire F ++ wires fs.
Proof. reflexivity. Qed.

Lemma wires_app a b : wires (a ++ b) = wires a ++ wires b.
Proof. unfold wires. apply flat_map_app. Qed.

Lemma run_app s a b : run s (a ++ b) = run (run s a) b.
Proof. unfold run. apply fold_left_app. Qed.

Lemma good_live s fs : good s fs -> live s.
Proof. destruct fs; cbn; intros H; tauto. Qed.

Lemma good_app s a b : good s (a ++ b) -> good (run s a) b.
Proof.
  revert s; induction a as [|F a IH]; intros s H.
  - exact H.
  - cbn in H. destruct H as (_ & _ & _ & H). apply (IH _ H).
Qed.

Lemma good_run s fs : good s fs -> k_h (run s fs) = HNone /\ live (run s fs).
Proof.
  intros H. rewrite <- (app_nil_r fs) in H. apply good_app in H. exact H.
Qed.

Lemma k_buf_run s fs : k_buf (run s fs) = k_buf s.
Proof.
  revert s; induction fs as [|F fs IH]; intros s; [reflexivity|].
  cbn. change (k_buf (run (call s (fdata F)) fs) = k_buf s). rewrite IH. apply k_buf_call.
Qed.

Lemma incomplete_C d p : incomplete (FC d) p -> (length p < length d)%nat.
Proof.
  intros (l & Hl & He). cbn in He. subst d. rewrite app_length.
  destruct l; [congruence | cbn; lia].
Qed.

Lemma incomplete_Z d p :
  incomplete (FZ d) p -> zmem0 d = false -> (length d <= 255)%nat ->
  zmem0 p = false /\ (length p <= 255)%nat.
Proof.
  intros (l & Hl & He) Hd Hlen. cbn in He.
  destruct (exists_last Hl) as (l' & a & ->).
  rewrite app_assoc in He. apply app_inj_tail in He as [He _]. subst d.
  rewrite zmem0_app in Hd. apply orb_false_iff in Hd as [Hd _].
  rewrite app_length in Hlen. split; [exact Hd | lia].
Qed.

Section Script.
Variable fx : bool.

(* the whole script is in the buffer: the loop consumes it and falls through *)
Lemma pump_good_all : forall fs s f t,
  good s fs -> (length fs < f)%nat ->
  pump fx f (set_buf s (wires fs ++ t)) = (set_buf (run s fs) t, true).
Proof.
  induction fs as [|F fs IH]; intros s f t Hg Hf.
  - destruct Hg as (Hh & _ & Hc). apply pump_none; assumption.
  - destruct f as [|f]; [cbn in Hf; lia|]. cbn in Hf.
    destruct Hg as (Hh & (Htr & Hc) & Hm & Hg).
    pose proof (good_live _ _ Hg) as (Htr' & _).
    rewrite wires_cons, <- app_assoc.
    destruct F as [d|d]; cbn [wire fdata fmatch] in *.
    + rewrite pump_step_C by assumption. rewrite (callx_open _ _ _ Htr').
      apply IH; [exact Hg | lia].
    + destruct Hm as (Hn & Hd & _).
      rewrite <- app_assoc. cbn [app].
      rewrite pump_step_Z by assumption. rewrite (callx_open _ _ _ Htr').
      apply IH; [exact Hg | lia].
Qed.

(* the buffer ends in the middle of a field: the loop consumes the complete ones and waits *)
Lemma pump_good_part : forall fs1 s f F fs2 p,
  good s (fs1 ++ F :: fs2) -> (length fs1 < f)%nat -> incomplete F p ->
  pump fx f (set_buf s (wires fs1 ++ p)) = (set_buf (run s fs1) p, false).
Proof.
  induction fs1 as [|G fs1 IH]; intros s f F fs2 p Hg Hf Hi.
  - destruct f as [|f]; [cbn in Hf; lia|]. cbn [app] in Hg.
    destruct Hg as (Hh & (Htr & Hc) & Hm & _). cbn [wires flat_map app run fold_left].
    destruct F as [d|d]; cbn [fmatch] in Hm.
    + apply incomplete_C in Hi. apply pump_wait_C; try assumption; lia.
    + destruct Hm as (Hn & Hd & Hl). destruct (incomplete_Z _ _ Hi Hd Hl) as [Hp Hpl].
      apply pump_wait_Z; assumption.
  - destruct f as [|f]; [cbn in Hf; lia|]. cbn in Hf.
    cbn [app] in Hg. destruct Hg as (Hh & (Htr & Hc) & Hm & Hg).
    pose proof (good_live _ _ Hg) as (Htr' & _).
    rewrite wires_cons, <- app_assoc.
    destruct G as [d|d]; cbn [wire fdata fmatch] in *.
    + rewrite pump_step_C by assumption. rewrite (callx_open _ _ _ Htr').
      apply (IH _ _ F fs2); [exact Hg | lia | exact Hi].
    + destruct Hm as (Hn & Hd & _).
      rewrite <- app_assoc. cbn [app].
      rewrite pump_step_Z by assumption. rewrite (callx_open _ _ _ Htr').
      apply (IH _ _ F fs2); [exact Hg | lia | exact Hi].
Qed.

End Script.

(* where a prefix of the byte stream ends, relative to the script *)
Lemma split_stream : forall fs buf more tail,
  buf ++ more = wires fs ++ tail ->
  (exists t, buf = wires fs ++ t /\ tail = t ++ more) \/
  (exists fs1 F fs2 p, fs = fs1 ++ F :: fs2 /\ buf = wires fs1 ++ p /\ incomplete F p).
Proof.
  induction fs as [|F fs IH]; intros buf more tail He.
  - left. exists buf. cbn in *. auto.
  - rewrite wires_cons, <- app_assoc in He.
    assert (Hc : (exists l, buf = wire F ++ l /\ wires fs ++ tail = l ++ more) \/ incomplete F buf).
    { apply app_eq_app in He as (l & [[H1 H2] | [H1 H2]]).
      - left. exists l. auto.
      - destruct l as [|x l].
        + left. exists []. rewrite app_nil_r in H1. cbn in H2. rewrite app_nil_r. auto.
        + right. exists (x :: l). split; [discriminate | exact H1]. }
    destruct Hc as [(l & H1 & H2) | Hi].
    + symmetry in H2. destruct (IH _ _ _ H2) as [(t & Ht & Htl) | (fs1 & G & fs2 & p & Hf & Hb & Hi)].
      * left. exists t. subst. rewrite wires_cons, <- app_assoc. auto.
      * right. exists (F :: fs1), G, fs2, p. subst. rewrite wires_cons, <- app_assoc. auto.
    + right. exists [], F, fs, buf. auto.
Qed.

(* ---------------------------------------------------------------------------------------- *)
(* data_received / feed on a scripted state *)

Section Feed.
Variable fx : bool.

Lemma dr_unfold s p c :
  is_none (k_h s) = false ->
  data_received fx (set_buf s p) c =
  let '(s', ft) := pump fx (length (p ++ c) + 16) (set_buf s (p ++ c)) in
  if ft then match k_buf s' with [] => s' | d => add_early (set_buf s' []) d end else s'.
Proof.
  intros H. unfold data_received. change (k_h (set_buf s p)) with (k_h s). rewrite H. reflexivity.
Qed.

Lemma feed_live s c : live s -> feed fx s c = data_received fx s c.
Proof. intros (Htr & Hc). unfold feed. rewrite Htr, Hc. reflexivity. Qed.

(* once connected, everything is handed on *)
Lemma feed_none : forall chunks s,
  k_h s = HNone -> live s -> fold_left (feed fx) chunks s = add_early s (concat chunks).
Proof.
  induction chunks as [|c cs IH]; intros s Hh Hl.
  - cbn. symmetry. apply add_early_nil.
  - cbn [fold_left concat]. rewrite (feed_live _ _ Hl). unfold data_received. rewrite Hh. cbn [is_none].
    destruct c as [|x c].
    + apply IH; assumption.
    + rewrite IH; [apply add_early_add_early | exact Hh | exact Hl].
Qed.

Lemma dr_all s fs p c t :
  good s fs -> fs <> [] -> k_buf s = [] -> (length fs < 16)%nat ->
  p ++ c = wires fs ++ t ->
  data_received fx (set_buf s p) c = add_early (run s fs) t.
Proof.
  intros Hg Hne Hb Hlen He.
  assert (Hh : is_none (k_h s) = false).
  { destruct fs as [|F fs]; [congruence|]. destruct Hg as (Hh & _). apply is_none_false, Hh. }
  rewrite (dr_unfold _ _ _ Hh). rewrite He.
  rewrite (pump_good_all fx fs s _ t Hg) by lia.
  change (k_buf (set_buf (run s fs) t)) with t.
  destruct t as [|x t].
  - rewrite add_early_nil. rewrite <- Hb, <- (k_buf_run s fs). apply set_buf_same.
  - change (set_buf (set_buf (run s fs) (x :: t)) []) with (set_buf (run s fs) []).
    rewrite <- Hb, <- (k_buf_run s fs), set_buf_same. reflexivity.
Qed.

Lemma dr_part s fs1 F fs2 p c p' :
  good s (fs1 ++ F :: fs2) -> (length fs1 < 16)%nat ->
  p ++ c = wires fs1 ++ p' -> incomplete F p' ->
  data_received fx (set_buf s p) c = set_buf (run s fs1) p'.
Proof.
  intros Hg Hlen He Hi.
  assert (Hh : is_none (k_h s) = false).
  { destruct fs1 as [|G fs1]; cbn [app] in Hg; destruct Hg as (Hh & _); apply is_none_false, Hh. }
  rewrite (dr_unfold _ _ _ Hh). rewrite He.
  rewrite (pump_good_part fx fs1 s _ F fs2 p' Hg) by (try lia; exact Hi).
  reflexivity.
Qed.

Definition pending (fs : list field) (p : bytes) : Prop :=
  match fs with [] => p = [] | F :: _ => incomplete F p end.

(* every chunking of script ++ tail drives the parser through the script and hands on the tail *)
Theorem feed_good : forall chunks s fs p tail,
  good s fs -> k_buf s = [] -> (length fs < 16)%nat -> pending fs p ->
  p ++ concat chunks = wires fs ++ tail ->
  fold_left (feed fx) chunks (set_buf s p) = add_early (run s fs) tail.
Proof.
  induction chunks as [|c cs IH]; intros s fs p tail Hg Hb Hlen Hp He.
  - cbn [concat fold_left] in *. rewrite app_nil_r in He. destruct fs as [|F fs].
    + cbn in Hp. subst p. cbn in He. subst tail. cbn [run fold_left].
      rewrite add_early_nil. rewrite <- Hb. apply set_buf_same.
    + exfalso. destruct Hp as (l & Hl & Hw). rewrite wires_cons, <- app_assoc in He.
      apply (f_equal (@length Z)) in He. apply (f_equal (@length Z)) in Hw.
      rewrite !app_length in *. destruct l; [congruence | cbn in Hw; lia].
  - destruct fs as [|F fs].
    + cbn in Hp. subst p. cbn [app wires flat_map] in He. subst tail.
      rewrite <- Hb, set_buf_same. destruct Hg as (Hh & Hl). apply feed_none; assumption.
    + cbn [fold_left concat] in *.
      assert (Hl : live (set_buf s p)) by exact (good_live _ _ Hg).
      rewrite (feed_live _ _ Hl). rewrite app_assoc in He.
      destruct (split_stream _ _ _ _ He) as [(t & Hpc & Ht) | (fs1 & G & fs2 & p' & Hf & Hpc & Hi)].
      * rewrite (dr_all s (F :: fs) p c t Hg) by (try assumption; discriminate).
        destruct (good_run _ _ Hg) as (Hh' & Hl').
        rewrite feed_none by assumption. rewrite add_early_add_early, Ht. reflexivity.
      * rewrite Hf in Hg, Hlen. rewrite app_length in Hlen. cbn [length] in Hlen.
        rewrite (dr_part s fs1 G fs2 p c p' Hg) by (try assumption; lia).
        rewrite Hf, run_app. apply IH.
        -- apply good_app. exact Hg.
        -- rewrite k_buf_run. exact Hb.
        -- cbn [length]. lia.
        -- exact Hi.
        -- rewrite Hpc, Hf, wires_app, <- !app_assoc in He. apply app_inv_head in He. exact He.
Qed.

End Feed.

(* ---------------------------------------------------------------------------------------- *)
(* The three request formats as scripts *)

Definition fields_of (r : sreq) : list field :=
  match r with
  | R4 ip port user => [FC [4; 1]; FC (enc_port port ++ ip); FZ user]
  | R4a x port user name => [FC [4; 1]; FC (enc_port port ++ [0; 0; 0; x]); FZ user; FZ name]
  | R5 methods dst port =>
      [FC [5; zlen methods]; FC methods] ++
      match dst with
      | HV4 b => [FC [5; 1; 0; 1]; FC b]
      | HV6 b => [FC [5; 1; 0; 4]; FC b]
      | HName n => [FC [5; 1; 0; 3]; FC [zlen n]; FC n]
      end ++ [FC (enc_port port)]
  end.

Definition script_post (r : sreq) (s : sk) : Prop :=
  k_req s = Some (target r) /\ k_out s = replies r /\ k_early s = [] /\ k_oof s = false.

Lemma port_join p : p / 256 * 256 + p mod 256 = p.
Proof. lia. Qed.

Lemma cstr_ok_inv l : cstr_ok l = true -> zmem0 l = false /\ (length l <= 255)%nat.
Proof.
  unfold cstr_ok, zlen. intros H. apply andb_true_iff in H as [H H2].
  apply andb_true_iff in H as [_ H1]. apply negb_true_iff in H1. split; [exact H1 | lia].
Qed.

Ltac finish_script :=
  unfold live; cbn; repeat split; auto; try discriminate; try lia.

Lemma script_R4 ip port user :
  let r := R4 ip port user in
  req_ok r = true -> good sk0 (fields_of r) /\ script_post r (run sk0 (fields_of r)).
Proof.
  intros r H. subst r. cbn [req_ok] in H.
  apply andb_true_iff in H as [H Hz]. apply andb_true_iff in H as [H Hu].
  apply andb_true_iff in H as [H Hp]. apply andb_true_iff in H as [_ Hl].
  apply cstr_ok_inv in Hu as [Hu0 Hul].
  assert (Hlen : length ip = 4%nat) by (unfold zlen in Hl; lia).
  destruct ip as [|a [|b [|c [|d [|e ip]]]]]; try discriminate Hlen. clear Hlen Hl.
  unfold nth0 in Hz. cbn [nth] in Hz.
  unfold script_post, fields_of, run, enc_port.
  cbn. rewrite !Hz. cbn. rewrite !port_join.
  finish_script.
Qed.

Lemma script_R4a x port user name :
  let r := R4a x port user name in
  req_ok r = true -> good sk0 (fields_of r) /\ script_post r (run sk0 (fields_of r)).
Proof.
  intros r H. subst r. cbn [req_ok] in H.
  apply andb_true_iff in H as [H Hutf]. apply andb_true_iff in H as [H Hn].
  apply andb_true_iff in H as [H Hu]. apply andb_true_iff in H as [H Hp].
  apply andb_true_iff in H as [Hx1 Hx2].
  apply cstr_ok_inv in Hu as [Hu0 Hul]. apply cstr_ok_inv in Hn as [Hn0 Hnl].
  assert (Hx : (x =? 0) = false) by lia.
  unfold script_post, fields_of, run, enc_port.
  cbn. rewrite !Hx. cbn. rewrite !Hutf. cbn. rewrite !port_join.
  finish_script.
Qed.

Lemma script_R5 methods dst port :
  let r := R5 methods dst port in
  req_ok r = true -> good sk0 (fields_of r) /\ script_post r (run sk0 (fields_of r)).
Proof.
  intros r H. subst r. cbn [req_ok] in H.
  apply andb_true_iff in H as [H Hp]. apply andb_true_iff in H as [H Hd].
  apply andb_true_iff in H as [H Hm0]. apply andb_true_iff in H as [_ Hml].
  unfold zmem0 in Hm0.
  unfold script_post, fields_of, run, enc_port.
  destruct dst as [n | b | b]; cbn [host_ok5] in Hd.
  - apply andb_true_iff in Hd as [Hd Hutf].
    cbn. rewrite !Hm0. cbn. rewrite !Hutf. cbn. rewrite !port_join.
    finish_script.
  - apply andb_true_iff in Hd as [_ Hl].
    assert (Hlen : length b = 4%nat) by (unfold zlen in Hl; lia).
    cbn. rewrite !Hm0. cbn. rewrite !Hlen. cbn. rewrite !port_join.
    finish_script.
  - apply andb_true_iff in Hd as [_ Hl].
    assert (Hlen : length b = 16%nat) by (unfold zlen in Hl; lia).
    cbn. rewrite !Hm0. cbn. rewrite !Hlen. cbn. rewrite !port_join.
    finish_script.
Qed.

Lemma script_ok r :
  req_ok r = true -> good sk0 (fields_of r) /\ script_post r (run sk0 (fields_of r)).
Proof.
  destruct r as [ip port user | x port user name | methods dst port].
  - apply script_R4.
  - apply script_R4a.
  - apply script_R5.
Qed.

Lemma wires_fields_of r : wires (fields_of r) = encode r.
Proof.
  destruct r as [ip port user | x port user name | methods dst port]; [| | destruct dst];
    unfold wires, fields_of, encode, enc_port; cbn;
    rewrite ?app_nil_r, <- ?app_assoc; reflexivity.
Qed.

Lemma fields_of_short r : (length (fields_of r) < 16)%nat.
Proof.
  destruct r as [ip port user | x port user name | methods dst port]; [| | destruct dst]; cbn; lia.
Qed.

Lemma fields_of_pending r : pending (fields_of r) [].
Proof.
  destruct r as [ip port user | x port user name | methods dst port]; cbn;
    eexists; (split; [| reflexivity]); discriminate.
Qed.

(* ---------------------------------------------------------------------------------------- *)
(* 1. Functional correctness for every well-formed request, trailing data and chunking *)

Theorem socks_parse_spec :
  forall (fx : bool) (r : sreq) (tail : bytes) (chunks : list bytes),
    req_ok r = true -> concat chunks = encode r ++ tail ->
    let s := feed_all fx chunks in
    k_req s = Some (target r) /\ k_out s = replies r /\ k_early s = tail /\
    k_crash s = false /\ k_oof s = false /\ k_tr s = true /\ k_h s = HNone.
Proof.
  intros fx r tail chunks Hok Hc s.
  destruct (script_ok r Hok) as (Hg & Hreq & Hout & Hearly & Hoof).
  destruct (good_run _ _ Hg) as (Hh & Htr & Hcr).
  assert (Hs : s = add_early (run sk0 (fields_of r)) tail).
  { subst s. unfold feed_all. change sk0 with (set_buf sk0 []) at 1.
    apply feed_good.
    - exact Hg.
    - reflexivity.
    - apply fields_of_short.
    - apply fields_of_pending.
    - rewrite wires_fields_of. exact Hc. }
  rewrite Hs. cbn [add_early k_req k_out k_early k_crash k_oof k_tr k_h].
  rewrite Hearly. repeat split; assumption.
Qed.

(* the hypotheses are satisfiable, for each of the formats *)
Example socks_parse_spec_nonvacuous :
  req_ok (R4 [10; 0; 0; 1] 8080 [114; 111; 111; 116]) = true /\
  req_ok (R4a 7 443 [] [101; 120; 46; 111; 114; 103]) = true /\
  req_ok (R5 [2; 0] (HName [101; 120; 46; 111; 114; 103]) 443) = true /\
  req_ok (R5 [0] (HV4 [127; 0; 0; 1]) 22) = true /\
  req_ok (R5 [0] (HV6 [0; 0; 0; 0; 0; 0; 0; 0; 0; 0; 0; 0; 0; 0; 0; 1]) 22) = true.
Proof. vm_compute. repeat split; reflexivity. Qed.

(* ---------------------------------------------------------------------------------------- *)
(* 2. / 5.  With the repair, no input makes an assertion fail; a closed forwarder never asked
   for a connection. *)

Definition clean (s : sk) : Prop :=
  k_crash s = false /\ (k_tr s = true \/ k_h s = HNone) /\
  (k_req s = None \/ (k_tr s = true /\ k_h s = HNone)).

Lemma call_open_clean s d :
  k_tr s = true -> k_crash s = false -> k_h s <> HNone -> k_req s = None ->
  k_crash (call s d) = false /\
  (k_req (call s d) = None \/ (k_tr (call s d) = true /\ k_h (call s d) = HNone)).
Proof.
  destruct s as [h need buf host port atyp tr out req early cr oo]. cbn.
  intros -> -> Hh ->.
  destruct h; try congruence; unfold call; cbn;
    unfold sconnect, swrite, sclose, set_h, set_host, set_port, set_atyp, set_buf, crash; cbn;
    case_ifs; cbn; auto.
Qed.

Lemma call_none s d : k_h s = HNone -> call s d = s.
Proof. intros H. unfold call. rewrite H. reflexivity. Qed.

Lemma handler_none_dec (h : handler) : {h = HNone} + {h <> HNone}.
Proof. destruct h; (left; reflexivity) || (right; discriminate). Qed.

Lemma callx_clean s d : clean s -> clean (callx true s d).
Proof.
  intros (Hc & Ht & Hr).
  destruct (handler_none_dec (k_h s)) as [Hh | Hh].
  - unfold callx. rewrite (call_none _ _ Hh). unfold fixup.
    assert (E : true && k_tr s && negb (k_tr s) = false) by (destruct (k_tr s); reflexivity).
    rewrite E. exact (conj Hc (conj Ht Hr)).
  - destruct Ht as [Ht | Ht]; [| congruence].
    destruct Hr as [Hr | [_ Hr]]; [| congruence].
    destruct (call_open_clean s d Ht Hc Hh Hr) as (Hc' & Hr').
    unfold callx, fixup. rewrite Ht. cbn [andb].
    destruct (k_tr (call s d)) eqn:Ht'; cbn [negb].
    + repeat split; auto. destruct Hr' as [Hr' | [_ Hr']]; auto.
    + repeat split; cbn; auto.
      destruct Hr' as [Hr' | [Hr' _]]; [auto | congruence].
Qed.

Lemma clean_set_buf s b : clean s -> clean (set_buf s b).
Proof. intros H. exact H. Qed.

Lemma clean_close s : is_none (k_h s) = false -> clean s -> clean (fixup true s (sclose s)).
Proof.
  intros Hn (Hc & Ht & Hr).
  assert (Hr0 : k_req s = None).
  { destruct Hr as [Hr | [_ Hr]]; [exact Hr | rewrite Hr in Hn; discriminate]. }
  unfold fixup, sclose.
  destruct (k_tr s) eqn:Htr; cbn.
  - repeat split; cbn; auto.
  - unfold clean. rewrite Htr. exact (conj Hc (conj Ht Hr)).
Qed.

Lemma pump_clean : forall f s, clean s -> clean (fst (pump true f s)).
Proof.
  induction f as [|f IH]; intros s Hs.
  - cbn [pump]. destruct (k_crash s); [exact Hs|]. destruct (is_none (k_h s)); exact Hs.
  - rewrite pump_S. destruct (k_crash s); [exact Hs|].
    destruct (is_none (k_h s)) eqn:Hn; [exact Hs|].
    destruct (k_need s <? 0).
    + destruct (find0 (k_buf s)) as [[d rest]|].
      * apply IH. apply callx_clean. apply clean_set_buf. exact Hs.
      * destruct (Z.of_nat (length (k_buf s)) >? 255); [apply clean_close; assumption | exact Hs].
    + destruct (Z.of_nat (length (k_buf s)) >=? k_need s); [| exact Hs].
      apply IH. apply callx_clean. apply clean_set_buf. exact Hs.
Qed.

Lemma data_received_clean s c : clean s -> clean (data_received true s c).
Proof.
  intros Hs. unfold data_received. destruct (is_none (k_h s)).
  - destruct c; exact Hs.
  - pose proof (pump_clean (pump_fuel (set_buf s (k_buf s ++ c))) (set_buf s (k_buf s ++ c))
                           (clean_set_buf _ _ Hs)) as Hp.
    destruct (pump true _ _) as [s' ft]. cbn [fst] in Hp.
    destruct ft; [| exact Hp]. destruct (k_buf s'); exact Hp.
Qed.

Lemma feed_clean s c : clean s -> clean (feed true s c).
Proof.
  intros Hs. unfold feed. destruct (k_crash s || negb (k_tr s)); [exact Hs|].
  apply data_received_clean. exact Hs.
Qed.

Lemma feed_all_clean : forall chunks, clean (feed_all true chunks).
Proof.
  intros chunks. unfold feed_all.
  assert (H0 : clean sk0) by (unfold clean; cbn; auto).
  revert H0. generalize sk0. induction chunks as [|c cs IH]; intros s Hs; [exact Hs|].
  cbn [fold_left]. apply IH. apply feed_clean. exact Hs.
Qed.

Theorem socks_clean_fixed : forall chunks, k_crash (feed_all true chunks) = false.
Proof. intros chunks. exact (proj1 (feed_all_clean chunks)). Qed.

Theorem socks_closed_no_request_fixed :
  forall chunks, let s := feed_all true chunks in k_tr s = false -> k_req s = None.
Proof.
  intros chunks s Ht. destruct (feed_all_clean chunks) as (_ & _ & [Hr | [Ht' _]]).
  - exact Hr.
  - fold s in Ht'. congruence.
Qed.

(* ---------------------------------------------------------------------------------------- *)
(* 3. The code as it is: an assertion fails after a close inside the loop *)

Theorem socks_clean_head_refuted : exists chunks, k_crash (feed_all false chunks) = true.
Proof. exists [[5; 0]]. vm_compute. reflexivity. Qed.

Example socks_clean_head_refuted_socks4 :
  k_crash (feed_all false [[9; 9; 4; 1; 0; 80; 1; 2; 3; 4; 0]]) = true.
Proof. vm_compute. reflexivity. Qed.

Example socks_clean_fixed_same_inputs :
  k_crash (feed_all true [[5; 0]]) = false /\
  k_crash (feed_all true [[9; 9; 4; 1; 0; 80; 1; 2; 3; 4; 0]]) = false.
Proof. vm_compute. split; reflexivity. Qed.

(* ---------------------------------------------------------------------------------------- *)
(* 4. The loop fuel.  On an arbitrary (unreachable) state the loop need not terminate at all:
   a handler waiting for 0 bytes whose call changes nothing spins forever, in the model as in
   the Python code.  So the fuel statement needs the invariant [wf] that every reachable state
   has (a handler other than the two data-dependent ones never waits for 0 bytes). *)

Example pump_no_oof_unrestricted_refuted :
  exists fx s, k_oof s = false /\ k_oof (fst (pump fx (pump_fuel s) s)) = true.
Proof. exists false, (sclose (set_h sk0 HVersion 0)). vm_compute. split; reflexivity. Qed.

Definition wf (s : sk) : Prop :=
  match k_h s with
  | HNone | HS5Auth | HS5Host => True
  | HS4User | HS4Host => k_need s < 0
  | _ => 0 < k_need s
  end.

(* bound on the number of iterations that consume no input *)
Definition zr (s : sk) : nat :=
  match k_h s with
  | HVersion => 3
  | HS5Auth => if k_tr s then 3 else 2
  | HS5Cmd | HS5Addr | HS5HostLen | HS5Host => 2
  | HS5Port => 1
  | _ => 0
  end.

Ltac crush_call :=
  unfold callx, fixup, call; cbn;
  unfold sconnect, swrite, sclose, set_h, set_host, set_port, set_atyp, set_buf, crash; cbn;
  case_ifs; cbn; auto; try lia.

Lemma call_wf s d : wf s -> wf (call s d).
Proof.
  destruct s as [h need buf host port atyp tr out req early cr oo].
  unfold wf; cbn. intros Hw. destruct h, tr, cr; crush_call.
Qed.

Lemma callx_wf fx s d : wf s -> wf (callx fx s d).
Proof.
  intros Hw. unfold callx, fixup. destruct (fx && k_tr s && negb (k_tr (call s d))).
  - exact I.
  - apply call_wf. exact Hw.
Qed.

Lemma call_oof s d : k_oof (call s d) = k_oof s.
Proof.
  destruct s as [h need buf host port atyp tr out req early cr oo].
  destruct h, tr, cr; crush_call.
Qed.

Lemma callx_oof fx s d : k_oof (callx fx s d) = k_oof s.
Proof.
  unfold callx, fixup. destruct (fx && k_tr s && negb (k_tr (call s d))); cbn; apply call_oof.
Qed.

Lemma k_buf_callx fx s d : k_buf (callx fx s d) = k_buf s.
Proof.
  unfold callx, fixup. destruct (fx && k_tr s && negb (k_tr (call s d))); cbn; apply k_buf_call.
Qed.

Lemma call_zr s d : k_crash (call s d) = true \/ (zr (call s d) <= zr s)%nat.
Proof.
  destruct s as [h need buf host port atyp tr out req early cr oo].
  unfold zr; cbn. destruct h, tr, cr; crush_call.
Qed.

Lemma callx_zr fx s d :
  k_crash (callx fx s d) = true \/ (zr (callx fx s d) <= zr s)%nat.
Proof.
  unfold callx, fixup. destruct (fx && k_tr s && negb (k_tr (call s d))).
  - right. unfold zr; cbn. lia.
  - apply call_zr.
Qed.

Lemma callx_zr0 fx s :
  wf s -> k_h s <> HNone -> k_need s = 0 ->
  k_crash (callx fx s []) = true \/ (zr (callx fx s []) < zr s)%nat.
Proof.
  destruct s as [h need buf host port atyp tr out req early cr oo].
  unfold wf, zr; cbn. intros Hw Hh ->. destruct h; try lia; try congruence;
    destruct fx, tr, cr; crush_call.
Qed.

Lemma find0_length l d rest :
  find0 l = Some (d, rest) -> length l = (length d + 1 + length rest)%nat.
Proof.
  revert d rest; induction l as [|x l IH]; intros d rest H; cbn in H; [discriminate|].
  destruct (x =? 0).
  - inversion H; subst. cbn. lia.
  - destruct (find0 l) as [[a b]|]; [|discriminate]. inversion H; subst.
    cbn. rewrite (IH a rest eq_refl). lia.
Qed.

Lemma close_oof fx s : k_oof (fixup fx s (sclose s)) = k_oof s.
Proof. unfold fixup, sclose. destruct fx, (k_tr s); reflexivity. Qed.

Lemma close_wf fx s : wf s -> wf (fixup fx s (sclose s)).
Proof.
  destruct s as [h need buf host port atyp tr out req early cr oo].
  unfold wf, fixup, sclose; cbn. destruct fx, tr; cbn; auto; destruct h; auto.
Qed.

Lemma pump_wf fx : forall f s, wf s -> wf (fst (pump fx f s)).
Proof.
  induction f as [|f IH]; intros s Hs.
  - cbn [pump]. destruct (k_crash s); [exact Hs|]. destruct (is_none (k_h s)); exact Hs.
  - rewrite pump_S. destruct (k_crash s); [exact Hs|]. destruct (is_none (k_h s)); [exact Hs|].
    destruct (k_need s <? 0).
    + destruct (find0 (k_buf s)) as [[d rest]|].
      * apply IH. apply callx_wf. exact Hs.
      * destruct (Z.of_nat (length (k_buf s)) >? 255); [apply close_wf; exact Hs | exact Hs].
    + destruct (Z.of_nat (length (k_buf s)) >=? k_need s); [| exact Hs].
      apply IH. apply callx_wf. exact Hs.
Qed.

Lemma pump_fuel_enough fx : forall f s,
  wf s -> k_oof s = false -> (length (k_buf s) + zr s < f)%nat ->
  k_oof (fst (pump fx f s)) = false.
Proof.
  induction f as [|f IH]; intros s Hw Ho Hf; [lia|].
  assert (Hstep : forall d rest,
            (length rest < length (k_buf s))%nat \/
            (rest = k_buf s /\ d = [] /\ k_need s = 0 /\ k_h s <> HNone) ->
            k_oof (fst (pump fx f (callx fx (set_buf s rest) d))) = false).
  { intros d rest Hcase.
    set (s' := callx fx (set_buf s rest) d).
    assert (Ho' : k_oof s' = false) by (unfold s'; rewrite callx_oof; exact Ho).
    assert (Hw' : wf s') by (apply callx_wf; exact Hw).
    assert (Hb' : k_buf s' = rest) by (unfold s'; rewrite k_buf_callx; reflexivity).
    destruct (k_crash s') eqn:Hc'.
    - rewrite (pump_crashed fx f s' Hc'). exact Ho'.
    - apply IH; try assumption. rewrite Hb'.
      destruct Hcase as [Hlt | (-> & -> & Hn & Hh)].
      + destruct (callx_zr fx (set_buf s rest) d) as [Hc | Hz]; [fold s' in Hc; congruence|].
        fold s' in Hz. change (zr (set_buf s rest)) with (zr s) in Hz. lia.
      + destruct (callx_zr0 fx (set_buf s (k_buf s)) Hw Hh Hn) as [Hc | Hz];
          [fold s' in Hc; congruence|].
        fold s' in Hz. change (zr (set_buf s (k_buf s))) with (zr s) in Hz. lia. }
  rewrite pump_S. destruct (k_crash s); [exact Ho|].
  destruct (is_none (k_h s)) eqn:Hn; [exact Ho|].
  assert (Hh : k_h s <> HNone) by (intros E; rewrite E in Hn; discriminate).
  destruct (k_need s <? 0) eqn:Hneg.
  - destruct (find0 (k_buf s)) as [[d rest]|] eqn:Hfind.
    + apply Hstep. left. apply find0_length in Hfind. lia.
    + destruct (Z.of_nat (length (k_buf s)) >? 255); cbn [fst]; rewrite ?close_oof; exact Ho.
  - destruct (Z.of_nat (length (k_buf s)) >=? k_need s) eqn:Hge; [| exact Ho].
    apply Hstep. destruct (Z.eq_dec (k_need s) 0) as [Hz | Hz].
    + right. rewrite Hz. cbn. auto.
    + left. rewrite skipn_length. lia.
Qed.

Lemma zr_le s : (zr s <= 3)%nat.
Proof. unfold zr. destruct (k_h s); try lia. destruct (k_tr s); lia. Qed.

Theorem pump_no_oof :
  forall fx s, wf s -> k_oof s = false -> k_oof (fst (pump fx (pump_fuel s) s)) = false.
Proof.
  intros fx s Hw Ho. apply pump_fuel_enough; try assumption.
  unfold pump_fuel. pose proof (zr_le s). lia.
Qed.

Lemma data_received_wf fx s c :
  wf s /\ k_oof s = false -> wf (data_received fx s c) /\ k_oof (data_received fx s c) = false.
Proof.
  intros (Hw & Ho). unfold data_received. destruct (is_none (k_h s)).
  - destruct c; split; assumption.
  - pose proof (pump_no_oof fx (set_buf s (k_buf s ++ c)) Hw Ho) as Hp.
    pose proof (pump_wf fx (pump_fuel (set_buf s (k_buf s ++ c))) (set_buf s (k_buf s ++ c)) Hw)
      as Hq.
    destruct (pump fx _ _) as [s' ft]. cbn [fst] in Hp, Hq.
    destruct ft; [| split; assumption]. destruct (k_buf s'); split; assumption.
Qed.

(* the fuel never runs out on any input, for the code as it is and for the repaired code *)
Theorem feed_all_no_oof : forall fx chunks, k_oof (feed_all fx chunks) = false.
Proof.
  intros fx chunks. unfold feed_all.
  assert (H0 : wf sk0 /\ k_oof sk0 = false) by (unfold wf; cbn; split; [lia | reflexivity]).
  revert H0. generalize sk0. induction chunks as [|c cs IH]; intros s Hs; [exact (proj2 Hs)|].
  cbn [fold_left]. apply IH. unfold feed. destruct (k_crash s || negb (k_tr s)); [exact Hs|].
  apply data_received_wf. exact Hs.
Qed.

(* ---------------------------------------------------------------------------------------- *)
(* EOF from the SOCKS client before its request is complete *)

Theorem socks_eof_incomplete_fixed : forall fx chunks,
  let s := feed_all fx chunks in
  k_h s <> HNone ->
  k_tr (fst (seof true s)) = false /\ snd (seof true s) = false /\ k_req (fst (seof true s)) = k_req s.
Proof.
  intros fx chunks s Hh. unfold seof. destruct (k_h s) eqn:E; try (exfalso; apply Hh; reflexivity);
    cbn; unfold sclose; destruct (k_tr s) eqn:Ht; cbn; rewrite ?Ht; repeat split; reflexivity.
Qed.

Theorem socks_eof_incomplete_old_refuted : exists chunks,
  let s := feed_all true chunks in
  k_h s <> HNone /\ k_req s = None /\ k_tr (fst (seof false s)) = true /\ snd (seof false s) = true.
Proof. exists [[5]]. vm_compute. repeat split; discriminate. Qed.
