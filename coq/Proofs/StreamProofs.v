(* Proofs about Model/Stream.v *)
From AV Require Import Base.Prelude Model.Stream.

(* ====================================================================================== *)
(* Part 1. The chunk-free view of a receive buffer: a list of tokens (a byte or an exception),
   and the specification of the read calls on tokens.                                        *)

Inductive tok := B (z : Z) | X (e : Z).

Definition toks_item (i : item) : list tok :=
  match i with Chunk d => map B d | Exn e => [X e] end.
Definition toks (rb : list item) : list tok := flat_map toks_item rb.

(* the leading bytes and what follows them (nothing, or an exception first) *)
Fixpoint span_bytes (t : list tok) : bytes * list tok :=
  match t with
  | B z :: r => let (d, rest) := span_bytes r in (z :: d, rest)
  | _ => ([], t)
  end.

Definition fin_read (n : Z) (acc : bytes) : result :=
  if 0 <? n then RIncomplete acc (Some (zlen acc + n)) else ROk acc.

(* read to completion: n > 0 is readexactly(n), n < 0 is read() to EOF, n = 0 returns at once.
   [acc] is what an earlier, suspended part of the same call has already taken.
   None = the call is still waiting. *)
Definition spec_read (n : Z) (acc : bytes) (t : list tok) (eofF : bool) : option (result * list tok) :=
  if n =? 0 then Some (ROk acc, t) else
  let (d, rest) := span_bytes t in
  if (0 <? n) && (n <=? zlen d)
  then Some (ROk (acc ++ firstn (Z.to_nat n) d), map B (skipn (Z.to_nat n) d) ++ rest)
  else
    let acc' := acc ++ d in
    let n' := n - zlen d in
    match rest with
    | X e :: rest' =>
        if is_nil acc' then (if e =? SOFT_EOF then Some (ROk acc', rest') else Some (RRaise e, rest'))
        else Some (fin_read n' acc', rest)
    | _ => if eofF then Some (fin_read n' acc', rest) else None
    end.

Lemma zlen_app a b : zlen (a ++ b) = zlen a + zlen b.
Proof. unfold zlen. rewrite app_length. lia. Qed.

Lemma zlen_nonneg a : 0 <= zlen a.
Proof. unfold zlen. lia. Qed.

Lemma zlen_nil_iff a : zlen a = 0 <-> a = [].
Proof. unfold zlen. destruct a; simpl; split; intros H; try reflexivity; try discriminate; lia. Qed.

Lemma toks_app a b : toks (a ++ b) = toks a ++ toks b.
Proof. unfold toks. apply flat_map_app. Qed.

Lemma span_app_bytes d t :
  span_bytes (map B d ++ t) = let (d2, rest) := span_bytes t in (d ++ d2, rest).
Proof.
  induction d as [|z d IH]; simpl.
  - destruct (span_bytes t); reflexivity.
  - rewrite IH. destruct (span_bytes t); reflexivity.
Qed.

Lemma span_recompose t : forall d rest, span_bytes t = (d, rest) -> t = map B d ++ rest.
Proof.
  induction t as [|[z|e] t IH]; simpl; intros d rest H.
  - inversion H; reflexivity.
  - destruct (span_bytes t) as [d2 r2]. inversion H; subst. simpl. f_equal. apply IH. reflexivity.
  - inversion H; reflexivity.
Qed.

Lemma span_rest_shape t : forall d rest, span_bytes t = (d, rest) -> rest = [] \/ exists e r, rest = X e :: r.
Proof.
  induction t as [|[z|e] t IH]; simpl; intros d rest H.
  - inversion H; left; reflexivity.
  - destruct (span_bytes t) as [d2 r2]. inversion H; subst. eapply IH. reflexivity.
  - inversion H; right; eauto.
Qed.

Lemma firstn_len_app {A} (a b : list A) k : firstn (length a + k) (a ++ b) = a ++ firstn k b.
Proof. induction a; simpl; [reflexivity|]. f_equal. assumption. Qed.

Lemma skipn_len_app {A} (a b : list A) k : skipn (length a + k) (a ++ b) = skipn k b.
Proof. induction a; simpl; [reflexivity|assumption]. Qed.

Lemma to_nat_zlen a : Z.to_nat (zlen a) = length a.
Proof. unfold zlen. lia. Qed.

(* taking a whole chunk: the call continues with n reduced and the chunk appended *)
Lemma spec_read_take n acc d t eofF :
  n <> 0 -> (n < 0 \/ zlen d <= n) ->
  spec_read n acc (map B d ++ t) eofF = spec_read (n - zlen d) (acc ++ d) t eofF.
Proof.
  intros Hn Hc. unfold spec_read at 1.
  destruct (n =? 0) eqn:E0; [lia|]. clear E0.
  rewrite span_app_bytes. destruct (span_bytes t) as [d2 rest] eqn:Esp.
  pose proof (zlen_nonneg d) as Hd. pose proof (zlen_nonneg d2) as Hd2.
  unfold spec_read. destruct (n - zlen d =? 0) eqn:E1.
  - (* the chunk completes the read *)
    assert (Hz : zlen d = n) by lia.
    assert (Hc1 : (0 <? n) && (n <=? zlen (d ++ d2)) = true) by (rewrite zlen_app; lia).
    rewrite Hc1. rewrite <- Hz, to_nat_zlen.
    replace (length d) with (length d + 0)%nat by lia.
    rewrite firstn_len_app, skipn_len_app. simpl. rewrite app_nil_r.
    rewrite (span_recompose _ _ _ Esp). reflexivity.
  - rewrite Esp.
    assert (Hc1 : (0 <? n) && (n <=? zlen (d ++ d2)) = (0 <? n - zlen d) && (n - zlen d <=? zlen d2))
      by (rewrite zlen_app; lia).
    rewrite Hc1. destruct ((0 <? n - zlen d) && (n - zlen d <=? zlen d2)) eqn:E2.
    + assert (Hk : Z.to_nat n = (length d + Z.to_nat (n - zlen d))%nat) by (unfold zlen in *; lia).
      rewrite Hk, firstn_len_app, skipn_len_app, app_assoc. reflexivity.
    + rewrite zlen_app, app_assoc. replace (n - (zlen d + zlen d2)) with (n - zlen d - zlen d2) by lia.
      reflexivity.
Qed.

(* taking part of a chunk *)
Lemma spec_read_split n acc d t eofF :
  0 < n -> n < zlen d ->
  spec_read n acc (map B d ++ t) eofF =
  Some (ROk (acc ++ firstn (Z.to_nat n) d), map B (skipn (Z.to_nat n) d) ++ t).
Proof.
  intros Hn Hl. unfold spec_read. destruct (n =? 0) eqn:E0; [lia|].
  rewrite span_app_bytes. destruct (span_bytes t) as [d2 rest] eqn:Esp.
  pose proof (zlen_nonneg d2).
  assert (Hc1 : (0 <? n) && (n <=? zlen (d ++ d2)) = true) by (rewrite zlen_app; lia).
  rewrite Hc1.
  assert (Hk : (Z.to_nat n <= length d)%nat) by (unfold zlen in *; lia).
  rewrite firstn_app, skipn_app.
  replace (Z.to_nat n - length d)%nat with 0%nat by lia. simpl. rewrite app_nil_r.
  rewrite map_app, <- app_assoc. rewrite <- (span_recompose _ _ _ Esp). reflexivity.
Qed.

Lemma spec_read_exn n acc e t eofF :
  n <> 0 ->
  spec_read n acc (X e :: t) eofF =
  if is_nil acc then (if e =? SOFT_EOF then Some (ROk acc, t) else Some (RRaise e, t))
  else Some (fin_read n acc, X e :: t).
Proof.
  intros Hn. unfold spec_read. destruct (n =? 0) eqn:E0; [lia|]. simpl span_bytes. cbv iota beta.
  assert (Hc : (0 <? n) && (n <=? zlen []) = false) by (unfold zlen; simpl; lia).
  rewrite Hc, app_nil_r. unfold zlen at 1. simpl. rewrite Z.sub_0_r. reflexivity.
Qed.

Lemma spec_read_zero acc t eofF : spec_read 0 acc t eofF = Some (ROk acc, t).
Proof. reflexivity. Qed.

Lemma spec_read_end n acc eofF :
  n <> 0 -> spec_read n acc [] eofF = if eofF then Some (fin_read n acc, []) else None.
Proof.
  intros Hn. unfold spec_read. destruct (n =? 0) eqn:E0; [lia|]. simpl.
  assert (Hc : (0 <? n) && (n <=? zlen []) = false) by (unfold zlen; simpl; lia).
  rewrite Hc, app_nil_r. unfold zlen at 1. simpl. rewrite Z.sub_0_r. reflexivity.
Qed.

(* ====================================================================================== *)
(* Part 2. The inner loop of read() against the token specification.                      *)

Definition chunk_ok (i : item) : Prop := match i with Chunk d => d <> [] | Exn _ => True end.
Definition chunks_ok (rb : list item) : Prop := Forall chunk_ok rb.

Fixpoint rlen (rb : list item) : Z :=
  match rb with [] => 0 | Chunk d :: r => zlen d + rlen r | Exn _ :: r => rlen r end.

Definition nonnil (a : bytes) : bool := negb (is_nil a).

Lemma rlen_app a b : rlen (a ++ b) = rlen a + rlen b.
Proof. induction a as [|[d|e] a IH]; simpl; lia. Qed.

Lemma rlen_nonneg a : 0 <= rlen a.
Proof. induction a as [|[d|e] a IH]; simpl; try lia. pose proof (zlen_nonneg d). lia. Qed.

Lemma nonnil_app_r a d : d <> [] -> nonnil (a ++ d) = true.
Proof. intros H. destruct a; simpl; [|reflexivity]. destruct d; [contradiction|reflexivity]. Qed.

Lemma nonnil_true a : nonnil a = true -> a <> [].
Proof. destruct a; simpl; [discriminate|discriminate]. Qed.

Lemma is_nil_false_of_nonnil a : nonnil a = true -> is_nil a = false.
Proof. destruct a; simpl; [discriminate|reflexivity]. Qed.

Lemma is_nil_true_of_nonnil a : nonnil a = false -> a = [].
Proof. destruct a; simpl; [reflexivity|discriminate]. Qed.

Lemma read_inner_sim rb : forall n acc got bl rb' n' acc' got' bl' ex,
  chunks_ok rb -> got = nonnil acc ->
  read_inner rb n acc got bl = (rb', n', acc', got', bl', ex) ->
  got' = nonnil acc' /\ chunks_ok rb' /\ bl' = bl - (rlen rb - rlen rb') /\ rlen rb' <= rlen rb /\
  (n <= 0 -> n' <= 0) /\
  (match ex with
   | XFall => rb' = [] \/ n' = 0
   | XBreakRead => n' <> 0 /\ acc' <> [] /\ exists e r, rb' = Exn e :: r
   | XRaise e => True
   end) /\
  forall x eofF, spec_read n acc (toks rb ++ x) eofF =
     match ex with
     | XRaise e => Some (RRaise e, toks rb' ++ x)
     | XBreakRead => Some (fin_read n' acc', toks rb' ++ x)
     | XFall => spec_read n' acc' (toks rb' ++ x) eofF
     end.
Proof.
  induction rb as [|it rest IH]; intros n acc got bl rb' n' acc' got' bl' ex Hok Hgot H; simpl in H.
  - inversion H; subst. repeat split; try assumption; try lia; try (left; reflexivity).
  - destruct (n =? 0) eqn:E0.
    { inversion H; subst. repeat split; try assumption; try lia; try (right; lia). }
    inversion Hok as [|? ? Hit Hrest]; subst.
    destruct it as [d|e].
    + simpl in Hit. assert (Hl : 0 < zlen d) by (destruct d; [contradiction | unfold zlen; simpl; lia]).
      destruct ((n <? zlen d) && (0 <? n)) eqn:Ec.
      * inversion H; subst. clear H.
        assert (Hk : (0 < Z.to_nat n < length d)%nat) by (unfold zlen in *; lia).
        assert (Hf : firstn (Z.to_nat n) d <> []).
        { destruct d; [contradiction|]. destruct (Z.to_nat n); [lia|]. simpl. discriminate. }
        assert (Hs : skipn (Z.to_nat n) d <> []).
        { intros Hs. pose proof (skipn_length (Z.to_nat n) d) as Hsl. rewrite Hs in Hsl. simpl in Hsl. lia. }
        repeat split.
        -- symmetry. apply nonnil_app_r. assumption.
        -- constructor; [exact Hs|assumption].
        -- simpl. unfold zlen. rewrite skipn_length. unfold zlen in *. lia.
        -- simpl. unfold zlen. rewrite skipn_length. lia.
        -- lia.
        -- right; reflexivity.
        -- intros x eofF. simpl toks. rewrite <- !app_assoc.
           rewrite spec_read_split by lia. rewrite spec_read_zero. reflexivity.
      * specialize (IH (n - zlen d) (acc ++ d) true (bl - zlen d) rb' n' acc' got' bl' ex Hrest).
        rewrite nonnil_app_r in IH by assumption. specialize (IH eq_refl H).
        destruct IH as (Hg & Hc & Hb & Hr & Hsgn & Hex & Hspec).
        repeat split; try assumption.
        -- simpl. lia.
        -- simpl. lia.
        -- lia.
        -- intros x eofF. simpl toks. rewrite <- app_assoc.
           rewrite spec_read_take by lia. apply Hspec.
    + destruct (nonnil acc) eqn:Eg.
      * inversion H; subst. clear H.
        repeat split; try assumption; try lia.
        -- symmetry; assumption.
        -- apply nonnil_true; assumption.
        -- eauto.
        -- intros x eofF. simpl. rewrite spec_read_exn by lia.
           rewrite (is_nil_false_of_nonnil _ Eg). reflexivity.
      * pose proof (is_nil_true_of_nonnil _ Eg) as Ha. subst acc.
        destruct (e =? SOFT_EOF) eqn:Es; inversion H; subst; clear H.
        -- repeat split; try assumption; try (simpl; lia); try (right; reflexivity).
           intros x eofF. simpl. rewrite spec_read_exn by lia. simpl. rewrite Es. reflexivity.
        -- repeat split; try assumption; try (simpl; lia).
           intros x eofF. simpl. rewrite spec_read_exn by lia. simpl. rewrite Es. reflexivity.
Qed.

(* ====================================================================================== *)
(* Part 3. Deliveries, the session invariant, and read() as a whole.                       *)

Definition extends (s s' : sess) (dlt : list item) : Prop :=
  rbuf s' = rbuf s ++ dlt /\ dl s' = dl s ++ dlt /\ blen s' = blen s + rlen dlt /\ limit s' = limit s /\
  (eof s = true -> eof s' = true) /\ (late s = true -> late s' = true) /\
  (eof s = true -> dlt <> [] -> late s' = true) /\ chunks_ok dlt.

Lemma extends_refl s : extends s s [].
Proof. unfold extends. rewrite !app_nil_r. simpl. repeat split; auto; try lia; try (intros _ H; contradiction); constructor. Qed.

Lemma chunks_ok_app a b : chunks_ok (a ++ b) <-> chunks_ok a /\ chunks_ok b.
Proof. unfold chunks_ok. apply Forall_app. Qed.

Lemma extends_trans s1 s2 s3 a b : extends s1 s2 a -> extends s2 s3 b -> extends s1 s3 (a ++ b).
Proof.
  intros (A1 & A2 & A3 & A4 & A5 & A6 & A7 & A8) (B1 & B2 & B3 & B4 & B5 & B6 & B7 & B8).
  unfold extends. rewrite B1, A1, B2, A2, B3, A3, B4, A4, rlen_app, !app_assoc.
  repeat split; auto; try lia.
  - intros He Hab. destruct a as [|x a].
    + simpl in Hab. apply B7; auto.
    + apply B6. apply A7; [assumption|discriminate].
  - apply chunks_ok_app. split; assumption.
Qed.

Lemma maybe_pause_fields s :
  rbuf (maybe_pause s) = rbuf s /\ dl (maybe_pause s) = dl s /\ blen (maybe_pause s) = blen s /\
  limit (maybe_pause s) = limit s /\ eof (maybe_pause s) = eof s /\ late (maybe_pause s) = late s.
Proof. unfold maybe_pause. destruct (negb (rpaused s) && should_pause s); simpl; repeat split. Qed.

Ltac ext_tac :=
  repeat split; auto; try lia; try discriminate;
  try (intros _ H; contradiction);
  try (intros H; rewrite H; reflexivity);
  try (intros H; rewrite H; apply orb_true_r);
  try (intros H _; rewrite H; apply orb_true_r);
  try (intros H _; rewrite H; reflexivity);
  try (repeat constructor; simpl; discriminate).

Lemma deliver_extends s e : exists dlt, extends s (deliver s e) dlt.
Proof.
  destruct e as [d|x| |exc| |]; simpl.
  - destruct d as [|z d]; simpl.
    + exists []. apply extends_refl.
    + exists [Chunk (z :: d)].
      destruct (maybe_pause_fields (push s (Chunk (z :: d)) (zlen (z :: d)))) as (R1 & R2 & R3 & R4 & R5 & R6).
      unfold extends. rewrite R1, R2, R3, R4, R5, R6. simpl. ext_tac.
  - exists [Exn x]. unfold extends. simpl. ext_tac.
  - exists []. unfold extends. simpl. rewrite !app_nil_r. ext_tac.
  - destruct (eof s) eqn:Ee.
    + exists []. unfold extends. simpl. rewrite !app_nil_r, ?Ee. ext_tac.
    + destruct exc as [x|].
      * exists [Exn x]. unfold extends. simpl. rewrite ?Ee. ext_tac.
      * exists []. unfold extends. simpl. rewrite !app_nil_r, ?Ee. ext_tac.
  - exists []. unfold extends. simpl. rewrite !app_nil_r. ext_tac.
  - exists []. unfold extends. simpl. rewrite !app_nil_r. ext_tac.
Qed.

Lemma deliver_all_extends b : forall s, exists dlt, extends s (deliver_all s b) dlt.
Proof.
  induction b as [|e b IH]; intros s; simpl.
  - exists []. apply extends_refl.
  - destruct (deliver_extends s e) as [d1 H1]. destruct (IH (deliver s e)) as [d2 H2].
    exists (d1 ++ d2). eapply extends_trans; eassumption.
Qed.

(* blen is the number of buffered bytes; chunks are non-empty; nothing is buffered that was not delivered *)
Definition SInv (s : sess) : Prop :=
  blen s = rlen (rbuf s) /\ chunks_ok (rbuf s) /\ rlen (rbuf s) <= rlen (dl s).

Lemma SInv_extends s s' dlt : SInv s -> extends s s' dlt -> chunks_ok (dl s') -> SInv s'.
Proof.
  intros (I1 & I2 & I3) (E1 & E2 & E3 & _) Hok. unfold SInv.
  rewrite E1, E2, E3, !rlen_app. rewrite E2 in Hok. apply chunks_ok_app in Hok as [_ Hd].
  repeat split; try lia. apply chunks_ok_app. split; assumption.
Qed.

Lemma maybe_resume_fields s :
  let s' := fst (maybe_resume s) in
  rbuf s' = rbuf s /\ dl s' = dl s /\ blen s' = blen s /\ limit s' = limit s /\ eof s' = eof s /\ late s' = late s.
Proof. unfold maybe_resume. destruct (rpaused s && negb (should_pause s)); simpl; repeat split. Qed.

Lemma read_finish_sim exact s n acc got brk :
  (exact = true \/ n <= 0) -> got = nonnil acc ->
  (brk = false -> rbuf s = [] \/ n = 0) ->
  (brk = true -> n <> 0 /\ acc <> [] /\ exists e r, rbuf s = Exn e :: r) ->
  forall F eofF, (eof s = true -> F = [] /\ eofF = true) ->
    spec_read n acc (toks (rbuf s) ++ F) eofF =
    match read_finish exact s n acc got brk with
    | Done r => Some (r, toks (rbuf s) ++ F)
    | Blocked l => spec_read (l_n l) (l_acc l) (toks (rbuf s) ++ F) eofF
    end.
Proof.
  intros Hex Hgot Hnb Hb F eofF Hside. unfold read_finish.
  destruct brk.
  - destruct (Hb eq_refl) as (Hn & Hacc & e & r & Hrb).
    rewrite !orb_true_r. rewrite Hrb. simpl. rewrite spec_read_exn by assumption.
    destruct acc; [contradiction|]. simpl. unfold fin_read.
    destruct Hex as [->|Hle]; [rewrite andb_true_r; reflexivity|].
    assert (E : 0 <? n = false) by lia. rewrite E. reflexivity.
  - destruct (Hnb eq_refl) as [Hrb|Hn0].
    + rewrite Hrb. simpl. destruct (n =? 0) eqn:E0.
      * assert (n = 0) by lia. subst n. simpl. reflexivity.
      * simpl. assert (Hc : (0 <? n) && got && negb exact = false).
        { destruct Hex as [->|Hle]; [rewrite andb_false_r; reflexivity|].
          assert (E : 0 <? n = false) by lia. rewrite E. reflexivity. }
        rewrite Hc, andb_false_r. simpl. destruct (eof s) eqn:Ee.
        -- destruct (Hside eq_refl) as [-> ->]. simpl. rewrite spec_read_end by lia. unfold fin_read.
           destruct Hex as [->|Hle]; [rewrite andb_true_r; reflexivity|].
           assert (E : 0 <? n = false) by lia. rewrite E. reflexivity.
        -- simpl. reflexivity.
    + subst n. simpl. reflexivity.
Qed.

Lemma read_loop_eq exact orc s n acc got :
  read_loop exact orc s n acc got =
  let '(rb, n1, acc1, got1, bl1, ex) := read_inner (rbuf s) n acc got (blen s) in
  let s1 := set_rbuf s rb bl1 in
  match ex with
  | XRaise e => (Done (RRaise e), s1, orc)
  | _ =>
      let brk := match ex with XBreakRead => true | _ => false end in
      let '(s2, resumed) := maybe_resume s1 in
      match resumed, orc with
      | true, b :: orc' =>
          if brk then (read_finish exact (deliver_all s2 b) n1 acc1 got1 true, deliver_all s2 b, orc')
          else read_loop exact orc' (deliver_all s2 b) n1 acc1 got1
      | _, _ => (read_finish exact s2 n1 acc1 got1 brk, s2, orc)
      end
  end.
Proof. destruct orc; reflexivity. Qed.

Lemma read_finish_brk exact s n acc got :
  (exact = true \/ n <= 0) -> read_finish exact s n acc got true = Done (fin_read n acc).
Proof.
  intros Hex. unfold read_finish, fin_read. rewrite !orb_true_r.
  destruct Hex as [->|Hle]; [rewrite andb_true_r; reflexivity|].
  assert (E : 0 <? n = false) by lia. rewrite E. reflexivity.
Qed.

(* what a call does to the history variables and the invariant *)
Definition op_post (s s' : sess) (dlt : list item) : Prop :=
  dl s' = dl s ++ dlt /\ limit s' = limit s /\
  (eof s = true -> eof s' = true) /\ (late s = true -> late s' = true) /\
  (eof s = true -> dlt <> [] -> late s' = true) /\ chunks_ok dlt.

Lemma op_post_refl s : op_post s s [].
Proof. unfold op_post. rewrite app_nil_r. repeat split; auto; try (intros _ H; contradiction); constructor. Qed.

Lemma op_post_same s s' :
  dl s' = dl s -> limit s' = limit s -> eof s' = eof s -> late s' = late s -> op_post s s' [].
Proof.
  intros H1 H2 H3 H4. unfold op_post. rewrite H1, H2, H3, H4, app_nil_r. repeat split; auto; try (intros _ H; contradiction);
    constructor.
Qed.

Lemma op_post_trans s1 s2 s3 a b : op_post s1 s2 a -> op_post s2 s3 b -> op_post s1 s3 (a ++ b).
Proof.
  intros (A2 & A4 & A5 & A6 & A7 & A8) (B2 & B4 & B5 & B6 & B7 & B8).
  unfold op_post. rewrite B2, A2, B4, A4, !app_assoc.
  repeat split; auto.
  - intros He Hab. destruct a as [|x a].
    + simpl in Hab. apply B7; auto.
    + apply B6. apply A7; [assumption|discriminate].
  - apply chunks_ok_app. split; assumption.
Qed.

Lemma op_post_of_extends s s' dlt : extends s s' dlt -> op_post s s' dlt.
Proof. intros (E1 & E2 & E3 & E4 & E5 & E6 & E7 & E8). unfold op_post. repeat split; assumption. Qed.

Lemma read_loop_post exact : forall orc s n acc got o s' orc',
  read_loop exact orc s n acc got = (o, s', orc') -> exists dlt, op_post s s' dlt.
Proof.
  induction orc as [|b orc IH]; intros s n acc got o s' orc' H; rewrite read_loop_eq in H;
    destruct (read_inner (rbuf s) n acc got (blen s)) as [[[[[rb n1] acc1] got1] bl1] ex];
    cbv zeta in H;
    pose proof (maybe_resume_fields (set_rbuf s rb bl1)) as Hmr;
    destruct (maybe_resume (set_rbuf s rb bl1)) as [s2 resumed]; simpl in Hmr;
    destruct Hmr as (M1 & M2 & M3 & M4 & M5 & M6).
  - destruct ex; destruct resumed; inversion H; subst; exists []; apply op_post_same; auto.
  - assert (P2 : op_post s s2 []) by (apply op_post_same; auto).
    destruct (deliver_all_extends b s2) as [d3 E3]. apply op_post_of_extends in E3.
    destruct ex.
    + destruct resumed.
      * apply IH in H. destruct H as [d4 P4]. exists (([] ++ d3) ++ d4).
        eapply op_post_trans; [eapply op_post_trans; eassumption|eassumption].
      * inversion H; subst. exists []. assumption.
    + destruct resumed.
      * inversion H; subst. exists ([] ++ d3). eapply op_post_trans; eassumption.
      * inversion H; subst. exists []. assumption.
    + inversion H; subst. exists []. apply op_post_same; auto.
Qed.

Lemma read_finish_blocked exact s n acc got brk l :
  read_finish exact s n acc got brk = Blocked l ->
  l = mkLoc n acc got 0 0 /\ n <> 0 /\ eof s = false /\ brk = false.
Proof.
  unfold read_finish. intros H.
  destruct ((n =? 0) || (0 <? n) && got && negb exact
            || (n <? 0) && match rbuf s with [] => false | _ :: _ => true end || eof s || brk) eqn:E;
    [discriminate|].
  inversion H; subst. repeat (apply orb_false_iff in E as [E ?]). repeat split; try assumption. lia.
Qed.

Lemma SInv_consume s rb bl :
  SInv s -> chunks_ok rb -> rlen rb <= rlen (rbuf s) -> bl = blen s - (rlen (rbuf s) - rlen rb) ->
  SInv (set_rbuf s rb bl).
Proof.
  intros (I1 & I2 & I3) Hc Hr Hb. unfold SInv. simpl. repeat split; try assumption; lia.
Qed.

Lemma SInv_fields s s' :
  rbuf s' = rbuf s -> dl s' = dl s -> blen s' = blen s -> SInv s -> SInv s'.
Proof. intros H1 H2 H3 (I1 & I2 & I3). unfold SInv. rewrite H1, H2, H3. repeat split; assumption. Qed.

Definition read_sim_goal (exact : bool) (s s' : sess) (n : Z) (acc : bytes) (dlt : list item) (o : outcome) : Prop :=
  (forall F eofF, (eof s' = true -> F = [] /\ eofF = true) ->
     spec_read n acc (toks (rbuf s) ++ toks dlt ++ F) eofF =
     match o with
     | Done r => Some (r, toks (rbuf s') ++ F)
     | Blocked l => spec_read (l_n l) (l_acc l) (toks (rbuf s') ++ F) eofF
     end) /\
  (forall l, o = Blocked l ->
     l_got l = nonnil (l_acc l) /\ (exact = true \/ l_n l <= 0) /\
     spec_read (l_n l) (l_acc l) (toks (rbuf s')) (eof s') = None).

Lemma read_fin_at exact s s2 n acc rb n1 acc1 got1 brk o :
  (exact = true \/ n1 <= 0) -> got1 = nonnil acc1 -> rbuf s2 = rb ->
  (brk = false -> rb = [] \/ n1 = 0) ->
  (brk = true -> n1 <> 0 /\ acc1 <> [] /\ exists e r, rb = Exn e :: r) ->
  read_finish exact s2 n1 acc1 got1 brk = o ->
  (forall F eofF, spec_read n acc (toks (rbuf s) ++ F) eofF
                  = if brk then Some (fin_read n1 acc1, toks rb ++ F) else spec_read n1 acc1 (toks rb ++ F) eofF) ->
  read_sim_goal exact s s2 n acc [] o.
Proof.
  intros Hex1 Hg1 M1 Hnb Hbk Hres Hsp. subst o. split.
  - intros F eofF Hside. simpl. rewrite Hsp.
    pose proof (read_finish_sim exact s2 n1 acc1 got1 brk Hex1 Hg1) as Hf.
    rewrite M1 in Hf. specialize (Hf Hnb Hbk F eofF Hside).
    destruct brk.
    + rewrite read_finish_brk in * by assumption. rewrite M1. reflexivity.
    + rewrite M1. exact Hf.
  - intros l Hl. apply read_finish_blocked in Hl. destruct Hl as (-> & Hn & He & ->).
    simpl. split; [assumption|]. split; [assumption|].
    destruct (Hnb eq_refl) as [Hrb|?]; [|contradiction].
    rewrite M1, Hrb. simpl. rewrite He. apply spec_read_end. assumption.
Qed.

Lemma read_loop_sim exact : forall orc s n acc got o s' orc',
  read_loop exact orc s n acc got = (o, s', orc') ->
  (exact = true \/ n <= 0) -> SInv s -> got = nonnil acc -> chunks_ok (dl s') ->
  exists dlt, op_post s s' dlt /\ SInv s' /\ read_sim_goal exact s s' n acc dlt o.
Proof.
  induction orc as [|b orc IH]; intros s n acc got o s' orc' H Hex HI Hgot Hdl;
    rewrite read_loop_eq in H;
    destruct (read_inner (rbuf s) n acc got (blen s)) as [[[[[rb n1] acc1] got1] bl1] ex] eqn:Ei;
    cbv zeta in H;
    (apply read_inner_sim in Ei; [|apply HI|assumption]);
    destruct Ei as (Hg1 & Hc1 & Hb1 & Hr1 & Hs1 & Hx1 & Hspec);
    assert (Hex1 : exact = true \/ n1 <= 0) by (destruct Hex; [left; assumption|right; lia]);
    assert (HI1 : SInv (set_rbuf s rb bl1)) by (apply SInv_consume; assumption);
    pose proof (maybe_resume_fields (set_rbuf s rb bl1)) as Hmr;
    destruct (maybe_resume (set_rbuf s rb bl1)) as [s2 resumed]; simpl in Hmr;
    destruct Hmr as (M1 & M2 & M3 & M4 & M5 & M6);
    assert (HI2 : SInv s2) by (exact (SInv_fields (set_rbuf s rb bl1) s2 M1 M2 M3 HI1));
    assert (P2 : op_post s s2 []) by (apply op_post_same; auto).
  - (* no synchronous deliveries left *)
    destruct ex as [| |e].
    + assert (Hr : (read_finish exact s2 n1 acc1 got1 false, s2, @nil (list ev)) = (o, s', orc'))
        by (destruct resumed; exact H).
      inversion Hr; subst s' orc'. exists []. split; [assumption|]. split; [assumption|].
      refine (read_fin_at exact s s2 n acc rb n1 acc1 got1 false _ Hex1 Hg1 M1 _ _ eq_refl _);
        [intros _; assumption | discriminate | intros F eofF; apply Hspec].
    + assert (Hr : (read_finish exact s2 n1 acc1 got1 true, s2, @nil (list ev)) = (o, s', orc'))
        by (destruct resumed; exact H).
      inversion Hr; subst s' orc'. exists []. split; [assumption|]. split; [assumption|].
      refine (read_fin_at exact s s2 n acc rb n1 acc1 got1 true _ Hex1 Hg1 M1 _ _ eq_refl _);
        [discriminate | intros _; assumption | intros F eofF; apply Hspec].
    + inversion H; subst o s' orc'. exists []. split; [apply op_post_same; auto|].
      split; [assumption|]. split.
      * intros F eofF _. simpl. apply Hspec.
      * discriminate.
  - destruct ex as [| |e].
    + destruct resumed.
      * (* resumed, batch delivered, the loop continues *)
        destruct (deliver_all_extends b s2) as [d3 E3].
        pose proof H as Hp. apply read_loop_post in Hp. destruct Hp as [d4 P4].
        assert (Hdl3 : chunks_ok (dl (deliver_all s2 b))).
        { destruct P4 as (D4 & _). rewrite D4 in Hdl. apply chunks_ok_app in Hdl. apply Hdl. }
        assert (HI3 : SInv (deliver_all s2 b)) by (eapply SInv_extends; eassumption).
        apply IH in H; try assumption.
        destruct H as (d5 & P5 & HI5 & G5 & B5).
        exists (([] ++ d3) ++ d5). split.
        { eapply op_post_trans; [eapply op_post_trans; [exact P2|apply op_post_of_extends; exact E3]|exact P5]. }
        split; [assumption|]. split.
        -- intros F eofF Hside. simpl. rewrite toks_app, <- !app_assoc. rewrite Hspec.
           destruct E3 as (R3 & _). rewrite <- (G5 F eofF Hside). rewrite R3, M1. simpl.
           rewrite toks_app, <- !app_assoc. reflexivity.
        -- exact B5.
      * inversion H; subst s' orc'. exists []. split; [assumption|]. split; [assumption|].
        refine (read_fin_at exact s s2 n acc rb n1 acc1 got1 false _ Hex1 Hg1 M1 _ _ eq_refl _);
          [intros _; assumption | discriminate | intros F eofF; apply Hspec].
    + destruct resumed.
      * destruct (deliver_all_extends b s2) as [d3 E3].
        inversion H; subst s' orc'. clear H.
        assert (HI3 : SInv (deliver_all s2 b)) by (eapply SInv_extends; eassumption).
        exists ([] ++ d3). split.
        { eapply op_post_trans; [exact P2|apply op_post_of_extends; exact E3]. }
        split; [assumption|]. rewrite read_finish_brk by assumption. split.
        -- intros F eofF _. simpl. rewrite Hspec. destruct E3 as (R3 & _). rewrite R3, M1. simpl.
           rewrite toks_app, <- !app_assoc. reflexivity.
        -- discriminate.
      * inversion H; subst s' orc'. exists []. split; [assumption|]. split; [assumption|].
        refine (read_fin_at exact s s2 n acc rb n1 acc1 got1 true _ Hex1 Hg1 M1 _ _ eq_refl _);
          [discriminate | intros _; assumption | intros F eofF; apply Hspec].
    + inversion H; subst o s' orc'. exists []. split; [apply op_post_same; auto|].
      split; [assumption|]. split.
      * intros F eofF _. simpl. apply Hspec.
      * discriminate.
Qed.

(* ====================================================================================== *)
(* Part 4. readuntil: the search, the incremental window, and the specification.           *)

(* all separators have the same positive length L (a single separator, readline, or a set of
   equal-length separators) *)
Definition eqlen (L : Z) (seps : list bytes) : Prop := 0 < L /\ Forall (fun p => zlen p = L) seps.

Lemma zprefix_len p : forall s, zprefix p s = true -> zlen p <= zlen s.
Proof.
  induction p as [|x p IH]; intros s H; simpl in *.
  - unfold zlen; simpl; lia.
  - destruct s as [|y s]; [discriminate|]. apply andb_true_iff in H as [_ H]. apply IH in H.
    unfold zlen in *; simpl; lia.
Qed.

Lemma zprefix_app_le p : forall u v, zlen p <= zlen u -> zprefix p (u ++ v) = zprefix p u.
Proof.
  induction p as [|x p IH]; intros u v H; simpl; [reflexivity|].
  destruct u as [|y u]; [unfold zlen in H; simpl in H; lia|]. simpl. f_equal. apply IH.
  unfold zlen in *; simpl in *; lia.
Qed.

Lemma match_at_some L seps s l : eqlen L seps -> match_at seps s = Some l -> l = L /\ L <= zlen s.
Proof.
  intros [HL Hall]. induction seps as [|p r IH]; simpl; [discriminate|].
  inversion Hall as [|? ? Hp Hr]; subst. destruct (zprefix p s) eqn:E.
  - intros H; inversion H; subst. split; [reflexivity|]. apply zprefix_len; assumption.
  - apply IH; assumption.
Qed.

Lemma match_at_app_stable L seps u v : eqlen L seps -> L <= zlen u -> match_at seps (u ++ v) = match_at seps u.
Proof.
  intros [HL Hall] Hu. induction seps as [|p r IH]; simpl; [reflexivity|].
  inversion Hall as [|? ? Hp Hr]; subst. rewrite zprefix_app_le by lia.
  destruct (zprefix p u); [reflexivity|]. apply IH; assumption.
Qed.

Lemma match_at_short L seps s : eqlen L seps -> zlen s < L -> match_at seps s = None.
Proof.
  intros He Hs. destruct (match_at seps s) as [l|] eqn:E; [|reflexivity].
  destruct (match_at_some _ _ _ _ He E). lia.
Qed.

Lemma search_from_short L seps : forall s pos, eqlen L seps -> zlen s < L -> search_from seps s pos = None.
Proof.
  induction s as [|z r IH]; intros pos He Hs; simpl; rewrite (match_at_short L) by assumption; [reflexivity|].
  apply IH; [assumption|]. unfold zlen in *; simpl in *; lia.
Qed.

Lemma search_from_bounds L seps : forall s pos e, eqlen L seps ->
  search_from seps s pos = Some e -> pos + L <= e /\ e <= pos + zlen s.
Proof.
  induction s as [|z r IH]; intros pos e He H; simpl in H.
  - destruct (match_at seps []) as [l|] eqn:E; [|discriminate].
    destruct (match_at_some _ _ _ _ He E). inversion H; subst. lia.
  - destruct (match_at seps (z :: r)) as [l|] eqn:E.
    + destruct (match_at_some _ _ _ _ He E). inversion H; subst. lia.
    + apply IH in H; [|assumption]. unfold zlen in *; simpl; lia.
Qed.

(* a match found in a prefix of the data is the match found in all of the data *)
Lemma search_from_app_stable L seps : forall p q pos e, eqlen L seps ->
  search_from seps p pos = Some e -> search_from seps (p ++ q) pos = Some e.
Proof.
  induction p as [|z r IH]; intros q pos e He H.
  - rewrite (search_from_short L) in H; [discriminate|assumption|]. unfold zlen; simpl. destruct He; lia.
  - simpl in H. simpl app. simpl search_from.
    destruct (Z_lt_le_dec (zlen (z :: r)) L) as [Hlt|Hge].
    + rewrite (match_at_short L) in H by assumption.
      rewrite (search_from_short L) in H; [discriminate|assumption|]. unfold zlen in *; simpl in *; lia.
    + change (z :: r ++ q) with ((z :: r) ++ q). rewrite (match_at_app_stable L) by assumption.
      destruct (match_at seps (z :: r)); [assumption|]. apply IH; assumption.
Qed.

Lemma search_none_all seps : forall s pos, search_from seps s pos = None ->
  forall j, match_at seps (skipn j s) = None.
Proof.
  induction s as [|z r IH]; intros pos H j; simpl in H.
  - rewrite skipn_nil. destruct (match_at seps []); [discriminate|reflexivity].
  - destruct (match_at seps (z :: r)) eqn:E; [discriminate|]. destruct j; simpl; [assumption|].
    eapply IH; eassumption.
Qed.

Lemma search_from_skipk seps : forall k s pos, (k <= length s)%nat ->
  (forall j, (j < k)%nat -> match_at seps (skipn j s) = None) ->
  search_from seps s pos = search_from seps (skipn k s) (pos + Z.of_nat k).
Proof.
  induction k as [|k IH]; intros s pos Hk Hall.
  - simpl. rewrite Z.add_0_r. reflexivity.
  - destruct s as [|z r]; [simpl in Hk; lia|].
    simpl search_from at 1. pose proof (Hall 0%nat ltac:(lia)) as H0. simpl in H0. rewrite H0.
    rewrite (IH r (pos + 1)).
    + simpl skipn. f_equal. lia.
    + simpl in Hk; lia.
    + intros j Hj. apply (Hall (S j)). lia.
Qed.

(* the search window of readuntil: nothing is missed by starting at buflen + 1 - seplen *)
Lemma search_window L seps buf d : eqlen L seps ->
  search seps buf 0 = None ->
  search seps (buf ++ d) (search_start L (zlen buf)) = search seps (buf ++ d) 0.
Proof.
  intros He Hn. unfold search in *. simpl skipn in *.
  pose proof He as [HL _]. unfold search_start. destruct (L =? 0) eqn:E0; [lia|].
  set (st := Z.max (zlen buf + 1 - L) 0).
  assert (Hst : 0 <= st) by lia.
  assert (Hk : (Z.to_nat st <= length (buf ++ d))%nat) by (rewrite app_length; unfold zlen in *; lia).
  rewrite (search_from_skipk seps (Z.to_nat st) (buf ++ d) 0 Hk).
  - f_equal. lia.
  - intros j Hj.
    assert (Hjb : (j <= length buf)%nat) by (unfold zlen in *; lia).
    rewrite skipn_app. replace (j - length buf)%nat with 0%nat by lia. simpl skipn at 2.
    rewrite (match_at_app_stable L) by (try assumption; unfold zlen in *; rewrite skipn_length; lia).
    eapply search_none_all. eassumption.
Qed.

Lemma search_app_stable L seps p q idx : eqlen L seps ->
  search seps p 0 = Some idx -> search seps (p ++ q) 0 = Some idx.
Proof. unfold search. simpl. intros. eapply search_from_app_stable; eassumption. Qed.

Lemma search_bounds L seps s idx : eqlen L seps -> search seps s 0 = Some idx -> 0 < idx <= zlen s.
Proof.
  unfold search. simpl. intros He H. destruct (search_from_bounds _ _ _ _ _ He H). destruct He. lia.
Qed.

Lemma search_nil L seps : eqlen L seps -> search seps [] 0 = None.
Proof. intros He. unfold search. simpl skipn. apply (search_from_short L); [assumption|]. destruct He. unfold zlen; simpl; lia. Qed.

Definition spec_until (seps : list bytes) (t : list tok) (eofF : bool) : option (result * list tok) :=
  let (d, rest) := span_bytes t in
  match search seps d 0 with
  | Some idx => Some (ROk (firstn (Z.to_nat idx) d), map B (skipn (Z.to_nat idx) d) ++ rest)
  | None =>
      match rest with
      | X e :: rest' =>
          if is_nil d then (if e =? SOFT_EOF then Some (ROk [], rest') else Some (RRaise e, rest'))
          else Some (RIncomplete d None, rest)
      | _ => if eofF then Some (RIncomplete d None, rest) else None
      end
  end.

Lemma toks_chunks cs : toks (map Chunk cs) = map B (concat cs).
Proof. induction cs as [|c cs IH]; simpl; [reflexivity|]. rewrite map_app, <- IH. reflexivity. Qed.

Lemma rlen_chunks cs : rlen (map Chunk cs) = zlen (concat cs).
Proof. induction cs as [|c cs IH]; simpl; [reflexivity|]. rewrite zlen_app, IH. reflexivity. Qed.

Lemma chunks_ok_concat_nil cs : chunks_ok (map Chunk cs) -> concat cs = [] -> cs = [].
Proof.
  destruct cs as [|c cs]; [reflexivity|]. intros H E. inversion H as [|? ? Hc _]; subst. simpl in Hc, E.
  destruct c; [contradiction|discriminate].
Qed.

(* the loop over recv_buf[curbuf:] *)
Lemma until_scan_sim L seps : eqlen L seps -> forall rest cur buf buflen,
  buflen = zlen buf -> search seps buf 0 = None ->
  match until_scan seps L rest cur buf buflen with
  | ScanMatch c buf' idx =>
      exists pre d post, rest = map Chunk pre ++ Chunk d :: post /\ c = (cur + length pre)%nat /\
                         buf' = buf ++ concat pre ++ d /\ search seps buf' 0 = Some idx
  | ScanExn c buf' bl =>
      exists pre e post, rest = map Chunk pre ++ Exn e :: post /\ c = (cur + length pre)%nat /\
                         buf' = buf ++ concat pre /\ bl = zlen buf' /\ search seps buf' 0 = None
  | ScanEnd c buf' bl =>
      exists pre, rest = map Chunk pre /\ c = (cur + length pre)%nat /\
                  buf' = buf ++ concat pre /\ bl = zlen buf' /\ search seps buf' 0 = None
  end.
Proof.
  intros He. induction rest as [|it rest IH]; intros cur buf buflen Hbl Hn; simpl.
  - exists []. simpl. rewrite app_nil_r, Nat.add_0_r. repeat split; assumption.
  - destruct it as [d|e].
    + subst buflen. rewrite (search_window L) by assumption.
      destruct (search seps (buf ++ d) 0) as [idx|] eqn:Es.
      * exists [], d, rest. simpl. rewrite Nat.add_0_r. repeat split; assumption.
      * specialize (IH (S cur) (buf ++ d) (zlen buf + zlen d)). rewrite <- zlen_app in IH.
        specialize (IH eq_refl Es). rewrite <- zlen_app.
        destruct (until_scan seps L rest (S cur) (buf ++ d) (zlen (buf ++ d))) as [c b' i|c b' bl|c b' bl].
        -- destruct IH as (pre & d' & post & -> & -> & -> & Hs). exists (d :: pre), d', post. simpl.
           rewrite <- !app_assoc in *. repeat split; try assumption. lia.
        -- destruct IH as (pre & e & post & -> & -> & -> & Hb & Hs). exists (d :: pre), e, post. simpl.
           rewrite <- !app_assoc in *. repeat split; try assumption. lia.
        -- destruct IH as (pre & -> & -> & -> & Hb & Hs). exists (d :: pre). simpl.
           rewrite <- !app_assoc in *. repeat split; try assumption. lia.
    + exists [], e, rest. simpl. rewrite app_nil_r, Nat.add_0_r. repeat split; assumption.
Qed.

(* the saved local state of a suspended readuntil describes a scanned prefix of the buffer *)
Definition coh (seps : list bytes) (l : loc) (rb : list item) : Prop :=
  exists cs, firstn (l_cur l) rb = map Chunk cs /\ length cs = l_cur l /\
             l_acc l = concat cs /\ l_buflen l = zlen (l_acc l) /\ search seps (l_acc l) 0 = None.

Lemma coh_split seps l rb : coh seps l rb ->
  exists cs, rb = map Chunk cs ++ skipn (l_cur l) rb /\ length cs = l_cur l /\
             l_acc l = concat cs /\ l_buflen l = zlen (l_acc l) /\ search seps (l_acc l) 0 = None.
Proof.
  intros (cs & H1 & H2 & H3 & H4 & H5). exists cs. rewrite <- H1, firstn_skipn. repeat split; assumption.
Qed.

Lemma coh_app seps l rb dlt : coh seps l rb -> coh seps l (rb ++ dlt).
Proof.
  intros (cs & H1 & H2 & H3 & H4 & H5). exists cs. repeat split; try assumption.
  assert (Hlen : (l_cur l <= length rb)%nat).
  { rewrite <- H2. assert (E : length (firstn (l_cur l) rb) = length cs) by (rewrite H1, map_length; reflexivity).
    rewrite firstn_length in E. lia. }
  rewrite firstn_app. replace (l_cur l - length rb)%nat with 0%nat by lia. simpl. rewrite app_nil_r. assumption.
Qed.

Lemma coh_loc0 L seps rb : eqlen L seps -> coh seps (mkLoc 0 [] false 0 0) rb.
Proof. intros He. exists []. simpl. repeat split; try reflexivity. eapply search_nil; eassumption. Qed.

Lemma skipn_app_exact {A} (a b : list A) : skipn (length a) (a ++ b) = b.
Proof. induction a; simpl; [reflexivity|assumption]. Qed.

Lemma maybe_resume_unpaused s : rpaused s = false -> maybe_resume s = (s, false).
Proof. intros H. unfold maybe_resume. rewrite H. reflexivity. Qed.

Lemma is_nil_spec {A} (l : list A) : is_nil l = true <-> l = [].
Proof. destruct l; simpl; split; intros H; try reflexivity; discriminate. Qed.

Definition until_goal (seps : list bytes) (s s' : sess) (o : outcome) : Prop :=
  (forall F eofF, (eof s' = true -> F = [] /\ eofF = true) ->
     spec_until seps (toks (rbuf s) ++ F) eofF =
     match o with
     | Done r => Some (r, toks (rbuf s') ++ F)
     | Blocked _ => spec_until seps (toks (rbuf s') ++ F) eofF
     end) /\
  (forall l', o = Blocked l' -> coh seps l' (rbuf s') /\ spec_until seps (toks (rbuf s')) (eof s') = None).

Lemma until_run_sim L seps orc s l o s' orc' :
  eqlen L seps -> until_run seps L orc s l = (o, s', orc') ->
  SInv s -> coh seps l (rbuf s) -> rpaused s = false ->
  orc' = orc /\ op_post s s' [] /\ SInv s' /\ rpaused s' = false /\ until_goal seps s s' o.
Proof.
  intros He H HI Hcoh Hrp. unfold until_run_v in H.
  destruct (coh_split _ _ _ Hcoh) as (cs & Hrb & Hlen & Hacc & Hbl & Hnone).
  pose proof (until_scan_sim L seps He (skipn (l_cur l) (rbuf s)) (l_cur l) (l_acc l) (l_buflen l) Hbl Hnone) as Hscan.
  destruct HI as (I1 & I2 & I3).
  destruct (until_scan seps L (skipn (l_cur l) (rbuf s)) (l_cur l) (l_acc l) (l_buflen l)) as [c buf idx|c buf bl|c buf bl].
  - (* a separator was found *)
    destruct Hscan as (pre & d & post & Hrest & Hc & Hbuf & Hs).
    rewrite Hrest in Hrb.
    assert (Hrb' : rbuf s = map Chunk (cs ++ pre) ++ Chunk d :: post) by (rewrite map_app, <- app_assoc; exact Hrb).
    assert (Hskip : skipn c (rbuf s) = Chunk d :: post).
    { rewrite Hrb', Hc, <- Hlen, <- app_length, <- (map_length Chunk). apply skipn_app_exact. }
    rewrite Hskip in H.
    rewrite maybe_resume_unpaused in H by (simpl; assumption). cbn [after_resume_v] in H.
    destruct (search_bounds _ _ _ _ He Hs) as [Hi0 Hi1].
    assert (Hbuf' : buf = concat (cs ++ pre) ++ d) by (rewrite concat_app, <- Hacc, <- app_assoc; exact Hbuf).
    set (tailbuf := skipn (Z.to_nat idx) buf) in *.
    assert (Htl : zlen tailbuf = zlen buf - idx) by (unfold tailbuf, zlen in *; rewrite skipn_length; lia).
    assert (Hok : chunks_ok post).
    { rewrite Hrb' in I2. apply chunks_ok_app in I2 as [_ I2]. inversion I2; assumption. }
    assert (Hrl : rlen (rbuf s) = zlen buf + rlen post).
    { rewrite Hrb', rlen_app, rlen_chunks, Hbuf', zlen_app. simpl. lia. }
    set (rb2 := if is_nil tailbuf then post else Chunk tailbuf :: post) in *.
    assert (Hrl2 : rlen rb2 = zlen tailbuf + rlen post).
    { unfold rb2. destruct tailbuf; simpl; [unfold zlen; simpl; lia|reflexivity]. }
    assert (Htk2 : toks rb2 = map B tailbuf ++ toks post).
    { unfold rb2. destruct tailbuf; simpl; reflexivity. }
    assert (Hok2 : chunks_ok rb2).
    { unfold rb2. destruct tailbuf eqn:Et; simpl; [assumption|]. constructor; [simpl; discriminate|assumption]. }
    inversion H; subst o s' orc'. clear H.
    split; [reflexivity|]. split; [apply op_post_same; reflexivity|].
    split; [unfold SInv; simpl; repeat split; [lia|assumption|lia]|].
    split; [simpl; assumption|]. split.
    + intros F eofF _. simpl rbuf.
      rewrite Hrb', toks_app, toks_chunks. simpl toks. rewrite <- !app_assoc.
      rewrite (app_assoc (map B (concat (cs ++ pre)))), <- map_app, <- Hbuf'.
      unfold spec_until. rewrite span_app_bytes.
      destruct (span_bytes (toks post ++ F)) as [d2 rest2] eqn:Esp.
      rewrite (search_app_stable L seps buf d2 idx He Hs).
      assert (Hk : (Z.to_nat idx <= length buf)%nat) by (unfold zlen in *; lia).
      rewrite firstn_app, skipn_app. replace (Z.to_nat idx - length buf)%nat with 0%nat by lia.
      simpl. rewrite app_nil_r. fold tailbuf. rewrite map_app, <- app_assoc.
      rewrite <- (span_recompose _ _ _ Esp). rewrite Htk2, <- app_assoc. reflexivity.
    + discriminate.
  - (* an exception follows the scanned data *)
    destruct Hscan as (pre & e & post & Hrest & Hc & Hbuf & Hblz & Hs).
    rewrite Hrest in Hrb.
    assert (Hrb' : rbuf s = map Chunk (cs ++ pre) ++ Exn e :: post) by (rewrite map_app, <- app_assoc; exact Hrb).
    assert (Hskip : skipn c (rbuf s) = Exn e :: post).
    { rewrite Hrb', Hc, <- Hlen, <- app_length, <- (map_length Chunk). apply skipn_app_exact. }
    assert (Hbuf' : buf = concat (cs ++ pre)) by (rewrite concat_app, <- Hacc; exact Hbuf).
    assert (Hok : chunks_ok post /\ chunks_ok (map Chunk (cs ++ pre))).
    { rewrite Hrb' in I2. apply chunks_ok_app in I2 as [I2a I2]. inversion I2; split; assumption. }
    destruct Hok as [Hok Hokp].
    assert (Hrl : rlen (rbuf s) = zlen buf + rlen post).
    { rewrite Hrb', rlen_app, rlen_chunks, Hbuf'. simpl. lia. }
    assert (Htk : forall F, toks (rbuf s) ++ F = map B buf ++ X e :: toks post ++ F).
    { intros F. rewrite Hrb', toks_app, toks_chunks, <- Hbuf'. simpl. rewrite <- app_assoc. reflexivity. }
    destruct (is_nil buf) eqn:En.
    + (* nothing before it: the exception itself is delivered *)
      apply is_nil_spec in En. simpl negb in H. cbv iota in H.
      assert (Hcp : cs ++ pre = []) by (apply chunks_ok_concat_nil; [assumption|congruence]).
      rewrite Hcp in Hrb'. simpl in Hrb'. rewrite Hrb' in H.
      inversion H; subst o s' orc'. clear H.
      split; [reflexivity|]. split; [apply op_post_same; reflexivity|].
      split; [unfold SInv; simpl; rewrite Hrb' in *; simpl in *; repeat split; [lia|assumption|lia]|].
      split; [simpl; assumption|]. split.
      * intros F eofF _. simpl rbuf. rewrite Htk, En. simpl. unfold spec_until. simpl.
        rewrite (search_nil L) by assumption. simpl. destruct (e =? SOFT_EOF); reflexivity.
      * destruct (e =? SOFT_EOF); discriminate.
    + simpl negb in H. cbv iota in H. rewrite Hskip in H. pose proof (zlen_nonneg buf) as Hzb.
      rewrite maybe_resume_unpaused in H by (simpl; assumption). cbn [after_resume_v] in H.
      inversion H; subst o s' orc'. clear H.
      split; [reflexivity|]. split; [apply op_post_same; reflexivity|].
      split; [unfold SInv; simpl; repeat split; [lia|constructor; [exact I|assumption]|lia]|].
      split; [simpl; assumption|]. split.
      * intros F eofF _. simpl rbuf. rewrite Htk. unfold spec_until. rewrite span_app_bytes. simpl.
        rewrite app_nil_r, Hs, En. reflexivity.
      * discriminate.
  - (* everything buffered has been scanned *)
    destruct Hscan as (pre & Hrest & Hc & Hbuf & Hblz & Hs).
    rewrite Hrest in Hrb.
    assert (Hrb' : rbuf s = map Chunk (cs ++ pre)) by (rewrite map_app; exact Hrb).
    assert (Hskip : skipn c (rbuf s) = []).
    { rewrite Hrb', Hc, <- Hlen, <- app_length, <- (map_length Chunk). apply skipn_all. }
    assert (Hbuf' : buf = concat (cs ++ pre)) by (rewrite concat_app, <- Hacc; exact Hbuf).
    assert (Hrl : rlen (rbuf s) = zlen buf) by (rewrite Hrb', rlen_chunks, Hbuf'; reflexivity).
    assert (Htk : toks (rbuf s) = map B buf) by (rewrite Hrb', toks_chunks, Hbuf'; reflexivity).
    rewrite Hrp in H. simpl orb in H. destruct (eof s) eqn:Ee.
    + rewrite Hskip in H. rewrite maybe_resume_unpaused in H by (simpl; assumption). cbn [after_resume_v] in H.
      inversion H; subst o s' orc'. clear H.
      split; [reflexivity|]. split; [apply op_post_same; reflexivity|].
      split; [unfold SInv; simpl; repeat split; [lia|constructor|apply rlen_nonneg]|].
      split; [simpl; assumption|]. split.
      * intros F eofF Hside. simpl in Hside. destruct (Hside Ee) as [-> ->]. simpl rbuf.
        rewrite Htk. unfold spec_until. rewrite app_nil_r.
        replace (map B buf) with (map B buf ++ []) by apply app_nil_r. rewrite span_app_bytes. simpl.
        rewrite app_nil_r, Hs. reflexivity.
      * discriminate.
    + inversion H; subst o s' orc'. clear H.
      split; [reflexivity|]. split; [apply op_post_refl|].
      split; [unfold SInv; repeat split; assumption|]. split; [assumption|]. split.
      * intros F eofF _. reflexivity.
      * intros l' Hl'. inversion Hl'; subst l'. split.
        -- exists (cs ++ pre). simpl. repeat split; try assumption.
           ++ rewrite Hrb'. rewrite Hc, <- Hlen, <- app_length, <- (map_length Chunk). apply firstn_all.
           ++ rewrite app_length. lia.
        -- rewrite Htk, Ee. unfold spec_until.
           replace (map B buf) with (map B buf ++ []) by apply app_nil_r. rewrite span_app_bytes. simpl.
           rewrite app_nil_r, Hs. reflexivity.
Qed.

(* ====================================================================================== *)
(* Part 5. Calls, programs of calls, schedules.                                            *)

Definition line_fix (r : result) : result := match r with RIncomplete p _ => ROk p | _ => r end.

(* what a call returns, as a function of the tokens of the stream only *)
Definition spec_op (o : op) (l : loc) (t : list tok) (eofF : bool) : option (result * list tok) :=
  match o with
  | OpRead _ | OpExact _ => spec_read (l_n l) (l_acc l) t eofF
  | OpUntil1 sep => spec_until [sep] t eofF
  | OpUntilN seps => spec_until seps t eofF
  | OpLine => match spec_until [[NL]] t eofF with Some (r, t') => Some (line_fix r, t') | None => None end
  | OpDrain => None
  end.

(* the calls whose result must not depend on chunking or timing: read to EOF, readexactly,
   readuntil with one separator or with separators of one common length, readline *)
Definition op_ok (o : op) : Prop :=
  match o with
  | OpRead n => n <= 0
  | OpExact _ => True
  | OpUntil1 sep => sep <> []
  | OpUntilN seps => seps <> [] /\ exists L, eqlen L seps
  | OpLine => True
  | OpDrain => False
  end.

Definition is_until (o : op) : bool :=
  match o with OpUntil1 _ | OpUntilN _ | OpLine => true | _ => false end.

Definition op_seps (o : op) : list bytes :=
  match o with OpUntil1 sep => [sep] | OpUntilN seps => seps | OpLine => [[NL]] | _ => [] end.

Definition op_len (o : op) : Z :=
  match o with OpUntil1 sep => zlen sep | OpUntilN seps => max_len seps | OpLine => 1 | _ => 0 end.

Definition loc_ok (o : op) (l : loc) (rb : list item) : Prop :=
  match o with
  | OpRead _ => l_got l = nonnil (l_acc l) /\ l_n l <= 0
  | OpExact _ => l_got l = nonnil (l_acc l)
  | OpDrain => False
  | _ => coh (op_seps o) l rb
  end.

Lemma max_len_ge seps : forall m, m <= fold_left (fun m p => Z.max m (zlen p)) seps m.
Proof. induction seps as [|p r IH]; intros m; simpl; [lia|]. specialize (IH (Z.max m (zlen p))). lia. Qed.

Lemma max_len_eqlen_aux L seps : Forall (fun p => zlen p = L) seps -> forall m, m <= L -> seps <> [] ->
  fold_left (fun m p => Z.max m (zlen p)) seps m = L.
Proof.
  induction seps as [|p r IH]; intros Hall m Hm Hne; [contradiction|]. simpl.
  inversion Hall as [|? ? Hp Hr]; subst. destruct r as [|q r].
  - simpl. lia.
  - apply IH; [assumption|lia|discriminate].
Qed.

Lemma op_eqlen o : op_ok o -> is_until o = true -> eqlen (op_len o) (op_seps o).
Proof.
  destruct o as [n|n|sep|seps| |]; simpl; intros Hok Hu; try discriminate.
  - split; [|constructor; [reflexivity|constructor]].
    destruct sep; [contradiction|unfold zlen; simpl; lia].
  - destruct Hok as [Hne [L [HL Hall]]]. unfold max_len.
    rewrite (max_len_eqlen_aux L) by (try assumption; lia). split; assumption.
  - split; [lia|]. constructor; [reflexivity|constructor].
Qed.

Lemma loc0_ok o rb : op_ok o -> loc_ok o (loc0 o) rb.
Proof.
  intros Hok. pose proof (op_eqlen o Hok) as He.
  destruct o as [n|n|sep|seps| |]; simpl in *; try contradiction.
  - split; [reflexivity|assumption].
  - reflexivity.
  - eapply coh_loc0. apply He. reflexivity.
  - eapply coh_loc0. apply He. reflexivity.
  - eapply coh_loc0. apply He. reflexivity.
Qed.

Lemma loc_ok_app o l rb dlt : loc_ok o l rb -> loc_ok o l (rb ++ dlt).
Proof. destruct o; simpl; try (intros; assumption); apply coh_app. Qed.

Lemma read_loop_np exact orc s n acc got o s' orc' :
  rpaused s = false -> read_loop exact orc s n acc got = (o, s', orc') -> rpaused s' = false.
Proof.
  intros Hrp H. rewrite read_loop_eq in H.
  destruct (read_inner (rbuf s) n acc got (blen s)) as [[[[[rb n1] acc1] got1] bl1] ex].
  cbv zeta in H. rewrite maybe_resume_unpaused in H by (simpl; assumption).
  destruct ex; inversion H; subst; simpl; assumption.
Qed.

Definition side (s' : sess) (F : list tok) (eofF : bool) : Prop := eof s' = true -> F = [] /\ eofF = true.

Definition op_goal (o : op) (l : loc) (s s' : sess) (dlt : list item) (out : outcome) : Prop :=
  (forall F eofF, side s' F eofF ->
     spec_op o l (toks (rbuf s) ++ toks dlt ++ F) eofF =
     match out with
     | Done r => Some (r, toks (rbuf s') ++ F)
     | Blocked l' => spec_op o l' (toks (rbuf s') ++ F) eofF
     end) /\
  (forall l', out = Blocked l' -> loc_ok o l' (rbuf s') /\ spec_op o l' (toks (rbuf s')) (eof s') = None).

Lemma until_run_post seps L orc s l out s' orc' :
  until_run seps L orc s l = (out, s', orc') -> exists dlt, op_post s s' dlt.
Proof.
  intros H. unfold until_run_v in H.
  assert (Hres : forall sx, dl sx = dl s -> limit sx = limit s -> eof sx = eof s -> late sx = late s ->
            forall o1, (let '(s2, resumed) := maybe_resume sx in
                        let '(s3, orc1) := after_resume s2 resumed orc in (o1, s3, orc1)) = (out, s', orc') ->
            exists dlt, op_post s s' dlt).
  { intros sx D1 D2 D3 D4 o1 Hx.
    pose proof (maybe_resume_fields sx) as Hm. destruct (maybe_resume sx) as [s2 resumed]. simpl in Hm.
    destruct Hm as (M1 & M2 & M3 & M4 & M5 & M6).
    assert (P2 : op_post s s2 []) by (apply op_post_same; congruence).
    unfold after_resume_v in Hx. destruct resumed.
    - destruct orc as [|b orc1].
      + inversion Hx; subst. exists []. assumption.
      + inversion Hx; subst. destruct (deliver_all_extends b s2) as [d3 E3].
        exists ([] ++ d3). eapply op_post_trans; [exact P2|apply op_post_of_extends; exact E3].
    - inversion Hx; subst. exists []. assumption. }
  destruct (until_scan seps L (skipn (l_cur l) (rbuf s)) (l_cur l) (l_acc l) (l_buflen l)) as [c buf idx|c buf bl|c buf bl].
  - eapply Hres; [| | | |exact H]; reflexivity.
  - destruct (negb (is_nil buf)).
    + eapply Hres; [| | | |exact H]; reflexivity.
    + destruct (rbuf s) as [|[d|e] r]; inversion H; subst; exists []; try apply op_post_refl; apply op_post_same; reflexivity.
  - destruct (rpaused s || eof s).
    + eapply Hres; [| | | |exact H]; reflexivity.
    + inversion H; subst. exists []. apply op_post_refl.
Qed.

Lemma run_op_post o l orc s out s' orc' :
  run_op o l orc s = (out, s', orc') -> exists dlt, op_post s s' dlt.
Proof.
  destruct o as [n|n|sep|seps| |]; simpl; intros H.
  - eapply read_loop_post; eassumption.
  - eapply read_loop_post; eassumption.
  - destruct (is_nil sep); [inversion H; subst; exists []; apply op_post_refl|]. eapply until_run_post; eassumption.
  - destruct (is_nil seps); [inversion H; subst; exists []; apply op_post_refl|]. eapply until_run_post; eassumption.
  - destruct (until_run [[NL]] 1 orc s l) as [[r sx] ox] eqn:E. inversion H; subst.
    eapply until_run_post; eassumption.
  - inversion H; subst. exists []. apply op_post_refl.
Qed.

Lemma line_result_fix o : line_result o = match o with Done r => Done (line_fix r) | Blocked l => Blocked l end.
Proof. destruct o as [[]|]; reflexivity. Qed.

Lemma run_op_sim (np : bool) o l orc s out s' orc' :
  run_op o l orc s = (out, s', orc') -> op_ok o -> loc_ok o l (rbuf s) -> SInv s -> chunks_ok (dl s') ->
  (np = true -> rpaused s = false) -> (is_until o = true -> np = true) ->
  exists dlt, op_post s s' dlt /\ SInv s' /\ (np = true -> rpaused s' = false) /\ op_goal o l s s' dlt out.
Proof.
  intros H Hok Hloc HI Hdl Hnp Hun.
  assert (Hu : forall seps L r, seps = op_seps o -> L = op_len o -> is_until o = true ->
            coh seps l (rbuf s) -> until_run seps L orc s l = (r, s', orc') ->
            op_post s s' [] /\ SInv s' /\ rpaused s' = false /\ until_goal seps s s' r).
  { intros seps L r -> -> Hiu Hc Hr.
    destruct (until_run_sim _ _ _ _ _ _ _ _ (op_eqlen o Hok Hiu) Hr HI Hc (Hnp (Hun Hiu))) as (_ & P & I & R & G).
    split; [assumption|]. split; [assumption|]. split; assumption. }
  destruct o as [n|n|sep|seps| |]; simpl in H, Hok, Hloc.
  - destruct Hloc as [Hg Hn].
    destruct (read_loop_sim false _ _ _ _ _ _ _ _ H (or_intror Hn) HI Hg Hdl) as (dlt & P & I & G & Bk).
    exists dlt. split; [assumption|]. split; [assumption|]. split.
    { intros Hn'. eapply read_loop_np; [apply Hnp; assumption|eassumption]. }
    split.
    + intros F eofF Hs. simpl. rewrite (G F eofF Hs). destruct out; reflexivity.
    + intros l' Hl'. destruct (Bk l' Hl') as (B1 & B2 & B3). simpl. split; [|assumption].
      split; [assumption|]. destruct B2; [discriminate|assumption].
  - destruct (read_loop_sim true _ _ _ _ _ _ _ _ H (or_introl eq_refl) HI Hloc Hdl) as (dlt & P & I & G & Bk).
    exists dlt. split; [assumption|]. split; [assumption|]. split.
    { intros Hn'. eapply read_loop_np; [apply Hnp; assumption|eassumption]. }
    split.
    + intros F eofF Hs. simpl. rewrite (G F eofF Hs). destruct out; reflexivity.
    + intros l' Hl'. destruct (Bk l' Hl') as (B1 & B2 & B3). simpl. split; assumption.
  - destruct sep as [|z sep]; [contradiction|]. simpl is_nil in H. cbv iota in H.
    destruct (Hu _ _ _ eq_refl eq_refl eq_refl Hloc H) as (P & I & R & G & Bk).
    exists []. split; [assumption|]. split; [assumption|]. split; [intros _; assumption|]. split.
    + intros F eofF Hs. simpl in *. rewrite (G F eofF Hs). destruct out; reflexivity.
    + intros l' Hl'. destruct (Bk l' Hl'). simpl in *. split; assumption.
  - destruct Hok as [Hne HL]. destruct seps as [|p seps]; [contradiction|]. simpl is_nil in H. cbv iota in H.
    destruct (Hu _ _ _ eq_refl eq_refl eq_refl Hloc H) as (P & I & R & G & Bk).
    exists []. split; [assumption|]. split; [assumption|]. split; [intros _; assumption|]. split.
    + intros F eofF Hs. simpl in *. rewrite (G F eofF Hs). destruct out; reflexivity.
    + intros l' Hl'. destruct (Bk l' Hl'). simpl in *. split; assumption.
  - destruct (until_run [[NL]] 1 orc s l) as [[r sx] ox] eqn:E. inversion H; subst out sx ox. clear H.
    destruct (Hu _ _ _ eq_refl eq_refl eq_refl Hloc E) as (P & I & R & G & Bk).
    exists []. split; [assumption|]. split; [assumption|]. split; [intros _; assumption|].
    rewrite line_result_fix. split.
    + intros F eofF Hs. simpl in *. rewrite (G F eofF Hs). destruct r; reflexivity.
    + intros l' Hl'. destruct r as [r|lb]; [discriminate|]. inversion Hl'; subst lb.
      destruct (Bk l' eq_refl) as [B1 B2]. simpl in *. split; [assumption|]. rewrite B2. reflexivity.
  - contradiction.
Qed.

Fixpoint spec_ops (ops : list (op * loc)) (t : list tok) (eofF : bool) : list result :=
  match ops with
  | [] => []
  | (o, l) :: rest =>
      match spec_op o l t eofF with
      | Some (r, t') => r :: spec_ops rest t' eofF
      | None => []
      end
  end.

Definition fresh_ok (np : bool) (ol : op * loc) : Prop :=
  op_ok (fst ol) /\ snd ol = loc0 (fst ol) /\ (is_until (fst ol) = true -> np = true).

Definition ops_ok (np : bool) (ops : list (op * loc)) (rb : list item) : Prop :=
  match ops with
  | [] => True
  | (o, l) :: rest => op_ok o /\ loc_ok o l rb /\ (is_until o = true -> np = true) /\ Forall (fresh_ok np) rest
  end.

Lemma ops_ok_fresh np ops rb : Forall (fresh_ok np) ops -> ops_ok np ops rb.
Proof.
  destruct ops as [|[o l] rest]; simpl; [trivial|]. intros H. inversion H as [|? ? (H1 & H2 & H3) Hr]; subst.
  simpl in *. subst l. repeat split; try assumption. apply loc0_ok; assumption.
Qed.

Lemma ops_ok_app np ops rb dlt : ops_ok np ops rb -> ops_ok np ops (rb ++ dlt).
Proof.
  destruct ops as [|[o l] rest]; simpl; [trivial|]. intros (H1 & H2 & H3 & H4).
  repeat split; try assumption. apply loc_ok_app; assumption.
Qed.

Lemma run_ops_post : forall ops orc s rs rem s' orc',
  run_ops ops orc s = (rs, rem, s', orc') -> exists dlt, op_post s s' dlt.
Proof.
  induction ops as [|[o l] rest IH]; intros orc s rs rem s' orc' H; simpl in H.
  - inversion H; subst. exists []. apply op_post_refl.
  - destruct (run_op o l orc s) as [[out s1] orc1] eqn:E. apply run_op_post in E. destruct E as [d1 P1].
    destruct out as [r|l'].
    + destruct (run_ops rest orc1 s1) as [[[rs2 rem2] s2] orc2] eqn:E2. inversion H; subst.
      apply IH in E2. destruct E2 as [d2 P2]. exists (d1 ++ d2). eapply op_post_trans; eassumption.
    + inversion H; subst. exists d1. assumption.
Qed.

Lemma op_post_late s s' dlt : op_post s s' dlt -> late s' = false -> late s = false.
Proof. intros (_ & _ & _ & H & _ & _) Hl. destruct (late s); [rewrite H in Hl by reflexivity; discriminate|reflexivity]. Qed.

Lemma op_post_dl_ok s s' dlt : op_post s s' dlt -> chunks_ok (dl s') -> chunks_ok (dl s).
Proof. intros (H & _) Hc. rewrite H in Hc. apply chunks_ok_app in Hc. apply Hc. Qed.

(* once EOF has been seen, a run whose final state has late = false delivered nothing more *)
Lemma op_post_frozen s s' dlt : op_post s s' dlt -> late s' = false -> eof s = true -> dlt = [] /\ eof s' = true.
Proof.
  intros (_ & _ & He & _ & Hl & _) Hlate Heof. split; [|apply He; assumption].
  destruct dlt as [|x dlt]; [reflexivity|]. rewrite Hl in Hlate; [discriminate|assumption|discriminate].
Qed.

Lemma run_ops_sim np : forall ops orc s rs rem s' orc',
  run_ops ops orc s = (rs, rem, s', orc') ->
  ops_ok np ops (rbuf s) -> SInv s -> chunks_ok (dl s') -> late s' = false ->
  (np = true -> rpaused s = false) ->
  exists dlt, op_post s s' dlt /\ SInv s' /\ ops_ok np rem (rbuf s') /\ (np = true -> rpaused s' = false) /\
    (forall F eofF, side s' F eofF ->
       spec_ops ops (toks (rbuf s) ++ toks dlt ++ F) eofF = rs ++ spec_ops rem (toks (rbuf s') ++ F) eofF) /\
    spec_ops rem (toks (rbuf s')) (eof s') = [].
Proof.
  induction ops as [|[o l] rest IH]; intros orc s rs rem s' orc' H Hok HI Hdl Hlate Hnp; simpl in H.
  - inversion H; subst. exists []. split; [apply op_post_refl|]. split; [assumption|]. repeat split; try assumption; trivial; try (intros; reflexivity).
  - destruct Hok as (Hop & Hloc & Hun & Hrest).
    destruct (run_op o l orc s) as [[out s1] orc1] eqn:E.
    destruct out as [r|l'].
    + destruct (run_ops rest orc1 s1) as [[[rs2 rem2] s2] orc2] eqn:E2. inversion H; subst rs rem s' orc'. clear H.
      pose proof E2 as Hp2. apply run_ops_post in Hp2. destruct Hp2 as [d2' P2'].
      assert (Hdl1 : chunks_ok (dl s1)) by (eapply op_post_dl_ok; eassumption).
      destruct (run_op_sim np _ _ _ _ _ _ _ E Hop Hloc HI Hdl1 Hnp Hun) as (d1 & P1 & I1 & N1 & G1 & _).
      destruct (IH _ _ _ _ _ _ E2 (ops_ok_fresh np rest (rbuf s1) Hrest) I1 Hdl Hlate N1)
        as (d2 & P2 & I2 & O2 & N2 & G2 & S2).
      exists (d1 ++ d2). split; [eapply op_post_trans; eassumption|].
      split; [assumption|]. split; [assumption|]. split; [assumption|]. split; [|assumption].
      intros F eofF Hs. simpl spec_ops at 1. rewrite toks_app, <- app_assoc.
      rewrite (G1 (toks d2 ++ F) eofF).
      * rewrite (G2 F eofF Hs). reflexivity.
      * intros He1. destruct (op_post_frozen _ _ _ P2 Hlate He1) as [-> He2]. simpl. apply Hs. assumption.
    + inversion H; subst rs rem s' orc'. clear H.
      destruct (run_op_sim np _ _ _ _ _ _ _ E Hop Hloc HI Hdl Hnp Hun) as (d1 & P1 & I1 & N1 & G1 & B1).
      destruct (B1 l' eq_refl) as [Bl Bn].
      exists d1. split; [assumption|]. split; [assumption|]. split; [simpl; repeat split; assumption|].
      split; [assumption|]. split.
      * intros F eofF Hs. simpl. rewrite (G1 F eofF Hs). reflexivity.
      * simpl. rewrite Bn. reflexivity.
Qed.

(* ---- the scheduler -------------------------------------------------------------------------- *)

Definition WInv (np : bool) (w : world) : Prop :=
  SInv (w_sess w) /\ ops_ok np (w_ops w) (rbuf (w_sess w)) /\ (np = true -> rpaused (w_sess w) = false).

(* never paused: there is no window, or everything ever delivered fits in it *)
Definition NPB (np : bool) (s : sess) : Prop := np = true -> limit s = 0 \/ rlen (dl s) < limit s.

Definition Psi (w : world) (F : list tok) (eofF : bool) : list result :=
  w_res w ++ spec_ops (w_ops w) (toks (rbuf (w_sess w)) ++ F) eofF.

Lemma wstep_post w st : exists dlt, op_post (w_sess w) (w_sess (wstep w st)) dlt.
Proof.
  destruct st as [e|orc]; simpl.
  - destruct (deliver_extends (w_sess w) e) as [d E]. exists d. apply op_post_of_extends; assumption.
  - destruct (run_ops (w_ops w) orc (w_sess w)) as [[[rs rem] s'] orc'] eqn:E. simpl.
    eapply run_ops_post; eassumption.
Qed.

Lemma should_pause_fit s : SInv s -> (limit s = 0 \/ rlen (dl s) < limit s) -> should_pause s = false.
Proof.
  intros (I1 & _ & I3) [H0|Hlt]; unfold should_pause.
  - rewrite H0. reflexivity.
  - assert (E : limit s <=? blen s = false) by lia. rewrite E. apply andb_false_r.
Qed.

Lemma should_pause_flags s e l x rp wp c : should_pause (set_flags s e l x rp wp c) = should_pause s.
Proof. reflexivity. Qed.

Lemma deliver_rpaused s e : rpaused s = false -> should_pause (deliver s e) = false -> rpaused (deliver s e) = false.
Proof.
  intros Hrp. destruct e as [d|x| |exc| |]; simpl; try (intros _; assumption).
  destruct d as [|z d']; simpl; [intros _; assumption|]. set (d := z :: d').
  unfold maybe_pause. remember (push s (Chunk d) (zlen d)) as x eqn:Ex.
  destruct (negb (rpaused x) && should_pause x) eqn:E.
  - rewrite should_pause_flags. apply andb_true_iff in E as [_ E]. rewrite E. discriminate.
  - intros _. subst x. simpl. assumption.
Qed.

Lemma wstep_sim np w st :
  let w' := wstep w st in
  WInv np w -> chunks_ok (dl (w_sess w')) -> late (w_sess w') = false -> NPB np (w_sess w') ->
  exists dlt, op_post (w_sess w) (w_sess w') dlt /\ WInv np w' /\
    (forall F eofF, side (w_sess w') F eofF -> Psi w (toks dlt ++ F) eofF = Psi w' F eofF) /\
    (forall orc, st = SRun orc -> spec_ops (w_ops w') (toks (rbuf (w_sess w'))) (eof (w_sess w')) = []).
Proof.
  intros w' (HI & Hok & Hnp) Hdl Hlate Hb. subst w'. destruct st as [e|orc]; simpl in *.
  - destruct (deliver_extends (w_sess w) e) as [d E].
    assert (HI' : SInv (deliver (w_sess w) e)) by (eapply SInv_extends; eassumption).
    exists d. split; [apply op_post_of_extends; assumption|].
    destruct E as (E1 & E2 & _). split; [|split].
    + split; [assumption|]. split; [simpl; rewrite E1; apply ops_ok_app; assumption|].
      simpl. intros Hn. apply deliver_rpaused; [apply Hnp; assumption|].
      apply should_pause_fit; [assumption|apply Hb; assumption].
    + intros F eofF _. unfold Psi. simpl. rewrite E1, toks_app, <- app_assoc. reflexivity.
    + discriminate.
  - destruct (run_ops (w_ops w) orc (w_sess w)) as [[[rs rem] s'] orc'] eqn:E. simpl in *.
    destruct (run_ops_sim np _ _ _ _ _ _ _ E Hok HI Hdl Hlate Hnp) as (d & P & I & O & N & G & S).
    exists d. split; [assumption|]. split; [split; [assumption|split; assumption]|]. split.
    + intros F eofF Hs. unfold Psi. simpl. rewrite (G F eofF Hs), app_assoc. reflexivity.
    + intros _ _. assumption.
Qed.

Lemma sched_post : forall sch w, exists dlt, op_post (w_sess w) (w_sess (fold_left wstep sch w)) dlt.
Proof.
  induction sch as [|st sch IH]; intros w; simpl.
  - exists []. apply op_post_refl.
  - destruct (wstep_post w st) as [d1 P1]. destruct (IH (wstep w st)) as [d2 P2].
    exists (d1 ++ d2). eapply op_post_trans; eassumption.
Qed.

Lemma NPB_back np s s' dlt : op_post s s' dlt -> NPB np s' -> NPB np s.
Proof.
  intros (D & L & _) H Hn. specialize (H Hn). rewrite D, L, rlen_app in H.
  pose proof (rlen_nonneg dlt). destruct H; [left; assumption|right; lia].
Qed.

Lemma sched_sim np : forall sch w,
  let w' := fold_left wstep sch w in
  WInv np w -> chunks_ok (dl (w_sess w')) -> late (w_sess w') = false -> NPB np (w_sess w') ->
  exists dlt, op_post (w_sess w) (w_sess w') dlt /\ WInv np w' /\
    (forall F eofF, side (w_sess w') F eofF -> Psi w (toks dlt ++ F) eofF = Psi w' F eofF).
Proof.
  induction sch as [|st sch IH]; intros w w' HW Hdl Hlate Hb; subst w'; simpl in *.
  - exists []. split; [apply op_post_refl|]. split; [assumption|]. intros F eofF _. reflexivity.
  - destruct (sched_post sch (wstep w st)) as [d2' P2'].
    assert (Hdl1 : chunks_ok (dl (w_sess (wstep w st)))) by (eapply op_post_dl_ok; eassumption).
    assert (Hl1 : late (w_sess (wstep w st)) = false) by (eapply op_post_late; eassumption).
    assert (Hb1 : NPB np (w_sess (wstep w st))) by (eapply NPB_back; eassumption).
    destruct (wstep_sim np w st HW Hdl1 Hl1 Hb1) as (d1 & P1 & W1 & G1 & _).
    destruct (IH (wstep w st) W1 Hdl Hlate Hb) as (d2 & P2 & W2 & G2).
    exists (d1 ++ d2). split; [eapply op_post_trans; eassumption|]. split; [assumption|].
    intros F eofF Hs. rewrite toks_app, <- app_assoc. rewrite (G1 (toks d2 ++ F) eofF).
    + apply G2. assumption.
    + intros He1. destruct (op_post_frozen _ _ _ P2 Hlate He1) as [-> He2]. simpl. apply Hs. assumption.
Qed.

(* ====================================================================================== *)
(* Part 6. The main theorem: the results are a function of the tokens delivered.           *)

Definition prog_ops (prog : list op) : list (op * loc) := map (fun o => (o, loc0 o)) prog.
Definition has_until (prog : list op) : bool := existsb is_until prog.
Definition spec_prog (prog : list op) (t : list tok) (eofF : bool) : list result :=
  spec_ops (prog_ops prog) t eofF.

Lemma init_WInv lim prog : Forall op_ok prog -> WInv (has_until prog) (init_world lim prog).
Proof.
  intros Hok. unfold WInv, init_world. simpl. split; [|split].
  - unfold SInv. simpl. repeat split; try lia. constructor.
  - apply ops_ok_fresh. unfold prog_ops. apply Forall_forall. intros [o l] Hin.
    apply in_map_iff in Hin as (o' & Heq & Hin). inversion Heq; subst o' l. unfold fresh_ok. simpl.
    split; [eapply Forall_forall; eassumption|]. split; [reflexivity|].
    intros Hu. unfold has_until. apply existsb_exists. exists o. split; assumption.
  - reflexivity.
Qed.

Theorem sched_results lim prog sch orc :
  let w := run_sched lim prog (sch ++ [SRun orc]) in
  Forall op_ok prog -> late (w_sess w) = false ->
  (has_until prog = true -> lim = 0 \/ rlen (dl (w_sess w)) < lim) ->
  w_res w = spec_prog prog (toks (dl (w_sess w))) (eof (w_sess w)).
Proof.
  intros w Hok Hlate Hb. subst w.
  assert (Hdl : chunks_ok (dl (w_sess (run_sched lim prog (sch ++ [SRun orc]))))).
  { unfold run_sched_v. destruct (sched_post (sch ++ [SRun orc]) (init_world lim prog)) as [d0 (D0 & _ & _ & _ & _ & C0)].
    rewrite D0. simpl. assumption. } unfold run_sched_v in *. rewrite fold_left_app in *.
  change (fold_left wstep [SRun orc] (fold_left wstep sch (init_world lim prog)))
    with (wstep (fold_left wstep sch (init_world lim prog)) (SRun orc)) in *.
  set (np := has_until prog) in *.
  set (w0 := init_world lim prog) in *.
  set (wm := fold_left wstep sch w0) in *.
  pose proof (init_WInv lim prog Hok) as HW0. fold np in HW0. fold w0 in HW0.
  destruct (wstep_post wm (SRun orc)) as [dL PL].
  destruct (sched_post sch w0) as [dM PM]. fold wm in PM.
  assert (Hlim : limit (w_sess (wstep wm (SRun orc))) = lim).
  { destruct PL as (_ & L1 & _). destruct PM as (_ & L2 & _). rewrite L1, L2. reflexivity. }
  assert (HbL : NPB np (w_sess (wstep wm (SRun orc)))) by (intros Hn; rewrite Hlim; apply Hb; assumption).
  assert (HdlM : chunks_ok (dl (w_sess wm))) by (eapply op_post_dl_ok; eassumption).
  assert (HlM : late (w_sess wm) = false) by (eapply op_post_late; eassumption).
  assert (HbM : NPB np (w_sess wm)) by (eapply NPB_back; eassumption).
  destruct (sched_sim np sch w0 HW0 HdlM HlM HbM) as (d1 & P1 & W1 & G1). fold wm in P1, W1, G1.
  destruct (wstep_sim np wm (SRun orc) W1 Hdl Hlate HbL) as (d2 & P2 & W2 & G2 & S2).
  specialize (S2 orc eq_refl).
  set (sF := w_sess (wstep wm (SRun orc))) in *.
  assert (Hside : side sF [] (eof sF)) by (intros He; split; [reflexivity|assumption]).
  pose proof (G2 [] (eof sF) Hside) as E2.
  assert (Hside1 : side (w_sess wm) (toks d2 ++ []) (eof sF)).
  { intros He1. destruct (op_post_frozen _ _ _ P2 Hlate He1) as [-> He2]. split; [reflexivity|assumption]. }
  pose proof (G1 (toks d2 ++ []) (eof sF) Hside1) as E1.
  assert (Hdlt : dl sF = d1 ++ d2).
  { destruct P2 as (D2 & _). destruct P1 as (D1 & _). rewrite D2, D1. reflexivity. }
  unfold Psi in E1, E2. rewrite E2 in E1. rewrite !app_nil_r in E1. fold sF in E1. rewrite S2, app_nil_r in E1.
  simpl in E1. rewrite <- toks_app, <- Hdlt in E1.
  unfold spec_prog. symmetry. exact E1.
Qed.

(* chunking independence: same tokens and same EOF => same results *)
Corollary sched_independent lim prog sch1 orc1 sch2 orc2 :
  let w1 := run_sched lim prog (sch1 ++ [SRun orc1]) in
  let w2 := run_sched lim prog (sch2 ++ [SRun orc2]) in
  Forall op_ok prog ->
  late (w_sess w1) = false -> late (w_sess w2) = false ->
  (has_until prog = true -> lim = 0 \/ (rlen (dl (w_sess w1)) < lim /\ rlen (dl (w_sess w2)) < lim)) ->
  toks (dl (w_sess w1)) = toks (dl (w_sess w2)) -> eof (w_sess w1) = eof (w_sess w2) ->
  w_res w1 = w_res w2.
Proof.
  intros w1 w2 Hok L1 L2 Hb Ht He.
  subst w1 w2. rewrite !sched_results; try assumption.
  - rewrite Ht, He. reflexivity.
  - intros Hu. destruct (Hb Hu) as [?|[? ?]]; [left|right]; assumption.
  - intros Hu. destruct (Hb Hu) as [?|[? ?]]; [left|right]; assumption.
Qed.

(* ====================================================================================== *)
(* Part 7. What the specification says, in terms of bytes.                                 *)

Lemma firstn_all_z (d : bytes) : firstn (Z.to_nat (zlen d)) d = d.
Proof. rewrite to_nat_zlen. apply firstn_all. Qed.

Lemma skipn_all_z (d : bytes) : skipn (Z.to_nat (zlen d)) d = [].
Proof. rewrite to_nat_zlen. apply skipn_all. Qed.

(* readexactly(n) with at least n bytes pending: exactly the first n bytes, the rest stays *)
Lemma spec_exact_enough n d t eofF : 0 < n <= zlen d ->
  spec_read n [] (map B d ++ t) eofF = Some (ROk (firstn (Z.to_nat n) d), map B (skipn (Z.to_nat n) d) ++ t).
Proof.
  intros Hn. destruct (Z.eq_dec n (zlen d)) as [->|Hne].
  - rewrite spec_read_take by lia. rewrite Z.sub_diag, spec_read_zero, firstn_all_z, skipn_all_z. reflexivity.
  - rewrite spec_read_split by lia. reflexivity.
Qed.

(* fewer than n bytes and then EOF: IncompleteReadError with everything that was there *)
Lemma spec_exact_eof n d : zlen d < n ->
  spec_read n [] (map B d) true = Some (RIncomplete d (Some n), []).
Proof.
  intros Hn. pose proof (zlen_nonneg d). replace (map B d) with (map B d ++ []) by apply app_nil_r.
  rewrite spec_read_take by lia. rewrite spec_read_end by lia. simpl. unfold fin_read.
  assert (E : 0 <? n - zlen d = true) by lia. rewrite E. do 4 f_equal. lia.
Qed.

(* fewer than n bytes and then an exception: the partial data first, the exception stays queued *)
Lemma spec_exact_exn n d e r eofF : d <> [] -> zlen d < n ->
  spec_read n [] (map B d ++ X e :: r) eofF = Some (RIncomplete d (Some n), X e :: r).
Proof.
  intros Hd Hn. pose proof (zlen_nonneg d). rewrite spec_read_take by lia. rewrite spec_read_exn by lia.
  simpl. destruct d; [contradiction|]. simpl. unfold fin_read.
  assert (E : 0 <? n - zlen (z :: d) = true) by lia. rewrite E. do 4 f_equal. lia.
Qed.

(* read() to EOF: everything *)
Lemma spec_all_eof n d : n < 0 -> spec_read n [] (map B d) true = Some (ROk d, []).
Proof.
  intros Hn. pose proof (zlen_nonneg d). replace (map B d) with (map B d ++ []) by apply app_nil_r.
  rewrite spec_read_take by lia. rewrite spec_read_end by lia. simpl. unfold fin_read.
  assert (E : 0 <? n - zlen d = false) by lia. rewrite E. reflexivity.
Qed.

Lemma spec_raise n e r eofF : n <> 0 -> e <> SOFT_EOF ->
  spec_read n [] (X e :: r) eofF = Some (RRaise e, r).
Proof.
  intros Hn He. rewrite spec_read_exn by assumption. simpl.
  destruct (e =? SOFT_EOF) eqn:E; [apply Z.eqb_eq in E; contradiction|reflexivity].
Qed.

Lemma span_bytes_only d : span_bytes (map B d) = (d, []).
Proof. induction d as [|z d IH]; simpl; [reflexivity|]. rewrite IH. reflexivity. Qed.

(* readuntil: the data up to and including the match *)
Lemma spec_until_found L seps d t eofF idx : eqlen L seps -> search seps d 0 = Some idx ->
  spec_until seps (map B d ++ t) eofF =
  Some (ROk (firstn (Z.to_nat idx) d), map B (skipn (Z.to_nat idx) d) ++ t).
Proof.
  intros He Hs. unfold spec_until. rewrite span_app_bytes. destruct (span_bytes t) as [d2 rest] eqn:Esp.
  rewrite (search_app_stable L seps d d2 idx He Hs).
  destruct (search_bounds _ _ _ _ He Hs) as [H0 H1].
  assert (Hk : (Z.to_nat idx <= length d)%nat) by (unfold zlen in *; lia).
  rewrite firstn_app, skipn_app. replace (Z.to_nat idx - length d)%nat with 0%nat by lia. simpl.
  rewrite app_nil_r, map_app, <- app_assoc, <- (span_recompose _ _ _ Esp). reflexivity.
Qed.

Lemma spec_until_eof seps d : search seps d 0 = None ->
  spec_until seps (map B d) true = Some (RIncomplete d None, []).
Proof. intros Hs. unfold spec_until. rewrite span_bytes_only, Hs. reflexivity. Qed.

(* the match is an occurrence of a separator ... *)
Lemma match_at_in seps s l : match_at seps s = Some l -> exists p, In p seps /\ zprefix p s = true /\ l = zlen p.
Proof.
  induction seps as [|p r IH]; simpl; [discriminate|]. destruct (zprefix p s) eqn:E.
  - intros H; inversion H; subst. exists p. auto.
  - intros H. destruct (IH H) as (q & Hq & Hz & Hl). exists q. auto.
Qed.

Lemma match_at_none_all seps s : match_at seps s = None -> forall p, In p seps -> zprefix p s = false.
Proof.
  induction seps as [|q r IH]; simpl; intros H p Hin; [contradiction|].
  destruct (zprefix q s) eqn:E; [discriminate|]. destruct Hin as [->|Hin]; [assumption|apply IH; assumption].
Qed.

Lemma search_from_sound seps : forall s pos e, search_from seps s pos = Some e ->
  exists u p v, In p seps /\ s = u ++ p ++ v /\ e = pos + zlen u + zlen p.
Proof.
  induction s as [|z r IH]; intros pos e H; simpl in H.
  - destruct (match_at seps []) as [l|] eqn:E; [|discriminate]. inversion H; subst.
    destruct (match_at_in _ _ _ E) as (p & Hp & Hz & ->). apply zprefix_spec in Hz as [v Hv].
    exists [], p, v. simpl. repeat split; try assumption. unfold zlen; simpl; lia.
  - destruct (match_at seps (z :: r)) as [l|] eqn:E.
    + inversion H; subst. destruct (match_at_in _ _ _ E) as (p & Hp & Hz & ->).
      apply zprefix_spec in Hz as [v Hv]. exists [], p, v. simpl. repeat split; try assumption.
      unfold zlen; simpl; lia.
    + destruct (IH _ _ H) as (u & p & v & Hp & Hs & He). exists (z :: u), p, v. simpl.
      repeat split; try assumption; [rewrite Hs; reflexivity|]. unfold zlen in *; simpl; lia.
Qed.

(* ... and no occurrence of a separator ends earlier *)
Lemma search_from_minimal L seps : eqlen L seps -> forall s pos e, search_from seps s pos = Some e ->
  forall u p v, In p seps -> s = u ++ p ++ v -> e <= pos + zlen u + zlen p.
Proof.
  intros He. induction s as [|z r IH]; intros pos e H u p v Hp Hs; simpl in H.
  - destruct (match_at seps []) as [l|] eqn:E; [|discriminate]. inversion H; subst.
    destruct (match_at_some _ _ _ _ He E). unfold zlen in *; simpl in *; lia.
  - destruct (match_at seps (z :: r)) as [l|] eqn:E.
    + inversion H; subst. destruct (match_at_some _ _ _ _ He E) as [-> _].
      destruct He as [_ Hall]. rewrite Forall_forall in Hall. rewrite (Hall p Hp).
      pose proof (zlen_nonneg u). lia.
    + destruct u as [|z' u].
      * simpl in Hs. pose proof (match_at_none_all _ _ E p Hp) as Hf.
        assert (Ht : zprefix p (z :: r) = true) by (apply zprefix_spec; exists v; assumption).
        congruence.
      * simpl in Hs. inversion Hs; subst. specialize (IH _ _ H u p v Hp eq_refl).
        unfold zlen in *; simpl; lia.
Qed.

Lemma search_from_none seps : forall s pos, search_from seps s pos = None ->
  forall u p v, In p seps -> s <> u ++ p ++ v.
Proof.
  induction s as [|z r IH]; intros pos H u p v Hp Hs; simpl in H.
  - destruct (match_at seps []) eqn:E; [discriminate|].
    pose proof (match_at_none_all _ _ E p Hp) as Hf.
    destruct u; [|discriminate]. simpl in Hs.
    assert (Ht : zprefix p [] = true) by (apply zprefix_spec; exists v; assumption). congruence.
  - destruct (match_at seps (z :: r)) eqn:E; [discriminate|].
    destruct u as [|z' u].
    + simpl in Hs. pose proof (match_at_none_all _ _ E p Hp) as Hf.
      assert (Ht : zprefix p (z :: r) = true) by (apply zprefix_spec; exists v; assumption). congruence.
    + simpl in Hs. inversion Hs; subst. eapply IH; [eassumption|eassumption|reflexivity].
Qed.

(* readuntil returns the shortest prefix of the data that ends with a separator *)
Theorem search_shortest L seps d idx : eqlen L seps -> search seps d 0 = Some idx ->
  (exists u p, In p seps /\ firstn (Z.to_nat idx) d = u ++ p) /\
  (forall u p v, In p seps -> d = u ++ p ++ v -> idx <= zlen u + zlen p).
Proof.
  intros He Hs. unfold search in Hs. simpl in Hs. split.
  - destruct (search_from_sound _ _ _ _ Hs) as (u & p & v & Hp & Hd & Hi).
    exists u, p. split; [assumption|]. subst d. rewrite app_assoc.
    replace (Z.to_nat idx) with (length (u ++ p) + 0)%nat by (rewrite app_length; unfold zlen in *; lia).
    rewrite firstn_len_app. simpl. rewrite app_nil_r. reflexivity.
  - intros u p v Hp Hd. pose proof (search_from_minimal L seps He _ _ _ Hs u p v Hp Hd). lia.
Qed.

Theorem search_none_spec seps d : search seps d 0 = None ->
  forall u p v, In p seps -> d <> u ++ p ++ v.
Proof. unfold search. simpl. apply search_from_none. Qed.

(* ====================================================================================== *)
(* Part 8. read(n) with n > 0 ("up to n"), which by design returns what happens to be buffered. *)

Fixpoint bytes_of (rb : list item) : bytes :=
  match rb with [] => [] | Chunk d :: r => d ++ bytes_of r | Exn _ :: r => bytes_of r end.

(* no hypotheses: holds for empty chunks and any n *)
Lemma read_inner_bytes rb : forall n acc got bl rb' n' acc' got' bl' ex,
  read_inner rb n acc got bl = (rb', n', acc', got', bl', ex) ->
  acc' ++ bytes_of rb' = acc ++ bytes_of rb /\ (exists taken, acc' = acc ++ taken) /\
  (0 <= n -> 0 <= n' /\ zlen acc' - zlen acc <= n - n').
Proof.
  induction rb as [|it rest IH]; intros n acc got bl rb' n' acc' got' bl' ex H; simpl in H.
  - inversion H; subst. split; [reflexivity|]. split; [exists []; rewrite app_nil_r; reflexivity|lia].
  - destruct (n =? 0) eqn:E0.
    { inversion H; subst. split; [reflexivity|]. split; [exists []; rewrite app_nil_r; reflexivity|lia]. }
    destruct it as [d|e].
    + destruct ((n <? zlen d) && (0 <? n)) eqn:Ec.
      * inversion H; subst. clear H. simpl. split; [|split].
        -- rewrite <- !app_assoc. f_equal. rewrite app_assoc, firstn_skipn. reflexivity.
        -- eexists; reflexivity.
        -- intros Hn. rewrite zlen_app. assert (Hk : (Z.to_nat n <= length d)%nat) by (unfold zlen in *; lia).
           unfold zlen at 2. rewrite firstn_length. lia.
      * apply IH in H. destruct H as (H1 & [tk H2] & H3). simpl. split; [|split].
        -- rewrite H1, <- app_assoc. reflexivity.
        -- exists (d ++ tk). rewrite H2, <- app_assoc. reflexivity.
        -- intros Hn. pose proof (zlen_nonneg d). rewrite zlen_app in H3.
           specialize (H3 ltac:(lia)). lia.
    + destruct got.
      * inversion H; subst. split; [reflexivity|]. split; [exists []; rewrite app_nil_r; reflexivity|lia].
      * destruct (e =? SOFT_EOF); inversion H; subst; simpl;
          (split; [reflexivity|]; split; [exists []; rewrite app_nil_r; reflexivity|lia]).
Qed.

(* one read(n), n > 0, with nothing delivered from inside resume_reading *)
Theorem read_upto s n d s' orc' :
  0 < n -> read_loop false [] s n [] false = (Done (ROk d), s', orc') ->
  d ++ bytes_of (rbuf s') = bytes_of (rbuf s) /\ zlen d <= n /\
  (chunks_ok (rbuf s) -> d = [] ->
     (rbuf s = [] /\ eof s = true) \/ (exists r, rbuf s = Exn SOFT_EOF :: r)).
Proof.
  intros Hn H. rewrite read_loop_eq in H.
  destruct (read_inner (rbuf s) n [] false (blen s)) as [[[[[rb n1] acc1] got1] bl1] ex] eqn:Ei.
  cbv zeta in H.
  pose proof (read_inner_bytes _ _ _ _ _ _ _ _ _ _ _ Ei) as (Hb & _ & Hz). specialize (Hz ltac:(lia)).
  pose proof (maybe_resume_fields (set_rbuf s rb bl1)) as Hm.
  destruct (maybe_resume (set_rbuf s rb bl1)) as [s2 resumed]. simpl in Hm.
  destruct Hm as (M1 & M2 & M3 & M4 & M5 & M6).
  assert (Hfin : forall brk, read_finish false s2 n1 acc1 got1 brk = Done (ROk d) -> d = acc1).
  { intros brk Hf. unfold read_finish in Hf. rewrite andb_false_r in Hf.
    destruct (_ || _ || _ || _ || _); inversion Hf. reflexivity. }
  assert (Hcase : exists brk, read_finish false s2 n1 acc1 got1 brk = Done (ROk d) /\ s' = s2 /\
                               brk = match ex with XBreakRead => true | _ => false end).
  { destruct ex.
    - exists false. destruct resumed; inversion H as [[Hr Hs Ho]]; (split; [reflexivity|split; reflexivity]).
    - exists true. destruct resumed; inversion H as [[Hr Hs Ho]]; (split; [reflexivity|split; reflexivity]).
    - inversion H. }
  destruct Hcase as (brk & Hf & -> & Hbrk). pose proof (Hfin _ Hf) as ->.
  simpl in Hb. unfold zlen in Hz at 2. simpl in Hz.
  split; [rewrite M1; assumption|]. split; [lia|].
  intros Hok Hd. subst acc1.
  pose proof (read_inner_sim _ _ _ _ _ _ _ _ _ _ _ Hok eq_refl Ei) as (Hg & _ & _ & _ & _ & Hx & _).
  simpl in Hg. subst got1.
  destruct (rbuf s) as [|[c|e] r] eqn:Er.
  - simpl in Ei. assert (Hrb : rb = []) by (inversion Ei; reflexivity).
    assert (Hn1 : n1 = n) by (inversion Ei; reflexivity). rewrite Hrb in M1. rewrite Hn1 in Hf.
    assert (Hex : ex = XFall) by (inversion Ei; reflexivity). rewrite Hex in Hbrk. subst brk.
    left. split; [reflexivity|].
    unfold read_finish in Hf. rewrite M1, M5 in Hf.
    assert (E0 : n =? 0 = false) by lia. assert (E1 : n <? 0 = false) by lia. rewrite E0, E1 in Hf.
    destruct (eof s); [reflexivity|]. destruct (0 <? n); simpl in Hf; discriminate.
  - (* a non-empty chunk is first: something is returned *)
    exfalso. simpl in Ei. assert (E0 : n =? 0 = false) by lia. rewrite E0 in Ei.
    inversion Hok as [|? ? Hc _]; subst. simpl in Hc.
    destruct ((n <? zlen c) && (0 <? n)) eqn:Ec.
    + inversion Ei.
    + apply read_inner_bytes in Ei. destruct Ei as (_ & [tk Ht] & _). destruct c; [contradiction|]. discriminate.
  - simpl in Ei. assert (E0 : n =? 0 = false) by lia. rewrite E0 in Ei.
    destruct (e =? SOFT_EOF) eqn:Es.
    + right. apply Z.eqb_eq in Es. subst e. eauto.
    + inversion Ei; subst. inversion H.
Qed.

(* ====================================================================================== *)
(* Part 9. Process level: exit status with complete output; redirection; drain.            *)

Lemma proc_closed_stays ms : forall p, p_closed p = true -> fold_left proc_step ms p = p.
Proof.
  induction ms as [|m ms IH]; intros p Hp; simpl; [reflexivity|].
  unfold proc_step at 2. rewrite Hp. apply IH. assumption.
Qed.

(* output data of the messages, as long as EOF has not been seen *)
Fixpoint outs (e : bool) (ms : list wire) : bytes :=
  match ms with
  | [] => []
  | WOut d :: r => if e then outs e r else d ++ outs e r
  | WEof :: r => outs true r
  | _ :: r => outs e r
  end.

Fixpoint errs (e : bool) (ms : list wire) : bytes :=
  match ms with
  | [] => []
  | WErr d :: r => if e then errs e r else d ++ errs e r
  | WEof :: r => errs true r
  | _ :: r => errs e r
  end.

Lemma proc_open_run ms : forall p, ~ In WClose ms -> p_closed p = false ->
  let q := fold_left proc_step ms p in
  p_closed q = false /\ p_out q = p_out p ++ outs (p_eof p) ms /\ p_err q = p_err p ++ errs (p_eof p) ms.
Proof.
  induction ms as [|m ms IH]; intros p Hin Hp; simpl.
  - rewrite !app_nil_r. auto.
  - assert (Hm : m <> WClose) by (intros ->; apply Hin; left; reflexivity).
    assert (Hin' : ~ In WClose ms) by (intros H; apply Hin; right; assumption).
    unfold proc_step at 2 4 6. rewrite Hp.
    destruct m as [d|d| |st| |]; try contradiction;
      try (destruct (p_eof p) eqn:Ee);
      match goal with |- context [fold_left proc_step ms ?p1] =>
        destruct (IH p1 Hin' ltac:(first [exact Hp|reflexivity])) as (I1 & I2 & I3) end;
      simpl in *; rewrite ?Ee in *; rewrite I2, I3, ?app_assoc; auto.
Qed.

(* wait() reports nothing before the channel is closed ... *)
Theorem wait_needs_close ms : ~ In WClose ms -> proc_wait (proc_run ms) = None.
Proof.
  intros H. unfold proc_wait, proc_run.
  destruct (proc_open_run ms proc0 H eq_refl) as (Hc & _). rewrite Hc. reflexivity.
Qed.

(* ... and what it then reports is all stdout and stderr data sent before the close *)
Theorem wait_complete pre post : ~ In WClose pre ->
  proc_wait (proc_run (pre ++ WClose :: post)) =
  Some (exit_status (proc_run pre), outs false pre, errs false pre).
Proof.
  intros H. unfold proc_run. rewrite fold_left_app. simpl.
  destruct (proc_open_run pre proc0 H eq_refl) as (Hc & Ho & He).
  set (q := fold_left proc_step pre proc0) in *.
  unfold proc_step at 2. rewrite Hc. rewrite proc_closed_stays by reflexivity.
  unfold proc_wait. simpl. unfold exit_status. simpl. rewrite Ho, He. reflexivity.
Qed.

(* ---- redirection ---------------------------------------------------------------------------- *)
Definition rev_tok (re : bool) (e : revent) : list wtok :=
  match e with
  | RvData d => [TData d] | RvExn x => [TExc x]
  | RvEof => if re then [TEof] else []
  | RvSetWriter _ => []
  end.

Definition rev_item (e : revent) : list item :=
  match e with RvData d => [Chunk d] | RvExn x => [Exn x] | _ => [] end.

Definition no_setw (es : list revent) : Prop := forall re, ~ In (RvSetWriter re) es.
Definition has_eof (es : list revent) : bool := existsb (fun e => match e with RvEof => true | _ => false end) es.

Lemma redir_before es : forall r, no_setw es -> r_writer r = false ->
  let q := fold_left redir_step es r in
  r_writer q = false /\ r_written q = r_written r /\ r_buf q = r_buf r ++ flat_map rev_item es /\
  r_eof q = r_eof r || has_eof es.
Proof.
  induction es as [|e es IH]; intros r Hn Hw; simpl.
  - rewrite app_nil_r, orb_false_r. auto.
  - assert (Hn' : no_setw es) by (intros re H; apply (Hn re); right; assumption).
    destruct e as [d|x| |re]; simpl; try rewrite Hw.
    + destruct (IH (mkRedir (r_buf r ++ [Chunk d]) (r_eof r) false (r_recv_eof r) (r_written r)) Hn' eq_refl)
        as (I1 & I2 & I3 & I4). simpl in *. rewrite I3, <- app_assoc. auto.
    + destruct (IH (mkRedir (r_buf r ++ [Exn x]) (r_eof r) false (r_recv_eof r) (r_written r)) Hn' eq_refl)
        as (I1 & I2 & I3 & I4). simpl in *. rewrite I3, <- app_assoc. auto.
    + destruct (IH (mkRedir (r_buf r) true false (r_recv_eof r) (r_written r)) Hn' eq_refl)
        as (I1 & I2 & I3 & I4). simpl in *. rewrite I4, orb_true_r. auto.
    + exfalso. apply (Hn re). left. reflexivity.
Qed.

Lemma redir_after es : forall r, no_setw es -> r_writer r = true ->
  r_written (fold_left redir_step es r) = r_written r ++ flat_map (rev_tok (r_recv_eof r)) es.
Proof.
  induction es as [|e es IH]; intros r Hn Hw; simpl.
  - rewrite app_nil_r. reflexivity.
  - assert (Hn' : no_setw es) by (intros re H; apply (Hn re); right; assumption).
    destruct e as [d|x| |re]; simpl; try rewrite Hw.
    + rewrite IH by (try assumption; reflexivity). simpl. rewrite <- app_assoc. reflexivity.
    + rewrite IH by (try assumption; reflexivity). simpl. rewrite <- app_assoc. reflexivity.
    + rewrite IH by (try assumption; reflexivity). simpl. destruct (r_recv_eof r); simpl;
        rewrite <- ?app_assoc, ?app_nil_r; reflexivity.
    + exfalso. apply (Hn re). left. reflexivity.
Qed.

(* whatever arrived before the redirection was set up is written first, in order, then everything that
   arrives later; EOF follows the data *)
Theorem redirect_copies es1 re es2 : no_setw es1 -> no_setw es2 ->
  r_written (redir_run (es1 ++ RvSetWriter re :: es2)) =
  map item_tok (flat_map rev_item es1) ++ (if has_eof es1 && re then [TEof] else []) ++ flat_map (rev_tok re) es2.
Proof.
  intros H1 H2. unfold redir_run. rewrite fold_left_app. simpl.
  destruct (redir_before es1 redir0 H1 eq_refl) as (I1 & I2 & I3 & I4).
  set (q := fold_left redir_step es1 redir0) in *.
  rewrite redir_after by (try assumption; reflexivity). simpl.
  rewrite I2, I3, I4. simpl. rewrite <- app_assoc. reflexivity.
Qed.

(* ---- drain ----------------------------------------------------------------------------------- *)
Theorem drain_spec s :
  (forall l, drain_run s = Blocked l -> wpaused s = true /\ lost s = false) /\
  (wpaused s = true -> lost s = false -> exists l, drain_run s = Blocked l) /\
  (drain_run s = Done (ROk []) -> wpaused s = false) /\
  (lost s = true -> (wpaused s = true \/ lost_exc s <> None) -> exists r, drain_run s = Done r /\ r <> ROk []).
Proof.
  unfold drain_run. destruct (wpaused s) eqn:Ew, (lost s) eqn:El, (lost_exc s) as [e|] eqn:Ex; simpl;
    repeat split; intros; try discriminate; try reflexivity; eauto;
    try (eexists; split; [reflexivity|discriminate]);
    match goal with H : _ \/ _ |- _ => destruct H; try discriminate; try contradiction end.
Qed.

Theorem drain_released s :
  (forall l, drain_run (deliver s EvResumeW) <> Blocked l) /\
  (forall x l, drain_run (deliver s (EvLost x)) <> Blocked l).
Proof.
  split; intros; unfold drain_run; simpl.
  - destruct (lost s); [destruct (lost_exc s)|]; discriminate.
  - destruct (eof s); simpl; rewrite andb_false_r; destruct x; try discriminate;
      destruct (wpaused s); discriminate.
Qed.

(* ---- asynchronously written redirect targets ------------------------------------------------- *)
Fixpoint asent (closed : bool) (es : list aev) : list wtok :=
  match es with
  | [] => []
  | AvData d :: r => if closed then asent closed r else TData d :: asent closed r
  | AvEof :: r => if closed then asent closed r else TEof :: asent closed r
  | AvAttach :: r => asent closed r
  | AvTurn :: r => asent closed r
  | AvClose :: r => asent true r
  end.

Definition a_ok (a : aredir) : Prop := (a_att a = true -> a_buf a = []) /\ (a_att a = false -> a_queue a = []).

Lemma astep_ok a e : a_ok a -> a_ok (astep a e).
Proof.
  intros [H1 H2]. destruct a as [b q t c att l]. simpl in *.
  destruct e as [d| | | |]; unfold astep, a_recv; simpl.
  - destruct c, att; simpl; split; intros; try discriminate; auto.
  - destruct c, att; simpl; split; intros; try discriminate; auto.
  - destruct att; simpl; split; intros; try discriminate; auto.
  - destruct q as [|x q]; simpl; split; intros H; auto. specialize (H2 H). discriminate.
  - split; auto.
Qed.

Lemma arun_inv es : forall a, a_ok a ->
  a_ok (fold_left astep es a) /\
  a_target (fold_left astep es a) ++ a_queue (fold_left astep es a) ++ a_buf (fold_left astep es a) =
  a_target a ++ a_queue a ++ a_buf a ++ asent (a_chan_closed a) es.
Proof.
  induction es as [|e es IH]; intros a Hok; simpl.
  - rewrite app_nil_r. split; [assumption|reflexivity].
  - destruct (IH (astep a e) (astep_ok a e Hok)) as [Hok' Heq]. split; [assumption|]. rewrite Heq. clear IH Heq Hok'.
    destruct Hok as [H1 H2]. destruct a as [b q t c att l]. simpl in *.
    destruct e as [d| | | |]; unfold astep, a_recv; simpl.
    + destruct c; simpl; [reflexivity|]. destruct att; simpl.
      * rewrite (H1 eq_refl). simpl. rewrite <- !app_assoc. reflexivity.
      * rewrite (H2 eq_refl). simpl. rewrite <- !app_assoc. reflexivity.
    + destruct c; simpl; [reflexivity|]. destruct att; simpl.
      * rewrite (H1 eq_refl). simpl. rewrite <- !app_assoc. reflexivity.
      * rewrite (H2 eq_refl). simpl. rewrite <- !app_assoc. reflexivity.
    + destruct att; simpl; [reflexivity|]. rewrite <- !app_assoc. simpl. reflexivity.
    + destruct q as [|x q]; simpl; rewrite <- ?app_assoc; reflexivity.
    + reflexivity.
Qed.

(* when wait() returns, the target holds exactly what was sent before the close, in order *)
Theorem wait_flushes_redirect es : await_done (arun es) = true -> a_target (arun es) = asent false es.
Proof.
  unfold await_done, arun. intros H. apply andb_true_iff in H as [H Hq]. apply andb_true_iff in H as [_ Ha].
  assert (Hok0 : a_ok (mkA [] [] [] false false false)) by (split; reflexivity).
  destruct (arun_inv es _ Hok0) as [[Hb _] Hi]. simpl in Hi.
  rewrite (Hb Ha) in Hi.
  destruct (a_queue (fold_left astep es (mkA [] [] [] false false false))); [|discriminate].
  rewrite !app_nil_r in Hi. exact Hi.
Qed.
