(* C06 - proofs about Model/Transport.v and about the generated table Gen/MsgGate.v. *)
From Coq Require Import String Ascii.
From AV Require Import Base.Prelude Model.Transport Gen.MsgGate.

(* ====================================================================================================== *)
(* Part 1: the generated table.  Each check is a forallb over the whole finite table, evaluated by the
   kernel VM, and lifted to a universally quantified statement with the bounds spelled out. *)

Lemma in_zrange n z : 0 <= z < Z.of_nat n -> In z (zrange n).
Proof.
  intros H. unfold zrange. apply in_map_iff. exists (Z.to_nat z). split.
  - lia.
  - apply in_seq. lia.
Qed.

Lemma in_bools (b : bool) : In b [false; true].
Proof. destruct b; simpl; auto. Qed.

Lemma in_all_cells sv ph sk va :
  0 <= ph < 9 -> 0 <= va < 4 -> In (sv, ph, sk, va) all_cells.
Proof.
  intros Hp Hv. unfold all_cells.
  repeat (apply in_prod); try apply in_bools; apply in_zrange; simpl; lia.
Qed.

Lemma row_all_spec p : forall lw l t0 i,
  row_all p t0 lw l = true -> (i < List.length lw)%nat -> (i < List.length l)%nat ->
  p (t0 + Z.of_nat i) (nth i lw VX) (nth i l VX) = true.
Proof.
  induction lw as [|w rw IH]; intros l t0 i H Hi1 Hi2; [simpl in Hi1; lia|].
  destruct l as [|v r]; [simpl in Hi2; lia|].
  simpl in H. apply andb_true_iff in H as [H1 H2].
  destruct i as [|i].
  - simpl. replace (t0 + 0) with t0 by lia. exact H1.
  - simpl nth. replace (t0 + Z.of_nat (S i)) with ((t0 + 1) + Z.of_nat i) by lia.
    apply IH; [exact H2 | simpl in Hi1; lia | simpl in Hi2; lia].
Qed.

Lemma table_all_spec rowf p :
  table_all rowf p = true ->
  forall sv ph sk va t, 0 <= ph < 9 -> 0 <= va < 4 -> 0 <= t < 256 ->
    p sv ph sk va t (lookup rowf sv ph sk 0 t) (lookup rowf sv ph sk va t) = true.
Proof.
  intros H sv ph sk va t Hp Hv Ht. unfold table_all in H. rewrite forallb_forall in H.
  specialize (H _ (in_all_cells sv ph sk va Hp Hv)). cbv beta iota in H.
  apply andb_true_iff in H as [H H3]. apply andb_true_iff in H as [H1 H2].
  apply Nat.eqb_eq in H1, H2. unfold NTYPES in H1, H2.
  unfold lookup. fold (row_of rowf sv ph sk 0). fold (row_of rowf sv ph sk va).
  pose proof (row_all_spec _ _ _ 0 (Z.to_nat t) H3) as Hs.
  rewrite Z2Nat.id in Hs by lia. simpl in Hs. apply Hs; lia.
Qed.

Lemma tab_total : table_all gate_row p_total = true. Proof. vm_compute. reflexivity. Qed.
Lemma tab_prekex : table_all gate_row p_prekex = true. Proof. vm_compute. reflexivity. Qed.
Lemma tab_preauth : table_all gate_row p_preauth = true. Proof. vm_compute. reflexivity. Qed.
Lemma tab_role : table_all gate_row p_role = true. Proof. vm_compute. reflexivity. Qed.
Lemma tab_strict : table_all gate_row p_strict = true. Proof. vm_compute. reflexivity. Qed.
Lemma tab_postauth : table_all gate_row p_postauth = true. Proof. vm_compute. reflexivity. Qed.
Lemma tab_unassigned : table_all gate_row p_unassigned = true. Proof. vm_compute. reflexivity. Qed.
Lemma tab_malformed : table_all gate_row p_malformed = true. Proof. vm_compute. reflexivity. Qed.
