(* C06 - proofs about the hand model Model/Transport.v (independent of the generated table). *)
From AV Require Import Base.Prelude Model.Transport.

(* ====================================================================================================== *)
(* Part 2: the hand model *)

Ltac unfold_model :=
  unfold dispatch_g, on_connmsg_g, on_kexmsg, on_authmsg, on_service_request, on_service_accept, on_ext_info,
         on_kexinit_g, on_newkeys, on_userauth_request, on_userauth_failure, on_userauth_success_g, on_banner,
         try_next_auth, send_userauth_failure, send_userauth_success, send_newkeys, send_kexinit, unimpl,
         fatal, abort, send_deferred, issue_request, send_packet, emit.

Ltac crush_ifs :=
  repeat match goal with
         | |- context [if ?b then _ else _] => let E := fresh "E" in destruct b eqn:E
         | |- context [match ?l with [] => _ | _ :: _ => _ end] => destruct l
         end.

(* ---- frame facts: which fields a function cannot change ------------------------------------------------ *)
Section Frames.
  (* the fields that only one handler each may change *)
  Lemma send_list_strict : forall l c, strict (send_list c l) = strict c.
  Proof. induction l as [|t r IH]; intros c; simpl; [reflexivity|]. rewrite IH. unfold send_packet, emit. crush_ifs; reflexivity. Qed.
  Lemma send_list_recv_enc : forall l c, recv_enc (send_list c l) = recv_enc c.
  Proof. induction l as [|t r IH]; intros c; simpl; [reflexivity|]. rewrite IH. unfold send_packet, emit. crush_ifs; reflexivity. Qed.
  Lemma send_list_unsolicited : forall l c, unsolicited (send_list c l) = unsolicited c.
  Proof. induction l as [|t r IH]; intros c; simpl; [reflexivity|]. rewrite IH. unfold send_packet, emit. crush_ifs; reflexivity. Qed.
  Lemma send_list_srv : forall l c, srv (send_list c l) = srv c.
  Proof. induction l as [|t r IH]; intros c; simpl; [reflexivity|]. rewrite IH. unfold send_packet, emit. crush_ifs; reflexivity. Qed.
  Lemma send_list_closed : forall l c, closed (send_list c l) = closed c.
  Proof. induction l as [|t r IH]; intros c; simpl; [reflexivity|]. rewrite IH. unfold send_packet, emit. crush_ifs; reflexivity. Qed.
  Lemma send_list_auth : forall l c, auth (send_list c l) = auth c.
  Proof. induction l as [|t r IH]; intros c; simpl; [reflexivity|]. rewrite IH. unfold send_packet, emit. crush_ifs; reflexivity. Qed.
  Lemma send_list_pending : forall l c, pending (send_list c l) = pending c.
  Proof. induction l as [|t r IH]; intros c; simpl; [reflexivity|]. rewrite IH. unfold send_packet, emit. crush_ifs; reflexivity. Qed.
  Lemma send_list_can_recv_ext : forall l c, can_recv_ext (send_list c l) = can_recv_ext c.
  Proof. induction l as [|t r IH]; intros c; simpl; [reflexivity|]. rewrite IH. unfold send_packet, emit. crush_ifs; reflexivity. Qed.
  Lemma send_list_auth_complete : forall l c, auth_complete (send_list c l) = auth_complete c.
  Proof. induction l as [|t r IH]; intros c; simpl; [reflexivity|]. rewrite IH. unfold send_packet, emit. crush_ifs; reflexivity. Qed.
  Lemma send_list_authed : forall l c, authed (send_list c l) = authed c.
  Proof. induction l as [|t r IH]; intros c; simpl; [reflexivity|]. rewrite IH. unfold send_packet, emit. crush_ifs; reflexivity. Qed.
  Lemma send_list_user : forall l c, user (send_list c l) = user c.
  Proof. induction l as [|t r IH]; intros c; simpl; [reflexivity|]. rewrite IH. unfold send_packet, emit. crush_ifs; reflexivity. Qed.
  Lemma send_list_auth_final : forall l c, auth_final (send_list c l) = auth_final c.
  Proof. induction l as [|t r IH]; intros c; simpl; [reflexivity|]. rewrite IH. unfold send_packet, emit. crush_ifs; reflexivity. Qed.
End Frames.

#[export] Hint Rewrite send_list_strict send_list_recv_enc send_list_unsolicited send_list_srv send_list_closed
  send_list_auth send_list_pending send_list_can_recv_ext send_list_auth_complete send_list_authed send_list_user
  send_list_auth_final : frame.

Ltac frame := intros; unfold_model; cbv zeta; crush_ifs; autorewrite with frame; cbn; autorewrite with frame; try reflexivity.

Lemma run_task_strict c k : strict (run_task c k) = strict c.
Proof. destruct k; unfold run_task; frame. Qed.

Lemma run_tasks_strict : forall n c, strict (run_tasks n c) = strict c.
Proof.
  induction n as [|n IH]; intros c; simpl; [reflexivity|].
  destruct (closed c); [reflexivity|]. destruct (pending c) as [|k r]; [reflexivity|].
  rewrite IH, run_task_strict. reflexivity.
Qed.

(* ---- receive sequence number: restart at NEWKEYS under strict KEX, in every run ------------------------- *)
Lemma note_all_frame : forall l s,
  cn (note_all s l) = cn s /\ recv_seq (note_all s l) = recv_seq s /\ last_recv (note_all s l) = last_recv s /\
  clear_acc (note_all s l) = clear_acc s.
Proof. induction l as [|t r IH]; intros s; simpl; [auto|]. destruct (IH (mkst (cn s) (recv_seq s) (note_sent (strict (cn s)) (send_seq s) t) (last_recv s) t (clear_acc s))) as (A & B & C & D). simpl in *. auto. Qed.

(* what answering a suspended credential callback can do to the connection *)
Definition release_conn (c : conn) (v : Z) : conn :=
  if v =? 0 then try_next_auth (set_waiting false c) true
  else issue_request (set_waiting false c).

Lemma step_release fixed fixk s v :
  step_g fixed fixk s (EvRelease v) =
  if closed (cn s) || negb (waiting (cn s)) || (auth (cn s) =? 0) then s else with_conn s (release_conn (cn s) v).
Proof. unfold release_conn. cbn [step_g]. destruct (closed (cn s) || negb (waiting (cn s)) || (auth (cn s) =? 0)); [reflexivity|]. destruct (v =? 0); reflexivity. Qed.

Lemma release_strict c v : strict (release_conn c v) = strict c.
Proof. unfold release_conn. destruct (v =? 0); frame. Qed.
Lemma release_recv_enc c v : recv_enc (release_conn c v) = recv_enc c.
Proof. unfold release_conn. destruct (v =? 0); frame. Qed.
Lemma release_unsolicited c v : unsolicited (release_conn c v) = unsolicited c.
Proof. unfold release_conn. destruct (v =? 0); frame. Qed.
Lemma release_sid c v : sid (release_conn c v) = sid c.
Proof. unfold release_conn. destruct (v =? 0); frame. Qed.
Lemma release_next_recv c v : next_recv (release_conn c v) = next_recv c.
Proof. unfold release_conn. destruct (v =? 0); frame. Qed.

Definition inv_rseq (s : st) : Prop :=
  last_recv s = 21 -> strict (cn s) = true -> closed (cn s) = false -> recv_seq s = 0.

Lemma run_tasks_closed_id : forall n c, closed c = true -> run_tasks n c = c.
Proof. destruct n; intros c H; simpl; [reflexivity|]. rewrite H. reflexivity. Qed.

Lemma step_inv_rseq0 fixed fixk s e : inv_rseq s -> inv_rseq (step_g fixed fixk s e).
Proof.
  intros H. destruct e as [|t cls| |v]; [cbn [step_g] | cbn [step_g] | cbn [step_g] | ].
  - destruct (closed (cn s)) eqn:Ec; [exact H|]. exact H.
  - unfold recv_g.
    destruct (closed (cn s)) eqn:Ec; [exact H|].
    set (c1 := dispatch_g fixed fixk _ _ t cls).
    destruct (closed c1) eqn:Ec1.
    + intros _ _ Hc. simpl in Hc. congruence.
    + unfold finish_recv.
      set (c2 := if 79 <? t then set_auth_final true c1 else c1).
      destruct ((recv_seq s =? M32 - 1) && negb (recv_enc c2)) eqn:Er.
      * intros _ _ Hc. simpl in Hc. discriminate.
      * intros Hl Hs Hc. simpl in *. subst t. rewrite Hs. reflexivity.
  - unfold inv_rseq. cbn [with_conn cn last_recv recv_seq]. intros Hl Hs Hc.
    rewrite run_tasks_strict in Hs.
    destruct (closed (cn s)) eqn:Ec.
    + rewrite run_tasks_closed_id in Hc by exact Ec. congruence.
    + apply H; auto.
  - rewrite step_release.
    destruct (closed (cn s) || negb (waiting (cn s)) || (auth (cn s) =? 0)) eqn:Eg; [exact H|].
    unfold inv_rseq. cbn [with_conn cn last_recv recv_seq]. rewrite release_strict. intros Hl Hs Hc.
    apply H; auto. apply orb_false_iff in Eg as [Eg _]. apply orb_false_iff in Eg as [Eg _]. exact Eg.
Qed.

Lemma step_inv_rseq fixed fixk s e : inv_rseq s -> inv_rseq (step_g fixed fixk (begin_step s) e).
Proof. intros H. apply step_inv_rseq0. exact H. Qed.

Lemma run_inv_rseq fixed fixk : forall l s, inv_rseq s -> inv_rseq (run_g fixed fixk s l).
Proof.
  induction l as [|e r IH]; intros s H; simpl; [exact H|]. apply IH.
  unfold step_booked_g. pose proof (step_inv_rseq fixed fixk s e H) as H1.
  destruct (note_all_frame (map fst (olog (cn (step_g fixed fixk (begin_step s) e)))) (step_g fixed fixk (begin_step s) e)) as (A & B & C & D).
  unfold inv_rseq in *. rewrite A, B, C. exact H1.
Qed.

Lemma recv_seq_reset_all_runs fixed fixk server g l :
  let s := run_g fixed fixk (init_gated server g) l in
  last_recv s = 21 -> strict (cn s) = true -> closed (cn s) = false -> recv_seq s = 0.
Proof. apply run_inv_rseq. intros H. simpl in H. discriminate. Qed.

(* ---- send sequence number ------------------------------------------------------------------------------ *)
Lemma note_all_no21 : forall l s,
  ~ In 21 l -> 0 <= send_seq s < M32 ->
  send_seq (note_all s l) = (send_seq s + Z.of_nat (List.length l)) mod M32.
Proof.
  induction l as [|t r IH]; intros s Hn Hb.
  - simpl. rewrite Z.add_0_r. rewrite Z.mod_small; [reflexivity | exact Hb].
  - simpl note_all. rewrite IH.
    + simpl. unfold note_sent. destruct (t =? 21) eqn:E; [apply Z.eqb_eq in E; exfalso; apply Hn; left; auto|].
      simpl. unfold M32 in *. rewrite Zplus_mod_idemp_l. f_equal. lia.
    + intros Hi. apply Hn. right. exact Hi.
    + simpl. unfold note_sent. destruct ((t =? 21) && strict (cn s)); unfold M32; [lia|].
      apply Z.mod_pos_bound. lia.
Qed.

(* numbering restarts behind a NEWKEYS: the k packets sent after it carry 0 .. k-1 *)
Lemma send_seq_reset : forall l1 l2 s,
  strict (cn s) = true -> ~ In 21 l2 ->
  send_seq (note_all s (l1 ++ 21 :: l2)) = Z.of_nat (List.length l2) mod M32.
Proof.
  induction l1 as [|t r IH]; intros l2 s Hs Hn.
  - simpl app. simpl note_all. rewrite note_all_no21; simpl.
    + unfold note_sent. rewrite Hs. simpl. reflexivity.
    + exact Hn.
    + unfold note_sent. rewrite Hs. simpl. unfold M32. lia.
  - simpl. apply IH; simpl; auto.
Qed.

(* what send_newkeys puts on the wire starts with NEWKEYS *)
Lemma send_list_olog_prefix : forall l c, exists r, olog (send_list c l) = olog c ++ r.
Proof.
  induction l as [|t rr IH]; intros c; simpl; [exists []; rewrite app_nil_r; reflexivity|].
  destruct (IH (send_packet c t 0)) as [r Hr]. rewrite Hr.
  unfold send_packet, emit. crush_ifs; cbn; rewrite <- ?app_assoc; eexists; reflexivity.
Qed.

Lemma send_newkeys_olog c : exists r, olog (send_newkeys c) = olog c ++ (21, 0) :: r.
Proof.
  unfold send_newkeys, send_deferred. cbv zeta.
  match goal with |- context [send_list ?x ?l] => destruct (send_list_olog_prefix l x) as [r Hr]; rewrite Hr end.
  unfold send_packet, emit. crush_ifs; cbn; rewrite <- ?app_assoc; cbn; eexists; reflexivity.
Qed.

(* ---- the initial exchange under strict KEX, in every run -------------------------------------------------- *)
Lemma send_list_sid : forall l c, sid (send_list c l) = sid c.
Proof. induction l as [|t r IH]; intros c; simpl; [reflexivity|]. rewrite IH. unfold send_packet, emit. crush_ifs; reflexivity. Qed.
Lemma send_list_next_recv : forall l c, next_recv (send_list c l) = next_recv c.
Proof. induction l as [|t r IH]; intros c; simpl; [reflexivity|]. rewrite IH. unfold send_packet, emit. crush_ifs; reflexivity. Qed.
#[export] Hint Rewrite send_list_sid send_list_next_recv : frame.

(* the peer's NEWKEYS can only be accepted after our own NEWKEYS went out (which fixes the session id) *)
Definition pre_sid (c : conn) : Prop := sid c = false -> next_recv c = false /\ recv_enc c = false.

Lemma dispatch_pre_sid fixed fixk c seq t cls : pre_sid c -> pre_sid (dispatch_g fixed fixk c seq t cls).
Proof.
  unfold pre_sid. intros H.
  unfold_model; cbv zeta; crush_ifs; autorewrite with frame; cbn; autorewrite with frame; cbn;
    try (intros D; discriminate D); try exact H;
    try (intros D; destruct (H D) as [H1 H2]; split; congruence).
Qed.

Lemma run_task_pre_sid c k : pre_sid c -> pre_sid (run_task c k).
Proof.
  unfold pre_sid. intros H. destruct k; unfold run_task;
  unfold_model; cbv zeta; crush_ifs; autorewrite with frame; cbn; autorewrite with frame; cbn; exact H.
Qed.

Lemma run_tasks_pre_sid : forall n c, pre_sid c -> pre_sid (run_tasks n c).
Proof.
  induction n as [|n IH]; intros c H; simpl; [exact H|].
  destruct (closed c); [exact H|]. destruct (pending c) as [|k r] eqn:Ep; [exact H|].
  apply IH. apply run_task_pre_sid. exact H.
Qed.

Lemma run_task_recv_enc c k : recv_enc (run_task c k) = recv_enc c.
Proof. destruct k; unfold run_task; frame. Qed.
Lemma run_tasks_recv_enc : forall n c, recv_enc (run_tasks n c) = recv_enc c.
Proof.
  induction n as [|n IH]; intros c; simpl; [reflexivity|].
  destruct (closed c); [reflexivity|]. destruct (pending c) as [|k r]; [reflexivity|].
  rewrite IH, run_task_recv_enc. reflexivity.
Qed.

Lemma run_tasks_nopending : forall n c, pending c = [] -> run_tasks n c = c.
Proof. destruct n; intros c H; simpl; [reflexivity|]. rewrite H. destruct (closed c); reflexivity. Qed.

Definition allowed_clear (t : Z) : Prop := t = 20 \/ t = 21 \/ 30 <= t <= 49.

(* one packet received while still in clear, from any state in which no authentication object, task or
   EXT_INFO permission exists yet *)
Ltac zb :=
  repeat match goal with
         | H : _ && _ = true |- _ => apply andb_true_iff in H; destruct H
         | H : negb _ = true |- _ => apply negb_true_iff in H
         | H : negb _ = false |- _ => apply negb_false_iff in H
         | H : (_ =? _) = true |- _ => apply Z.eqb_eq in H
         | H : (_ <=? _) = true |- _ => apply Z.leb_le in H
         | H : (_ <? _) = true |- _ => apply Z.ltb_lt in H
         | H : (_ =? _) = false |- _ => apply Z.eqb_neq in H
         end.

Lemma dispatch_clear fixed fixk c seq t cls :
  recv_enc c = false -> auth c = 0 -> can_recv_ext c = false -> pending c = [] ->
  let c' := dispatch_g fixed fixk c seq t cls in
  closed c' = true \/
  ((recv_enc c' = false -> auth c' = 0 /\ can_recv_ext c' = false /\ pending c' = []) /\
   (strict c = true -> allowed_clear t) /\
   (strict c = false -> strict c' = true -> t = 20 /\ seq = 0 /\ sid c = false) /\
   (t = 21 -> recv_enc c' = true)).
Proof.
  intros Hr Ha He Hp. cbv zeta.
  unfold_model; cbv zeta; rewrite ?Hr, ?Ha, ?He, ?Hp; crush_ifs; autorewrite with frame; cbn; autorewrite with frame; cbn;
    rewrite ?Hr, ?Ha, ?He, ?Hp;
    try (left; reflexivity);
    right; unfold allowed_clear; (split; [|split; [|split]]);
    try (intros; repeat split; congruence);
    try (intros; discriminate);
    try (unfold is_deleg in *; cbn in *; intros; zb; try subst t; cbn in *; try discriminate;
         repeat split; try congruence; try lia;
         try (match goal with H : strict c = true, H2 : context [strict c] |- _ => rewrite H in H2; cbn in H2; try discriminate end);
         try (match goal with H : _ || _ = true |- _ =>
                repeat (apply orb_true_iff in H; destruct H as [H|H]); zb; subst; cbn in *; discriminate end);
         try (match goal with H2 : context [recv_enc c] |- _ => rewrite Hr in H2; cbn in H2; zb; try assumption; try lia end)).
Qed.


Lemma dispatch_strict_flip fixed fixk c seq t cls :
  strict c = false -> strict (dispatch_g fixed fixk c seq t cls) = true -> sid c = false.
Proof.
  intros Hs. unfold_model; cbv zeta; crush_ifs; autorewrite with frame; cbn; autorewrite with frame; cbn;
    rewrite ?Hs; try (intros D; discriminate D); intros _; zb; assumption.
Qed.

Lemma dispatch_recv_enc_mono fixed fixk c seq t cls :
  recv_enc c = true -> recv_enc (dispatch_g fixed fixk c seq t cls) = true.
Proof.
  intros Hr. unfold_model; cbv zeta; crush_ifs; autorewrite with frame; cbn; autorewrite with frame; cbn;
    rewrite ?Hr; reflexivity.
Qed.

Record inv_clear (s : st) : Prop := {
  ic_sid : pre_sid (cn s);
  ic_pre : recv_enc (cn s) = false -> closed (cn s) = false ->
           auth (cn s) = 0 /\ can_recv_ext (cn s) = false /\ pending (cn s) = [] /\
           recv_seq s = Z.of_nat (List.length (clear_acc s)) /\ recv_seq s < M32;
  ic_strict : strict (cn s) = true -> closed (cn s) = false ->
              Forall allowed_clear (clear_acc s) /\ (exists r, clear_acc s = 20 :: r)
}.

Lemma inv_clear_init server g : inv_clear (init_gated server g).
Proof.
  split; simpl.
  - intros _. auto.
  - intros _ _. repeat split; auto; unfold M32; lia.
  - intros D. discriminate D.
Qed.

Lemma pre_sid_fatal c : pre_sid c -> pre_sid (fatal c).
Proof. unfold pre_sid, fatal, emit. cbn. auto. Qed.

Lemma inv_clear_recv fixed fixk s t cls : inv_clear s -> inv_clear (recv_g fixed fixk s t cls).
Proof.
  intros [Isid Ipre Istr]. unfold recv_g.
  destruct (closed (cn s)) eqn:Ec; [split; [exact Isid | intros _ D; congruence | intros _ D; congruence]|].
  set (c1 := dispatch_g fixed fixk (cn s) (recv_seq s) t cls).
  assert (Hsid1 : pre_sid c1) by (apply dispatch_pre_sid; exact Isid).
  destruct (closed c1) eqn:Ec1.
  { split; cbn [with_conn cn recv_seq clear_acc]; [exact Hsid1 | intros _ D; congruence | intros _ D; congruence]. }
  unfold finish_recv.
  set (c2 := if 79 <? t then set_auth_final true c1 else c1).
  assert (Hc2 : recv_enc c2 = recv_enc c1 /\ strict c2 = strict c1 /\ auth c2 = auth c1 /\
                can_recv_ext c2 = can_recv_ext c1 /\ pending c2 = pending c1 /\ closed c2 = closed c1 /\
                sid c2 = sid c1 /\ next_recv c2 = next_recv c1).
  { unfold c2. destruct (79 <? t); cbn; repeat split; reflexivity. }
  destruct Hc2 as (Q1 & Q2 & Q3 & Q4 & Q5 & Q6 & Q7 & Q8).
  assert (Hsid2 : pre_sid c2) by (unfold pre_sid in *; rewrite Q7, Q8, Q1; exact Hsid1).
  destruct ((recv_seq s =? M32 - 1) && negb (recv_enc c2)) eqn:Er.
  { split; cbn [with_conn cn recv_seq clear_acc].
    - apply pre_sid_fatal. exact Hsid2.
    - intros _ D. cbn in D. discriminate D.
    - intros _ D. cbn in D. discriminate D. }
  destruct (recv_enc (cn s)) eqn:Ere.
  - (* already receiving encrypted: the clear history is frozen *)
    assert (Hm : recv_enc c1 = true) by (apply dispatch_recv_enc_mono; exact Ere).
    split; cbn [cn recv_seq clear_acc].
    + exact Hsid2.
    + rewrite Q1, Hm. intros D. discriminate D.
    + rewrite Q2, Q6. intros Hs1 _.
      destruct (strict (cn s)) eqn:Es.
      * apply Istr; auto.
      * pose proof (dispatch_strict_flip fixed fixk (cn s) (recv_seq s) t cls Es Hs1) as Hf.
        destruct (Isid Hf) as [_ Hx]. congruence.
  - (* still receiving in clear *)
    destruct (Ipre eq_refl eq_refl) as (Pa & Pe & Pp & Pq & Pb).
    pose proof (dispatch_clear fixed fixk (cn s) (recv_seq s) t cls Ere Pa Pe Pp) as Hd. cbv zeta in Hd.
    fold c1 in Hd. destruct Hd as [Hd|(D1 & D2 & D3 & D4)]; [congruence|].
    assert (Hnr : recv_seq s + 1 < M32 \/ recv_enc c2 = true).
    { apply andb_false_iff in Er. destruct Er as [Er|Er].
      - left. apply Z.eqb_neq in Er. lia.
      - right. apply negb_false_iff in Er. exact Er. }
    split; cbn [cn recv_seq clear_acc].
    + exact Hsid2.
    + rewrite Q1, Q3, Q4, Q5. intros Hr1 _. destruct (D1 Hr1) as (A1 & A2 & A3).
      repeat split; auto.
      * destruct (t =? 21) eqn:E21.
        { apply Z.eqb_eq in E21. rewrite (D4 E21) in Hr1. discriminate Hr1. }
        cbn [andb]. destruct Hnr as [Hnr|Hnr]; [|congruence].
        rewrite Z.mod_small by lia. rewrite app_length. simpl. lia.
      * destruct ((t =? 21) && strict c2); [unfold M32; lia|]. apply Z.mod_pos_bound. unfold M32. lia.
    + rewrite Q2, Q6. intros Hs1 _.
      destruct (strict (cn s)) eqn:Es.
      * destruct (Istr eq_refl eq_refl) as [F [r Hr]]. split.
        -- apply Forall_app. split; [exact F|]. constructor; [apply D2; reflexivity|constructor].
        -- exists (r ++ [t]). rewrite Hr. reflexivity.
      * destruct (D3 eq_refl Hs1) as (T20 & S0 & _).
        assert (Hnil : clear_acc s = []).
        { destruct (clear_acc s); [reflexivity|]. simpl in Pq. lia. }
        rewrite Hnil. subst t. simpl. split.
        -- constructor; [left; reflexivity|constructor].
        -- exists []. reflexivity.
Qed.

Lemma run_tasks_closed_mono : forall n c, closed c = true -> closed (run_tasks n c) = true.
Proof. intros n c H. rewrite run_tasks_closed_id; assumption. Qed.

Lemma inv_clear_step fixed fixk s e : inv_clear s -> inv_clear (step_g fixed fixk s e).
Proof.
  intros I. destruct e as [|t cls| |v]; [cbn [step_g] | cbn [step_g] | cbn [step_g] | ].
  - destruct (closed (cn s)) eqn:Ec; [exact I|].
    destruct I as [Isid Ipre Istr]. split; cbn.
    + exact Isid.
    + exact Ipre.
    + exact Istr.
  - apply inv_clear_recv. exact I.
  - destruct I as [Isid Ipre Istr].
    destruct (closed (cn s)) eqn:Ec.
    { rewrite run_tasks_closed_id by exact Ec. split; cbn [with_conn cn recv_seq clear_acc];
        [exact Isid | intros _ D; congruence | intros _ D; congruence]. }
    destruct (recv_enc (cn s)) eqn:Ere.
    + split; cbn [with_conn cn recv_seq clear_acc].
      * apply run_tasks_pre_sid. exact Isid.
      * rewrite run_tasks_recv_enc, Ere. intros D. discriminate D.
      * rewrite run_tasks_strict. intros Hs _. apply Istr; auto.
    + destruct (Ipre eq_refl eq_refl) as (Pa & Pe & Pp & Pq & Pb).
      rewrite run_tasks_nopending by exact Pp.
      split; cbn [with_conn cn recv_seq clear_acc]; [exact Isid | rewrite Ere, Ec; exact Ipre | rewrite Ec; exact Istr].
  - rewrite step_release.
    destruct (closed (cn s) || negb (waiting (cn s)) || (auth (cn s) =? 0)) eqn:Eg; [exact I|].
    apply orb_false_iff in Eg as [Eg Ea]. apply orb_false_iff in Eg as [Ec _].
    destruct I as [Isid Ipre Istr]. split; cbn [with_conn cn recv_seq clear_acc].
    + unfold pre_sid in *. rewrite release_sid, release_next_recv, release_recv_enc. exact Isid.
    + rewrite release_recv_enc. intros Hr _. destruct (Ipre Hr Ec) as (Pa & _). rewrite Pa in Ea. discriminate Ea.
    + rewrite release_strict. intros Hs _. apply Istr; assumption.
Qed.

Lemma inv_clear_begin s : inv_clear s -> inv_clear (begin_step s).
Proof. intros [A B C]. split; cbn; assumption. Qed.

Lemma inv_clear_note s l : inv_clear s -> inv_clear (note_all s l).
Proof.
  intros [A B C]. destruct (note_all_frame l s) as (E1 & E2 & E3 & E4).
  split; rewrite ?E1, ?E2, ?E4; assumption.
Qed.

Lemma run_inv_clear fixed fixk : forall l s, inv_clear s -> inv_clear (run_g fixed fixk s l).
Proof.
  induction l as [|e r IH]; intros s I; simpl; [exact I|]. apply IH.
  unfold step_booked_g. apply inv_clear_note, inv_clear_step, inv_clear_begin. exact I.
Qed.

(* In every run: if strict KEX was negotiated and the connection is still up, the packets accepted while
   receiving in clear were the KEXINIT first and then only exchange-specific messages and NEWKEYS; and as
   long as the connection receives in clear their number equals the receive sequence number. *)
Lemma strict_initial_all_runs fixed fixk server g l :
  let s := run_g fixed fixk (init_gated server g) l in
  closed (cn s) = false ->
  (strict (cn s) = true -> Forall allowed_clear (clear_acc s) /\ exists r, clear_acc s = 20 :: r) /\
  (recv_enc (cn s) = false -> recv_seq s = Z.of_nat (List.length (clear_acc s))).
Proof.
  cbv zeta. intros Hc. destruct (run_inv_clear fixed fixk l _ (inv_clear_init server g)) as [A B C]. split.
  - intros Hs. apply C; assumption.
  - intros Hr. destruct (B Hr Hc) as (_ & _ & _ & Q & _). exact Q.
Qed.

(* ---- the phase gate, in every state ------------------------------------------------------------------------ *)
Lemma gate_prekex_fatal fixed fixk c seq t cls :
  recv_enc c = false -> auth c = 0 -> 49 < t -> closed (dispatch_g fixed fixk c seq t cls) = true.
Proof.
  intros Hr Ha Ht. unfold dispatch_g. rewrite Hr, Ha. cbn [negb andb Z.eqb].
  destruct ((30 <=? t) && (t <=? 49)) eqn:E1; [zb; lia|].
  destruct (strict c && true && (2 <=? t) && (t <=? 4)) eqn:E0; [reflexivity|].
  destruct ((60 <=? t) && (t <=? 79)) eqn:E2; [reflexivity|].
  assert (E3 : (49 <? t) = true) by (apply Z.ltb_lt; exact Ht). rewrite E3. reflexivity.
Qed.

Lemma gate_preauth_fatal fixed fixk c seq t cls :
  auth_complete c = false -> 79 < t -> closed (dispatch_g fixed fixk c seq t cls) = true.
Proof.
  intros Hr Ht. unfold dispatch_g. rewrite Hr. cbn [negb andb Z.eqb].
  destruct ((30 <=? t) && (t <=? 49)) eqn:E1; [zb; lia|].
  destruct (strict c && negb (recv_enc c) && (2 <=? t) && (t <=? 4)) eqn:E0; [reflexivity|].
  destruct ((60 <=? t) && (t <=? 79)) eqn:E2; [zb; lia|].
  destruct ((49 <? t) && negb (recv_enc c)) eqn:E3; [reflexivity|].
  assert (E4 : (79 <? t) = true) by (apply Z.ltb_lt; exact Ht). rewrite E4. reflexivity.
Qed.

(* a message only the other role may send ends the connection, in every state *)
Lemma role_foreign_fatal fixed fixk c seq t cls :
  ignore_first c = false ->
  (srv c = false /\ (t = 5 \/ t = 30 \/ t = 50)) \/
  (srv c = true /\ (t = 6 \/ t = 31 \/ t = 51 \/ t = 52 \/ t = 53)) ->
  closed (dispatch_g fixed fixk c seq t cls) = true.
Proof.
  intros Hi [[Hs Ht]|[Hs Ht]]; repeat (destruct Ht as [Ht|Ht]); subst t;
    unfold_model; cbv zeta; rewrite ?Hs, ?Hi; cbn; crush_ifs; autorewrite with frame; cbn; rewrite ?Hs in *; cbn in *;
    try reflexivity; try discriminate.
Qed.

(* ---- USERAUTH_SUCCESS on a client ------------------------------------------------------------------------- *)
(* the code as it is: a run in which success is accepted although no request of the client's is outstanding
   (SERVICE_ACCEPT and USERAUTH_SUCCESS arrive in one chunk: the auth object exists, its start task - which
   would send the request - has not run yet) *)
Definition unsolicited_witness : list event :=
  [EvVersion; EvRecv 20 1; EvSettle; EvRecv 31 0; EvSettle; EvRecv 21 0; EvSettle; EvRecv 6 0; EvRecv 52 0; EvSettle].

Lemma success_unsolicited_cur fixk :
  let s := run_g false fixk (init false) unsolicited_witness in
  auth_complete (cn s) = true /\ closed (cn s) = false /\ unsolicited (cn s) = true.
Proof. destruct fixk; vm_compute; auto. Qed.

(* the same run against the repaired gate ends the connection instead *)
Lemma success_unsolicited_fixed_witness fixk :
  closed (cn (run_g true fixk (init false) unsolicited_witness)) = true.
Proof. destruct fixk; vm_compute; reflexivity. Qed.

Lemma dispatch_unsolicited_fixed fixk c seq t cls :
  unsolicited c = false -> unsolicited (dispatch_g true fixk c seq t cls) = false.
Proof.
  intros Hu. unfold_model; cbv zeta; crush_ifs; autorewrite with frame; cbn; autorewrite with frame; cbn;
    rewrite ?Hu; try reflexivity.
  all: zb; cbn in *; match goal with H : req_issued _ = true |- _ => rewrite H end; reflexivity.
Qed.

Lemma run_task_unsolicited c k : unsolicited (run_task c k) = unsolicited c.
Proof. destruct k; unfold run_task; frame. Qed.
Lemma run_tasks_unsolicited : forall n c, unsolicited (run_tasks n c) = unsolicited c.
Proof.
  induction n as [|n IH]; intros c; simpl; [reflexivity|].
  destruct (closed c); [reflexivity|]. destruct (pending c) as [|k r]; [reflexivity|].
  rewrite IH, run_task_unsolicited. reflexivity.
Qed.

Lemma step_unsolicited_fixed fixk s e :
  unsolicited (cn s) = false -> unsolicited (cn (step_g true fixk s e)) = false.
Proof.
  intros H. destruct e as [|t cls| |v]; [cbn [step_g] | cbn [step_g] | cbn [step_g] | ].
  - destruct (closed (cn s)); [exact H|]. cbn. exact H.
  - unfold recv_g. destruct (closed (cn s)); [exact H|].
    pose proof (dispatch_unsolicited_fixed fixk (cn s) (recv_seq s) t cls H) as H1.
    destruct (closed (dispatch_g true fixk (cn s) (recv_seq s) t cls)); [exact H1|].
    unfold finish_recv. destruct (79 <? t); crush_ifs; cbn; exact H1.
  - cbn [with_conn cn]. rewrite run_tasks_unsolicited. exact H.
  - rewrite step_release.
    destruct (closed (cn s) || negb (waiting (cn s)) || (auth (cn s) =? 0)); [exact H|].
    cbn [with_conn cn]. rewrite release_unsolicited. exact H.
Qed.

Lemma success_outstanding_fixed_all_runs fixk : forall l s,
  unsolicited (cn s) = false -> unsolicited (cn (run_g true fixk s l)) = false.
Proof.
  induction l as [|e r IH]; intros s H; simpl; [exact H|]. apply IH. unfold step_booked_g.
  destruct (note_all_frame (map fst (olog (cn (step_g true fixk (begin_step s) e)))) (step_g true fixk (begin_step s) e)) as (A & _).
  rewrite A. apply step_unsolicited_fixed. cbn. exact H.
Qed.

(* ---- after authentication completed on a server, nothing a client sends changes who is authenticated ---- *)
Definition post_ok (u : Z) (c : conn) : Prop :=
  srv c = true /\ auth_complete c = true /\ pending c = [] /\ auth c = 0 /\ authed c = u.

Lemma dispatch_post_ok fixed fixk u c seq t cls :
  post_ok u c -> closed (dispatch_g fixed fixk c seq t cls) = true \/ post_ok u (dispatch_g fixed fixk c seq t cls).
Proof.
  intros (H1 & H2 & H3 & H4 & H5). unfold post_ok.
  unfold_model; cbv zeta; rewrite ?H1, ?H2, ?H3, ?H4; cbn; crush_ifs; autorewrite with frame; cbn;
    autorewrite with frame; cbn; rewrite ?H1, ?H2, ?H3, ?H4;
    try (left; reflexivity); right; repeat split; try assumption; try reflexivity; try discriminate;
    try (rewrite H1 in *; cbn in *; discriminate).
Qed.

Definition post_inv (u : Z) (s : st) : Prop := closed (cn s) = true \/ post_ok u (cn s).

Lemma step_post_inv fixed fixk u s e : post_inv u s -> post_inv u (step_g fixed fixk s e).
Proof.
  intros [Hc|Hp]; destruct e as [|t cls| |v]; [cbn [step_g] | cbn [step_g] | cbn [step_g] | | cbn [step_g] | cbn [step_g] | cbn [step_g] | ].
  - rewrite Hc. left. exact Hc.
  - unfold recv_g. rewrite Hc. left. exact Hc.
  - left. cbn [with_conn cn]. rewrite run_tasks_closed_id; exact Hc.
  - rewrite step_release. rewrite Hc. left. exact Hc.
  - destruct (closed (cn s)) eqn:Ec; [left; exact Ec|]. right. destruct Hp as (H1 & H2 & H3 & H4 & H5).
    unfold post_ok. cbn. auto.
  - unfold recv_g. destruct (closed (cn s)) eqn:Ec; [left; exact Ec|].
    destruct (dispatch_post_ok fixed fixk u (cn s) (recv_seq s) t cls Hp) as [D|D].
    + rewrite D. left. exact D.
    + destruct (closed (dispatch_g fixed fixk (cn s) (recv_seq s) t cls)) eqn:Ec1; [left; exact Ec1|].
      unfold finish_recv. crush_ifs; cbn; try (left; reflexivity); right;
        destruct D as (H1 & H2 & H3 & H4 & H5); unfold post_ok; cbn; auto.
  - right. cbn [with_conn cn]. destruct Hp as (H1 & H2 & H3 & H4 & H5). rewrite run_tasks_nopending by exact H3.
    unfold post_ok. auto.
  - rewrite step_release. destruct Hp as (H1 & H2 & H3 & H4 & H5). rewrite H4. cbn [Z.eqb].
    rewrite orb_true_r. right. unfold post_ok. auto.
Qed.

Lemma run_post_inv fixed fixk u : forall l s, post_inv u s -> post_inv u (run_g fixed fixk s l).
Proof.
  induction l as [|e r IH]; intros s H; simpl; [exact H|]. apply IH. unfold step_booked_g.
  destruct (note_all_frame (map fst (olog (cn (step_g fixed fixk (begin_step s) e)))) (step_g fixed fixk (begin_step s) e)) as (A & _).
  unfold post_inv. rewrite A. apply step_post_inv.
  destruct H as [H|(H1 & H2 & H3 & H4 & H5)]; [left; exact H|right; unfold post_ok; cbn; auto].
Qed.

(* the scripted session of the harness server in the model: alice authenticates, the state satisfies post_ok *)
Definition server_login : list event :=
  [EvVersion; EvRecv 20 1; EvSettle; EvRecv 30 0; EvSettle; EvRecv 21 0; EvSettle; EvRecv 5 0; EvSettle;
   EvRecv 50 100; EvSettle; EvRecv 50 111; EvSettle].

Lemma server_login_post_ok fixed fixk : post_ok 1 (cn (run_g fixed fixk (init true) server_login)).
Proof. destruct fixed, fixk; vm_compute; auto. Qed.

(* ---- KEXINIT between our NEWKEYS and the peer's, strict KEX not negotiated ---------------------------------- *)
(* the code as it is starts a second key exchange although the first one has not completed *)
Definition early_kexinit_witness : list event :=
  [EvVersion; EvRecv 20 0; EvSettle; EvRecv 31 0; EvSettle].

Lemma early_kexinit_cur fixed :
  let s := run_g fixed false (init false) early_kexinit_witness in
  (* our NEWKEYS is out, the peer's is still awaited, nothing is received encrypted yet *)
  next_recv (cn s) = true /\ recv_enc (cn s) = false /\ kex (cn s) = false /\ closed (cn s) = false /\
  let s' := step_booked_g fixed false s (EvRecv 20 0) in
  closed (cn s') = false /\ kex (cn s') = true /\ map fst (olog (cn s')) = [20; 30].
Proof. destruct fixed; vm_compute; repeat split; reflexivity. Qed.

(* with the repair the same KEXINIT ends the connection; in EVERY state in which the peer's NEWKEYS is awaited *)
Lemma early_kexinit_fixed fixed c seq cls :
  next_recv c = true -> closed (dispatch_g fixed true c seq 20 cls) = true.
Proof.
  intros Hn. unfold dispatch_g. cbn [Z.leb Z.compare andb Z.ltb Z.eqb]. rewrite !andb_false_r.
  cbn. unfold on_connmsg_g. cbn. unfold on_kexinit_g. rewrite Hn. rewrite orb_true_r. reflexivity.
Qed.

(* ---- method-specific authentication messages need an attempt in progress ----------------------------------- *)
(* in EVERY state without an authentication object a message of type 60..79 ends the connection *)
Lemma method_msg_needs_attempt fixed fixk c seq t cls :
  auth c = 0 -> 60 <= t <= 79 -> closed (dispatch_g fixed fixk c seq t cls) = true.
Proof.
  intros Ha Ht. unfold dispatch_g. rewrite Ha. cbn [Z.eqb negb].
  destruct ((30 <=? t) && (t <=? 49)) eqn:E1; [zb; lia|].
  destruct (strict c && negb (recv_enc c) && (2 <=? t) && (t <=? 4)) eqn:E0; [reflexivity|].
  assert (E2 : (60 <=? t) && (t <=? 79) = true) by (apply andb_true_iff; split; apply Z.leb_le; lia).
  rewrite E2. reflexivity.
Qed.

(* every way an attempt ends on a server - USERAUTH_FAILURE or USERAUTH_SUCCESS - retires the object *)
Lemma failure_retires c : auth (send_userauth_failure c) = 0.
Proof. unfold send_userauth_failure, send_packet, emit. crush_ifs; reflexivity. Qed.

Lemma success_retires c : auth (send_userauth_success c) = 0.
Proof.
  unfold send_userauth_success, send_deferred. cbv zeta. autorewrite with frame. reflexivity.
Qed.

(* every server-side authentication task either ends the attempt (object retired) or is the one that sends the
   keyboard-interactive challenge (attempt still in progress) *)
Lemma server_task_retires c k :
  not_server_task k = false ->
  auth (run_task c k) = 0 \/ (exists u, k = TServerKbd u /\ auth (run_task c k) = auth c).
Proof.
  destruct k; simpl; intros H; try discriminate H.
  - left. destruct (pw_valid u pw); [apply success_retires | apply failure_retires].
  - right. exists u. split; [reflexivity|]. unfold send_packet, emit. crush_ifs; reflexivity.
  - left. destruct (ok =? 0); [apply success_retires | apply failure_retires].
  - left. apply failure_retires.
Qed.

(* a stale INFO_RESPONSE after the attempt was answered: the witness run of the scripted second session *)
Definition kbd_failed : list event :=
  [EvVersion; EvRecv 20 1; EvSettle; EvRecv 30 0; EvSettle; EvRecv 21 0; EvSettle; EvRecv 5 0; EvSettle;
   EvRecv 50 100; EvSettle; EvRecv 50 130; EvSettle; EvRecv 61 1; EvSettle].

Lemma kbd_failed_then_right_answer fixed fixk :
  let s := run_g fixed fixk (init true) kbd_failed in
  closed (cn s) = false /\ auth (cn s) = 0 /\ auth_complete (cn s) = false /\
  let s' := run_g fixed fixk s [EvRecv 61 0; EvSettle] in
  closed (cn s') = true /\ auth_complete (cn s') = false /\ authed (cn s') = 0.
Proof. destruct fixed, fixk; vm_compute; repeat split; reflexivity. Qed.

(* ---- the skip transitions of auth.py (try_next_auth(next_method=True)) ---------------------------------------- *)
(* every path through try_next_auth lowers the request-outstanding flag - also the skips that happen AFTER the
   skipped method had sent its request *)
Lemma try_next_auth_clears c nm : req_issued (try_next_auth c nm) = false /\ waiting (try_next_auth c nm) = false.
Proof. unfold try_next_auth, abort. cbv zeta. crush_ifs; cbn; auto. Qed.

Lemma skip_transitions_clear c :
  req_issued (run_task c (TClientKbdResp 1)) = false /\      (* keyboard-interactive prompt cancelled *)
  req_issued (run_task c TChangePw) = false /\               (* password change not supported *)
  req_issued (release_conn c 0) = false.                     (* credential callback has nothing to offer *)
Proof.
  unfold run_task, release_conn. cbn [Z.eqb].
  repeat split; apply try_next_auth_clears.
Qed.

(* with the flag down a USERAUTH_SUCCESS ends the connection, in EVERY state *)
Lemma success_needs_flag fixk c seq cls :
  req_issued c = false -> closed (dispatch_g true fixk c seq 52 cls) = true.
Proof.
  intros Hr. unfold dispatch_g, on_connmsg_g, on_userauth_success_g, is_deleg. rewrite Hr.
  change (negb true || false) with false. rewrite !andb_false_r.
  crush_ifs; try reflexivity; try (cbn in *; discriminate).
Qed.

(* the gated scripted session: keyboard-interactive request sent, challenge arrives, the user cancels, the password
   callback is pending - a USERAUTH_SUCCESS in that window ends the connection *)
Definition between_methods : list event :=
  [EvVersion; EvRecv 20 1; EvSettle; EvRecv 31 0; EvSettle; EvRecv 21 0; EvSettle; EvRecv 6 0; EvSettle;
   EvRecv 51 4; EvSettle; EvRelease 1; EvRecv 60 1; EvSettle].

Lemma between_methods_success fixk :
  let s := run_g true fixk (init_gated false true) between_methods in
  closed (cn s) = false /\ auth (cn s) = 2 /\ waiting (cn s) = true /\ req_issued (cn s) = false /\
  closed (cn (run_g true fixk s [EvRecv 52 0; EvSettle])) = true.
Proof. destruct fixk; vm_compute; repeat split; reflexivity. Qed.

(* ---- first_kex_packet_follows ------------------------------------------------------------------------------- *)
(* the packet following a wrongly guessed KEXINIT is ignored - not parsed, nothing sent, connection up - exactly
   once, whatever strict says, in EVERY state; with no guess pending the packet goes to the exchange handler *)
Lemma guessed_packet_ignored_once fixed fixk c seq t cls :
  kex c = true -> 30 <= t <= 49 ->
  (ignore_first c = true ->
     dispatch_g fixed fixk c seq t cls = set_ignore_first false c) /\
  (ignore_first c = false ->
     dispatch_g fixed fixk c seq t cls = on_kexmsg c seq t cls).
Proof.
  intros Hk Ht. unfold dispatch_g.
  assert (E : (30 <=? t) && (t <=? 49) = true) by (apply andb_true_iff; split; apply Z.leb_le; lia).
  rewrite E, Hk. split; intros H; rewrite H; reflexivity.
Qed.

(* a KEXINIT arms the flag exactly for a wrong guess, and a KEXINIT without one disarms it *)
Lemma kexinit_arms_guess fixk c seq cls :
  closed (on_kexinit_g fixk c seq cls) = false -> ignore_first (on_kexinit_g fixk c seq cls) = (2 <=? cls).
Proof.
  unfold on_kexinit_g, fatal, send_kexinit, emit. cbv zeta. crush_ifs; cbn; intros H; try discriminate H; reflexivity.
Qed.
