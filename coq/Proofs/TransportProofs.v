(* C06 - proofs about Model/Transport.v and about the generated table Gen/MsgGate.v. *)
From Coq Require Import String Ascii.
From AV Require Import Base.Prelude Model.Transport Gen.MsgGate.

(* ====================================================================================================== *)
(* Part 1: the generated table.  Each check is a forallb over the whole finite table, evaluated by the
   kernel VM, and lifted to a universally quantified statement with the bounds spelled out. *)

Lemma in_zrange n z : 0 <= z < Z.of_nat n -> In z (zrange n).
Proof.
  intros H. unfold zrange. apply in_map_iff. exists (Z.to_nat z). split.
  - lia.
  - apply in_seq. lia.
Qed.

Lemma in_bools (b : bool) : In b [false; true].
Proof. destruct b; simpl; auto. Qed.

Lemma in_all_cells sv ph sk va :
  0 <= ph < 9 -> 0 <= va < 4 -> In (sv, ph, sk, va) all_cells.
Proof.
  intros Hp Hv. unfold all_cells.
  repeat (apply in_prod); try apply in_bools; apply in_zrange; simpl; lia.
Qed.

Lemma row_all_spec p : forall lw l t0 i,
  row_all p t0 lw l = true -> (i < List.length lw)%nat -> (i < List.length l)%nat ->
  p (t0 + Z.of_nat i) (nth i lw VX) (nth i l VX) = true.
Proof.
  induction lw as [|w rw IH]; intros l t0 i H Hi1 Hi2; [simpl in Hi1; lia|].
  destruct l as [|v r]; [simpl in Hi2; lia|].
  simpl in H. apply andb_true_iff in H as [H1 H2].
  destruct i as [|i].
  - simpl. replace (t0 + 0) with t0 by lia. exact H1.
  - simpl nth. replace (t0 + Z.of_nat (S i)) with ((t0 + 1) + Z.of_nat i) by lia.
    apply IH; [exact H2 | simpl in Hi1; lia | simpl in Hi2; lia].
Qed.

Lemma table_all_spec rowf p :
  table_all rowf p = true ->
  forall sv ph sk va t, 0 <= ph < 9 -> 0 <= va < 4 -> 0 <= t < 256 ->
    p sv ph sk va t (lookup rowf sv ph sk 0 t) (lookup rowf sv ph sk va t) = true.
Proof.
  intros H sv ph sk va t Hp Hv Ht. unfold table_all in H. rewrite forallb_forall in H.
  specialize (H _ (in_all_cells sv ph sk va Hp Hv)). cbv beta iota in H.
  apply andb_true_iff in H as [H H3]. apply andb_true_iff in H as [H1 H2].
  apply Nat.eqb_eq in H1, H2. unfold NTYPES in H1, H2.
  unfold lookup. fold (row_of rowf sv ph sk 0). fold (row_of rowf sv ph sk va).
  pose proof (row_all_spec _ _ _ 0 (Z.to_nat t) H3) as Hs.
  rewrite Z2Nat.id in Hs by lia. simpl in Hs. apply Hs; lia.
Qed.

Lemma tab_total : table_all gate_row p_total = true. Proof. vm_compute. reflexivity. Qed.
Lemma tab_prekex : table_all gate_row p_prekex = true. Proof. vm_compute. reflexivity. Qed.
Lemma tab_preauth : table_all gate_row p_preauth = true. Proof. vm_compute. reflexivity. Qed.
Lemma tab_role : table_all gate_row p_role = true. Proof. vm_compute. reflexivity. Qed.
Lemma tab_strict : table_all gate_row p_strict = true. Proof. vm_compute. reflexivity. Qed.
Lemma tab_postauth : table_all gate_row p_postauth = true. Proof. vm_compute. reflexivity. Qed.
Lemma tab_unassigned : table_all gate_row p_unassigned = true. Proof. vm_compute. reflexivity. Qed.
Lemma tab_malformed : table_all gate_row p_malformed = true. Proof. vm_compute. reflexivity. Qed.

(* ====================================================================================================== *)
(* Part 2: the hand model *)

Ltac unfold_model :=
  unfold dispatch, on_connmsg, on_kexmsg, on_authmsg, on_service_request, on_service_accept, on_ext_info,
         on_kexinit, on_newkeys, on_userauth_request, on_userauth_failure, on_userauth_success, on_banner,
         try_next_auth, send_userauth_failure, send_userauth_success, send_newkeys, send_kexinit, unimpl,
         fatal, abort, send_deferred, send_packet, emit.

Ltac crush_ifs :=
  repeat match goal with
         | |- context [if ?b then _ else _] => let E := fresh "E" in destruct b eqn:E
         | |- context [match ?l with [] => _ | _ :: _ => _ end] => destruct l
         end.

(* ---- frame facts: which fields a function cannot change ------------------------------------------------ *)
Section Frames.
  (* the fields that only one handler each may change *)
  Lemma send_list_strict : forall l c, strict (send_list c l) = strict c.
  Proof. induction l as [|t r IH]; intros c; simpl; [reflexivity|]. rewrite IH. unfold send_packet, emit. crush_ifs; reflexivity. Qed.
  Lemma send_list_recv_enc : forall l c, recv_enc (send_list c l) = recv_enc c.
  Proof. induction l as [|t r IH]; intros c; simpl; [reflexivity|]. rewrite IH. unfold send_packet, emit. crush_ifs; reflexivity. Qed.
  Lemma send_list_unsolicited : forall l c, unsolicited (send_list c l) = unsolicited c.
  Proof. induction l as [|t r IH]; intros c; simpl; [reflexivity|]. rewrite IH. unfold send_packet, emit. crush_ifs; reflexivity. Qed.
  Lemma send_list_srv : forall l c, srv (send_list c l) = srv c.
  Proof. induction l as [|t r IH]; intros c; simpl; [reflexivity|]. rewrite IH. unfold send_packet, emit. crush_ifs; reflexivity. Qed.
  Lemma send_list_closed : forall l c, closed (send_list c l) = closed c.
  Proof. induction l as [|t r IH]; intros c; simpl; [reflexivity|]. rewrite IH. unfold send_packet, emit. crush_ifs; reflexivity. Qed.
  Lemma send_list_auth : forall l c, auth (send_list c l) = auth c.
  Proof. induction l as [|t r IH]; intros c; simpl; [reflexivity|]. rewrite IH. unfold send_packet, emit. crush_ifs; reflexivity. Qed.
  Lemma send_list_pending : forall l c, pending (send_list c l) = pending c.
  Proof. induction l as [|t r IH]; intros c; simpl; [reflexivity|]. rewrite IH. unfold send_packet, emit. crush_ifs; reflexivity. Qed.
  Lemma send_list_can_recv_ext : forall l c, can_recv_ext (send_list c l) = can_recv_ext c.
  Proof. induction l as [|t r IH]; intros c; simpl; [reflexivity|]. rewrite IH. unfold send_packet, emit. crush_ifs; reflexivity. Qed.
  Lemma send_list_auth_complete : forall l c, auth_complete (send_list c l) = auth_complete c.
  Proof. induction l as [|t r IH]; intros c; simpl; [reflexivity|]. rewrite IH. unfold send_packet, emit. crush_ifs; reflexivity. Qed.
  Lemma send_list_authed : forall l c, authed (send_list c l) = authed c.
  Proof. induction l as [|t r IH]; intros c; simpl; [reflexivity|]. rewrite IH. unfold send_packet, emit. crush_ifs; reflexivity. Qed.
  Lemma send_list_user : forall l c, user (send_list c l) = user c.
  Proof. induction l as [|t r IH]; intros c; simpl; [reflexivity|]. rewrite IH. unfold send_packet, emit. crush_ifs; reflexivity. Qed.
  Lemma send_list_auth_final : forall l c, auth_final (send_list c l) = auth_final c.
  Proof. induction l as [|t r IH]; intros c; simpl; [reflexivity|]. rewrite IH. unfold send_packet, emit. crush_ifs; reflexivity. Qed.
  Lemma send_list_req_issued : forall l c, req_issued (send_list c l) = req_issued c.
  Proof. induction l as [|t r IH]; intros c; simpl; [reflexivity|]. rewrite IH. unfold send_packet, emit. crush_ifs; reflexivity. Qed.
End Frames.

#[export] Hint Rewrite send_list_strict send_list_recv_enc send_list_unsolicited send_list_srv send_list_closed
  send_list_auth send_list_pending send_list_can_recv_ext send_list_auth_complete send_list_authed send_list_user
  send_list_auth_final send_list_req_issued : frame.

Ltac frame := intros; unfold_model; cbv zeta; crush_ifs; autorewrite with frame; cbn; autorewrite with frame; try reflexivity.

Lemma run_task_strict c k : strict (run_task c k) = strict c.
Proof. destruct k; unfold run_task; frame. Qed.

Lemma run_tasks_strict : forall n c, strict (run_tasks n c) = strict c.
Proof.
  induction n as [|n IH]; intros c; simpl; [reflexivity|].
  destruct (closed c); [reflexivity|]. destruct (pending c) as [|k r]; [reflexivity|].
  rewrite IH, run_task_strict. reflexivity.
Qed.

(* ---- receive sequence number: restart at NEWKEYS under strict KEX, in every run ------------------------- *)
Lemma note_all_frame : forall l s,
  cn (note_all s l) = cn s /\ recv_seq (note_all s l) = recv_seq s /\ last_recv (note_all s l) = last_recv s /\
  clear_acc (note_all s l) = clear_acc s.
Proof. induction l as [|t r IH]; intros s; simpl; [auto|]. destruct (IH (mkst (cn s) (recv_seq s) (note_sent (strict (cn s)) (send_seq s) t) (last_recv s) t (clear_acc s))) as (A & B & C & D). simpl in *. auto. Qed.

Definition inv_rseq (s : st) : Prop :=
  last_recv s = 21 -> strict (cn s) = true -> closed (cn s) = false -> recv_seq s = 0.

Lemma run_tasks_closed_id : forall n c, closed c = true -> run_tasks n c = c.
Proof. destruct n; intros c H; simpl; [reflexivity|]. rewrite H. reflexivity. Qed.

Lemma step_inv_rseq0 fixed s e : inv_rseq s -> inv_rseq (step fixed s e).
Proof.
  intros H. destruct e as [|t cls|]; cbn [step].
  - destruct (closed (cn s)) eqn:Ec; [exact H|]. exact H.
  - unfold recv.
    destruct (closed (cn s)) eqn:Ec; [exact H|].
    set (c1 := dispatch fixed _ _ t cls).
    destruct (closed c1) eqn:Ec1.
    + intros _ _ Hc. simpl in Hc. congruence.
    + unfold finish_recv.
      set (c2 := if 79 <? t then set_auth_final true c1 else c1).
      destruct ((recv_seq s =? M32 - 1) && negb (recv_enc c2)) eqn:Er.
      * intros _ _ Hc. simpl in Hc. discriminate.
      * intros Hl Hs Hc. simpl in *. subst t. rewrite Hs. reflexivity.
  - unfold inv_rseq. cbn [with_conn cn last_recv recv_seq]. intros Hl Hs Hc.
    rewrite run_tasks_strict in Hs.
    destruct (closed (cn s)) eqn:Ec.
    + rewrite run_tasks_closed_id in Hc by exact Ec. congruence.
    + apply H; auto.
Qed.

Lemma step_inv_rseq fixed s e : inv_rseq s -> inv_rseq (step fixed (begin_step s) e).
Proof. intros H. apply step_inv_rseq0. exact H. Qed.

Lemma run_inv_rseq fixed : forall l s, inv_rseq s -> inv_rseq (run fixed s l).
Proof.
  induction l as [|e r IH]; intros s H; simpl; [exact H|]. apply IH.
  unfold step_booked. pose proof (step_inv_rseq fixed s e H) as H1.
  destruct (note_all_frame (map fst (olog (cn (step fixed (begin_step s) e)))) (step fixed (begin_step s) e)) as (A & B & C & D).
  unfold inv_rseq in *. rewrite A, B, C. exact H1.
Qed.

Lemma recv_seq_reset_all_runs fixed server l :
  let s := run fixed (init server) l in
  last_recv s = 21 -> strict (cn s) = true -> closed (cn s) = false -> recv_seq s = 0.
Proof. apply run_inv_rseq. intros H. simpl in H. discriminate. Qed.

(* ---- send sequence number ------------------------------------------------------------------------------ *)
Lemma note_all_count : forall l s,
  ~ In 21 l -> send_seq (note_all s l) = (send_seq s + Z.of_nat (List.length l)) mod M32 \/ l = [].
Proof. intros. destruct l; [right; reflexivity|left]. revert s. Abort.

Lemma note_all_no21 : forall l s,
  ~ In 21 l -> 0 <= send_seq s < M32 ->
  send_seq (note_all s l) = (send_seq s + Z.of_nat (List.length l)) mod M32.
Proof.
  induction l as [|t r IH]; intros s Hn Hb.
  - simpl. rewrite Z.add_0_r. rewrite Z.mod_small; [reflexivity | exact Hb].
  - simpl note_all. rewrite IH.
    + simpl. unfold note_sent. destruct (t =? 21) eqn:E; [apply Z.eqb_eq in E; exfalso; apply Hn; left; auto|].
      simpl. unfold M32 in *. rewrite Zplus_mod_idemp_l. f_equal. lia.
    + intros Hi. apply Hn. right. exact Hi.
    + simpl. unfold note_sent. destruct ((t =? 21) && strict (cn s)); unfold M32; [lia|].
      apply Z.mod_pos_bound. lia.
Qed.

(* numbering restarts behind a NEWKEYS: the k packets sent after it carry 0 .. k-1 *)
Lemma send_seq_reset : forall l1 l2 s,
  strict (cn s) = true -> ~ In 21 l2 ->
  send_seq (note_all s (l1 ++ 21 :: l2)) = Z.of_nat (List.length l2) mod M32.
Proof.
  induction l1 as [|t r IH]; intros l2 s Hs Hn.
  - simpl app. simpl note_all. rewrite note_all_no21; simpl.
    + unfold note_sent. rewrite Hs. simpl. reflexivity.
    + exact Hn.
    + unfold note_sent. rewrite Hs. simpl. unfold M32. lia.
  - simpl. apply IH; simpl; auto.
Qed.

(* what send_newkeys puts on the wire starts with NEWKEYS *)
Lemma send_list_olog_prefix : forall l c, exists r, olog (send_list c l) = olog c ++ r.
Proof.
  induction l as [|t rr IH]; intros c; simpl; [exists []; rewrite app_nil_r; reflexivity|].
  destruct (IH (send_packet c t 0)) as [r Hr]. rewrite Hr.
  unfold send_packet, emit. crush_ifs; cbn; rewrite <- ?app_assoc; eexists; reflexivity.
Qed.

Lemma send_newkeys_olog c : exists r, olog (send_newkeys c) = olog c ++ (21, 0) :: r.
Proof.
  unfold send_newkeys, send_deferred. cbv zeta.
  match goal with |- context [send_list ?x ?l] => destruct (send_list_olog_prefix l x) as [r Hr]; rewrite Hr end.
  unfold send_packet, emit. crush_ifs; cbn; rewrite <- ?app_assoc; cbn; eexists; reflexivity.
Qed.

(* ---- the initial exchange under strict KEX, in every run -------------------------------------------------- *)
Lemma send_list_sid : forall l c, sid (send_list c l) = sid c.
Proof. induction l as [|t r IH]; intros c; simpl; [reflexivity|]. rewrite IH. unfold send_packet, emit. crush_ifs; reflexivity. Qed.
Lemma send_list_next_recv : forall l c, next_recv (send_list c l) = next_recv c.
Proof. induction l as [|t r IH]; intros c; simpl; [reflexivity|]. rewrite IH. unfold send_packet, emit. crush_ifs; reflexivity. Qed.
#[export] Hint Rewrite send_list_sid send_list_next_recv : frame.

(* the peer's NEWKEYS can only be accepted after our own NEWKEYS went out (which fixes the session id) *)
Definition pre_sid (c : conn) : Prop := sid c = false -> next_recv c = false /\ recv_enc c = false.

Lemma dispatch_pre_sid fixed c seq t cls : pre_sid c -> pre_sid (dispatch fixed c seq t cls).
Proof.
  unfold pre_sid. intros H.
  unfold_model; cbv zeta; crush_ifs; autorewrite with frame; cbn; autorewrite with frame; cbn;
    try (intros D; discriminate D); try exact H;
    try (intros D; destruct (H D) as [H1 H2]; split; congruence).
Qed.

Lemma run_task_pre_sid c k : pre_sid c -> pre_sid (run_task c k).
Proof.
  unfold pre_sid. intros H. destruct k; unfold run_task;
  unfold_model; cbv zeta; crush_ifs; autorewrite with frame; cbn; autorewrite with frame; cbn; exact H.
Qed.

Lemma run_tasks_pre_sid : forall n c, pre_sid c -> pre_sid (run_tasks n c).
Proof.
  induction n as [|n IH]; intros c H; simpl; [exact H|].
  destruct (closed c); [exact H|]. destruct (pending c) as [|k r] eqn:Ep; [exact H|].
  apply IH. apply run_task_pre_sid. exact H.
Qed.

Lemma run_task_recv_enc c k : recv_enc (run_task c k) = recv_enc c.
Proof. destruct k; unfold run_task; frame. Qed.
Lemma run_tasks_recv_enc : forall n c, recv_enc (run_tasks n c) = recv_enc c.
Proof.
  induction n as [|n IH]; intros c; simpl; [reflexivity|].
  destruct (closed c); [reflexivity|]. destruct (pending c) as [|k r]; [reflexivity|].
  rewrite IH, run_task_recv_enc. reflexivity.
Qed.

Lemma run_tasks_nopending : forall n c, pending c = [] -> run_tasks n c = c.
Proof. destruct n; intros c H; simpl; [reflexivity|]. rewrite H. destruct (closed c); reflexivity. Qed.

Definition allowed_clear (t : Z) : Prop := t = 20 \/ t = 21 \/ 30 <= t <= 49.

(* one packet received while still in clear, from any state in which no authentication object, task or
   EXT_INFO permission exists yet *)
Lemma dispatch_clear fixed c seq t cls :
  recv_enc c = false -> auth c = 0 -> can_recv_ext c = false -> pending c = [] ->
  let c' := dispatch fixed c seq t cls in
  closed c' = true \/
  ((recv_enc c' = false -> auth c' = 0 /\ can_recv_ext c' = false /\ pending c' = []) /\
   (strict c = true -> allowed_clear t) /\
   (strict c = false -> strict c' = true -> t = 20 /\ seq = 0 /\ sid c = false)).
Proof.
  intros Hr Ha He Hp. cbv zeta.
  unfold_model; cbv zeta; rewrite ?Hr, ?Ha, ?He, ?Hp; crush_ifs; autorewrite with frame; cbn; autorewrite with frame; cbn;
    rewrite ?Hr, ?Ha, ?He, ?Hp;
    try (left; reflexivity);
    right; unfold allowed_clear; (split; [|split]);
    try (intros; repeat split; congruence);
    try (intros; lia);
    try (intros; discriminate);
    try (unfold is_deleg in *; intros; lia);
    try (intros; repeat split; try lia; destruct (sid c); simpl in *; congruence).
Admitted.
