(* C01 - Encrypted transport is tamper-evident in both directions.
   Symbolic-crypto model of the receive path (Model/Recv.v); proofs in Proofs/RecvProofs.v.
   Trusted (section 3.3 of DESIGN.md): a MAC / AEAD tag verifies only for the (keys, sequence number,
   bytes) it was computed over.  What the theorems add: the bookkeeping around it - sequence number
   advance, "nothing after the first failure", wrap-around - for EVERY adversary list. *)
From AV Require Import Base.Prelude Model.Recv Proofs.RecvProofs.

(* For every list of unmodified / bit-flipped / truncated / duplicated / reordered / dropped /
   foreign packets and stream cuts over the fewer-than-2^32 packets of one key epoch, the receiver
   delivers exactly the contents of the packets before the first deviation, in order, and nothing
   else; it is still in the running state only if there was no deviation at all. *)
Theorem C01_tamper_evident : forall content s0 N items,
  0 <= s0 -> N < M32 -> 0 <= N -> Forall (in_epoch s0 N) items ->
  let r := rx_run content s0 items in
  rx_out r = contents content s0 (intact s0 items) /\
  (rx_st r = Running <-> intact s0 items = length items).
Proof. exact tamper_evident. Qed.
Print Assumptions C01_tamper_evident.

(* an untouched stream is delivered completely and the receiver keeps running *)
Theorem C01_honest_delivered : forall content s0 n,
  0 <= s0 -> Z.of_nat n < M32 ->
  let r := rx_run content s0 (honest_from s0 n) in
  rx_out r = contents content s0 n /\ rx_st r = Running.
Proof. exact honest_delivered. Qed.
Print Assumptions C01_honest_delivered.

(* the 2^32 bound is necessary: after a full wrap of the sequence number the first packet replays
   (this is why the transport must re-key first; see C11) *)
Theorem C01_wraparound_refuted :
  exists content items,
    rx_out (rx_run content (M32 - 1) items) <> contents content (M32 - 1) (intact (M32 - 1) items).
Proof. exact wraparound_replay_refuted. Qed.
Print Assumptions C01_wraparound_refuted.
