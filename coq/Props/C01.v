(* C01 - Encrypted transport is tamper-evident in both directions.
   Symbolic-crypto model of the receive path (Model/Recv.v); proofs in Proofs/RecvProofs.v.
   Trusted (section 3.3 of DESIGN.md): a MAC / AEAD tag verifies only for the (keys, sequence number,
   bytes) it was computed over.  What the theorems add: the bookkeeping around it - sequence number
   advance, "nothing after the first failure", wrap-around - for EVERY adversary list. *)
From AV Require Import Base.Prelude Model.Recv Proofs.RecvProofs.

(* For every list of unmodified / bit-flipped / truncated / duplicated / reordered / dropped /
   foreign packets and stream cuts over the fewer-than-2^32 packets of one key epoch, the receiver
   delivers exactly the contents of the packets before the first deviation, in order, and nothing
   else; it is still in the running state only if there was no deviation at all. *)
Theorem C01_tamper_evident : forall content s0 N items,
  0 <= s0 -> N < M32 -> 0 <= N -> Forall (in_epoch s0 N) items ->
  let r := rx_run content s0 items in
  rx_out r = contents content s0 (intact s0 items) /\
  (rx_st r = Running <-> intact s0 items = length items).
Proof. exact tamper_evident. Qed.
Print Assumptions C01_tamper_evident.

(* an untouched stream is delivered completely and the receiver keeps running *)
Theorem C01_honest_delivered : forall content s0 n,
  0 <= s0 -> Z.of_nat n < M32 ->
  let r := rx_run content s0 (honest_from s0 n) in
  rx_out r = contents content s0 n /\ rx_st r = Running.
Proof. exact honest_delivered. Qed.
Print Assumptions C01_honest_delivered.

(* the 2^32 bound is necessary: after a full wrap of the sequence number the first packet replays
   (this is why the transport must re-key first; see C11) *)
Theorem C01_wraparound_refuted :
  exists content items,
    rx_out (rx_run content (M32 - 1) items) <> contents content (M32 - 1) (intact (M32 - 1) items).
Proof. exact wraparound_replay_refuted. Qed.
Print Assumptions C01_wraparound_refuted.

(* ================================ byte level ==================================================== *)
(* The same property on the byte-level model of the encrypted phase (Model/PacketEnc.v: the real
   receive loop with Python slice semantics, every block size / MAC size, the four shim classes of
   encryption.py over ABSTRACT cipher / MAC / AEAD functions; tied to the running code by the C02
   correspondence).  The symbolic "a tag verifies only for what it was computed over" is replaced by
   an explicit premise about the run:
     unforgeable m slog s  :=  every (sequence number, covered bytes, tag) triple that the receiver's
       verification accepted for a delivery of the run ending in s occurs in the honest sender's log
       slog (covered = exactly the bytes the check of shim class m covers: Basic plain text
       length || packet, ETM length || cipher text, GCM / chacha (encrypted) length || cipher text).
   The adversary may flip, insert, delete, truncate, replay, reorder and splice at will; the premise
   only says it has not minted a new valid tag on this run. *)
From AV Require Import Model.Packet Model.PacketEnc Proofs.PacketEncProofs Proofs.PacketEncIntegrity.

(* For EVERY byte stream whatsoever and EVERY chunking of it (concat chunks is the adversary's stream),
   every shim class, block size >= 4, MAC size, start state and every list ps of fewer than 2^32
   well-formed (payload, padding) pairs of the honest sender (no sequence number repeats within the key
   epoch - C01_wraparound_refuted is the counterpart), with the receiver starting synchronised (same
   sequence number and cipher state) and the primitives satisfying mode_laws: if the run is unforgeable,
   then there is k <= |ps| such that the payloads delivered are exactly the first k payloads of the
   sender, in order, each once, AND the stream begins with exactly the k frames the sender wrote for
   them.  So a payload is delivered only if every byte of its frame and of all earlier frames arrived
   unaltered and in place; nothing derived from altered bytes is delivered. *)
Theorem C01_byte_prefix_integrity : forall (cst : Type) (cenc cdec : cst -> bytes -> cst * bytes)
    (tag : Z -> bytes -> bytes) (gcm_enc : cst -> bytes -> bytes -> cst * (bytes * bytes))
    (gcm_dec : cst -> bytes -> bytes -> bytes -> cst * option bytes) (cc_enc : Z -> bytes -> bytes -> bytes * bytes)
    (cc_hdr : Z -> bytes -> bytes) (cc_dec : Z -> bytes -> bytes -> bytes -> option bytes)
    (m : emode) (bs macsz : Z) (c0 : cst) (sq0 : Z) (ps : list (bytes * bytes)) (chunks : list bytes),
  4 <= bs -> 0 <= macsz -> 0 <= sq0 < PacketEnc.M32 ->
  mode_laws cst cenc cdec gcm_enc gcm_dec cc_enc cc_hdr cc_dec bs m ->
  Forall (wf_pkt bs m) ps -> Z.of_nat (length ps) < PacketEnc.M32 ->
  let s := fold_left (mfeed cst cdec tag gcm_dec cc_hdr cc_dec m bs macsz) chunks (einit c0 sq0) in
  unforgeable cst cdec m (send_log cst cenc tag gcm_enc cc_enc m c0 sq0 ps) s ->
  integrity_concl (map fst ps) (snd (send_stream cst cenc tag gcm_enc cc_enc m c0 sq0 ps)) (concat chunks) (egot s).
Proof. exact byte_prefix_integrity. Qed.
Print Assumptions C01_byte_prefix_integrity.

(* (a) First deviation.  Whenever a run satisfies the conclusion above and the stream does NOT begin
   with the sender's first j+1 frames - it deviates from the honest wire no later than inside frame j,
   by a flipped bit, an inserted or deleted byte, a truncation, anything - at most the first j
   payloads are delivered: detection no later than when the affected packet is complete. *)
Theorem C01_byte_first_deviation : forall (payloads ws : list bytes) (stream : bytes) (delivered : list bytes) (j : nat),
  integrity_concl payloads ws stream delivered ->
  (forall t, stream <> concat (firstn (S j) ws) ++ t) ->
  exists k, (k <= j)%nat /\ delivered = firstn k payloads.
Proof. exact integrity_first_deviation. Qed.
Print Assumptions C01_byte_first_deviation.

(* (b) Replay / reorder / drop / splice of whole frames.  If after the first j honest frames comes
   anything that does not begin with the bytes of honest frame j (an earlier frame again, a later
   frame, a frame made for another sequence number, the end of the stream), nothing beyond payload
   j-1 is ever delivered - the out-of-place frame is not skipped over. *)
Theorem C01_byte_replay_reorder : forall (payloads ws : list bytes) (stream : bytes) (delivered : list bytes)
    (j : nat) (wj x : bytes),
  integrity_concl payloads ws stream delivered ->
  nth_error ws j = Some wj -> stream = concat (firstn j ws) ++ x -> (forall t, x <> wj ++ t) ->
  exists k, (k <= j)%nat /\ delivered = firstn k payloads.
Proof. exact integrity_out_of_place. Qed.
Print Assumptions C01_byte_replay_reorder.

(* Non-vacuity: the toy primitives (the ones the harness installs in the real shim classes) satisfy
   mode_laws for every mode, so for the toy-instantiated model only the unforgeability premise is left. *)
Theorem C01_byte_toy_prefix_integrity : forall m bs tl k c0 sq0 ps chunks,
  4 <= bs -> 0 <= sq0 < PacketEnc.M32 -> Forall (wf_pkt bs m) ps -> Z.of_nat (length ps) < PacketEnc.M32 ->
  let s := fold_left (toy_feed m bs tl k) chunks (einit c0 sq0) in
  toy_unforgeable m k (toy_send_log m tl k c0 sq0 ps) s ->
  integrity_concl (map fst ps) (snd (toy_send_stream m tl k c0 sq0 ps)) (concat chunks) (egot s).
Proof. exact toy_byte_prefix_integrity. Qed.
Print Assumptions C01_byte_toy_prefix_integrity.

Theorem C01_byte_toy_premise_decidable : forall m k slog s,
  toy_unforgeable_b m k slog s = true -> toy_unforgeable m k slog s.
Proof. exact toy_unforgeable_b_sound. Qed.
Print Assumptions C01_byte_toy_premise_decidable.

(* concrete runs, all four modes, block size 16, 4-byte toy tag: (1) one bit flipped in the second
   frame, (2) first frame replayed, (3) frames swapped.  The runs ARE unforgeable (the premise holds:
   the toy tag rejects what it was not computed over here), exactly the payloads before the deviation
   are delivered, and the connection ends in MAC failure - or, for a replayed / swapped frame under
   Basic and chacha, whose length field is decrypted with the wrong cipher state / sequence number
   into garbage, it may instead wait for more bytes for ever ("can stall the stream but not change it");
   with a clear-text length (ETM, GCM) it is always the MAC failure. *)
Fixpoint flip_at (n : nat) (l : bytes) : bytes :=
  match l, n with
  | [], _ => []
  | b :: r, O => Z.lxor b 16 :: r
  | b :: r, S n' => b :: flip_at n' r
  end.

Fixpoint chop3 (l : bytes) (fuel : nat) : list bytes :=
  match fuel with
  | O => [l]
  | S f => match l with [] => [] | _ => firstn 3 l :: chop3 (skipn 3 l) f end
  end.

Definition is_mac_failure (s : estatus) : bool := match s with SMac => true | _ => false end.
Definition is_clear_len (m : emode) : bool := match m with ETM | GCM => true | _ => false end.

Example C01_byte_toy_runs :
  forallb (fun m =>
    let pkts := [([2; 0; 0; 0; 1; 65], [9; 8; 7; 6; 5; 4; 3; 2; 1; 0] ++ (if hdrlen m =? 5 then [] else [1; 2; 3; 4]));
                 ([4; 1; 0; 0; 0; 0; 0; 0; 0; 0], [1; 2; 3; 4; 5; 6] ++ (if hdrlen m =? 5 then [] else [1; 2; 3; 4]))] in
    let slog := toy_send_log m 4 7 100 4294967295 pkts in
    match snd (toy_send_stream m 4 7 100 4294967295 pkts) with
    | [w0; w1] =>
        forallb (fun x : bytes * list bytes =>
          let s := fold_left (toy_feed m 16 4 7) (chop3 (fst x) 100) (einit 100 4294967295) in
          toy_unforgeable_b m 7 slog s && list_eqb zlist_eqb (egot s) (snd x) &&
          (is_mac_failure (est s) || negb (is_clear_len m) && (0 <? zlen (ebuf s))))
          [(w0 ++ flip_at 9 w1, [[2; 0; 0; 0; 1; 65]]);
           (w0 ++ w0 ++ w1, [[2; 0; 0; 0; 1; 65]]);
           (w1 ++ w0, [])]
    | _ => false
    end) [Basic; ETM; GCM; Chacha] = true.
Proof. vm_compute. reflexivity. Qed.

(* The premise is what carries the result: the toy tag is forgeable by construction, and an
   adversary who recomputes it (here: frames the altered payload exactly as the sender would) gets the
   altered payload delivered - the run is not unforgeable and the delivered list is no prefix of what
   was sent. *)
Theorem C01_byte_forgery_refuted :
  exists (ps : list (bytes * bytes)) (stream : bytes),
    Forall (wf_pkt 16 ETM) ps /\
    let s := toy_feed ETM 16 4 7 (einit 0 0) stream in
    toy_unforgeable_b ETM 7 (toy_send_log ETM 4 7 0 0 ps) s = false /\
    forall k, egot s <> firstn k (map fst ps).
Proof.
  exists [([2; 0; 0; 0; 1; 65], [1; 2; 3; 4; 5; 6; 7; 8; 9])],
         (snd (toy_send_frame ETM 4 7 0 0 [2; 0; 0; 0; 1; 66] [1; 2; 3; 4; 5; 6; 7; 8; 9])).
  split.
  - constructor; [|constructor]. unfold wf_pkt. cbn [fst snd]. repeat split; vm_compute; try reflexivity; discriminate.
  - split; [vm_compute; reflexivity|]. intros [|k]; vm_compute; [discriminate|].
    destruct k; vm_compute; discriminate.
Qed.
Print Assumptions C01_byte_forgery_refuted.
