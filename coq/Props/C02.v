(* C02 - Emitted packets conform to RFC 4253 and survive any segmentation.
   Statements only; proofs in Proofs/PacketProofs.v; model in Model/Packet.v. *)
From AV Require Import Base.Prelude Model.Packet Proofs.PacketProofs Model.PacketEnc Proofs.PacketEncProofs Corr.C02EncCorr.

(* Padding computed by send_packet: for every block size >= 8, every header size and every payload
   length there are at least 4 and fewer than blocksize + 4 padding bytes, and header + payload +
   padding is a multiple of the block size. *)
Theorem C02_padding : forall hdr bs len,
  8 <= bs -> 0 <= hdr -> 0 <= len ->
  4 <= pad_len hdr bs len < bs + 4 /\ (hdr + len + pad_len hdr bs len) mod bs = 0.
Proof. exact pad_len_spec. Qed.
Print Assumptions C02_padding.

(* A well-formed frame (non-empty payload, >= 4 bytes of padding, aligned to 8, length < 2^32) is
   received as exactly its payload, leaving the receiver in its initial phase. *)
Theorem C02_frame_received : forall payload padding,
  payload <> [] -> 4 <= zlen padding -> (5 + zlen payload + zlen padding) mod 8 = 0 ->
  1 + zlen payload + zlen padding < 4294967296 ->
  let s := feed rs_init (frame payload padding) in
  got s = [payload] /\ inbuf s = [] /\ failed s = false /\ short s = false /\ phase s = PHdr.
Proof. exact feed_frame. Qed.
Print Assumptions C02_frame_received.

(* Segmentation independence of the receive state machine: for ANY two chunks, delivering a and then
   b yields exactly the same receiver state (payloads delivered so far, buffer, phase, error flag)
   as delivering a ++ b at once - provided no header announcing a packet_length below 4 was seen
   (such malformed lengths make the Python slices negative; see C02_short_length_refuted). *)
Theorem C02_segmentation : forall s a b,
  okp s -> short s = false -> short (feed s (a ++ b)) = false ->
  feed (feed s a) b = feed s (a ++ b).
Proof. exact feed_feed. Qed.
Print Assumptions C02_segmentation.

(* ... hence for EVERY chunking of a byte stream (1-byte chunks, chunks spanning many packets, empty
   chunks) the result equals feeding the whole stream at once: every payload exactly once, in order. *)
Theorem C02_any_chunking : forall chunks s,
  okp s -> short s = false -> short (feed s (concat chunks)) = false ->
  fold_left feed chunks s = feed s (concat chunks) \/ chunks = [].
Proof. exact feed_chunks. Qed.
Print Assumptions C02_any_chunking.

(* The excluded case is real: with packet_length < 4 the parse depends on the segmentation. *)
Theorem C02_short_length_refuted :
  exists a b, feed (feed rs_init a) b <> feed rs_init (a ++ b).
Proof.
  exists [0;0;0;2; 2;9;9;9; 1;2;3], [4;5;6;7;8;9;10]. vm_compute. discriminate.
Qed.
Print Assumptions C02_short_length_refuted.

(* Key derivation (RFC 4253 7.2), for any hash function with a d-byte digest, d >= 1: the key has
   exactly the requested length, is HASH(K || H || X || session_id) when one digest suffices, and
   K1 || K2 || K3 with K2 = HASH(K || H || K1), K3 = HASH(K || H || K1 || K2) when three are needed. *)
Theorem C02_derive_length : forall (H : bytes -> bytes) (d : nat),
  (1 <= d)%nat -> (forall x, length (H x) = d) ->
  forall k h x sid keylen, 0 <= keylen -> zlen (derive_key H k h x sid keylen) = keylen.
Proof. exact derive_key_length. Qed.
Print Assumptions C02_derive_length.

Theorem C02_derive_rfc_1 : forall (H : bytes -> bytes) (d : nat),
  (1 <= d)%nat -> (forall x, length (H x) = d) ->
  forall k h x sid keylen, 0 < keylen <= Z.of_nat d ->
  derive_key H k h x sid keylen = firstn (Z.to_nat keylen) (H (k ++ h ++ x ++ sid)).
Proof. exact derive_key_rfc_1. Qed.
Print Assumptions C02_derive_rfc_1.

Theorem C02_derive_rfc_3 : forall (H : bytes -> bytes) (d : nat),
  (1 <= d)%nat -> (forall x, length (H x) = d) ->
  forall k h x sid keylen, 2 * Z.of_nat d < keylen <= 3 * Z.of_nat d ->
  let k1 := H (k ++ h ++ x ++ sid) in
  let k2 := H (k ++ h ++ k1) in
  let k3 := H (k ++ h ++ k1 ++ k2) in
  derive_key H k h x sid keylen = firstn (Z.to_nat keylen) (k1 ++ k2 ++ k3).
Proof. exact derive_key_rfc_3. Qed.
Print Assumptions C02_derive_rfc_3.

(* ================================ encrypted phase ============================================== *)
(* Byte-level model of the encrypted phase (Model/PacketEnc.v): every block size, MAC size and the
   four shim classes of encryption.py over ABSTRACT primitives (cipher, MAC, AEAD are universally
   quantified functions; their laws, where needed, are explicit premises). *)

(* T1.  Segmentation independence for ANY decrypt_header / decrypt_packet functions (hence every shim
   class and every cipher, MAC or AEAD, with no assumption on them), every block size >= 1 and MAC
   size >= 0: delivering a then b equals delivering a ++ b, as long as no header announcing less than
   one block (4 + packet_length < blocksize) is seen. *)
Theorem C02_enc_segmentation : forall (cst : Type) (dh : cst -> Z -> bytes -> cst * bytes * bytes)
    (dp : cst -> Z -> bytes -> bytes -> bytes -> cst * option bytes) (bs macsz : Z),
  1 <= bs -> 0 <= macsz ->
  forall (s : estate cst) (a b : bytes),
  eokp cst bs s -> eshort s = false -> eshort (efeed dh dp bs macsz s (a ++ b)) = false ->
  efeed dh dp bs macsz (efeed dh dp bs macsz s a) b = efeed dh dp bs macsz s (a ++ b).
Proof. exact enc_feed_feed. Qed.
Print Assumptions C02_enc_segmentation.

(* ... hence every chunking of a byte stream equals one delivery of the whole stream. *)
Theorem C02_enc_any_chunking : forall (cst : Type) (dh : cst -> Z -> bytes -> cst * bytes * bytes)
    (dp : cst -> Z -> bytes -> bytes -> bytes -> cst * option bytes) (bs macsz : Z),
  1 <= bs -> 0 <= macsz ->
  forall (chunks : list bytes) (s : estate cst),
  eokp cst bs s -> eshort s = false -> eshort (efeed dh dp bs macsz s (concat chunks)) = false ->
  fold_left (efeed dh dp bs macsz) chunks s = efeed dh dp bs macsz s (concat chunks) \/ chunks = [].
Proof. exact enc_feed_chunks. Qed.
Print Assumptions C02_enc_any_chunking.

(* T2 (also the byte-level underpinning of C01).  For every input byte stream, every chunking, every
   mode, block size, MAC size and ANY primitives: the payloads delivered are exactly the payload slices
   of the logged successful decrypt_packet calls, in order; the i-th of them ran under sequence number
   (seq0 + i) mod 2^32; each was accepted by the integrity check of its shim class computed over the
   whole packet including the length field (Basic: mac = tag seq (plain text of first block ++ rest);
   ETM: mac = tag seq (cipher text incl. length); GCM / chacha: verify_and_decrypt(length field,
   rest of the packet, mac) returned the data); the first block is what decrypt_header made of the
   wire block under that same sequence number; and the receiver's sequence number is seq0 + number of
   deliveries mod 2^32.  No cryptographic assumption. *)
Theorem C02_enc_delivered_verified : forall (cst : Type) (cdec : cst -> bytes -> cst * bytes)
    (tag : Z -> bytes -> bytes) (gcm_dec : cst -> bytes -> bytes -> bytes -> cst * option bytes)
    (cc_hdr : Z -> bytes -> bytes) (cc_dec : Z -> bytes -> bytes -> bytes -> option bytes)
    (m : emode) (bs macsz : Z) (c0 : cst) (sq0 : Z) (chunks : list bytes),
  0 <= sq0 < M32 ->
  let s := fold_left (mfeed cst cdec tag gcm_dec cc_hdr cc_dec m bs macsz) chunks (einit c0 sq0) in
  egot s = map (fun e => py_payload (vdata e)) (elog s) /\
  map vseq (elog s) = seqs_from sq0 (length (elog s)) /\
  Forall (fun e => accepted cst cdec tag gcm_dec cc_dec m e /\ header_of cst cdec cc_hdr m e) (elog s) /\
  eseq s = (sq0 + Z.of_nat (length (egot s))) mod M32.
Proof. exact enc_delivered_verified. Qed.
Print Assumptions C02_enc_delivered_verified.

(* T2b.  Each logged delivery is a contiguous wire segment raw block ++ rest ++ mac, and these
   segments, in delivery order, tile a prefix of the input stream with nothing skipped, repeated or
   reordered; while the connection is alive the remainder of the stream is exactly the header block in
   hand plus the buffer.  For ANY shim functions, every block size, MAC size >= 0 and chunking, as long
   as no header below one block is seen.  (etiles_ok inp s := exists tail, concat (map ewire (elog s))
   ++ tail = inp /\ (est s = SOk -> tail = epending s ++ ebuf s).) *)
Theorem C02_enc_delivered_tiles : forall (cst : Type) (dh : cst -> Z -> bytes -> cst * bytes * bytes)
    (dp : cst -> Z -> bytes -> bytes -> bytes -> cst * option bytes) (bs macsz : Z),
  0 <= macsz ->
  forall (c0 : cst) (sq0 : Z) (chunks : list bytes),
  eshort (fold_left (efeed dh dp bs macsz) chunks (einit c0 sq0)) = false ->
  etiles_ok cst (concat chunks) (fold_left (efeed dh dp bs macsz) chunks (einit c0 sq0)).
Proof. exact enc_delivered_tiles. Qed.
Print Assumptions C02_enc_delivered_tiles.

(* T3, one theorem per shim class; the premises on the primitives are exactly the hypotheses listed.
   stream_ok: the frames send_packet writes for ANY list of (payload, padding) pairs that satisfy its
   padding rule (wf_pkt: payload non-empty, >= 4 bytes of padding, _send_enchdrlen + payload + padding a
   multiple of the block size, which C02_padding / pad_len_wf show pad_len achieves), cut into ANY
   chunks, make a receiver starting in the sender's state deliver exactly those payloads in order,
   without failure, buffer empty, sequence number advanced by their number mod 2^32, cipher state
   equal to the sender's.
   Basic (MAC over plain text, whole packet encrypted): needs length preservation, decrypt inverts
   encrypt from the same state on block-aligned data, decrypting an aligned first block and then the
   aligned rest equals decrypting at once, tag length = macsz.  The extra premise
   (0 < macsz \/ blocksize < packet size) is needed: see C02_enc_late_delivery. *)
Theorem C02_enc_stream_received_basic : forall (cst : Type) (cenc cdec : cst -> bytes -> cst * bytes)
    (tag : Z -> bytes -> bytes) (gcm_enc : cst -> bytes -> bytes -> cst * (bytes * bytes))
    (gcm_dec : cst -> bytes -> bytes -> bytes -> cst * option bytes) (cc_enc : Z -> bytes -> bytes -> bytes * bytes)
    (cc_hdr : Z -> bytes -> bytes) (cc_dec : Z -> bytes -> bytes -> bytes -> option bytes) (bs macsz : Z),
  4 <= bs -> 0 <= macsz ->
  (forall c x, zlen (snd (cenc c x)) = zlen x) ->
  (forall c x, zlen (snd (cdec c x)) = zlen x) ->
  (forall c x, zlen x mod bs = 0 -> cdec c (snd (cenc c x)) = (fst (cenc c x), x)) ->
  (forall c a b, zlen a mod bs = 0 -> zlen b mod bs = 0 ->
     cdec c (a ++ b) = (fst (cdec (fst (cdec c a)) b), snd (cdec c a) ++ snd (cdec (fst (cdec c a)) b))) ->
  (forall sq x, zlen (tag sq x) = macsz) ->
  forall pkts c sq chunks, 0 <= sq < M32 ->
  Forall (fun p => wf_pkt bs Basic p /\ (0 < macsz \/ bs < 5 + zlen (fst p) + zlen (snd p))) pkts ->
  concat chunks = concat (snd (send_stream cst cenc tag gcm_enc cc_enc Basic c sq pkts)) ->
  stream_ok cst cenc cdec tag gcm_enc gcm_dec cc_enc cc_hdr cc_dec bs macsz Basic pkts c sq chunks.
Proof. exact enc_stream_received_basic. Qed.
Print Assumptions C02_enc_stream_received_basic.

(* ETM (length in clear, MAC over cipher text, verified before decrypting) *)
Theorem C02_enc_stream_received_etm : forall (cst : Type) (cenc cdec : cst -> bytes -> cst * bytes)
    (tag : Z -> bytes -> bytes) (gcm_enc : cst -> bytes -> bytes -> cst * (bytes * bytes))
    (gcm_dec : cst -> bytes -> bytes -> bytes -> cst * option bytes) (cc_enc : Z -> bytes -> bytes -> bytes * bytes)
    (cc_hdr : Z -> bytes -> bytes) (cc_dec : Z -> bytes -> bytes -> bytes -> option bytes) (bs macsz : Z),
  4 <= bs -> 0 <= macsz ->
  (forall c x, zlen (snd (cenc c x)) = zlen x) ->
  (forall c x, zlen x mod bs = 0 -> cdec c (snd (cenc c x)) = (fst (cenc c x), x)) ->
  (forall sq x, zlen (tag sq x) = macsz) ->
  forall pkts c sq chunks, 0 <= sq < M32 -> Forall (wf_pkt bs ETM) pkts ->
  concat chunks = concat (snd (send_stream cst cenc tag gcm_enc cc_enc ETM c sq pkts)) ->
  stream_ok cst cenc cdec tag gcm_enc gcm_dec cc_enc cc_hdr cc_dec bs macsz ETM pkts c sq chunks.
Proof. exact enc_stream_received_etm. Qed.
Print Assumptions C02_enc_stream_received_etm.

(* GCM: encrypt_and_sign puts the 4-byte header in clear in front of the cipher text, the tag has
   macsz bytes, verify_and_decrypt from the same state returns the data and the same next state *)
Theorem C02_enc_stream_received_gcm : forall (cst : Type) (cenc cdec : cst -> bytes -> cst * bytes)
    (tag : Z -> bytes -> bytes) (gcm_enc : cst -> bytes -> bytes -> cst * (bytes * bytes))
    (gcm_dec : cst -> bytes -> bytes -> bytes -> cst * option bytes) (cc_enc : Z -> bytes -> bytes -> bytes * bytes)
    (cc_hdr : Z -> bytes -> bytes) (cc_dec : Z -> bytes -> bytes -> bytes -> option bytes) (bs macsz : Z),
  4 <= bs -> 0 <= macsz ->
  (forall c h d, zlen h = 4 ->
     let r := gcm_enc c h d in
     zlen (fst (snd r)) = 4 + zlen d /\ firstn 4 (fst (snd r)) = h /\ zlen (snd (snd r)) = macsz /\
     gcm_dec c h (skipn 4 (fst (snd r))) (snd (snd r)) = (fst r, Some d)) ->
  forall pkts c sq chunks, 0 <= sq < M32 -> Forall (wf_pkt bs GCM) pkts ->
  concat chunks = concat (snd (send_stream cst cenc tag gcm_enc cc_enc GCM c sq pkts)) ->
  stream_ok cst cenc cdec tag gcm_enc gcm_dec cc_enc cc_hdr cc_dec bs macsz GCM pkts c sq chunks.
Proof. exact enc_stream_received_gcm. Qed.
Print Assumptions C02_enc_stream_received_gcm.

(* chacha20-poly1305: decrypt_header inverts the header encryption and verify_and_decrypt inverts
   encrypt_and_sign under the same sequence number *)
Theorem C02_enc_stream_received_chacha : forall (cst : Type) (cenc cdec : cst -> bytes -> cst * bytes)
    (tag : Z -> bytes -> bytes) (gcm_enc : cst -> bytes -> bytes -> cst * (bytes * bytes))
    (gcm_dec : cst -> bytes -> bytes -> bytes -> cst * option bytes) (cc_enc : Z -> bytes -> bytes -> bytes * bytes)
    (cc_hdr : Z -> bytes -> bytes) (cc_dec : Z -> bytes -> bytes -> bytes -> option bytes) (bs macsz : Z),
  4 <= bs -> 0 <= macsz ->
  (forall sq h d, zlen h = 4 ->
     let r := cc_enc sq h d in
     zlen (fst r) = 4 + zlen d /\ cc_hdr sq (firstn 4 (fst r)) = h /\ zlen (snd r) = macsz /\
     cc_dec sq (firstn 4 (fst r)) (skipn 4 (fst r)) (snd r) = Some d) ->
  forall pkts c sq chunks, 0 <= sq < M32 -> Forall (wf_pkt bs Chacha) pkts ->
  concat chunks = concat (snd (send_stream cst cenc tag gcm_enc cc_enc Chacha c sq pkts)) ->
  stream_ok cst cenc cdec tag gcm_enc gcm_dec cc_enc cc_hdr cc_dec bs macsz Chacha pkts c sq chunks.
Proof. exact enc_stream_received_chacha. Qed.
Print Assumptions C02_enc_stream_received_chacha.

(* send_packet's padding rule produces well-formed packets for every block size >= 8 *)
Theorem C02_enc_pad_len_wf : forall bs m payload padding, 8 <= bs -> payload <> [] ->
  zlen padding = pad_len (hdrlen m) bs (zlen payload) -> 1 + zlen payload + zlen padding < M32 ->
  wf_pkt bs m (payload, padding).
Proof. exact pad_len_wf. Qed.
Print Assumptions C02_enc_pad_len_wf.

(* T4, non-vacuity: the toy cipher / MAC / AEADs of Model/PacketEnc.v (the ones the harness installs
   in the real shim classes) satisfy every law assumed by the four T3 theorems, so T3 holds for the
   toy-instantiated model - the one the correspondence runs - with no premise on primitives left. *)
Theorem C02_enc_toy_stream_received : forall m bs tl k pkts c sq chunks,
  4 <= bs -> 0 <= sq < M32 ->
  Forall (fun p => wf_pkt bs m p /\ (m = Basic -> 0 < Z.of_nat tl \/ bs < 5 + zlen (fst p) + zlen (snd p))) pkts ->
  concat chunks = concat (snd (toy_send_stream m tl k c sq pkts)) ->
  toy_stream_ok m bs tl k pkts c sq chunks.
Proof. exact toy_stream_received. Qed.
Print Assumptions C02_enc_toy_stream_received.

(* two packets through send + feed in 3-byte chunks, every mode, sequence number wrapping at 2^32 *)
Fixpoint chop3 (l : bytes) (fuel : nat) : list bytes :=
  match fuel with
  | O => [l]
  | S f => match l with [] => [] | _ => firstn 3 l :: chop3 (skipn 3 l) f end
  end.

Example C02_enc_two_packets :
  forallb (fun m =>
    let pkts := [([2; 0; 0; 0; 1; 65], [9; 8; 7; 6; 5; 4; 3; 2; 1; 0] ++ (if hdrlen m =? 5 then [] else [1; 2; 3; 4]));
                 ([4; 1; 0; 0; 0; 0; 0; 0; 0; 0], [1; 2; 3; 4; 5; 6] ++ (if hdrlen m =? 5 then [] else [1; 2; 3; 4]))] in
    let '(c', sq', ws) := toy_send_stream m 4 7 100 4294967295 pkts in
    let s := fold_left (toy_feed m 16 4 7) (chop3 (concat ws) 100) (einit 100 4294967295) in
    list_eqb zlist_eqb (egot s) (map fst pkts) && (eseq s =? 1) && (sq' =? 1) && (ecst s =? c') &&
    zlist_eqb (map vseq (elog s)) [4294967295; 0] && (status_code (est s) =? 0))
  [Basic; ETM; GCM; Chacha] = true.
Proof. vm_compute. reflexivity. Qed.

(* The excluded case is real in the encrypted phase too (ETM, no MAC, block size 8): a length field
   announcing less than one block makes the parse depend on the segmentation. *)
Theorem C02_enc_short_length_refuted :
  exists a b, let f := toy_feed ETM 8 0 7 in f (f (einit 0 0) a) b <> f (einit 0 0) (a ++ b).
Proof.
  exists [0;0;0;2; 2;9;9;9; 1;2;3], [4;5;6;7;8;9;10]. vm_compute. discriminate.
Qed.
Print Assumptions C02_enc_short_length_refuted.

(* Why the Basic theorem needs (0 < macsz or blocksize < packet size): `while self._inpbuf and ...`
   does not call the body handler on an empty buffer, so a packet of exactly one block without MAC is
   delivered only when the next byte arrives.  (Not reachable in asyncssh: MAC-less Basic only occurs
   in clear text, block size 8, where the minimal packet has 16 bytes.) *)
Theorem C02_enc_late_delivery :
  exists payload padding w c', wf_pkt 16 Basic (payload, padding) /\
    toy_send_frame Basic 0 7 0 0 payload padding = (c', w) /\
    egot (toy_feed Basic 16 0 7 (einit 0 0) w) = [] /\
    egot (toy_feed Basic 16 0 7 (toy_feed Basic 16 0 7 (einit 0 0) w) [0]) = [payload].
Proof.
  exists [2; 0; 0; 0; 2; 65; 66], [1; 2; 3; 4]. eexists. eexists.
  split; [|split; [vm_compute; reflexivity|split; vm_compute; reflexivity]].
  unfold wf_pkt. cbn [fst snd]. repeat split; vm_compute; try reflexivity; discriminate.
Qed.
Print Assumptions C02_enc_late_delivery.
