(* C02 - Emitted packets conform to RFC 4253 and survive any segmentation.
   Statements only; proofs in Proofs/PacketProofs.v; model in Model/Packet.v. *)
From AV Require Import Base.Prelude Model.Packet Proofs.PacketProofs.

(* Padding computed by send_packet: for every block size >= 8, every header size and every payload
   length there are at least 4 and fewer than blocksize + 4 padding bytes, and header + payload +
   padding is a multiple of the block size. *)
Theorem C02_padding : forall hdr bs len,
  8 <= bs -> 0 <= hdr -> 0 <= len ->
  4 <= pad_len hdr bs len < bs + 4 /\ (hdr + len + pad_len hdr bs len) mod bs = 0.
Proof. exact pad_len_spec. Qed.
Print Assumptions C02_padding.

(* A well-formed frame (non-empty payload, >= 4 bytes of padding, aligned to 8, length < 2^32) is
   received as exactly its payload, leaving the receiver in its initial phase. *)
Theorem C02_frame_received : forall payload padding,
  payload <> [] -> 4 <= zlen padding -> (5 + zlen payload + zlen padding) mod 8 = 0 ->
  1 + zlen payload + zlen padding < 4294967296 ->
  let s := feed rs_init (frame payload padding) in
  got s = [payload] /\ inbuf s = [] /\ failed s = false /\ short s = false /\ phase s = PHdr.
Proof. exact feed_frame. Qed.
Print Assumptions C02_frame_received.

(* Segmentation independence of the receive state machine: for ANY two chunks, delivering a and then
   b yields exactly the same receiver state (payloads delivered so far, buffer, phase, error flag)
   as delivering a ++ b at once - provided no header announcing a packet_length below 4 was seen
   (such malformed lengths make the Python slices negative; see C02_short_length_refuted). *)
Theorem C02_segmentation : forall s a b,
  okp s -> short s = false -> short (feed s (a ++ b)) = false ->
  feed (feed s a) b = feed s (a ++ b).
Proof. exact feed_feed. Qed.
Print Assumptions C02_segmentation.

(* ... hence for EVERY chunking of a byte stream (1-byte chunks, chunks spanning many packets, empty
   chunks) the result equals feeding the whole stream at once: every payload exactly once, in order. *)
Theorem C02_any_chunking : forall chunks s,
  okp s -> short s = false -> short (feed s (concat chunks)) = false ->
  fold_left feed chunks s = feed s (concat chunks) \/ chunks = [].
Proof. exact feed_chunks. Qed.
Print Assumptions C02_any_chunking.

(* The excluded case is real: with packet_length < 4 the parse depends on the segmentation. *)
Theorem C02_short_length_refuted :
  exists a b, feed (feed rs_init a) b <> feed rs_init (a ++ b).
Proof.
  exists [0;0;0;2; 2;9;9;9; 1;2;3], [4;5;6;7;8;9;10]. vm_compute. discriminate.
Qed.
Print Assumptions C02_short_length_refuted.

(* Key derivation (RFC 4253 7.2), for any hash function with a d-byte digest, d >= 1: the key has
   exactly the requested length, is HASH(K || H || X || session_id) when one digest suffices, and
   K1 || K2 || K3 with K2 = HASH(K || H || K1), K3 = HASH(K || H || K1 || K2) when three are needed. *)
Theorem C02_derive_length : forall (H : bytes -> bytes) (d : nat),
  (1 <= d)%nat -> (forall x, length (H x) = d) ->
  forall k h x sid keylen, 0 <= keylen -> zlen (derive_key H k h x sid keylen) = keylen.
Proof. exact derive_key_length. Qed.
Print Assumptions C02_derive_length.

Theorem C02_derive_rfc_1 : forall (H : bytes -> bytes) (d : nat),
  (1 <= d)%nat -> (forall x, length (H x) = d) ->
  forall k h x sid keylen, 0 < keylen <= Z.of_nat d ->
  derive_key H k h x sid keylen = firstn (Z.to_nat keylen) (H (k ++ h ++ x ++ sid)).
Proof. exact derive_key_rfc_1. Qed.
Print Assumptions C02_derive_rfc_1.

Theorem C02_derive_rfc_3 : forall (H : bytes -> bytes) (d : nat),
  (1 <= d)%nat -> (forall x, length (H x) = d) ->
  forall k h x sid keylen, 2 * Z.of_nat d < keylen <= 3 * Z.of_nat d ->
  let k1 := H (k ++ h ++ x ++ sid) in
  let k2 := H (k ++ h ++ k1) in
  let k3 := H (k ++ h ++ k1 ++ k2) in
  derive_key H k h x sid keylen = firstn (Z.to_nat keylen) (k1 ++ k2 ++ k3).
Proof. exact derive_key_rfc_3. Qed.
Print Assumptions C02_derive_rfc_3.
