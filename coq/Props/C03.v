(* C03 - Key exchange binds the whole negotiation; no silent downgrade.
   Statements only; proofs are in Proofs/KexProofs.v.  The model is Model/Kex.v. *)
From AV Require Import Base.Prelude Model.Packet Model.Kex Proofs.KexProofs.

(* MPInt is injective on all integers (negative ones included, as packet.py encodes them) ... *)
Theorem C03_mpint_inj : forall a b, mpint a = mpint b -> a = b.
Proof. exact mpint_inj. Qed.
Print Assumptions C03_mpint_inj.

(* ... and get_mpint reads back exactly the value MPInt wrote, leaving the rest of the packet: the
   receiver's integer (which it re-encodes canonically for the hash) is the sender's integer. *)
Theorem C03_mpint_roundtrip : forall v rest, mp_ok v -> get_mpint (mpint v ++ rest) = Some (v, rest).
Proof. exact get_mpint_mpint. Qed.
Print Assumptions C03_mpint_roundtrip.

(* What is kept of a received identification line determines the line up to one optional CR in front
   of the LF: any other alteration of the line changes the version string that is hashed. *)
Theorem C03_version_line : forall a b,
  version_of_line a = version_of_line b -> a = b \/ a = b ++ [13] \/ b = a ++ [13].
Proof. exact version_of_line_inj. Qed.
Print Assumptions C03_version_line.

(* hash_input_inj: for every key exchange family (fixed-group DH, group exchange in either request
   form, ECDH / curve25519 / hybrid post-quantum, RSA) the byte string fed to the exchange hash
   determines every field: two well-formed views (strings and mpints shorter than 2^32 bytes) of the same
   family with equal hash input are equal - versions, both KEXINIT payloads, host key, group
   parameters, ephemeral values and shared secret. *)
Theorem C03_hash_input_inj : forall a b,
  wf a -> wf b -> same_shape (kf a) (kf b) -> hash_input a = hash_input b -> a = b.
Proof. exact hash_input_inj. Qed.
Print Assumptions C03_hash_input_inj.

(* The five leading fields are determined whatever the families of the two views are. *)
Theorem C03_prefix_inj : forall a b,
  wf a -> wf b -> hash_input a = hash_input b ->
  v_c a = v_c b /\ v_s a = v_s b /\ i_c a = i_c b /\ i_s a = i_s b /\ k_s a = k_s b /\
  enc_fields (kf a) ++ kk a = enc_fields (kf b) ++ kk b.
Proof. exact prefix_inj. Qed.
Print Assumptions C03_prefix_inj.

(* The one place where the encoding is not self-delimiting: the group exchange request is hashed
   verbatim (4 bytes old form, 12 bytes new form).  Equal hash inputs across the two forms force the
   byte length of the old-form side's modulus to equal the "preferred size" of the new-form request
   (asyncssh asks for 2048; its largest group has 1025 bytes). *)
Theorem C03_gex_forms : forall rq p g e f ka rq' p' g' e' f' kb,
  zlen rq = 4 -> zlen rq' = 12 -> mp_ok p ->
  enc_fields (KGEX rq p g e f) ++ ka = enc_fields (KGEX rq' p' g' e' f') ++ kb ->
  mp_nbytes p = get_u32 (firstn 4 (skipn 4 rq')).
Proof. exact gex_forms. Qed.
Print Assumptions C03_gex_forms.

(* C03_binding.  Symbolic signatures: [verify] is any function; [signed ks m] says the holder of the
   private key of host key blob ks signed exactly the bytes m; the only assumption on them is
   unforgeability (a signature that verifies was produced by the key holder over those bytes).
   [server_session] is the set of local views of the honest server's sessions; the key holder signs
   nothing but the exchange hashes of those sessions.  Then: if the client accepts (range checks pass
   and the signature over the hash of ITS OWN view verifies under the presented key), there is a server
   session whose view is EQUAL to the client's view - same version strings, same KEXINIT payloads, same
   host key, same group, same ephemeral values, same shared secret - or the two views are an explicit
   collision of the exchange hash, or they are the group-exchange request-form confusion characterised
   by C03_gex_forms.  Collision freeness is never assumed. *)
Theorem C03_binding :
  forall (hash : bytes -> bytes) (verify : bytes -> bytes -> bytes -> bool) (signed : bytes -> bytes -> Prop),
  (forall ks m s, verify ks m s = true -> signed ks m) ->
  forall (ec_ok : bytes -> bool) (famof : bytes -> Z) (server_session : view -> Prop),
  (forall v, server_session v -> wf v /\ family_ok famof v) ->
  forall vC p sig,
  wf vC -> family_ok famof vC ->
  client_accepts hash verify ec_ok p vC sig = true ->
  honest_signer hash signed server_session (k_s vC) ->
  exists vS, server_session vS /\ (vC = vS \/ collision hash vC vS \/ gex_confusion vC vS).
Proof. exact binding. Qed.
Print Assumptions C03_binding.

(* The part of the binding that needs no hypothesis on the families: both version strings, both
   KEXINIT payloads (cookie, all ten name-lists, flags) and the host key. *)
Theorem C03_binding_prefix :
  forall (hash : bytes -> bytes) (verify : bytes -> bytes -> bytes -> bool) (signed : bytes -> bytes -> Prop),
  (forall ks m s, verify ks m s = true -> signed ks m) ->
  forall (ec_ok : bytes -> bool) (famof : bytes -> Z) (server_session : view -> Prop),
  (forall v, server_session v -> wf v /\ family_ok famof v) ->
  forall vC p sig,
  wf vC -> client_accepts hash verify ec_ok p vC sig = true ->
  honest_signer hash signed server_session (k_s vC) ->
  exists vS, server_session vS /\
    ((v_c vC = v_c vS /\ v_s vC = v_s vS /\ i_c vC = i_c vS /\ i_s vC = i_s vS /\ k_s vC = k_s vS) \/
     collision hash vC vS).
Proof. exact binding_prefix. Qed.
Print Assumptions C03_binding_prefix.

(* No silent downgrade: on acceptance the server evaluated the negotiation on the very same two
   KEXINIT payloads as the client, so it reached the same algorithms (or a collision is exhibited). *)
Theorem C03_no_downgrade :
  forall (hash : bytes -> bytes) (verify : bytes -> bytes -> bytes -> bool) (signed : bytes -> bytes -> Prop),
  (forall ks m s, verify ks m s = true -> signed ks m) ->
  forall (ec_ok : bytes -> bool) (famof : bytes -> Z) (server_session : view -> Prop),
  (forall v, server_session v -> wf v /\ family_ok famof v) ->
  forall needs_mac vC p sig,
  wf vC -> client_accepts hash verify ec_ok p vC sig = true ->
  honest_signer hash signed server_session (k_s vC) ->
  exists vS, server_session vS /\
    (negotiate_payloads needs_mac (i_c vC) (i_s vC) = negotiate_payloads needs_mac (i_c vS) (i_s vS) \/
     collision hash vC vS).
Proof. exact no_downgrade. Qed.
Print Assumptions C03_no_downgrade.

(* Every public entry point that reports something learned from the handshake reports it only after
   acceptance.  For get_server_host_key() (wait='kex'): a key is returned only if the signature over the hash
   of the client's whole view verified under THAT key; so (honest key holder) the returned key is the key of
   a server session with the same versions and KEXINITs - never a blob substituted in flight. *)
Theorem C03_returned_key :
  forall (hash : bytes -> bytes) (verify : bytes -> bytes -> bytes -> bool) (signed : bytes -> bytes -> Prop),
  (forall ks m s, verify ks m s = true -> signed ks m) ->
  forall (ec_ok : bytes -> bool) (famof : bytes -> Z) (server_session : view -> Prop),
  (forall v, server_session v -> wf v /\ family_ok famof v) ->
  forall vC p sig k,
  wf vC -> kex_wait_result hash verify ec_ok p vC sig = Some k ->
  honest_signer hash signed server_session k ->
  exists vS, server_session vS /\
    ((k = k_s vS /\ v_c vC = v_c vS /\ v_s vC = v_s vS /\ i_c vC = i_c vS /\ i_s vC = i_s vS) \/
     collision hash vC vS).
Proof. exact returned_key. Qed.
Print Assumptions C03_returned_key.

(* choose_first: _choose_alg returns a exactly when a is on the client's list, the server lists it, and
   no earlier entry of the client's list is listed by the server. *)
Theorem C03_choose_first : forall client server a,
  choose_alg client server = Some a <-> first_match client server a.
Proof. exact choose_first. Qed.
Print Assumptions C03_choose_first.

(* ... and it fails exactly when the lists have nothing in common. *)
Theorem C03_choose_none : forall client server,
  choose_alg client server = None <-> forall x, In x client -> ~ In x server.
Proof. exact choose_none. Qed.
Print Assumptions C03_choose_none.

(* choose_agree: the client calls _choose_alg(local list, server's KEXINIT list), the server calls it
   with (local list, client's KEXINIT list); the KEXINIT lists carry extra marker entries (ext-info,
   kex-strict) the local lists do not.  Both calls give the same result when no marker of one side is
   an algorithm of the other side ... *)
Theorem C03_choose_agree : forall lc ls xc xs,
  (forall x, In x xs -> ~ In x lc) -> (forall x, In x xc -> ~ In x ls) ->
  side_choose true lc (ls ++ xs) = side_choose false ls (lc ++ xc).
Proof. exact choose_agree. Qed.
Print Assumptions C03_choose_agree.

(* ... and that result is the first-match choice on the two lists exactly as they are on the wire. *)
Theorem C03_choose_wire : forall lc ls xc xs,
  (forall x, In x xs -> ~ In x (lc ++ xc)) -> (forall x, In x xc -> ~ In x ls) ->
  side_choose true lc (ls ++ xs) = choose_alg (lc ++ xc) (ls ++ xs) /\
  side_choose false ls (lc ++ xc) = choose_alg (lc ++ xc) (ls ++ xs).
Proof. exact choose_wire. Qed.
Print Assumptions C03_choose_wire.

(* Every algorithm of a completed negotiation (kex, host key, cipher, MAC, compression, both
   directions) is the first entry of the client's list that the server also lists; with an AEAD cipher
   the MAC is the cipher itself. *)
Theorem C03_negotiate_first : forall needs_mac c s r,
  negotiate needs_mac c s = Some r ->
  first_match (ki_kex c) (ki_kex s) (n_kex r) /\
  first_match (ki_hostkey c) (ki_hostkey s) (n_hostkey r) /\
  first_match (ki_enc_cs c) (ki_enc_cs s) (n_enc_cs r) /\
  first_match (ki_enc_sc c) (ki_enc_sc s) (n_enc_sc r) /\
  mac_rule needs_mac (ki_mac_cs c) (ki_mac_cs s) (n_enc_cs r) (n_mac_cs r) /\
  mac_rule needs_mac (ki_mac_sc c) (ki_mac_sc s) (n_enc_sc r) (n_mac_sc r) /\
  first_match (ki_cmp_cs c) (ki_cmp_cs s) (n_cmp_cs r) /\
  first_match (ki_cmp_sc c) (ki_cmp_sc s) (n_cmp_sc r).
Proof. exact negotiate_first. Qed.
Print Assumptions C03_negotiate_first.

(* dh_range, as the code enforces it: an accepted f satisfies 1 <= f < p (p of the fixed group, or the
   p received in the group exchange); ECDH values passed the library's validity check. *)
Theorem C03_dh_range_client : forall hash verify ec_ok vC p sig,
  client_accepts hash verify ec_ok p vC sig = true ->
  match kf vC with
  | KDH _ f => 1 <= f < p
  | KGEX _ p' _ _ f => 1 <= f < p'
  | KECDH _ qs => ec_ok qs = true
  | KRSA _ _ => True
  end.
Proof. exact accepted_range. Qed.
Print Assumptions C03_dh_range_client.

Theorem C03_dh_range_server : forall ec_ok p x,
  server_range_ok ec_ok p x = true ->
  match x with
  | KDH e _ => 1 <= e < p
  | KGEX _ p' _ e _ => 1 <= e < p'
  | KECDH qc _ => ec_ok qc = true
  | KRSA _ _ => True
  end.
Proof. exact server_range. Qed.
Print Assumptions C03_dh_range_server.

(* The stricter range 1 < x < p-1 of RFC 8268 section 4 is NOT what the code enforces: 1 and p-1 pass. *)
Theorem C03_dh_range_strict_refuted :
  exists ec_ok p e f, 2 < p /\ client_range_ok ec_ok p (KDH e f) = true /\ server_range_ok ec_ok p (KDH e f) = true /\
                      ~ (1 < f < p - 1) /\ ~ (1 < e < p - 1).
Proof. exact range_admits_degenerate. Qed.
Print Assumptions C03_dh_range_strict_refuted.

(* ---- non-vacuity witnesses ------------------------------------------------------------------ *)
Example ex_view : view :=
  mkView [83;83;72;45;50;46;48;45;97] [83;83;72;45;50;46;48;45;98]
         (20 :: repeat 7 16 ++ sstr [97] ++ sstr [104] ++ sstr [99] ++ sstr [99] ++ sstr [109] ++ sstr [109] ++
                sstr [110] ++ sstr [110] ++ sstr [] ++ sstr [] ++ [0] ++ u32 0)
         (20 :: repeat 9 16 ++ sstr [120;44;97] ++ sstr [104] ++ sstr [99] ++ sstr [99] ++ sstr [109] ++ sstr [109] ++
                sstr [110] ++ sstr [110] ++ sstr [] ++ sstr [] ++ [0] ++ u32 0)
         [1;2;3] (KDH 5 (-129)) (mpint 200).

Example C03_ex_wf : wf ex_view /\ family_ok (fun _ => 0) ex_view.
Proof.
  split.
  - unfold wf, str_ok, mp_ok, B32, kf_wf. vm_compute. repeat split; reflexivity.
  - exists [97]. split; vm_compute; reflexivity.
Qed.

(* the hypotheses of C03_binding are satisfiable: a toy hash (identity), a toy signature scheme in which
   the signature is the message itself, the server's only session is ex_view *)
Example C03_ex_binding_hyps :
  let hash := fun b : bytes => b in
  let verify := fun (_ m s : bytes) => zlist_eqb m s in
  let signed := fun (_ m : bytes) => m = hash_input ex_view in
  let session := fun v => v = ex_view in
  (forall ks m s, verify ks m s = true -> s = m) /\
  client_accepts hash verify (fun _ => true) 23 (mkView (v_c ex_view) (v_s ex_view) (i_c ex_view) (i_s ex_view)
       (k_s ex_view) (KDH 5 7) (kk ex_view)) (hash_input (mkView (v_c ex_view) (v_s ex_view) (i_c ex_view)
       (i_s ex_view) (k_s ex_view) (KDH 5 7) (kk ex_view))) = true /\
  honest_signer hash signed session (k_s ex_view).
Proof.
  cbv zeta. split; [|split].
  - intros ks m s H. apply zlist_eqb_spec in H. symmetry. exact H.
  - vm_compute. reflexivity.
  - intros m Hm. exists ex_view. split; [reflexivity|exact Hm].
Qed.

Example C03_ex_mpint :
  mpint 0 = [0;0;0;0] /\ mpint 128 = [0;0;0;2;0;128] /\ mpint (-128) = [0;0;0;1;128] /\
  mpint (-129) = [0;0;0;2;255;127] /\ mpint 255 = [0;0;0;2;0;255] /\ mp_parse [0;0;0;3;0;0;5] = Some 5.
Proof. vm_compute. repeat split; reflexivity. Qed.

Example C03_ex_choose :
  choose_alg [[1];[2];[3]] [[3];[2]] = Some [2] /\ choose_alg [[1]] [[2]] = None.
Proof. vm_compute. split; reflexivity. Qed.
