(* C04 - Client only talks to a server whose host key it trusts.
   Statements only; proofs are in Proofs/HostTrustProofs.v.  The input of the decision is the RESULT
   of the known_hosts lookup for (host, address, port): trusted keys, trusted CA keys, revoked keys
   (how a known_hosts text is matched is property C17). *)
From AV Require Import Base.Prelude Model.HostTrust Proofs.HostTrustProofs.

(* Soundness of the decision, for every lookup result t, every answer cbk / cbca of the application's
   validate_host_public_key / validate_host_ca_key callbacks (False unless the application overrides
   them), every host name, time and presented blob: if a key k is accepted then either the blob is
   the plain key k, which is listed (or approved by the callback) and not revoked, or it is a
   certificate for k whose CA is listed (or approved by the callback) and not revoked, whose own key
   is not revoked, whose type is host, whose validity window contains now, whose principals are
   empty or contain the host, and whose CA signature verifies. *)
Theorem C04_sound : forall t cbk cbca host now p k,
  validate_host_key (mkEnv (Some t) cbk cbca host) now p = Some k ->
  (p = PKey k /\ plain_ok t cbk k) \/
  (exists c, p = PCert c /\ k = c_key c /\ cert_ok t cbca host now c).
Proof. exact validate_sound. Qed.
Print Assumptions C04_sound.

(* The same with the default callbacks, spelled out: exactly the wording of the property. *)
Theorem C04_sound_default : forall t host now p k,
  validate_host_key (mkEnv (Some t) false false host) now p = Some k ->
  (p = PKey k /\ In k (t_keys t) /\ ~ In k (t_revoked t)) \/
  (exists c, p = PCert c /\ k = c_key c /\
     In (c_ca c) (t_cas t) /\ ~ In (c_ca c) (t_revoked t) /\ ~ In (c_key c) (t_revoked t) /\
     c_type c = CERT_TYPE_HOST /\ c_after c <= now < c_before c /\
     (c_principals c = [] \/ In host (c_principals c)) /\ c_sig_ok c = true).
Proof.
  intros t host now p k H. apply validate_sound in H.
  destruct H as [[Hp [[Hk|Hk] Hr]]|[c [Hp [Hkc [[Hca|Hca] Hrest]]]]]; try discriminate.
  - left. auto.
  - right. exists c. auto.
Qed.
Print Assumptions C04_sound_default.

(* Completeness: the converse.  The model is not "reject everything": whatever satisfies the
   conditions is accepted, and the key returned is the presented one. *)
Theorem C04_complete : forall t cbk cbca host now p k,
  (p = PKey k /\ plain_ok t cbk k) \/
  (exists c, p = PCert c /\ k = c_key c /\ cert_ok t cbca host now c) ->
  validate_host_key (mkEnv (Some t) cbk cbca host) now p = Some k.
Proof. exact validate_complete. Qed.
Print Assumptions C04_complete.

(* With or without checking (known_hosts=None included), the key handed to the signature check is
   the presented key or the presented certificate's subject key, never another key of the lists. *)
Theorem C04_key_is_presented : forall e now p k,
  validate_host_key e now p = Some k -> p = PKey k \/ exists c, p = PCert c /\ k = c_key c.
Proof. exact validate_returns_presented. Qed.
Print Assumptions C04_key_is_presented.

(* The decision as it was before /repo commit 58fab7a accepted a host certificate whose subject key
   is in the revoked set (finding C04-1); the current one rejects the same input. *)
Theorem C04_cert_subject_revoked_old_refuted :
  exists t host now c k,
    validate_host_key_old (mkEnv (Some t) false false host) now (PCert c) = Some k /\
    In k (t_revoked t) /\
    validate_host_key (mkEnv (Some t) false false host) now (PCert c) = None.
Proof. exact validate_old_accepts_revoked_subject. Qed.
Print Assumptions C04_cert_subject_revoked_old_refuted.

(* No credentials before acceptance.  For EVERY sequence of events of the client transport model
   (server messages in any order and of any kind, local send_packet calls of any message number at
   any time), if NEWKEYS, SERVICE_REQUEST or any message numbered 50 or above (USERAUTH_REQUEST
   included) is on the wire, then the sequence splits at a KEX reply whose presented key the trust
   configuration accepts and whose signature verifies under exactly that key over the client's
   exchange hash, and before that reply nothing of the kind had been sent. *)
Theorem C04_no_creds_before : forall e evs m,
  In m (out (run e evs)) -> gated m = true ->
  exists pre x post,
    evs = pre ++ x :: post /\ good_reply e x = true /\
    (forall u, In u (out (run e pre)) -> gated u = false).
Proof. exact no_creds_before. Qed.
Print Assumptions C04_no_creds_before.

(* The whole property in one statement (checking enabled): ordering, decision and signature. *)
Theorem C04_end_to_end : forall t cbk cbca host evs m,
  In m (out (run (mkEnv (Some t) cbk cbca host) evs)) -> gated m = true ->
  exists pre p sg h now post k,
    evs = pre ++ EKexReply p sg h now :: post /\
    ((p = PKey k /\ plain_ok t cbk k) \/
     (exists c, p = PCert c /\ k = c_key c /\ cert_ok t cbca host now c)) /\
    s_signer sg = k /\ s_hash sg = h /\
    (forall u, In u (out (run (mkEnv (Some t) cbk cbca host) pre)) -> gated u = false).
Proof. exact end_to_end. Qed.
Print Assumptions C04_end_to_end.

(* A lying server, one step: in any open state, a reply that presents a key the configuration
   accepts but whose signature was made by another key, or over another hash than the client's,
   closes the connection and sends nothing (signatures are symbolic: who signed what). *)
Theorem C04_lying_server : forall e s p sg h now,
  closed s = false ->
  (forall k, validate_host_key e now p = Some k -> s_signer sg <> k \/ s_hash sg <> h) ->
  closed (step e s (EKexReply p sg h now)) = true /\
  out (step e s (EKexReply p sg h now)) = out s.
Proof. exact lying_reply_closes. Qed.
Print Assumptions C04_lying_server.

(* A lying server, whole runs: if every reply of a run is such a lie (or is rejected), then whatever
   else the server sends and whatever the client's own code tries to send, no NEWKEYS, no
   SERVICE_REQUEST and no message numbered 50 or above ever reaches the wire. *)
Theorem C04_lying_server_run : forall e evs,
  Forall (lying e) evs -> forall m, In m (out (run e evs)) -> gated m = false.
Proof. exact lying_server_gets_nothing. Qed.
Print Assumptions C04_lying_server_run.

Theorem C04_rejected_server_run : forall e evs,
  (forall p sg h now, In (EKexReply p sg h now) evs -> validate_host_key e now p = None) ->
  forall m, In m (out (run e evs)) -> gated m = false.
Proof. exact rejected_server_gets_nothing. Qed.
Print Assumptions C04_rejected_server_run.

(* non-vacuity witnesses *)
Example C04_accepts_listed_key :
  validate_host_key (mkEnv (Some (mkTrust [5; 11] [] [7])) false false [104]) 0 (PKey 11) = Some 11.
Proof. vm_compute. reflexivity. Qed.

Example C04_accepts_good_cert :
  validate_host_key (mkEnv (Some (mkTrust [] [7] [9])) false false [104]) 100
    (PCert (mkCert 3 7 CERT_TYPE_HOST 100 101 [[97]; [104]] true)) = Some 3.
Proof. vm_compute. reflexivity. Qed.

Example C04_rejects_at_expiry :
  validate_host_key (mkEnv (Some (mkTrust [] [7] [9])) false false [104]) 101
    (PCert (mkCert 3 7 CERT_TYPE_HOST 100 101 [[97]; [104]] true)) = None.
Proof. vm_compute. reflexivity. Qed.

Example C04_honest_run_reaches_auth :
  out (run demo_env demo_run) =
  [MSG_KEXINIT; MSG_KEX_INIT; MSG_NEWKEYS; MSG_SERVICE_REQUEST; MSG_USERAUTH_REQUEST].
Proof. exact demo_run_out. Qed.

Example C04_liar_run_reaches_nothing :
  out (run demo_env [EKexInit true false true; EKexReply (PKey 11) (mkSig 12 99) 99 0; ENewKeys;
                     EServiceAccept true; ELocalSend 50]) = [MSG_KEXINIT; MSG_KEX_INIT].
Proof. vm_compute. reflexivity. Qed.
