(* C05 - Access is granted exactly when a credential check succeeded (server side).
   Statements only; proofs in Proofs/AuthProofs.v; model in Model/Auth.v.

   Model: the server-side authentication state machine of asyncssh as a small-step system
     run w sid fixed evs = fold_left (step w sid fixed) evs init
   over events  Deliver p (an SSH packet arrives), Complete fid (an awaited application callback / the
   reload_config executor job completes), Run i (the event loop runs the i-th pending continuation).
   [w : world] holds every answer of the application (begin_auth, validate_password, authorized keys per
   user, validate_public_key, keyboard-interactive callbacks), utf-8 + saslprep, blob decoding, signature
   verification and which callbacks are asynchronous; every theorem holds for EVERY world, EVERY session
   id and EVERY event list - that is every sequence of USERAUTH messages (valid, invalid, malformed, any
   method, any user names, any signature data) and every interleaving with asynchronous completion, in
   any order (the real event loop is FIFO; the theorems allow any order).

   [fixed = true] is the code in /repo (since repair 208592d, described at the end of Model/Auth.v) and the
   variant tied to the implementation by the correspondence; [fixed = false] is the code BEFORE the repair.
   The model of the old code VIOLATES soundness, once and restrictions (the
   `_refuted` theorems; each witness is replayed against the real implementation by the harness). *)
From AV Require Import Base.Prelude Model.Auth Proofs.AuthProofs.

(* Soundness (repaired variant).  Whenever the connection is authenticated, the user name it is
   authenticated as is ENTITLED by the packets delivered on this connection:  [granted w sid U D] says
   that D contains a USERAUTH_REQUEST naming U (after utf-8 + saslprep, service ssh-connection) such that
   the application says U needs no authentication, or evaluating THAT request for U - against the keys
   the application installs for U - succeeds (password accepted for U; key or certificate authorized for U
   and the signature verifies over string(session id) ++ the request bytes up to and including the key
   blob; keyboard-interactive challenge answered True for U), or it is a keyboard-interactive request and a
   delivered INFO_RESPONSE is accepted for U. *)
Theorem C05_sound : forall w sid evs,
  let s := run w sid true evs in
  complete s = true -> granted w sid (username s) (payloads evs) = true.
Proof. exact sound_fixed. Qed.
Print Assumptions C05_sound.

(* The code before repair 208592d violated this.  Witness 1 (DESIGN 10-3): begin_auth is asynchronous, guest needs no
   authentication, nobody has any valid credential; request(guest), request(root), then begin_auth(guest)
   completes: the session is authenticated as root. *)
Theorem C05_sound_refuted : exists w sid evs,
  let s := run w sid false evs in
  complete s = true /\ granted w sid (username s) (payloads evs) = false.
Proof.
  exists Witness.w1, Witness.the_sid, Witness.evs1.
  destruct Witness.sound_refuted_1 as (H1 & H2 & _ & H4). cbv zeta. rewrite H2. split; assumption.
Qed.
Print Assumptions C05_sound_refuted.

(* Witness 2: every application callback is SYNCHRONOUS and follows the documented pattern (begin_auth(u)
   installs u's authorized keys).  none(alice); then none(bob) and publickey(bob, alice's key, signed by
   alice) in one segment: the second request of the pair overtakes the first one (still in
   reload_config), is checked against alice's keys, and the session is authenticated as bob before
   begin_auth(bob) was even called. *)
Theorem C05_sound_refuted_sync_app : exists w sid evs,
  async_begin w = false /\ async_pw w = false /\ async_key w = false /\ async_ca w = false /\ async_kbd w = false /\
  let s := run w sid false evs in
  complete s = true /\ granted w sid (username s) (payloads evs) = false /\ ~ In (username s) (begun s).
Proof.
  exists Witness.w2, Witness.the_sid, Witness.evs2.
  destruct Witness.sound_refuted_2 as (H1 & H2 & H3 & H4). cbv zeta. rewrite H2, H3.
  repeat split; try reflexivity; try assumption.
  intros [H|[]]. discriminate H.
Qed.
Print Assumptions C05_sound_refuted_sync_app.

(* Witness 3: alice's asynchronous password check completes after the user name was switched to root. *)
Theorem C05_sound_refuted_stale_validator : exists w sid evs,
  async_begin w = false /\
  let s := run w sid false evs in
  complete s = true /\ granted w sid (username s) (payloads evs) = false.
Proof.
  exists Witness.w3, Witness.the_sid, Witness.evs3.
  destruct Witness.sound_refuted_3 as (H1 & H2 & H4). cbv zeta. rewrite H2. repeat split; assumption || reflexivity.
Qed.
Print Assumptions C05_sound_refuted_stale_validator.

(* In the world of witness 1 the repaired variant never authenticates root, whatever else is sent and
   however it is scheduled. *)
Theorem C05_repaired_resists_witness : forall more,
  let s := run Witness.w1 Witness.the_sid true (Witness.evs1 ++ more) in
  complete s = true -> username s <> Witness.root.
Proof. exact Witness.fixed_resists_1. Qed.
Print Assumptions C05_repaired_resists_witness.

(* Once (repaired variant): at most one USERAUTH_SUCCESS is ever sent and auth_completed() is called at
   most once, exactly when the connection is authenticated, and with the user name it is authenticated as. *)
Theorem C05_once : forall w sid evs,
  let s := run w sid true evs in
  (count_success (out s) <= 1)%nat /\
  (complete s = true -> count_success (out s) = 1%nat /\ completed_as s = [username s]) /\
  (complete s = false -> count_success (out s) = 0%nat /\ completed_as s = []).
Proof. exact once_fixed. Qed.
Print Assumptions C05_once.

(* The code before the repair sent a second USERAUTH_SUCCESS: alice's password check is pending when guest (no
   authentication needed) is let in; the orphaned check then completes. *)
Theorem C05_once_refuted : exists w sid evs,
  let s := run w sid false evs in count_success (out s) = 2%nat /\ length (completed_as s) = 2%nat.
Proof.
  exists Witness.w4, Witness.the_sid, Witness.evs4.
  destruct Witness.once_refuted as (H1 & H2). cbv zeta. rewrite H1, H2. split; reflexivity.
Qed.
Print Assumptions C05_once_refuted.

(* Stability (repaired variant): once authenticated, no further message or completion changes the user
   name, the restrictions in force, or reports a second completion - later requests are ignored (and
   rejected after the first connection-layer message). *)
Theorem C05_stable : forall w sid evs more,
  let s := run w sid true evs in
  complete s = true ->
  let s' := run w sid true (evs ++ more) in
  username s' = username s /\ key_opts s' = key_opts s /\ cert_opts s' = cert_opts s /\ complete s' = true /\
  completed_as s' = completed_as s.
Proof. exact stable_fixed. Qed.
Print Assumptions C05_stable.

(* Gate (BOTH variants): a connection-layer message (type > 79: global request, channel open, ...) is
   processed only on an authenticated connection ... *)
Theorem C05_gate : forall w sid fixed evs,
  served (run w sid fixed evs) <> 0 -> complete (run w sid fixed evs) = true.
Proof. exact gate. Qed.
Print Assumptions C05_gate.

(* ... and when one arrives on a connection that is not authenticated the connection is closed, after
   which nothing has any effect. *)
Theorem C05_gate_closes : forall w sid fixed s t r e,
  dead s = false -> paused s = false -> complete s = false -> 80 <= t ->
  let s' := step w sid fixed s (Deliver (t :: r)) in
  dead s' = true /\ step w sid fixed s' e = s'.
Proof.
  intros w sid fixed s t r e Hd Hp Hc Ht s'.
  pose proof (deliver_unauth_dies w sid fixed s t r Hd Hp Hc Ht) as H. split; [exact H|].
  apply dead_absorbing. exact H.
Qed.
Print Assumptions C05_gate_closes.

(* Restrictions (repaired variant): the restrictions in force on an authenticated connection
   (_key_options, _cert_options - from which forced command, pty and forwarding permissions are computed)
   are those that come with one of the credentials that entitle the user. *)
Theorem C05_restrictions : forall w sid evs,
  let s := run w sid true evs in
  complete s = true -> restrictions_justified w sid (username s) (payloads evs) s = true.
Proof. exact restrictions_fixed. Qed.
Print Assumptions C05_restrictions.

(* ... and what is enforced is computed from them alone, for every way a session can be started: shell,
   exec, subsystem (sftp included) - a forced command (certificate force-command, else authorized_keys
   command=) replaces whatever was requested - and for pty and direct-tcpip requests. *)
Theorem C05_restrictions_enforced : forall w sid evs,
  let s := run w sid true evs in
  complete s = true ->
  exists p ko co, In p (payloads evs) /\ In (ko, co) (grants_via w sid (username s) (payloads evs) p) /\
    (forall r, start_session s r = start_under ko co r) /\ forced_command s = forced_under ko co /\
    pty_allowed s = pty_under ko co /\ (forall h pt, fwd_allowed s h pt = fwd_under ko co h pt).
Proof. exact restrictions_enforced_fixed. Qed.
Print Assumptions C05_restrictions_enforced.

Theorem C05_forced_command_replaces_request : forall ko co c r,
  forced_under ko co = Some c -> start_under ko co r = SExec c.
Proof. intros ko co c r H. unfold start_under. rewrite H. reflexivity. Qed.
Print Assumptions C05_forced_command_replaces_request.

(* Client-address restrictions: an authorized_keys entry is matched only when its from="..." option is absent or
   was CHECKED against the peer address and matched.  When the check cannot be made (the connection has no IP
   peer address: UNIX socket, tunnel) the entry does not match - the lookup raises and the connection goes down. *)
Theorem C05_from_checked : forall es k cp ca o,
  ak_validate es k cp ca = AkSome o ->
  exists e, In e es /\ ae_opts e = o /\ ae_key e = k /\ ae_ca e = ca /\ (ae_from e = FrAbsent \/ ae_from e = FrOk).
Proof. exact ak_validate_from. Qed.
Print Assumptions C05_from_checked.

(* Security keys: a signature by an sk key is accepted only with the user-presence flag, unless touch was
   waived; for a plain key the waiver is no-touch-required on its authorized_keys entry, for a certificate it
   takes BOTH the cert-authority entry AND the certificate extension.  (pk_start consults exactly sk_accepts with
   touch_required_key / touch_required_cert; tied by the correspondence.) *)
Theorem C05_touch_table : forall w k touch sg,
  sk_accepts w k touch sg = true -> is_sk w k = true -> touch = true -> sig_up sg = true.
Proof. exact touch_table. Qed.
Print Assumptions C05_touch_table.

Theorem C05_touch_waiver : forall o c,
  (touch_required_key o = false <-> ko_no_touch o = true) /\
  (touch_required_cert o c = false <-> ko_no_touch o = true /\ co_no_touch c = true).
Proof. intros o c. split; [apply touch_waiver_key|apply touch_waiver_cert]. Qed.
Print Assumptions C05_touch_waiver.

(* Host-based authentication (decision only): accepted => the key is trusted for the host name the SERVER
   resolved (for the claimed one only under trust_client_host), the signature verified and the application
   agreed. *)
Theorem C05_hostbased_resolved_host : forall trust claimed resolved kh k sig_ok user_ok,
  hb_decide trust claimed resolved kh k sig_ok user_ok = true ->
  hb_trusted kh (if trust then strip_dot claimed else resolved) k = true /\ sig_ok = true /\ user_ok = true.
Proof.
  intros trust claimed resolved kh k sig_ok user_ok H. unfold hb_decide, hb_lookup_host in H.
  apply andb_true_iff in H as [H H3]. apply andb_true_iff in H as [H1 H2]. auto.
Qed.
Print Assumptions C05_hostbased_resolved_host.

(* Keys are never inherited across a user-name switch: whenever packets are being processed, the
   authorized keys in force are the configured ones or the ones the application installed during
   begin_auth for the CURRENT user name (reload_config puts the configured set back before every begin_auth;
   the application may install keys, install none, or leave them alone - [installs]).  Together with
   C05_sound: a key accepted for u was installed FOR u. *)
Theorem C05_keys_for_current_user : forall w sid evs,
  let s := run w sid true evs in
  dead s = false -> paused s = false ->
  ak_user s = key_src w (username s) \/ (ak_user s = None /\ username s = []).
Proof. exact keys_for_current_user_fixed. Qed.
Print Assumptions C05_keys_for_current_user.

(* The code before the repair violated this: a QUERY (no signature needed) with a certificate carrying
   force-command leaves _cert_options set; when a plain key with its own command= is accepted afterwards
   the certificate's forced command is the one enforced. *)
Theorem C05_restrictions_refuted : exists w sid evs,
  let s := run w sid false evs in
  complete s = true /\ granted w sid (username s) (payloads evs) = true /\
  restrictions_justified w sid (username s) (payloads evs) s = false.
Proof.
  exists Witness.w5, Witness.the_sid, Witness.evs5.
  destruct Witness.restrictions_refuted as (H1 & H2 & H3 & _ & H5). cbv zeta. rewrite H2.
  repeat split; assumption.
Qed.
Print Assumptions C05_restrictions_refuted.

(* Conversely (BOTH variants, every combination of synchronous / asynchronous application callbacks): a
   well-formed password request for a user whose password the application accepts, sent on a fresh
   connection and left alone (drive = run what is ready, complete what is awaited, until nothing is left),
   ends with the connection authenticated as that user, exactly one USERAUTH_SUCCESS, nothing pending. *)
Theorem C05_accepts_password : forall w sid fixed ub pw U pw',
  blen ub < 1024 -> blen pw < 4294967296 ->
  prep w ub = Some U -> prep w pw = Some pw' ->
  needs_auth w U = true -> pw_supported w = true -> pw_check w U pw' = PTrue ->
  let p := 50 :: sstr ub ++ sstr S_CONN ++ sstr S_PASSWORD ++ ([0] ++ sstr pw) in
  let s := drive w sid fixed 12 (step w sid fixed init (Deliver p)) in
  dead s = false /\ complete s = true /\ username s = U /\ completed_as s = [U] /\ out s = [RSuccess] /\
  conts s = [].
Proof. exact accepts_password. Qed.
Print Assumptions C05_accepts_password.

(* ... and a signed publickey request with a key listed in the user's authorized keys, whose signature
   verifies over string(session id) ++ the request bytes up to and including the key blob, is accepted
   with exactly the options of the matching authorized_keys entry. *)
Theorem C05_accepts_publickey : forall w sid fixed ub alg kb sg U es k o,
  blen ub < 1024 -> blen alg < 4294967296 -> blen kb < 4294967296 -> blen sg < 4294967296 ->
  prep w ub = Some U -> zlist_eqb U [] = false -> needs_auth w U = true -> installs w U = true ->
  ak_of w (Some U) = Some es -> decode w kb = BKey k -> ak_validate es k None false = AkSome o ->
  sk_accepts w k (touch_required_key o) sg = true ->
  let head := 50 :: sstr ub ++ sstr S_CONN ++ sstr S_PUBLICKEY ++ [1] ++ sstr alg ++ sstr kb in
  verify w k (sstr sid ++ head) sg = true ->
  let s := drive w sid fixed 12 (step w sid fixed init (Deliver (head ++ sstr sg))) in
  (dead s = false /\ complete s = true /\ username s = U /\ completed_as s = [U] /\ out s = [RSuccess] /\
   conts s = []) /\ key_opts s = o /\ cert_opts s = None.
Proof. exact accepts_publickey. Qed.
Print Assumptions C05_accepts_publickey.

(* non-vacuity: an honest password session on the repaired variant ends authenticated *)
Example C05_example_password :
  let w := Witness.w3 in
  let evs := [Deliver (Witness.req_pw Witness.alice [1]); Run 0; Complete 0; Run 0; Run 0; Run 0; Complete 1; Run 0] in
  let s := run w Witness.the_sid true evs in
  complete s = true /\ username s = Witness.alice /\ out s = [RSuccess] /\
  granted w Witness.the_sid Witness.alice (payloads evs) = true.
Proof. vm_compute. repeat split; reflexivity. Qed.
