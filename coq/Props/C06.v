(* C06 - Out-of-phase and injected messages never take effect.
   Statements only.  Table theorems are about Gen/MsgGate.v, the verdict a REAL asyncssh endpoint gave to
   every injected message (regenerated from the running code on every run; proofs in Proofs/MsgGateProofs.v,
   by evaluation of the whole finite table inside the kernel).  Model theorems are about Model/Transport.v
   (proofs in Proofs/TransportProofs.v), which the correspondence stage ties to the running code.

   Table coordinates: sv = the endpoint is a server; ph = phase 0..14 on a server, 0..20 on a client (K0 pre-kexinit, K1 kex-running,
   K2 own NEWKEYS sent / peer's awaited, E0 post-newkeys-pre-service, A0 auth-running, A1 auth-done,
   C0 authenticated, R0 rekey-running, R1 rekey-newkeys-sent; from a second session with several methods:
   M0 keyboard-interactive attempt running, M1 server: it failed / client: answer sent, M2 server: publickey
   attempt failed / client: keyboard-interactive failed and password request outstanding, M3 server: password
   attempt failed / client: authenticated through keyboard-interactive); sk = strict KEX negotiated; va = variant 0..3
   (well-formed, empty body, last byte cut, one trailing byte); t = message type 0..255.
   Verdicts: VH handled, VU answered UNIMPLEMENTED (session otherwise identical to the untampered twin),
   VF connection ended at once, VL no reaction but connection ended later with nothing else different,
   VI ignored (session identical to the twin). *)
From AV Require Import Base.Prelude Model.Transport Gen.MsgGate Proofs.MsgGateProofs Proofs.TransportProofs.

(* Every cell of the table was probed. *)
Theorem C06_table_total : forall sv ph sk va t, 0 <= ph < Z.of_nat (nphases sv) -> 0 <= va < 4 -> 0 <= t < 256 ->
  lookup gate_row sv ph sk va t <> VX.
Proof. exact fact_total. Qed.
Print Assumptions C06_table_total.

(* Before the first key exchange completes only the message the exchange calls for next is handled:
   KEXINIT first, then the exchange-specific message of the peer's role, then NEWKEYS - in every role,
   with and without strict KEX, well-formed or damaged. *)
Theorem C06_prekex : forall sv ph sk va t, 0 <= ph < Z.of_nat (nphases sv) -> 0 <= va < 4 -> 0 <= t < 256 ->
  ph <= 2 -> lookup gate_row sv ph sk va t = VH -> calls_for sv ph t = true.
Proof. exact fact_prekex. Qed.
Print Assumptions C06_prekex.

(* Before authentication completes (preauth_phase: every phase up to A0, and the phases around finished and
   running attempts M0..M3 except the client's M3) nothing of the connection layer (types 80..255) is handled. *)
Theorem C06_preauth : forall sv ph sk va t, 0 <= ph < Z.of_nat (nphases sv) -> 0 <= va < 4 -> 0 <= t < 256 ->
  preauth_phase sv ph = true -> lookup gate_row sv ph sk va t = VH -> t <= 79.
Proof. exact fact_preauth. Qed.
Print Assumptions C06_preauth.

(* Method-specific authentication messages (60..79: INFO_REQUEST/INFO_RESPONSE, PK_OK, PASSWD_CHANGEREQ, ...) end
   the connection whenever no attempt is in progress (no_attempt): on a server in every phase except while its
   keyboard-interactive challenge is outstanding - in particular right after an attempt of any method family was
   answered with USERAUTH_FAILURE, even when the stale answer is one the application's validator would accept; on
   a client before its first request and after authentication completed. *)
Theorem C06_stale_attempt : forall sv ph sk va t, 0 <= ph < Z.of_nat (nphases sv) -> 0 <= va < 4 -> 0 <= t < 256 ->
  no_attempt sv ph = true -> 60 <= t <= 79 -> lookup gate_row sv ph sk va t = VF.
Proof. exact fact_stale. Qed.
Print Assumptions C06_stale_attempt.

(* Client, between two authentication methods (phases 15..20: the previous method was refused, or the client itself
   skipped it - prompt cancelled after the request had gone out, nothing to offer, password change not supported -
   and the next method's credential callback is still pending): a USERAUTH_SUCCESS ends the connection, strict or
   not, well-formed or damaged. *)
Theorem C06_between_methods : forall sv ph sk va t, 0 <= ph < Z.of_nat (nphases sv) -> 0 <= va < 4 -> 0 <= t < 256 ->
  between_phase sv ph = true -> t = 52 -> lookup gate_row sv ph sk va t = VF.
Proof. exact fact_between. Qed.
Print Assumptions C06_between_methods.

(* first_kex_packet_follows, on real endpoints (phases 13 G1 / 14 G2: the peer's KEXINIT announced a guessed
   packet).  Wrong guess: the packet of type 30..49 that follows is ignored - no reaction, session identical to an
   untampered one without any guess - for every such type, every body variant, strict KEX or not.  Right guess:
   every entry equals the entry of phase K1, so the message the exchange calls for is processed as usual. *)
Theorem C06_guess_table : forall sv ph sk va t, 0 <= ph < Z.of_nat (nphases sv) -> 0 <= va < 4 -> 0 <= t < 256 ->
  (ph = 13 -> 30 <= t <= 49 -> lookup gate_row sv ph sk va t = VI) /\
  (ph = 14 -> lookup gate_row sv ph sk va t = lookup gate_row sv 1 sk va t).
Proof. exact fact_guess. Qed.
Print Assumptions C06_guess_table.

(* A message only the other role may send (to a client: SERVICE_REQUEST, KEX init, USERAUTH_REQUEST,
   INFO_RESPONSE; to a server: SERVICE_ACCEPT, KEX reply, USERAUTH_FAILURE/SUCCESS/BANNER, type 60) is never
   handled, in any phase, strict or not, well-formed or damaged. *)
Theorem C06_role : forall sv ph sk va t, 0 <= ph < Z.of_nat (nphases sv) -> 0 <= va < 4 -> 0 <= t < 256 ->
  foreign_to sv t = true -> lookup gate_row sv ph sk va t <> VH.
Proof. exact fact_role. Qed.
Print Assumptions C06_role.

(* Strict KEX, initial exchange: whatever the exchange does not call for next - in particular IGNORE, DEBUG,
   UNIMPLEMENTED and any first packet other than KEXINIT - ends the connection: at once in K1 and K2, and in K0
   (where the endpoint cannot know yet that the peer is strict) at the latest when the KEXINIT arrives with a
   non-zero sequence number, nothing else having happened. *)
Theorem C06_strict : forall sv ph va t, 0 <= ph < Z.of_nat (nphases sv) -> 0 <= va < 4 -> 0 <= t < 256 ->
  ph <= 2 -> calls_for sv ph t = false ->
  (ph = 0 -> lookup gate_row sv ph true va t = VF \/ lookup gate_row sv ph true va t = VL) /\
  (1 <= ph -> lookup gate_row sv ph true va t = VF).
Proof. intros sv ph va t Hp Hv Ht. exact (fact_strict sv ph true va t Hp Hv Ht eq_refl). Qed.
Print Assumptions C06_strict.

(* After authentication completed: a server ignores or refuses a further USERAUTH_REQUEST, a client refuses a
   further USERAUTH_FAILURE or USERAUTH_SUCCESS. *)
Theorem C06_postauth : forall sv ph sk va t, 0 <= ph < Z.of_nat (nphases sv) -> 0 <= va < 4 -> 0 <= t < 256 ->
  postauth_phase sv ph = true ->
  (sv = true -> t = 50 -> lookup gate_row sv ph sk va t = VI \/ lookup gate_row sv ph sk va t = VF) /\
  (sv = false -> t = 51 \/ t = 52 -> lookup gate_row sv ph sk va t = VF).
Proof. exact fact_postauth. Qed.
Print Assumptions C06_postauth.

(* Message numbers with no meaning are answered UNIMPLEMENTED or end the connection; never handled, never
   silently swallowed.  (Phase 13 = G1 is left out: there the session only goes on if the probe is the kex-range
   packet that gets ignored, so an UNIMPLEMENTED answer is followed by a stalled exchange.) *)
Theorem C06_unassigned : forall sv ph sk va t, 0 <= ph < Z.of_nat (nphases sv) -> 0 <= va < 4 -> 0 <= t < 256 ->
  unassigned t = true -> ph <> 13 ->
  lookup gate_row sv ph sk va t = VU \/ lookup gate_row sv ph sk va t = VF \/ lookup gate_row sv ph sk va t = VL.
Proof. exact fact_unassigned. Qed.
Print Assumptions C06_unassigned.

(* A damaged body (empty, truncated, trailing byte) never makes a message more acceptable: it ends the
   connection or is treated exactly like the well-formed message. *)
Theorem C06_malformed : forall sv ph sk va t, 0 <= ph < Z.of_nat (nphases sv) -> 0 <= va < 4 -> 0 <= t < 256 -> va <> 0 ->
  lookup gate_row sv ph sk va t = VF \/ lookup gate_row sv ph sk va t = lookup gate_row sv ph sk 0 t.
Proof. exact fact_malformed. Qed.
Print Assumptions C06_malformed.

(* ---- the hand model of record (the repaired code): every state, every run --------------------------------- *)

(* In EVERY state in which packets are still received in clear (and, as in every reachable such state, no
   authentication object exists), a message of type 50..255 ends the connection. *)
Theorem C06_gate_prekex : forall c seq t cls,
  recv_enc c = false -> auth c = 0 -> 49 < t -> closed (dispatch c seq t cls) = true.
Proof. exact (gate_prekex_fatal true true). Qed.
Print Assumptions C06_gate_prekex.

(* In EVERY state in which authentication has not completed, a connection-layer message ends the connection. *)
Theorem C06_gate_preauth : forall c seq t cls,
  auth_complete c = false -> 79 < t -> closed (dispatch c seq t cls) = true.
Proof. exact (gate_preauth_fatal true true). Qed.
Print Assumptions C06_gate_preauth.

(* In EVERY state (with no wrongly guessed kex packet pending: that one is ignored unseen, see C06_guess) a message
   only the other role may send ends the connection. *)
Theorem C06_role_model : forall c seq t cls,
  ignore_first c = false ->
  (srv c = false /\ (t = 5 \/ t = 30 \/ t = 50)) \/
  (srv c = true /\ (t = 6 \/ t = 31 \/ t = 51 \/ t = 52 \/ t = 53)) ->
  closed (dispatch c seq t cls) = true.
Proof. exact (role_foreign_fatal true true). Qed.
Print Assumptions C06_role_model.

(* first_kex_packet_follows: in EVERY state in which a key exchange runs, the packet (type 30..49) that follows a
   wrongly guessed KEXINIT is ignored - not parsed, nothing sent, connection up, only the flag is lowered - exactly
   once and whatever strict KEX says; with no wrong guess pending (none was made, or the peer guessed right) the
   packet goes to the exchange handler.  A KEXINIT that is accepted arms the flag exactly for a wrong guess. *)
Theorem C06_guess :
  (forall c seq t cls, kex c = true -> 30 <= t <= 49 ->
     (ignore_first c = true -> dispatch c seq t cls = set_ignore_first false c) /\
     (ignore_first c = false -> dispatch c seq t cls = on_kexmsg c seq t cls)) /\
  (forall c seq cls, closed (on_kexinit_g true c seq cls) = false ->
     ignore_first (on_kexinit_g true c seq cls) = (2 <=? cls)).
Proof. split; [exact (guessed_packet_ignored_once true true) | exact (kexinit_arms_guess true)]. Qed.
Print Assumptions C06_guess.

(* In EVERY state in which the peer's NEWKEYS is still awaited (first exchange or a re-exchange) a KEXINIT ends
   the connection. *)
Theorem C06_early_kexinit : forall c seq cls,
  next_recv c = true -> closed (dispatch c seq 20 cls) = true.
Proof. exact (early_kexinit_fixed true). Qed.
Print Assumptions C06_early_kexinit.

(* Every run (any list of packets, settle points, the version line), both roles: if strict KEX was negotiated and
   the connection is still up, then what was accepted in clear is the KEXINIT first and after it only
   exchange-specific messages and NEWKEYS - no IGNORE, DEBUG, UNIMPLEMENTED, nothing unknown; and while
   receiving in clear the receive sequence number equals the number of packets accepted (no wrap, no skip). *)
Theorem C06_strict_initial : forall server gated_ (l : list event),
  let s := run (init_gated server gated_) l in
  closed (cn s) = false ->
  (strict (cn s) = true -> Forall allowed_clear (clear_acc s) /\ exists r, clear_acc s = 20 :: r) /\
  (recv_enc (cn s) = false -> recv_seq s = Z.of_nat (List.length (clear_acc s))).
Proof. exact (strict_initial_all_runs true true). Qed.
Print Assumptions C06_strict_initial.

(* Both sequence numbers restart at NEWKEYS under strict KEX.  Receive side, every run: whenever the last
   accepted packet is NEWKEYS the next packet is expected under number 0.  Send side: send_newkeys puts NEWKEYS
   on the wire first, and booking any packet list that contains a NEWKEYS leaves the counter at the number of
   packets sent after the last one. *)
Theorem C06_seq_reset :
  (forall server gated_ (l : list event),
     let s := run (init_gated server gated_) l in
     last_recv s = 21 -> strict (cn s) = true -> closed (cn s) = false -> recv_seq s = 0) /\
  (forall c, exists r, olog (send_newkeys c) = olog c ++ (21, 0) :: r) /\
  (forall l1 l2 s, strict (cn s) = true -> ~ In 21 l2 ->
     send_seq (note_all s (l1 ++ 21 :: l2)) = Z.of_nat (List.length l2) mod M32).
Proof. split; [exact (recv_seq_reset_all_runs true true) | split; [exact send_newkeys_olog | exact send_seq_reset]]. Qed.
Print Assumptions C06_seq_reset.

(* "A client accepts an authentication-success message only while a request of its own is outstanding":
   in every run, of either role, with application callbacks that answer at once or suspend (gated_; EvRelease
   events answer them, with a credential or with nothing), no USERAUTH_SUCCESS is ever accepted while no request
   has been issued for the current authentication object ([unsolicited] is the ghost flag raised by exactly
   that event). *)
Theorem C06_success_outstanding : forall server gated_ (l : list event),
  unsolicited (cn (run (init_gated server gated_) l)) = false.
Proof. intros server gated_ l. apply (success_outstanding_fixed_all_runs true). reflexivity. Qed.
Print Assumptions C06_success_outstanding.

(* Once a server has completed authentication for user u and no authentication task is pending, no sequence of
   packets whatsoever changes the authenticated user (the connection may end). *)
Theorem C06_identity_final : forall u s (l : list event),
  post_ok u (cn s) -> closed (cn (run s l)) = true \/ post_ok u (cn (run s l)).
Proof. intros u s l H. apply (run_post_inv true true u l s). right. exact H. Qed.
Print Assumptions C06_identity_final.

(* Method-specific authentication messages have no effect unless an attempt is in progress: in EVERY state without
   an authentication object a message of type 60..79 ends the connection; and an object is retired by every way an
   attempt can end - send_userauth_failure and send_userauth_success both clear it, and every server-side
   authentication task either ends that way or is the one that sends the keyboard-interactive challenge. *)
Theorem C06_method_msgs_need_attempt :
  (forall c seq t cls, auth c = 0 -> 60 <= t <= 79 -> closed (dispatch c seq t cls) = true) /\
  (forall c, auth (send_userauth_failure c) = 0) /\ (forall c, auth (send_userauth_success c) = 0) /\
  (forall c k, not_server_task k = false ->
     auth (run_task c k) = 0 \/ (exists u, k = TServerKbd u /\ auth (run_task c k) = auth c)).
Proof.
  split; [exact (method_msg_needs_attempt true true)|].
  split; [exact failure_retires|]. split; [exact success_retires | exact server_task_retires].
Qed.
Print Assumptions C06_method_msgs_need_attempt.

(* The request-outstanding bookkeeping across the skip transitions of auth.py (try_next_auth(next_method=True)):
   every path through try_next_auth lowers the flag - also when the skipped method HAD sent its request
   (keyboard-interactive prompt cancelled, password change not supported) or when a credential callback has nothing
   to offer - and with the flag down a USERAUTH_SUCCESS ends the connection in EVERY state. *)
Theorem C06_skip_transitions :
  (forall c nm, req_issued (try_next_auth c nm) = false /\ waiting (try_next_auth c nm) = false) /\
  (forall c, req_issued (run_task c (TClientKbdResp 1)) = false /\ req_issued (run_task c TChangePw) = false /\
             req_issued (release_conn c 0) = false) /\
  (forall c seq cls, req_issued c = false -> closed (dispatch c seq 52 cls) = true).
Proof.
  split; [exact try_next_auth_clears|]. split; [exact skip_transitions_clear | exact (success_needs_flag true)].
Qed.
Print Assumptions C06_skip_transitions.

(* ---- about the OLD definitions (the code before /repo 5ecc05e and 9276b6d), kept as witnesses ---------------- *)

(* run_old: success was accepted on the mere existence of an authentication object.  There is a run -
   SERVICE_ACCEPT and USERAUTH_SUCCESS in one chunk - after which the client is authenticated, the connection
   is up, and no request had been issued (finding C06-1). *)
Theorem C06_success_outstanding_old_refuted : exists l : list event,
  let s := run_old (init false) l in
  auth_complete (cn s) = true /\ closed (cn s) = false /\ unsolicited (cn s) = true.
Proof. exists unsolicited_witness. exact (success_unsolicited_cur false). Qed.
Print Assumptions C06_success_outstanding_old_refuted.

(* run_old: with strict KEX not negotiated, a KEXINIT arriving after our NEWKEYS went out and before the peer's
   came in was handled - a second exchange started, KEXINIT and ECDH_INIT were sent (finding C06-2). *)
Theorem C06_early_kexinit_old_refuted : exists (l : list event),
  let s := run_old (init false) l in
  next_recv (cn s) = true /\ recv_enc (cn s) = false /\ closed (cn s) = false /\
  let s' := step_booked_old s (EvRecv 20 0) in
  closed (cn s') = false /\ kex (cn s') = true /\ map fst (olog (cn s')) = [20; 30].
Proof.
  exists early_kexinit_witness. destruct (early_kexinit_cur false) as (A & B & _ & C & D). auto.
Qed.
Print Assumptions C06_early_kexinit_old_refuted.

(* the witness run of C06_success_outstanding_old_refuted ends the connection in the model of record *)
Example C06_ex_unsolicited_now_fatal : closed (cn (run (init false) unsolicited_witness)) = true.
Proof. exact (success_unsolicited_fixed_witness true). Qed.

(* a keyboard-interactive attempt answered wrongly, then a bare INFO_RESPONSE carrying the right answer: the
   connection ends, nobody is authenticated *)
Example C06_ex_stale_info_response :
  let s := run (init true) kbd_failed in
  closed (cn s) = false /\ auth (cn s) = 0 /\ auth_complete (cn s) = false /\
  let s' := run s [EvRecv 61 0; EvSettle] in
  closed (cn s') = true /\ auth_complete (cn s') = false /\ authed (cn s') = 0.
Proof. exact (kbd_failed_then_right_answer true true). Qed.

(* keyboard-interactive request sent, challenge arrives, the user cancels, the password callback is pending:
   a USERAUTH_SUCCESS in that window ends the connection *)
Example C06_ex_between_methods :
  let s := run (init_gated false true) between_methods in
  closed (cn s) = false /\ auth (cn s) = 2 /\ waiting (cn s) = true /\ req_issued (cn s) = false /\
  closed (cn (run s [EvRecv 52 0; EvSettle])) = true.
Proof. exact (between_methods_success true). Qed.

(* ---- non-vacuity ---------------------------------------------------------------------------------------------- *)
Example C06_ex_handled_kexinit : lookup gate_row false 0 true 0 20 = VH.
Proof. vm_compute. reflexivity. Qed.
Example C06_ex_handled_kexdh_init : lookup gate_row true 1 true 0 30 = VH.
Proof. vm_compute. reflexivity. Qed.
Example C06_ex_strict_ignore_fatal : lookup gate_row true 2 true 0 2 = VF.
Proof. vm_compute. reflexivity. Qed.
Example C06_ex_late_request_ignored : lookup gate_row true 5 true 0 50 = VI.
Proof. vm_compute. reflexivity. Qed.
Example C06_ex_post_ok : post_ok 1 (cn (run (init true) server_login)).
Proof. exact (server_login_post_ok true true). Qed.
Example C06_ex_strict_run :
  let s := run (init true) [EvVersion; EvRecv 20 1; EvSettle; EvRecv 30 0; EvSettle; EvRecv 21 0] in
  strict (cn s) = true /\ closed (cn s) = false /\ clear_acc s = [20; 30; 21] /\ recv_seq s = 0 /\ last_recv s = 21.
Proof. vm_compute. auto. Qed.
