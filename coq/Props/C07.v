(* C07 - Channel data arrives complete, in order, once, with EOF last.
   Statements only; proofs in Proofs/ChannelProofs.v.  The model (Model/Channel.v) is one
   direction of one channel: sender buffer/window/packet-size loop, two FIFO wires, receiver
   window check, pause buffer, replenishment, EOF/close ordering.  "honest" op lists are all
   interleavings of application writes / EOF / close on the sending side, pause / resume (with
   the session pausing again after any number of deliveries) on the receiving side, and delivery
   of the next packet on either wire. *)
From AV Require Import Base.Prelude Model.Channel Model.MultiChannel Proofs.ChannelProofs Proofs.ChannelEofProofs
  Proofs.MultiChannelProofs.

(* Safety, every reachable state: the byte sequence (with its data types) handed to the receiving
   session, followed by what is still buffered at the receiver, in flight, and buffered at the
   sender, is exactly the sequence the sending application wrote.  Hence what was delivered is a
   prefix of what was written: nothing lost in the middle, duplicated or reordered -
   for every window >= 1, packet size >= 1, write sizes, and schedule. *)
Theorem C07_conservation : forall strict window pktsize ops,
  1 <= window -> 1 <= pktsize -> Forall honest ops ->
  let y := run strict window pktsize ops in
  toks_data (written y) =
    toks_data (r_out (rcv_ y)) ++ buf_data (r_buf (rcv_ y)) ++ pkts_data (fwd y) ++ buf_data (s_buf (snd_ y)).
Proof. exact data_conservation. Qed.
Print Assumptions C07_conservation.

(* Completeness: whenever both wires have drained and the reader is not paused, everything written
   has been delivered (no byte can remain stuck at the sender). *)
Theorem C07_complete_when_drained : forall strict window pktsize ops,
  1 <= window -> 1 <= pktsize -> Forall honest ops ->
  let y := run strict window pktsize ops in
  fwd y = [] -> back y = [] -> r_paused (rcv_ y) = false ->
  toks_data (r_out (rcv_ y)) = toks_data (written y) /\ s_buf (snd_ y) = [].
Proof. exact quiescent_complete. Qed.
Print Assumptions C07_complete_when_drained.

(* EOF last: in every reachable state of every honest schedule, if end-of-file has been handed to the
   receiving session then everything the sender wrote has been delivered before it (nothing is left
   buffered, in flight or unsent), and the only thing that can follow EOF is the close notification. *)
Theorem C07_eof_last : forall strict window pktsize ops,
  1 <= window -> 1 <= pktsize -> Forall honest ops ->
  let y := run strict window pktsize ops in
  In TEof (r_out (rcv_ y)) ->
  toks_data (r_out (rcv_ y)) = toks_data (written y) /\ only_close (after_eof (r_out (rcv_ y))).
Proof. exact eof_last. Qed.
Print Assumptions C07_eof_last.

(* EOF reaches the receiving session only if the sending application signalled it (for every honest
   schedule).  Proved by a counting invariant: EOFs delivered + pending at the receiver + on the wire
   + pending at the sender never exceed the EOFs written. *)
Theorem C07_eof_only_if_signalled : forall strict window pktsize ops,
  1 <= window -> 1 <= pktsize -> Forall honest ops ->
  let y := run strict window pktsize ops in
  In TEof (r_out (rcv_ y)) -> In TEof (written y).
Proof. exact eof_only_if_signalled. Qed.
Print Assumptions C07_eof_only_if_signalled.

(* "EOF eventually if signalled" is covered by the correspondence check and the direct oracle, not by
   a theorem: when the sender closes while its EOF is still queued behind unsent data, or the peer's
   CLOSE overtakes a pending EOF at a paused receiver, asyncssh subsumes the EOF in the close
   notification (modelled faithfully; this is why the counting invariant is an inequality). *)

(* Any number of channels at once: the channels of a connection share its two FIFO wires and packets are
   dispatched by channel number (Model/MultiChannel.v).  For every interleaving of the channels'
   operations and every delivery order, each channel's private view is a reachable state of the
   single-channel system - so everything above holds per channel; in particular its data is conserved. *)
Theorem C07_multi_channel : forall strict window pktsize ms,
  (forall i, 1 <= window i) -> (forall i, 1 <= pktsize i) -> Forall mhonest ms ->
  forall j, let c := mrun strict window pktsize ms in
  toks_data (c_written c j) =
    toks_data (r_out (c_rcv c j)) ++ buf_data (r_buf (c_rcv c j)) ++ pkts_data (sel j (c_fwd c))
    ++ buf_data (s_buf (c_snd c j)).
Proof. exact multi_channel_conservation. Qed.
Print Assumptions C07_multi_channel.

(* Text mode: for any incremental decoder obeying dec s (a ++ b) = dec (state after a) b with outputs
   concatenated (the law Python's incremental codecs provide; trusted), two packetisations of the same
   byte stream - e.g. a multi-byte character split across packets - decode to the same characters. *)
Theorem C07_text : forall (C S : Type) (dec : S -> bytes -> S * list C),
  (forall s a b, dec s (a ++ b) = let '(s1, o1) := dec s a in let '(s2, o2) := dec s1 b in (s2, o1 ++ o2)) ->
  (forall s, dec s [] = (s, [])) ->
  forall s chunks1 chunks2, concat chunks1 = concat chunks2 ->
  dec_chunks C S dec s chunks1 = dec_chunks C S dec s chunks2.
Proof. exact text_segmentation_independent. Qed.
Print Assumptions C07_text.

Example C07_example :
  let y := run true 4 3 [OWrite 0 [1;2;3;4;5;6;7]; OPause; ODeliverFwd; ODeliverFwd; OEof; OResume None;
                         ODeliverBack; ODeliverFwd; ODeliverFwd; ODeliverFwd] in
  r_out (rcv_ y) = [TB 0 1; TB 0 2; TB 0 3; TB 0 4; TB 0 5; TB 0 6; TB 0 7; TEof].
Proof. vm_compute. reflexivity. Qed.
