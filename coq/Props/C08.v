(* C08 - Flow control is honoured both ways and never deadlocks.  Proofs in Proofs/ChannelProofs.v. *)
From AV Require Import Base.Prelude Model.Channel Proofs.ChannelProofs Proofs.ChannelLiveProofs.

(* The send loop: every emitted data packet has between 1 and min(window, max packet size) bytes
   and the packets of one flush together never exceed the window. *)
Theorem C08_packets_bounded : forall fuel buf win pktsize out buf' win' out',
  flush_loop fuel buf win pktsize out = Some (buf', win', out') ->
  1 <= pktsize -> 0 <= win -> nonempty_entries buf ->
  exists new, out' = out ++ new /\ pkts_len new <= win /\
    Forall (fun p => good_data p /\ pkt_len p <= pktsize) new.
Proof. exact emitted_packets_bounded. Qed.
Print Assumptions C08_packets_bounded.

(* Credit conservation in every reachable state of every honest schedule: the sender's window
   plus the data bytes in flight plus the adjustments in flight never exceeds the receiver's window
   minus what it has buffered (with equality until the receiver has seen CLOSE, after which it no
   longer sends adjustments); the sender's window is never negative. *)
Theorem C08_sender_within_window : forall strict window pktsize ops,
  1 <= window -> 1 <= pktsize -> Forall honest ops ->
  let y := run strict window pktsize ops in
  0 <= s_win (snd_ y) /\
  s_win (snd_ y) + pkts_len (fwd y) + pkts_adj (back y) <= r_win (rcv_ y) - buf_len (r_buf (rcv_ y)) /\
  (stage_r (r_state (rcv_ y)) <> 2%nat ->
   s_win (snd_ y) + pkts_len (fwd y) + pkts_adj (back y) = r_win (rcv_ y) - buf_len (r_buf (rcv_ y))).
Proof. exact sender_within_window. Qed.
Print Assumptions C08_sender_within_window.

(* Honest peers never trip the receiver's check and the send loop always terminates. *)
Theorem C08_honest_no_error : forall strict window pktsize ops,
  1 <= window -> 1 <= pktsize -> Forall honest ops ->
  let y := run strict window pktsize ops in r_err (rcv_ y) = false /\ stuck y = false.
Proof. exact honest_no_error. Qed.
Print Assumptions C08_honest_no_error.

(* Against ANY peer - including one that ignores the window (ORaw) - and any pause pattern, the
   receiver never holds more unconsumed data than the window it advertised. *)
Theorem C08_receiver_bounded : forall window pktsize ops,
  1 <= window ->
  let y := run true window pktsize ops in
  buf_len (r_buf (rcv_ y)) <= window /\ r_win (rcv_ y) <= window.
Proof. exact receiver_bounded. Qed.
Print Assumptions C08_receiver_bounded.

(* The unrepaired check (window decremented only on delivery) is refuted: a paused receiver
   accepts data without bound (finding C08-1). *)
Theorem C08_receiver_old_refuted :
  exists ops, let y := run false 1 1 ops in buf_len (r_buf (rcv_ y)) > 1 /\ r_err (rcv_ y) = false.
Proof. exact receiver_unbounded_old. Qed.
Print Assumptions C08_receiver_old_refuted.

(* No deadlock: with wires drained and the reader reading, nothing is left at the sender. *)
Theorem C08_no_deadlock : forall strict window pktsize ops,
  1 <= window -> 1 <= pktsize -> Forall honest ops ->
  let y := run strict window pktsize ops in
  fwd y = [] -> back y = [] -> r_paused (rcv_ y) = false ->
  toks_data (r_out (rcv_ y)) = toks_data (written y) /\ s_buf (snd_ y) = [].
Proof. exact quiescent_complete. Qed.
Print Assumptions C08_no_deadlock.

(* Eventually delivered: after ANY honest history (writes of any size, pauses, partial deliveries ...),
   once the reader resumes reading, at most [measure] further deliveries - in the order "forward wire
   first" - empty both wires, and then the receiving session has been handed exactly what the sending
   application wrote.  [measure] = 2 * bytes still unsent + 2 per data packet and 1 per control packet
   in flight + 1 per window adjust in flight + 2 for a pending EOF/close; every single delivery lowers
   it by at least one (deliver_fwd_measure / deliver_back_measure), so any delivery order works. *)
Theorem C08_eventually_delivered : forall strict window pktsize ops,
  1 <= window -> 1 <= pktsize -> Forall honest ops ->
  let y0 := run strict window pktsize ops in
  let y1 := step strict y0 (OResume None) in
  let y2 := pump strict (Z.to_nat (measure y1)) y1 in
  fwd y2 = [] /\ back y2 = [] /\ toks_data (r_out (rcv_ y2)) = toks_data (written y0) /\ s_buf (snd_ y2) = [].
Proof. exact eventually_delivered. Qed.
Print Assumptions C08_eventually_delivered.

(* every delivery on a non-empty wire makes progress, whichever wire is chosen *)
Theorem C08_every_delivery_progresses : forall strict y,
  Inv y -> reading y ->
  (fwd y <> [] -> measure (step strict y ODeliverFwd) + 1 <= measure y) /\
  (back y <> [] -> measure (step strict y ODeliverBack) + 1 <= measure y).
Proof.
  intros strict y I Hr. split; intros H.
  - apply (deliver_fwd_measure strict y I Hr H).
  - apply (deliver_back_measure strict y I Hr H).
Qed.
Print Assumptions C08_every_delivery_progresses.

(* A peer-supplied maximum packet size of 0 makes the send loop spin for ever (finding C10-1), for
   every amount of fuel; the repaired open-time validation only lets sizes >= 1 through. *)
Theorem C08_zero_pktsize_refuted : forall strict window dt d,
  1 <= window -> d <> [] -> stuck (run strict window 0 [OWrite dt d]) = true.
Proof. exact zero_pktsize_spins. Qed.
Print Assumptions C08_zero_pktsize_refuted.

Theorem C08_open_validation : forall pktsize dropbear_compress p,
  open_pktsize_ok pktsize dropbear_compress = Some p -> 1 <= p.
Proof. exact open_pktsize_ok_sound. Qed.
Print Assumptions C08_open_validation.
