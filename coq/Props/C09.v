(* placeholder while the harness is being brought up; replaced by the real statements *)
From AV Require Import Base.Prelude Model.Close.
Theorem C09_placeholder : run [] init = init.
Proof. reflexivity. Qed.
Print Assumptions C09_placeholder.
