(* C09 - Everything terminates: no hung waiter, one orderly close.
   Statements only; proofs in Proofs/CloseProofs.v (channel handlers), Proofs/CloseConnProofs.v
   (connection level) and Proofs/ClosePairProofs.v (the two-sided close handshake).
   Model/Close.v is ONE endpoint (client or server role) of a connection with any number of session
   channels; `run ops init` executes an arbitrary list of ops from a fresh connection.  An op is an
   application call (open / eof / close / abort / write / pause / resume / read / drain /
   wait_closed / global request / connection close, abort, wait_closed), a packet from the peer
   (OPEN, OPEN_CONFIRMATION, OPEN_FAILURE, DATA, EOF, CLOSE, WINDOW_ADJUST, CHANNEL_SUCCESS/FAILURE,
   REQUEST_SUCCESS/FAILURE, DISCONNECT, a request, a malformed packet, IGNORE), the transport reporting
   the loss of the connection (Cut), the event loop running the next ready callback (RunReady) or all of
   them (Settle).  All theorems quantify over EVERY op list, i.e. every interleaving of both sides'
   actions, every point at which the connection is cut or a DISCONNECT arrives, every relative timing
   of replies, and every schedule of the ready queue. *)
From AV Require Import Base.Prelude Model.Close Proofs.CloseProofs Proofs.CloseConnProofs.
From AV Require Import Model.ClosePair Proofs.ClosePairProofs Proofs.ClosePairThm.
Local Open Scope nat_scope.

(* Whenever the connection ends - the transport is cut, a DISCONNECT or an invalid packet arrives, the
   application closes or aborts the connection - and the ready callbacks have then run, NOTHING is left
   waiting: the ready queue is empty, the connection is closed (conn.wait_closed() callers released,
   connect() released, global-request waiters released), and on every channel create_session() has
   returned or raised (the coroutine is neither blocked on its open / request waiter nor waiting to be
   woken), no reader is blocked in read(), no writer in drain(), nobody in wait_closed(). *)
Theorem C09_resolved : forall ops o, ends o = true -> all_resolved (run (ops ++ [o; Settle]) init).
Proof. exact resolved. Qed.
Print Assumptions C09_resolved.

(* The same from any state in which the transport has already been given up (covers a loss that is
   followed by further application calls and late packets before the loop gets to run). *)
Theorem C09_resolved_after_loss : forall ops,
  transport (run ops init) = false -> all_resolved (step (run ops init) Settle).
Proof. exact resolved_after_loss. Qed.
Print Assumptions C09_resolved_after_loss.

(* No callback chain runs for ever: from every reachable state, letting the loop run (Settle) empties
   the ready queue within pot(s) callback runs - pot is an explicit potential that every run decreases. *)
Theorem C09_ready_queue_empties : forall ops, ready (step (run ops init) Settle) = [].
Proof. intros ops. apply settle_empty. Qed.
Print Assumptions C09_ready_queue_empties.
Theorem C09_each_callback_decreases_potential : forall s, ready s <> [] -> pot (run_ready s) < pot s.
Proof. exact pot_run_ready. Qed.
Print Assumptions C09_each_callback_decreases_potential.

(* Callback order.  In every reachable state every session's callback log is legal (automaton lstep:
   connection_made first, then session_started / data_received, at most one eof_received after which no
   data, nothing after connection_lost, at most one connection_lost; or a session object that was never
   attached and is released with connection_lost(None) alone).  Once the connection is closed every
   session that was told anything has had connection_lost as its LAST callback, exactly once. *)
Theorem C09_once_last : forall ops,
  Forall (fun ch => legal_log (clog ch)) (chans (run ops init)) /\
  (closed (run ops init) = true -> Forall (fun ch => finished_log (clog ch)) (chans (run ops init))).
Proof. intros ops. split; [apply logs_legal | apply logs_finished]. Qed.
Print Assumptions C09_once_last.

(* what the automaton states mean in terms of the log itself *)
Theorem C09_log_shape : forall l,
  (lstate l = L0 -> l = []) /\
  ((lstate l = LMade \/ lstate l = LEofd) -> count_lost l = 0 /\ hd_error l = Some CbMade) /\
  (lstate l = LLost -> count_lost l = 1 /\ exists pre e, l = pre ++ [CbLost e] /\ count_lost pre = 0 /\
                         (pre = [] \/ hd_error pre = Some CbMade)).
Proof. exact lstate_facts. Qed.
Print Assumptions C09_log_shape.

(* The connection owner: connection_made, optionally auth_completed, then connection_lost; the owner
   has been told connection_lost exactly when the connection is closed, never twice, nothing after. *)
Theorem C09_owner_once_last : forall ops,
  let s := run ops init in
  ostate (olog s) <> OBad /\ (closed s = true <-> ostate (olog s) = OL).
Proof. exact owner_log. Qed.
Print Assumptions C09_owner_once_last.

(* No channel stays registered on a closed connection (and none can be registered later: the theorem
   holds after every further op). *)
Theorem C09_unregistered : forall ops,
  closed (run ops init) = true -> Forall (fun ch => reg ch = false) (chans (run ops init)).
Proof. exact unregistered. Qed.
Print Assumptions C09_unregistered.

(* The code before /repo cd5d87d (SSHChannel._open did not re-check the connection after the open waiter
   was resolved) violates C09_once_last: the application aborts the connection, the one packet that
   data_received() still processes is the OPEN_CONFIRMATION, the connection cleanup runs before create()
   resumes - the session is told connection_made and never connection_lost. *)
Theorem C09_once_last_old_refuted : exists ops,
  closed (run_old ops init) = true /\ ready (run_old ops init) = [] /\
  exists ch, In ch (chans (run_old ops init)) /\ lstate (clog ch) = LMade.
Proof.
  exists [PAuthOk; LOpen false true; Settle; PIgnore; LConnAbort; PConfirm 0; Settle].
  vm_compute. repeat split; auto. eexists. split; [left; reflexivity | reflexivity].
Qed.
Print Assumptions C09_once_last_old_refuted.

(* The close handshake.  Model/ClosePair.v: BOTH endpoints of one channel (same code) with byte-counted
   windows and the two FIFO wires, any receive windows >= 1; ops = write n / eof / close / abort / pause /
   resume on either side, delivery of the oldest packet in either direction, running a queued _cleanup on
   either side.  For EVERY op list: in any state where nothing is in flight and no callback is queued
   (quiescent), if both applications have called close() or abort() - in any order, at any time, with any
   amount of unsent or unread data on either side - then both endpoints are closed / closed, unregistered,
   and each was cleaned up exactly once (one connection_lost, one unregistration).  In particular the two
   sides can never be stuck waiting for each other.  (perr = no protocol error was raised; an error ends the
   connection, which is C09_resolved.) *)
Theorem C09_handshake : forall wa wb ka kb ops, 1 <= wa -> 1 <= wb ->
  let p := prun true ops (pair0 wa wb ka kb) in
  perr p = false -> quiescent p = true -> e_closing (pa p) = true -> e_closing (pb p) = true ->
  fully_closed (pa p) = true /\ fully_closed (pb p) = true.
Proof. exact handshake. Qed.
Print Assumptions C09_handshake.

(* ... and that state IS reached: from any reachable state in which both applications have closed, delivering
   what is in flight and running queued callbacks - rounds of [deliver A->B; deliver B->A; run A; run B], at most
   pm(p) of them, pm an explicit measure that every delivery and every callback run decreases - ends with both
   endpoints fully closed (or a protocol error has ended the connection).  Every other fair delivery order
   decreases the same measure (C09_delivery_decreases_measure). *)
Theorem C09_handshake_reached : forall wa wb ka kb ops, 1 <= wa -> 1 <= wb ->
  let p := prun true ops (pair0 wa wb ka kb) in
  perr p = false -> e_closing (pa p) = true -> e_closing (pb p) = true ->
  let p' := prun true (rounds (pm p)) p in
  perr p' = true \/ (quiescent p' = true /\ fully_closed (pa p') = true /\ fully_closed (pb p') = true).
Proof. exact handshake_reached. Qed.
Print Assumptions C09_handshake_reached.

Theorem C09_delivery_decreases_measure : forall p o,
  pinv p -> perr p = false -> is_drain_op o = true ->
  let p' := pstep true p o in
  perr p' = false -> pm p' <= pm p /\
  (match o with
   | ODeliver SA => wab p <> []
   | ODeliver SB => wba p <> []
   | ORun SA => 0 < e_pend (pa p)
   | ORun SB => 0 < e_pend (pb p)
   | _ => False
   end -> pm p' < pm p).
Proof. exact drain_op_meas. Qed.
Print Assumptions C09_delivery_decreases_measure.

(* The code before /repo 03faaad (no window credit for receive data that close() discards or drops)
   violates it: both readers paused, both sides write more than the peer's window, both call close():
   everything has been delivered, nothing is queued, and both stay send_state close_pending / recv_state
   open for ever. *)
Theorem C09_handshake_old_refuted : exists ops,
  let p := prun false ops (pair0 8 8 true true) in
  perr p = false /\ quiescent p = true /\ e_closing (pa p) = true /\ e_closing (pb p) = true /\
  e_ss (pa p) = SClosePending /\ e_ss (pb p) = SClosePending /\ fully_closed (pa p) = false.
Proof.
  exists [OPause SA; OPause SB; OWrite SA 20; OWrite SB 20; ODeliver SA; ODeliver SB; OClose SA; OClose SB].
  vm_compute. repeat split; reflexivity.
Qed.
Print Assumptions C09_handshake_old_refuted.

Example C09_example_handshake :
  let p := prun true [OPause SA; OPause SB; OWrite SA 20; OWrite SB 20; ODeliver SA; ODeliver SB; OClose SA; OClose SB;
                      ODeliver SA; ODeliver SB; ODeliver SA; ODeliver SB; ODeliver SA; ODeliver SB; ODeliver SA;
                      ODeliver SB; ODeliver SA; ODeliver SB; ODeliver SA; ODeliver SB; ORun SA; ORun SB]
                     (pair0 8 8 true true) in
  perr p = false /\ quiescent p = true /\ fully_closed (pa p) = true /\ fully_closed (pb p) = true.
Proof. vm_compute. repeat split; reflexivity. Qed.

(* non-vacuity: an orderly session; a cut with an open waiter, a reader and a wait_closed() pending *)
Example C09_example_orderly :
  let s := run [PAuthOk; LOpen false true; Settle; PConfirm 0; Settle; PReply 0 true; Settle; LWaitClosed 0;
                LClose 0; PClose 0; Settle] init in
  map clog (chans s) = [[CbMade; CbStarted; CbLost false]] /\ map reg (chans s) = [false] /\
  done s = [(WConnect, 0, WOk); (WCreate, 0, WOk); (WClosed, 0, WOk)].
Proof. vm_compute. auto. Qed.
Example C09_example_cut :
  let s := run [PAuthOk; LOpen false true; LOpen true true; Settle; PConfirm 0; Settle; PReply 0 true; Settle;
                LRead 0; LWaitClosed 0; LGlobal; LConnWaitClosed; Cut; Settle] init in
  all_resolved s /\ map clog (chans s) = [[CbMade; CbStarted; CbLost true]; []] /\
  olog s = [OMade; OAuth; OLost true].
Proof.
  vm_compute. split; [|auto]. repeat (split; [reflexivity|]).
  apply Forall_cons; [split; [right; eexists; reflexivity | auto]|].
  apply Forall_cons; [split; [right; eexists; reflexivity | auto]|]. apply Forall_nil.
Qed.
