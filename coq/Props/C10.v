(* C10 - Hostile input costs bounded work and fails cleanly.
   Theorems about the executable models of Model/Hostile.v (and, read-only, the C02 receive loop and the C08
   send loop).  "Cost" is the number of loop iterations the model returns next to its result; a loop that
   would not end within its fuel returns an explicit out-of-fuel value, which the theorems exclude.
   The models are tied to /repo by Corr/C10Corr.v on every run. *)
From AV Require Import Base.Prelude Model.Hostile Proofs.HostileProofs.
From AV Require Model.Packet Model.Channel Proofs.ChannelProofs.

(* ---- packet field getters (packet.py) ---- *)

(* get_bytes(size): either exactly [size] bytes starting at the index are returned and the index advances by
   exactly [size] without passing the end, or PacketDecodeError with the packet untouched and fewer than
   [size] bytes left. *)
Theorem C10_get_bytes_safe : forall size p, wf p -> 0 <= size ->
  match get_bytes size p with
  | Ok v p' => pdata p' = pdata p /\ pidx p' = pidx p + size /\ pidx p' <= blen (pdata p) /\
               v = slice (pdata p) (pidx p) size /\ blen v = size
  | Err p' => p' = p /\ remaining p < size
  end.
Proof. exact get_bytes_spec. Qed.
Print Assumptions C10_get_bytes_safe.

(* every getter: value or PacketDecodeError; the packet bytes are never changed, the index only moves
   forward, by at least the size of the fixed part on success, and never beyond the end of the packet -
   in BOTH outcomes (an error leaves a valid index behind). *)
Theorem C10_getters_safe : forall p, wf p -> bytes_ok (pdata p) ->
  post p 1 (get_byte p) /\ post p 1 (get_boolean p) /\ post p 2 (get_uint16 p) /\ post p 4 (get_uint32 p) /\
  post p 8 (get_uint64 p) /\ post p 4 (get_string p) /\ post p 4 (get_mpint p) /\ post p 4 (get_namelist p).
Proof. exact getters_safe. Qed.
Print Assumptions C10_getters_safe.

(* get_string consumes exactly 4 + len(value); when it fails the index has moved by 0 (no length field) or by
   exactly 4 (length read, body short) - so a caller that swallows the error makes progress only in the
   second case. *)
Theorem C10_get_string_exact : forall p, wf p -> bytes_ok (pdata p) ->
  match get_string p with
  | Ok v p' => pdata p' = pdata p /\ pidx p' = pidx p + 4 + blen v /\ pidx p' <= blen (pdata p) /\
               v = slice (pdata p) (pidx p + 4) (blen v)
  | Err p' => pdata p' = pdata p /\
              ((pidx p' = pidx p /\ remaining p < 4) \/
               (pidx p' = pidx p + 4 /\ 4 <= remaining p /\
                remaining p - 4 < be_val (slice (pdata p) (pidx p) 4)))
  end.
Proof. exact get_string_spec. Qed.
Print Assumptions C10_get_string_exact.

(* an n-byte unsigned field decodes to a value in [0, 256^n) *)
Theorem C10_get_uint_range : forall n p v p', wf p -> 0 <= n -> bytes_ok (pdata p) ->
  get_uint n p = Ok v p' -> 0 <= v < 256 ^ n.
Proof. exact get_uint_range. Qed.
Print Assumptions C10_get_uint_range.

(* check_end: succeeds exactly when nothing is left, never moves the index *)
Theorem C10_check_end : forall p, wf p ->
  match check_end p with Ok _ p' => p' = p /\ remaining p = 0 | Err p' => p' = p /\ 1 <= remaining p end.
Proof. exact check_end_spec. Qed.
Print Assumptions C10_check_end.

(* ---- loops over a packet ---- *)

(* `while packet: packet.get_string()` ends (normally or with PacketDecodeError) after at most
   remaining/4 + 1 iterations. *)
Theorem C10_strings_loop_linear : forall fuel p acc it, wf p -> bytes_ok (pdata p) ->
  remaining p < 4 * Z.of_nat fuel ->
  exists r it', strings_loop fuel p acc it = Some (r, it') /\ it <= it' <= it + remaining p / 4 + 1.
Proof. exact strings_loop_bound. Qed.
Print Assumptions C10_strings_loop_linear.

(* `n = get_uint32(); for _ in range(n): get_string(); get_string()`: the number of iterations executed is at
   most remaining/8 + 1 whatever count (up to 2^32-1) the peer wrote. *)
Theorem C10_counted_loop_linear : forall p, wf p -> bytes_ok (pdata p) ->
  exists r it, counted_pairs p = Some (r, it) /\ 0 <= it <= remaining p / 8 + 1.
Proof. exact counted_pairs_bound. Qed.
Print Assumptions C10_counted_loop_linear.

(* ---- SOCKS (socks.py) ---- *)

(* socks_progress: with asserts active, every iteration of data_received's while loop that stays in the loop
   lowers 2*|buffer| + [transport open] + [handler = host] : it consumes a byte or moves to a state that
   will.  (Also true without asserts as long as the transport is open.) *)
Theorem C10_socks_progress : forall a r s s',
  sinv s -> (a = true \/ sopen s = true) -> sh s <> HNone ->
  s_iter a r s = ICont s' -> sinv s' /\ s_mu s' < s_mu s.
Proof. exact iter_progress. Qed.
Print Assumptions C10_socks_progress.

(* hence handling one chunk takes at most 2*(buffered + chunk) + 3 iterations and never runs out of fuel *)
Theorem C10_socks_linear : forall r s chunk, sinv s -> bytes_ok chunk ->
  match s_feed true r s chunk with
  | LDone _ it | LRaised it => 0 <= it <= 2 * (blen (sbuf s) + blen chunk) + 3
  | LFuel => False
  end.
Proof. exact s_feed_linear. Qed.
Print Assumptions C10_socks_linear.

(* the forwarder as it is (close() clears _recv_handler, fix 7ae04cf): for every sequence of chunks, with or
   without asserts, no exception leaves data_received, the loop always ends, and the total number of
   iterations is at most 2*bytes + chunks + 3. *)
Theorem C10_socks_clean : forall a chunks, Forall bytes_ok chunks ->
  match s_run a true socks_init chunks 0 with
  | LDone s' tot => 0 <= tot <= 2 * blen (concat chunks) + Z.of_nat (length chunks) + 3
  | LRaised _ | LFuel => False
  end.
Proof.
  intros a chunks H.
  pose proof (s_run_repaired a chunks socks_init 0 sinv_init rinv_init H) as R.
  destruct (s_run a true socks_init chunks 0) as [s' tot| |]; try contradiction.
  destruct R as (_ & _ & R). pose proof (s_mu_nonneg s'). change (s_mu socks_init) with 1 in R. lia.
Qed.
Print Assumptions C10_socks_clean.

(* regression witness: with the handler left in place by close() (the code before 7ae04cf) the SOCKS5 greeting
   05 00 (no authentication methods) closes the forwarder, the loop carries on and the next handler call
   fails its assert: AssertionError reaches the transport / event loop. *)
Theorem C10_socks_regress_escape :
  exists chunks n, Forall bytes_ok chunks /\ s_run true false socks_init chunks 0 = LRaised n.
Proof.
  exists [[5; 0]], 3. split; [repeat constructor; unfold byte; lia|exact socks_escape].
Qed.
Print Assumptions C10_socks_regress_escape.

(* regression witness, asserts compiled out (python -O): the same two bytes lead to a state that the loop body
   maps to itself; the loop never ends, whatever the fuel. *)
Theorem C10_socks_regress_spin :
  exists s, s_iter false false (s_buf socks_init [5; 0]) = ICont (s_set (s_buf socks_init []) H5Auth 0) /\
            s_iter false false (s_set (s_buf socks_init []) H5Auth 0) = ICont s /\
            s_iter false false s = ICont s /\
            forall fuel it, s_loop false false fuel s it = LFuel.
Proof.
  exists spin_state. destruct socks_spin_reached as [A B].
  split; [exact A|split; [exact B|split; [exact socks_spin_iter|intros; apply socks_spin]]].
Qed.
Print Assumptions C10_socks_regress_spin.

(* ---- X11 setup block (x11.py SSHX11ClientForwarder) ---- *)

(* x11_progress: every handler call moves on to the next handler (prefix -> protocol name -> cookie -> none),
   whatever the 16-bit lengths in the setup block are (0 included), right or wrong cookie. *)
Theorem C10_x11_progress : forall remote local s s', xh s <> XNone -> x_iter remote local s = Some s' ->
  xrank (xh s') = xrank (xh s) - 1.
Proof. exact x_iter_progress. Qed.
Print Assumptions C10_x11_progress.

(* hence data_received never runs out of fuel, takes at most 4 passes of its loop for a chunk, and over a whole
   connection at most 3 handler calls plus one pass per chunk. *)
Theorem C10_x11_linear : forall remote local s chunk,
  exists s' it, x_feed remote local s chunk = Some (s', it) /\
                xrank (xh s') <= xrank (xh s) /\ 0 <= it <= (xrank (xh s) - xrank (xh s')) + 1.
Proof.
  intros remote local s chunk. destruct (x_feed_total remote local s chunk) as (s' & it & H & _).
  exists s', it. split; [exact H|]. eapply x_feed_rank; eauto.
Qed.
Print Assumptions C10_x11_linear.

(* ---- identification string / banner (connection.py _recv_version) ---- *)

(* banner_bounded: for any limits L = max line length > 0, N = max banner lines >= 0, either role and ANY
   sequence of chunks, the reader terminates (never out of fuel) and afterwards:
   at most N banner lines have been tolerated if the connection is still open (N+1 were counted when it was
   closed for too many); at most (lines+1)*L bytes were consumed; an open connection that has not seen a
   version holds fewer than L unterminated bytes; and the total number of handler calls is at most
   bytes + chunks (amortised linear cost). *)
Theorem C10_banner_bounded : forall lim client chunks,
  0 < max_line lim -> 0 <= max_lines lim ->
  exists s it, b_run lim client b_init chunks 0 = Some (s, it) /\
    0 <= blines s <= max_lines lim + 1 /\
    (bclosed s = BOpen -> blines s <= max_lines lim) /\
    0 <= bconsumed s <= (blines s + 1) * max_line lim /\
    (bclosed s = BOpen -> bver s = None -> blen (bbuf s) < max_line lim) /\
    0 <= it <= blen (concat chunks) + Z.of_nat (length chunks).
Proof.
  intros lim client chunks HL HN.
  assert (G : bgood lim b_init).
  { split; [apply binv_init; assumption|]. intros _ _. exact HL. }
  destruct (b_run_facts lim client HL HN chunks b_init 0 G) as (s & it & Hr & [(I1 & I2 & I3 & _) Hb] & Hit).
  exists s, it. change (blen (bbuf b_init)) with 0 in Hit.
  repeat split; try assumption; try lia.
Qed.
Print Assumptions C10_banner_bounded.

(* ---- SFTP framing (sftp.py recv_packet / recv_packets) ---- *)

(* sftp_framing_progress: on any byte stream the framing loop ends (waiting for more, or SFTPBadMessage);
   each iteration consumed at least 4 bytes and each accepted packet at least 9. *)
Theorem C10_sftp_framing_progress : forall buf, bytes_ok buf ->
  exists acc rest st it, sftp_feed buf = Some (acc, rest, st, it) /\
    0 <= it /\ 4 * it <= blen buf /\ 9 * Z.of_nat (length acc) <= blen buf.
Proof. exact sftp_feed_linear. Qed.
Print Assumptions C10_sftp_framing_progress.

(* fact about the code as it is (candidate, memory only): the receiver has no maximum packet length - any
   claimed length below 2^32 is simply waited for. *)
Theorem C10_sftp_no_length_cap : forall n body, 0 <= n < 4294967296 -> blen body < n ->
  sftp_feed (u32b n ++ body) = Some ([], u32b n ++ body, FWait, 0).
Proof. exact sftp_no_length_cap. Qed.
Print Assumptions C10_sftp_no_length_cap.

(* ---- copy-data (sftp.py _process_copy_data) ---- *)

(* whatever 64-bit offsets and length the peer asks for, and whether or not both handles name the same file, the
   request ends after at most available/block + 1 reads and writes no more than the source holds behind the
   offset (the same file: refused at once, nothing read or written). *)
Theorem C10_copy_terminates : forall fuel same sz roff len woff,
  0 <= len -> Z.max 0 (sz - roff) / COPY_BLOCK + 1 < Z.of_nat fuel ->
  exists it w, copy_data fuel same sz roff len woff = CDone it w /\
               0 <= it <= Z.max 0 (sz - roff) / COPY_BLOCK + 1 /\ 0 <= w <= Z.max 0 (sz - roff).
Proof.
  intros fuel same sz roff len woff Hl Hf. unfold copy_data. destruct same.
  - exists 0, 0. split; [reflexivity|]. unfold COPY_BLOCK. lia.
  - destruct (copy_loop_distinct fuel sz roff len woff (len =? 0) 0 0 (fun _ => Hl) Hf) as (it & w & H & Hi & Hw).
    exists it, w. split; [exact H|lia].
Qed.
Print Assumptions C10_copy_terminates.

(* regression witness for the code before 79ceadf (no same-file check): source and destination the same
   file of at least one block, read-to-end (length 0), write offset one block or more ahead: every iteration
   reads a full block that the previous iteration wrote; out of fuel for EVERY fuel, one more block written
   each time (until the disk is full), and the loop contains no await when the SFTPServer methods are the
   synchronous defaults. *)
Theorem C10_copy_same_file_regress : forall fuel sz woff,
  COPY_BLOCK <= sz -> COPY_BLOCK <= woff ->
  copy_data_old fuel true sz 0 0 woff = CFuel (COPY_BLOCK * Z.of_nat fuel).
Proof.
  intros fuel sz woff H1 H2. unfold copy_data_old. change (0 =? 0) with true.
  rewrite copy_loop_same_spins by lia. f_equal.
Qed.
Print Assumptions C10_copy_same_file_regress.

(* ---- the clear-text receive loop (model owned by C02) ---- *)

(* feed_linear: the number of handler calls that keep `while self._inpbuf and self._recv_handler()` going is
   at most (2*|buffer| + 8)/8, for every buffer content - including packet_length values below 4 (negative
   slice) and up to 2^32-1 (which only wait). *)
Theorem C10_feed_linear : forall fuel s,
  0 <= recv_count fuel s /\ 8 * recv_count fuel s <= rmu s.
Proof. exact recv_count_linear. Qed.
Print Assumptions C10_feed_linear.

(* ---- the channel send loop (model owned by C08) ---- *)

(* flush_progress: with a peer packet size of at least 1 the loop of _flush_send_buf ends within one
   iteration per buffered byte (+ one per buffered write). *)
Theorem C10_flush_progress : forall fuel buf win pktsize out,
  1 <= pktsize -> 0 <= win -> ChannelProofs.nonempty_entries buf ->
  (Z.to_nat (Channel.buf_len buf) + length buf < fuel)%nat ->
  Channel.flush_loop fuel buf win pktsize out <> None.
Proof. exact flush_progress. Qed.
Print Assumptions C10_flush_progress.

(* why connection.py must refuse a peer maximum packet size of 0 (it does since 914ea52; the oracle sends 0
   on every run): with 0 the loop never ends. *)
Theorem C10_flush_stuck_if_pktsize_zero : forall fuel dt d rest win out,
  d <> [] -> 0 < win -> Channel.flush_loop fuel ((dt, d) :: rest) win 0 out = None.
Proof. exact flush_stuck. Qed.
Print Assumptions C10_flush_stuck_if_pktsize_zero.

(* ---- non-vacuity ---- *)
Example ex_getters : get_string (mkPk [0; 0; 0; 2; 104; 105; 9] 0) = Ok [104; 105] (mkPk [0; 0; 0; 2; 104; 105; 9] 6).
Proof. reflexivity. Qed.
Example ex_get_string_short : get_string (mkPk [0; 0; 0; 9; 1] 0) = Err (mkPk [0; 0; 0; 9; 1] 4).
Proof. reflexivity. Qed.
Example ex_socks5 :
  s_run true true socks_init [[5; 1; 0]; [5; 1; 0; 3; 3; 97; 98; 99; 0; 80]] 0
  = LDone (mkSocks HNone 2 [] true (HostName [97; 98; 99]) 80 1 [[5; 0]; [5; 0; 0; 1; 0; 0; 0; 0; 0; 0]]
                   (Some (HostName [97; 98; 99], 80))) 7.
Proof. vm_compute. reflexivity. Qed.
Example ex_banner :
  b_run (mkLim 8192 1024 255) true b_init [[104; 105; 10; 83; 83; 72; 45; 50; 46; 48; 45; 120; 13; 10; 7]] 0
  = Some (mkB [7] 1 BOpen (Some [83; 83; 72; 45; 50; 46; 48; 45; 120]) 14, 2).
Proof. vm_compute. reflexivity. Qed.
Example ex_sftp : sftp_feed [0; 0; 0; 5; 1; 0; 0; 0; 3; 0; 0; 0; 1; 9]
  = Some ([(1, 3, [])], [], FBad, 2).
Proof. vm_compute. reflexivity. Qed.
Example ex_copy : copy_data 10 false 600000 0 0 0 = CDone 3 600000.
Proof. vm_compute. reflexivity. Qed.
Example ex_copy_same : copy_data 10 true 600000 0 0 262144 = CDone 0 0.
Proof. vm_compute. reflexivity. Qed.
Example ex_x11_bad_cookie :
  x_run [1; 2] [9; 9] x11_init [[66; 0; 0; 11; 0; 0; 0; 0; 0; 0; 0; 0; 7]] 0
  = Some (mkX XNone 0 [] true [66; 0; 0; 11; 0; 0; 0; 0; 0; 0; 0; 0] [] [] 0 0 []
              (x_failure true) true, 3).
Proof. vm_compute. reflexivity. Qed.
