(* C11 - Re-keying is invisible to applications and really changes keys.
   Model: Model/Rekey.v (send side of asyncssh's transport around key exchange, the staging of the
   next keys, the clock as an explicit input).  Proofs: Proofs/RekeyProofs.v.
   Every theorem quantifies over EVERY finite list of operations (application / auth / kex-layer
   sends of any type, peer KEXINIT and NEWKEYS at any moment, completions of the exchange with any
   K, H and algorithms, clock movements, authentication events) from the initial connection state,
   for both roles and every rekey_bytes / rekey_seconds setting, for every hash function Hf.
   ext_ok: KEXINIT and NEWKEYS themselves are only originated by the transport. *)
From AV Require Import Base.Prelude Model.Packet Model.Rekey Proofs.RekeyProofs.

(* Between its own KEXINIT and its own NEWKEYS the endpoint emits only key-exchange and
   transport-control types (exactly the complement of the deferral condition of send_packet) - for
   every operation list and EVERY behaviour of time.monotonic(), including a clock that advances
   between two readings inside one send_packet call.  [legacy c = false] selects the code as it is
   (the rekey trigger is not evaluated for MSG_IGNORE, fix 97cb05d). *)
Theorem C11_quiet : forall Hf c ops,
  legacy c = false -> forallb ext_ok ops = true ->
  quiet_scan (wire_types (run Hf c ops init)) =
    Some (started (run Hf c ops init) && negb (kex_complete (sn (run Hf c ops init)))).
Proof. exact quiet_always. Qed.
Print Assumptions C11_quiet.

(* The code before 97cb05d (finding C11-1) violated the statement: send_packet evaluated the rekey
   trigger once for the packet and once more for the empty IGNORE it puts in front of it; when the
   time limit falls between the two clock readings the wire carries KEXINIT, IGNORE, CHANNEL_DATA. *)
Theorem C11_quiet_old_refuted : exists c ops, legacy c = true /\ forall Hf,
  forallb ext_ok ops = true /\ quiet_scan (wire_types (run Hf c ops init)) = None.
Proof. exists race_cfg, race_ops. split; [reflexivity|]. intros Hf. destruct (quiet_race Hf) as (A & B & _). auto. Qed.
Print Assumptions C11_quiet_old_refuted.

(* No channel data, request or open (type > 79) is lost, duplicated or reordered: at every moment
   the session packets on the wire followed by those still queued are exactly the session packets
   handed to send_packet, in that order - for every clock behaviour. *)
Theorem C11_order : forall Hf c ops,
  forallb ext_ok ops = true -> err (run Hf c ops init) = None ->
  filter sess (wire_pkts (run Hf c ops init)) ++ filter sess (deferred (sn (run Hf c ops init)))
  = filter sess (sends_of ops).
Proof. exact order_always. Qed.
Print Assumptions C11_order.

(* ... and whenever the exchange in progress has completed nothing is left behind. *)
Theorem C11_order_complete : forall Hf c ops,
  forallb ext_ok ops = true -> err (run Hf c ops init) = None ->
  kex_complete (sn (run Hf c ops init)) = true -> auth_complete (run Hf c ops init) = true ->
  filter sess (wire_pkts (run Hf c ops init)) = filter sess (sends_of ops).
Proof. exact order_complete. Qed.
Print Assumptions C11_order_complete.

(* The session identifier, once set, never changes, whatever happens afterwards ... *)
Theorem C11_sid : forall Hf c ops1 ops2,
  sid (run Hf c ops1 init) <> [] -> sid (run Hf c ops2 (run Hf c ops1 init)) = sid (run Hf c ops1 init).
Proof. exact sid_fixed. Qed.
Print Assumptions C11_sid.

(* ... and it is the exchange hash of the FIRST completed exchange. *)
Theorem C11_sid_first : forall Hf c ops k h a r,
  forallb ext_ok ops = true -> forallb h_nonempty ops = true ->
  hist (run Hf c ops init) = (k, h, a) :: r -> sid (run Hf c ops init) = h.
Proof. exact sid_first. Qed.
Print Assumptions C11_sid_first.

(* Completing an exchange with (K, H) installs send keys, and stages receive keys, that are
   Kex.compute_key (= derive_key) of THIS exchange's K and H and the session id; the key epoch
   advances by one. *)
Theorem C11_fresh_step : forall Hf c s k h a ts,
  err s = None -> kex_active s = true ->
  let s' := step Hf c s (KexDone k h a, ts) in
  let sid' := if is_nil (sid s) then h else sid s in
  sid s' = sid' /\
  send_keys s' = Some (mk_keys Hf (is_client c) k h sid' a) /\
  staged s' = Some (mk_keys Hf (negb (is_client c)) k h sid' a) /\
  send_epoch s' = send_epoch s + 1 /\ hist s' = hist s ++ [(k, h, a)] /\ recv_keys s' = recv_keys s.
Proof. exact newkeys_installs. Qed.
Print Assumptions C11_fresh_step.

(* For every operation list: the epoch of a packet is the number of own NEWKEYS before it, every
   packet of epoch n was protected with the keys derived from the (K, H) of the n-th completed
   exchange (none in epoch 0), the current send keys are those of the latest exchange, and receive
   keys are only ever keys derived in one of the completed exchanges. *)
Theorem C11_fresh : forall Hf c ops,
  forallb ext_ok ops = true -> forallb h_nonempty ops = true ->
  let s := run Hf c ops init in
  let cs := is_client c in
  send_keys s = keys_at Hf cs (sid s) (hist s) (send_epoch s) /\
  Forall (fun w => w_keys w = keys_at Hf cs (sid s) (hist s) (w_epoch w)) (wire (sn s)) /\
  epoch_scan (wire (sn s)) = Some (send_epoch s) /\
  Z.of_nat (length (hist s)) = send_epoch s /\
  (staged s = None \/ staged s = keys_at Hf (negb cs) (sid s) (hist s) (send_epoch s)) /\
  (recv_keys s = None \/
   exists n, 0 < n <= send_epoch s /\ recv_keys s = keys_at Hf (negb cs) (sid s) (hist s) n).
Proof. exact fresh_always. Qed.
Print Assumptions C11_fresh.

(* What else is re-initialised at NEWKEYS: the compression context.  For every operation list, every
   packet that went through the compressor did so in a context that had been fed exactly the
   compressed payloads of ITS OWN key epoch that precede it on the wire - nothing of an earlier epoch
   (RFC 4253 6.2 / OpenSSH: a new deflate stream per key exchange) - and the live context holds exactly
   the current epoch's compressed payloads.  (The sequence number reset under strict kex is part of
   [emit]; the keys are C11_fresh.) *)
Theorem C11_compress : forall Hf c ops,
  let s := run Hf c ops init in
  cmp_ok [] (wire (sn s)) /\ cmp_seen (sn s) = cmp_fed (send_epoch s) (wire (sn s)).
Proof. exact compress_always. Qed.
Print Assumptions C11_compress.

(* Own KEXINIT and own NEWKEYS strictly alternate on the wire starting with KEXINIT, for every
   interleaving: however the two KEXINITs cross, an endpoint runs exactly one exchange at a time and
   never answers a crossing KEXINIT with a second KEXINIT. *)
Theorem C11_simul : forall Hf c ops,
  forallb ext_ok ops = true ->
  alt_scan (wire_types (run Hf c ops init)) =
    Some (started (run Hf c ops init) && negb (kex_complete (sn (run Hf c ops init)))).
Proof. exact alt_always. Qed.
Print Assumptions C11_simul.

(* The crossing case itself: with the own KEXINIT already out (and the peer's NEWKEYS of the previous
   exchange in), the peer's KEXINIT writes nothing, starts the (single) exchange and is not an error. *)
Theorem C11_simul_cross : forall Hf c ops ext sp ts,
  forallb ext_ok ops = true ->
  let s := run Hf c ops init in
  err s = None -> started s = true -> kexinit_sent (sn s) = true -> staged s = None ->
  let s' := step Hf c s (RecvKexInit ext sp, ts) in
  wire (sn s') = wire (sn s) /\ kex_active s' = true /\ kexinit_sent (sn s') = false /\ err s' = None.
Proof. intros Hf c ops ext sp ts X s. apply cross_one_exchange. apply Inv_reach. exact X. Qed.
Print Assumptions C11_simul_cross.

(* A KEXINIT that arrives while our NEWKEYS is out and the peer's is not yet in is rejected: exchanges
   cannot overlap, so staged keys always belong to the exchange whose NEWKEYS consumes them. *)
Theorem C11_kexinit_before_newkeys : forall Hf c s ext sp ts,
  err s = None -> started s = true -> staged s <> None ->
  err (step Hf c s (RecvKexInit ext sp, ts)) = Some E_KEX_IN_PROGRESS.
Proof. exact kexinit_before_newkeys. Qed.
Print Assumptions C11_kexinit_before_newkeys.

(* A NEWKEYS with no staged keys (outside an exchange, or a second one inside it) is rejected and
   changes no receive key ... *)
Theorem C11_newkeys_unsolicited : forall Hf c s ts,
  err s = None -> staged s = None ->
  let s' := step Hf c s (RecvNewKeys, ts) in
  err s' = Some E_NEWKEYS /\ recv_keys s' = recv_keys s /\ recv_epoch s' = recv_epoch s.
Proof. exact newkeys_unsolicited. Qed.
Print Assumptions C11_newkeys_unsolicited.

(* ... so the peer can never switch receive keys more often than exchanges were completed. *)
Theorem C11_newkeys_once : forall Hf c ops,
  forallb ext_ok ops = true ->
  0 <= recv_epoch (run Hf c ops init) <= send_epoch (run Hf c ops init) /\
  (staged (run Hf c ops init) <> None -> recv_epoch (run Hf c ops init) < send_epoch (run Hf c ops init)).
Proof. exact newkeys_once. Qed.
Print Assumptions C11_newkeys_once.

(* ---- non-vacuity: a busy session with a byte-triggered re-key, a crossing KEXINIT and a flush ---- *)
Definition ex_hash (b : bytes) : bytes := [Z.of_nat (length b) mod 256; 7; 7; 7].
Definition ex_cfg : cfg := mkC true 100 0 200 30 false.
Definition ex_algs : algs := mkA 5 16 1 16 4 4 4 4 4 4 1 2.      (* client compresses with zlib *)
Definition ex_D (n : Z) : op := (Send (mkP 94 20 n), []).
Definition ex_ops : list op :=
  [(RecvVersion, []); (RecvKexInit true true, []); (Send (mkP 30 40 0), []); (KexDone [9] [7; 7] ex_algs, []);
   (RecvNewKeys, []); (AuthBegin, []); (Send (mkP 50 30 1), []); (AuthDone, []);
   ex_D 2; ex_D 3; ex_D 4; ex_D 5; (RecvKexInit false false, []); ex_D 6;
   (KexDone [8] [6] ex_algs, []); (RecvNewKeys, [])].

Example C11_example_trace :
  let s := run ex_hash ex_cfg ex_ops init in
  wire_types s = [20; 30; 21; 7; 5; 2; 50; 2; 94; 20; 21; 2; 94; 2; 94; 2; 94; 20] /\
  map p_tag (filter sess (wire_pkts s)) = [2; 3; 4; 5] /\ map p_tag (deferred (sn s)) = [6] /\
  send_epoch s = 2 /\ recv_epoch s = 2 /\ sid s = [7; 7] /\ err s = None /\
  forallb ext_ok ex_ops = true /\ forallb steady ex_ops = true /\ forallb h_nonempty ex_ops = true /\
  send_keys s = Some (mk_keys ex_hash true [8] [6] [7; 7] ex_algs) /\
  send_keys s <> keys_at ex_hash true (sid s) (hist s) 1.
Proof. vm_compute. repeat split; try reflexivity. discriminate. Qed.

(* the hypotheses of C11_newkeys_unsolicited are reachable: after the exchange above nothing is staged *)
Example C11_example_unsolicited :
  let s := run ex_hash ex_cfg ex_ops init in
  staged s = None /\ err (step ex_hash ex_cfg s (RecvNewKeys, [])) = Some E_NEWKEYS.
Proof. vm_compute. split; reflexivity. Qed.

(* the clock script that broke the old code, on the code as it is: the data packet is written before any
   KEXINIT; once the clock has passed the limit the NEXT regular packet starts the exchange and is itself deferred *)
Example C11_example_race_fixed :
  let c := mkC true 1000000 50 100 30 false in
  let s := run ex_hash c (race_ops ++ [(Tick 60, []); (Send (mkP 94 10 1), [])]) init in
  map p_ty (skipn 4 (wire_pkts s)) = [MSG_IGNORE; 94; MSG_KEXINIT] /\ map p_tag (deferred (sn s)) = [1] /\
  quiet_scan (wire_types s) = Some true.
Proof. vm_compute. repeat split; reflexivity. Qed.

(* compression in the example trace: the second NEWKEYS is the last payload of the epoch-1 context (EXT_INFO was its first); the three data
   packets flushed after the second NEWKEYS start from an empty context again *)
Example C11_example_compress :
  let s := run ex_hash ex_cfg ex_ops init in
  map (fun w => (p_ty (w_pkt w), w_epoch w, option_map (map p_ty) (w_cmp w))) (firstn 7 (skipn 10 (wire (sn s))))
  = [(21, 1, Some [7; 5; 2; 50; 2; 94; 20]); (2, 2, Some []); (94, 2, Some [2]); (2, 2, Some [2; 94]);
     (94, 2, Some [2; 94; 2]); (2, 2, Some [2; 94; 2; 94]); (94, 2, Some [2; 94; 2; 94; 2])].
Proof. vm_compute. reflexivity. Qed.
