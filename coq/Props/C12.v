(* C12 - SFTP transfers reproduce the source bytes exactly or report failure.
   Statements only; proofs are in Proofs/SftpIOProofs.v, the model in Model/SftpIO.v.

   Reading guide.  A schedule is a list of batches; a batch is the set of requests that one
   asyncio.wait returns as done, each given as (index into the outstanding list, reply).  The
   theorems quantify over ALL schedules: every completion order, every grouping into batches, every
   short count.  "honest_run ... = true" says that every reply in the schedule is one that a server
   holding the fixed file F may give (1 <= count <= size bytes of F below EOF, EOF at/after it, no
   error); "p_pend ... = []" / "c_status <> CRunning" says the operation has run to its end. *)
From AV Require Import Base.Prelude Model.SftpIO Proofs.SftpIOProofs.

(* Parallel read (_SFTPFileReader): for every block size, request limit, start, size, every
   completion order and every pattern of short reads, the bytes returned are exactly
   F[start : start+size] (cut at the end of F). *)
Theorem C12_read : forall F bs mx start size sched,
  0 < bs -> 0 < mx -> 0 <= start -> 0 <= size ->
  honest_run (reader_handle start) (honest_read F) (reader_init bs mx start size) sched = true ->
  p_pend (m_pio (reader_run bs mx start size sched)) = [] ->
  mach_result (reader_run bs mx start size sched) = Done (slice F start size).
Proof. exact reader_correct. Qed.
Print Assumptions C12_read.

(* Any schedule whatsoever (replies need not be honest): once a batch contains an error reply for
   an outstanding request, the read ends in failure, whatever else is in that batch or follows. *)
Theorem C12_read_error : forall bs mx start size sched1 pre i post sched2 o z,
  nth_error (p_pend (m_pio (fold_left (complete (reader_handle start)) pre
                                      (reader_run bs mx start size sched1)))) i = Some (o, z) ->
  mach_result (fold_left (reader_batch start) sched2
                 (reader_batch start (reader_run bs mx start size sched1) (pre ++ (i, RErr) :: post))) = Failed.
Proof. intros. eapply machine_error; [eassumption|reflexivity]. Qed.
Print Assumptions C12_read_error.

(* Parallel write (_SFTPFileWriter): whatever the order in which the server performs and
   acknowledges the block writes, the destination ends up as the old content with data written at
   start (zero filled if start is past the old end), and the requests issued tile
   [start, start+|data|) exactly: every byte is written once. *)
Theorem C12_write : forall data D0 bs mx start sched,
  0 < bs -> 0 < mx -> 0 <= start ->
  honest_run (writer_handle start data) honest_write (writer_init bs mx start data D0) sched = true ->
  p_pend (m_pio (writer_run bs mx start data D0 sched)) = [] ->
  mach_result (writer_run bs mx start data D0 sched) = Done (file_write D0 start data) /\
  chain start (p_sent (m_pio (writer_run bs mx start data D0 sched))) (start + zlen data).
Proof. exact writer_correct. Qed.
Print Assumptions C12_write.

Theorem C12_write_error : forall bs mx start data D0 sched1 pre i post sched2 o z,
  nth_error (p_pend (m_pio (fold_left (complete (writer_handle start data)) pre
                                      (writer_run bs mx start data D0 sched1)))) i = Some (o, z) ->
  mach_result (fold_left (writer_batch start data) sched2
                 (writer_batch start data (writer_run bs mx start data D0 sched1) (pre ++ (i, WErr) :: post))) = Failed.
Proof. intros. eapply machine_error; [eassumption|reflexivity]. Qed.
Print Assumptions C12_write_error.

(* Non-sparse copy (_SFTPFileCopier, get/put/copy with sparse=False) of a source that has at
   least the announced total bytes: success, and the destination is exactly the first total bytes. *)
Theorem C12_copy : forall F bs mx total fixd ranges sched,
  0 < bs -> 0 < mx -> 0 <= total <= zlen F ->
  copier_honest F (copier_init bs mx total false fixd ranges) sched = true ->
  c_status (copier_run bs mx total false fixd ranges sched) <> CRunning ->
  c_status (copier_run bs mx total false fixd ranges sched) = COk /\
  copier_dst (copier_run bs mx total false fixd ranges sched) = ztake total F.
Proof. exact copier_nonsparse_ok. Qed.
Print Assumptions C12_copy.

(* Non-sparse copy of a source that ends before its announced size: the copy fails, for every
   schedule. *)
Theorem C12_copy_short_source : forall F bs mx total fixd ranges sched,
  0 < bs -> 0 < mx -> zlen F < total ->
  copier_honest F (copier_init bs mx total false fixd ranges) sched = true ->
  c_status (copier_run bs mx total false fixd ranges sched) <> CRunning ->
  c_status (copier_run bs mx total false fixd ranges sched) = CFail.
Proof. exact copier_short_source. Qed.
Print Assumptions C12_copy_short_source.

(* Any schedule: a failed block (source read or destination write) fails the copy. *)
Theorem C12_copy_error : forall c pre i post sched o z,
  c_status c = CRunning ->
  nth_error (p_pend (m_pio (fold_left (complete copier_handle) pre (c_m c)))) i = Some (o, z) ->
  c_status (fold_left copier_step sched (copier_step c (pre ++ (i, CErr) :: post))) = CFail.
Proof. exact copier_error. Qed.
Print Assumptions C12_copy_error.

(* Sparse copy as in the original snapshot (model parameter c_fix = false; /repo now carries the repair,
   see C12_sparse_repaired).  For data ranges that are ascending, non-empty, inside F, with F
   zero outside them: success, and the destination is F cut after its last data byte; holes between
   data ranges arrive as zeros.  So the copy is exact when F does not end in a hole.
   PARTIAL: the property also demands exactness when F ends in a hole; see the next theorem. *)
Theorem C12_sparse_partial : forall F bs mx total ranges sched,
  0 < bs -> 0 < mx ->
  ranges_sorted 0 ranges = true -> ranges_end 0 ranges <= zlen F ->
  (forall q, 0 <= q < zlen F -> in_ranges ranges q = false -> znth F q = 0) ->
  (zlen F = 0 \/ in_ranges ranges (zlen F - 1) = true) ->
  copier_honest F (copier_init bs mx total true false ranges) sched = true ->
  c_status (copier_run bs mx total true false ranges sched) <> CRunning ->
  c_status (copier_run bs mx total true false ranges sched) = COk /\
  copier_dst (copier_run bs mx total true false ranges sched) = F.
Proof. exact copier_sparse_no_trailing_hole. Qed.
Print Assumptions C12_sparse_partial.

(* The faithful model of the snapshot code violates the statement for a file ending in a hole:
   the copy reports success and the destination is shorter than the source. *)
Theorem C12_sparse_trailing_hole_refuted :
  exists F ranges total sched,
    ranges_sorted 0 ranges = true /\ ranges_end 0 ranges <= zlen F /\ total = zlen F /\
    (forall q, 0 <= q < zlen F -> in_ranges ranges q = false -> znth F q = 0) /\
    copier_honest F (copier_init 4 2 total true false ranges) sched = true /\
    c_status (copier_run 4 2 total true false ranges sched) = COk /\
    copier_dst (copier_run 4 2 total true false ranges sched) <> F.
Proof. exact sparse_trailing_hole_witness. Qed.
Print Assumptions C12_sparse_trailing_hole_refuted.

(* Sparse copy with the repair that /repo now carries (one zero byte written at total-1 when the last
   data range ends before total): exact for every hole layout, every schedule. *)
Theorem C12_sparse_repaired : forall F bs mx ranges sched,
  0 < bs -> 0 < mx ->
  ranges_sorted 0 ranges = true -> ranges_end 0 ranges <= zlen F ->
  (forall q, 0 <= q < zlen F -> in_ranges ranges q = false -> znth F q = 0) ->
  copier_honest F (copier_init bs mx (zlen F) true true ranges) sched = true ->
  c_status (copier_run bs mx (zlen F) true true ranges sched) <> CRunning ->
  c_status (copier_run bs mx (zlen F) true true ranges sched) = COk /\
  copier_dst (copier_run bs mx (zlen F) true true ranges sched) = F.
Proof. exact copier_sparse_fixed. Qed.
Print Assumptions C12_sparse_repaired.

(* Faults at close.  run() closes the source and then the destination after the copy; it returns
   normally exactly when the copy itself succeeded (every block, the total check) AND closing the
   source AND closing the destination succeeded -- an error reported only by a close is not lost.
   Together with C12_copy / C12_sparse_repaired: normal return => destination = source. *)
Theorem C12_copy_close : forall c src_close_ok dst_close_ok,
  fst (copier_outcome c src_close_ok dst_close_ok) = None <->
  c_status c = COk /\ src_close_ok = true /\ dst_close_ok = true.
Proof. exact copier_outcome_ok. Qed.
Print Assumptions C12_copy_close.

(* Which error is reported when several occur (as the code is: a failing close of the source wins
   and leaves the destination unclosed, then a failing close of the destination, then the body). *)
Theorem C12_copy_close_precedence : forall c sc dc,
  fst (copier_outcome c sc dc) =
    if negb sc then Some ESrcClose else if negb dc then Some EDstClose
    else if match c_status c with COk => true | _ => false end then None else Some EBody.
Proof. exact copier_outcome_precedence. Qed.
Print Assumptions C12_copy_close_precedence.

(* What the copier does with the total it is given: for ANY announced total <= |F| (sparse, repaired)
   exactly the first total bytes arrive and success is reported -- as C12_copy says for the
   non-sparse case.  The copier trusts total; C12_copy_total below says where total comes from. *)
Theorem C12_sparse_repaired_total : forall F bs mx total ranges sched,
  0 < bs -> 0 < mx -> 0 <= total <= zlen F ->
  ranges_sorted 0 ranges = true -> ranges_end 0 ranges <= total ->
  (forall q, 0 <= q < total -> in_ranges ranges q = false -> znth F q = 0) ->
  copier_honest F (copier_init bs mx total true true ranges) sched = true ->
  c_status (copier_run bs mx total true true ranges sched) <> CRunning ->
  c_status (copier_run bs mx total true true ranges sched) = COk /\
  copier_dst (copier_run bs mx total true true ranges sched) = ztake total F.
Proof. exact copier_sparse_fixed_total. Qed.
Print Assumptions C12_sparse_repaired_total.

(* Recursive copy driver (SFTPClient._copy): whenever a file copier is started, the total_bytes it
   gets is the size reported by stat for the file that open() will open -- also when the entry came
   from a directory listing or a glob as a symlink (lstat attributes) and follow_symlinks is set.
   Hypothesis: for anything that is not a symlink, lstat and stat agree. *)
Theorem C12_copy_total : forall follow lst st t,
  (a_type lst <> 3 -> lst = st) -> copy_total follow lst st = Some t -> t = a_size st.
Proof. exact copy_total_is_stat_size. Qed.
Print Assumptions C12_copy_total.

(* The ranges _request_ranges computes for any well-formed hole layout (extents ascending,
   separated, inside the file; zeros outside them) meet the hypotheses of the sparse theorems. *)
Theorem C12_sparse_layout : forall F ext,
  ext_wf 0 (zlen F) ext = true ->
  (forall q, 0 <= q < zlen F -> in_ext ext q = false -> znth F q = 0) ->
  ranges_sorted 0 (request_ranges ext 0 (zlen F)) = true /\
  ranges_end 0 (request_ranges ext 0 (zlen F)) <= zlen F /\
  (forall q, 0 <= q < zlen F -> in_ranges (request_ranges ext 0 (zlen F)) q = false -> znth F q = 0).
Proof. exact layout_ranges_ok. Qed.
Print Assumptions C12_sparse_layout.

(* The ranges request/reply loop from ANY start offset: for every extent list, every batch size
   K >= 1 and every start offset, the concatenation of the replies the client collects (asking again
   from the end of the last range until the server says at_end or answers EOF) is exactly the list
   of the file's data ranges from that offset. *)
Theorem C12_ranges_paging_from : forall (K : nat) ext size off, (1 <= K)%nat -> ext_wf 0 size ext = true ->
  client_ranges (S (length ext)) (server_ranges K ext) off (size - off) size = req_ranges ext off size.
Proof.
  intros K ext size off HK Hwf. apply (client_ranges_paging K ext 0 size HK Hwf).
  pose proof (req_ranges_length ext off size). lia.
Qed.
Print Assumptions C12_ranges_paging_from.

(* Open dispositions: for every pflags value (six defined bits), every SFTP version and whatever the
   path holds, a v5/v6 session (client _pflags_to_flags, server open56) opens the file with the same
   effect as a v3 session (server open). *)
Theorem C12_open_version_independent : forall version pflags existing, 0 <= pflags < 64 ->
  posix_open (session_open version pflags) existing = posix_open (server_open_v3 pflags) existing.
Proof. exact session_open_version_independent. Qed.
Print Assumptions C12_open_version_independent.

(* A destination opened with mode 'wb' (every get/put/copy destination, open('wb')) is empty before
   the first write in every SFTP version, whether it did not exist or held anything (shorter, equal,
   longer).  This is the initial state ([], nothing copied) the copier theorems start from: a normal
   return of a whole-file transfer leaves exactly the source bytes, no stale tail. *)
Theorem C12_open_w_empties : forall version existing,
  posix_open (session_open version PFLAGS_W) existing = Some [].
Proof. exact open_w_empties. Qed.
Print Assumptions C12_open_w_empties.

(* Remote sparse files: whatever the number K >= 1 of ranges the server returns per reply, the
   client-side iteration yields exactly the ranges of the file. *)
Theorem C12_ranges_paging : forall (K : nat) ext size, (1 <= K)%nat -> ext_wf 0 size ext = true ->
  client_ranges (S (length ext)) (server_ranges K ext) 0 size size = request_ranges ext 0 size.
Proof.
  intros K ext size HK Hwf. unfold request_ranges. simpl (0 + size).
  pose proof (client_ranges_paging K ext 0 size HK Hwf (S (length ext)) 0) as H.
  rewrite Z.sub_0_r in H. apply H. pose proof (req_ranges_length ext 0 size). lia.
Qed.
Print Assumptions C12_ranges_paging.

(* File object: for every sequence of read/write/seek/tell, with or without explicit offsets,
   appending or not, the values returned and the final file equal those of an ordinary file object
   that always knows its position (reference semantics sp_step). *)
Theorem C12_fileobj : forall (appending : bool) rlen wlen maxr cap F ops,
  snd (fo_run (mkFobj (if appending then None else Some 0) appending rlen wlen maxr cap, F) ops) =
  snd (sp_run (mkSfile (if appending then zlen F else 0) appending rlen maxr cap, F) ops) /\
  snd (fst (fo_run (mkFobj (if appending then None else Some 0) appending rlen wlen maxr cap, F) ops)) =
  snd (fst (sp_run (mkSfile (if appending then zlen F else 0) appending rlen maxr cap, F) ops)).
Proof.
  intros. apply fileobj_refines. unfold frel. simpl.
  destruct appending; repeat split; auto.
Qed.
Print Assumptions C12_fileobj.

(* non-vacuity: a 10-byte file read with block size 4 and 2 requests in flight, answered out of
   order, with short reads, finishing with EOF; the hypotheses of C12_read hold and it finishes *)
Example C12_read_example :
  let F := [1;2;3;4;5;6;7;8;9;10] in
  let sched := [[(1%nat, RData [5])]; [(1%nat, RData [6;7;8])]; [(0%nat, RData [1;2]); (0%nat, RData [9;10])];
                [(0%nat, RData [3;4])]; [(0%nat, REof)]; [(0%nat, REof)]] in
  honest_run (reader_handle 0) (honest_read F) (reader_init 4 2 0 16) sched = true /\
  mach_result (reader_run 4 2 0 16 sched) = Done F.
Proof. vm_compute. split; reflexivity. Qed.

(* non-vacuity: sparse copy of data, hole, data with out-of-order completion *)
Example C12_sparse_example :
  let F := [7;8;0;0;0;9] in
  let ranges := request_ranges [(0,2);(5,6)] 0 6 in
  let sched := [[(1%nat, CData [8])]; [(0%nat, CData [7])]; [(0%nat, CData [9])]] in
  ranges = [(0,2);(5,1)] /\
  copier_honest F (copier_init 1 2 6 true false ranges) sched = true /\
  c_status (copier_run 1 2 6 true false ranges sched) = COk /\
  copier_dst (copier_run 1 2 6 true false ranges sched) = F.
Proof. vm_compute. repeat split; reflexivity. Qed.

(* non-vacuity: writes acknowledged out of order; a source that ends early *)
Example C12_write_example :
  let sched := [[(1%nat, WOk)]; [(0%nat, WOk)]; [(0%nat, WOk)]] in
  honest_run (writer_handle 1 [1;2;3;4;5]) honest_write (writer_init 2 2 1 [1;2;3;4;5] [9;9]) sched = true /\
  mach_result (writer_run 2 2 1 [1;2;3;4;5] [9;9] sched) = Done [9;1;2;3;4;5].
Proof. vm_compute. split; reflexivity. Qed.

Example C12_copy_short_source_example :
  let sched := [[(0%nat, CData [1;2])]; [(0%nat, CData [3])]; [(0%nat, CData [])]; [(0%nat, CData [])]] in
  copier_honest [1;2;3] (copier_init 2 2 5 false false []) sched = true /\
  c_status (copier_run 2 2 5 false false [] sched) = CFail.
Proof. vm_compute. split; reflexivity. Qed.
