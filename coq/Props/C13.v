(* C13 - File serving and downloading never leave their directory.
   Statements only; proofs are in Proofs/PathsProofs.v. *)
From AV Require Import Base.Prelude Model.Paths Proofs.PathsProofs.

(* Every client path string is mapped to the root followed by a relative path whose components
   are non-empty, not ".", not ".." and slash-free: lexically inside the root. All byte strings,
   all roots. *)
Theorem C13_chroot : forall root path, inside root (map_path root path).
Proof. exact map_path_inside. Qed.
Print Assumptions C13_chroot.

(* The mapping of the unrepaired code (normpath[1:]) does leave the root (finding C13-1). *)
Theorem C13_chroot_old_refuted : exists root path, ~ inside root (map_path_old root path).
Proof. exact map_path_old_escapes. Qed.
Print Assumptions C13_chroot_old_refuted.

(* What the server reports back is only ever a path at or below the root. *)
Theorem C13_reverse_inside : forall root path v,
  reverse_map_path root path = Some v -> path = root \/ exists r, path = root ++ SLASH :: r.
Proof. exact reverse_map_only_inside. Qed.
Print Assumptions C13_reverse_inside.

Theorem C13_reverse_roundtrip : forall root rel,
  reverse_map_path root (root ++ SLASH :: rel) = Some (SLASH :: rel).
Proof. exact reverse_map_roundtrip. Qed.
Print Assumptions C13_reverse_roundtrip.

(* SCP sink: for every record sequence, every answer of the local file system to isdir, with or
   without an error handler, every path the sink touches is the destination or reachable from it
   by appending slash-free names other than "..". *)
Theorem C13_scp : forall isdir cont dst recs,
  Forall (under dst) (scp_sink isdir cont recs [dst] []).
Proof.
  intros. apply scp_sink_under; [constructor; [apply under_self|constructor]|constructor].
Qed.
Print Assumptions C13_scp.

(* Recursive SFTP get: a listed name that passes the filter is joined directly below dst. *)
Theorem C13_get : forall dst name, get_name_ok name = true -> below dst (get_dst dst name).
Proof. exact get_name_below. Qed.
Print Assumptions C13_get.

(* Without the separator check a server-supplied name leaves the destination (finding C13-2). *)
Theorem C13_get_unfiltered_refuted :
  exists dst name, get_name_skipped name = false /\ ~ below dst (get_dst dst name).
Proof. exact get_unfiltered_escapes. Qed.
Print Assumptions C13_get_unfiltered_refuted.

(* non-vacuity: concrete instances *)
Example C13_chroot_example :
  map_path [47;114] [47;47;46;46;47;97;47;47;46;47;98] = [47;114;47;97;47;98].
Proof. vm_compute. reflexivity. Qed.

(* ==================== recursive copy plan ==================================================
   Model/CopyPlan.v: the sequence of destination-side operations (isdir, mkdir, symlink,
   open-for-write, setstat, error-handler calls) that SFTPClient._begin_copy / _copy (get, put,
   copy, mget ...) perform for a source tree chosen entirely by the source: names, types, link
   targets, duplicate names, listing order, a following stat that still answers "symbolic link",
   injected errors.  All theorems hold for every such tree, every option combination (preserve,
   recurse, follow_symlinks, error handler or not), every initial destination state, every fuel
   and every answer [orc] of the world beyond symbolic links.  Proofs: Proofs/CopyPlanProofs.v. *)
From AV Require Import Model.CopyPlan Proofs.CopyPlanProofs.

(* T1. Every operation's path is  dst/n1/.../nk  (optionally with one trailing slash, which an
   EMPTY listed name produces and which names the directory itself) where every ni is non-empty,
   slash-free and neither "." nor "..": lexically inside dst.  Premise: the basenames of the
   sources NAMED BY THE CALLER are not ".", ".." (they are slash-free by construction). *)
Theorem C13_copy_paths_under_dst : forall orc c dst srcs fs0,
  dst <> [] -> ends_with_slash dst = false ->
  Forall (fun e => get_name_ok (fst e) = true) srcs ->
  Forall (fun o => under_dst dst (op_path o)) (copy_plan orc c dst srcs fs0).
Proof. exact copy_paths_under_dst. Qed.
Print Assumptions C13_copy_paths_under_dst.

(* T1 for a glob pattern dir/* (mget, get with a pattern): no premise on the listing at all - the
   names that reach _begin_copy are those the (repaired, abbc782) glob expansion lets through. *)
Theorem C13_copy_glob_paths_under_dst : forall orc c dst dir listing fs0,
  dst <> [] -> ends_with_slash dst = false ->
  Forall (fun o => under_dst dst (op_path o)) (copy_plan_glob orc c true dst dir listing fs0).
Proof. exact copy_glob_paths_under_dst. Qed.
Print Assumptions C13_copy_glob_paths_under_dst.

(* ... and the glob expansion before abbc782 did leave dst (listed name "f/..", finding C13-7). *)
Theorem C13_copy_glob_old_refuted :
  exists orc c dst dir listing fs0,
    dst <> [] /\ ends_with_slash dst = false /\
    ~ Forall (fun o => under_dst dst (op_path o)) (copy_plan_glob orc c false dst dir listing fs0).
Proof. exact copy_glob_old_refuted. Qed.
Print Assumptions C13_copy_glob_old_refuted.

(* T2. Once the plan has created a symbolic link at q, no later operation (of any kind) has q as
   a proper directory prefix of its path, and no later isdir / mkdir / symlink / open-for-write
   is on q itself.  (dupcheck c = the `symlinks` set of a79246f is in place.) *)
Theorem C13_copy_never_through_new_link : forall orc c dst srcs fs0,
  dupcheck c = true -> Forall (fun e => mem_z SLASH (fst e) = false) srcs ->
  forall l1 t q th l2 o,
    copy_plan orc c dst srcs fs0 = l1 ++ OSymlink t q true th :: l2 -> In o l2 ->
    zprefix (q ++ [SLASH]) (op_path o) = false /\ (strict o = true -> op_path o <> q).
Proof. exact copy_never_through_new_link. Qed.
Print Assumptions C13_copy_never_through_new_link.

(* T2, physical form. Premise: the destination contains no symbolic link before the copy
   (no_links fs0).  Then the resolution of the path of EVERY operation of the plan - the model
   computes this flag from its file-system state at the moment of the operation - traverses no
   symbolic link, so with T1 every creation / write / attribute change lands inside dst. *)
Theorem C13_copy_resolves_inside : forall orc c dst srcs fs0,
  dupcheck c = true -> presfix c = true -> Forall (fun e => mem_z SLASH (fst e) = false) srcs ->
  no_links fs0 ->
  Forall (fun o => op_thru o = false) (copy_plan orc c dst srcs fs0).
Proof. exact copy_resolves_inside. Qed.
Print Assumptions C13_copy_resolves_inside.

(* T3. The procedure before a79246f violates T2: a link "x" followed by a directory "x". *)
Theorem C13_copy_old_refuted :
  exists orc c dst srcs fs0,
    no_links fs0 /\ Forall (fun e => mem_z SLASH (fst e) = false) srcs /\
    exists l1 t q th l2 o,
      copy_plan_old orc c dst srcs fs0 = l1 ++ OSymlink t q true th :: l2 /\ In o l2 /\
      strict o = true /\ zprefix (q ++ [SLASH]) (op_path o) = true /\ op_thru o = true.
Proof. exact copy_old_refuted. Qed.
Print Assumptions C13_copy_old_refuted.

(* T4. preserve: a setstat on a path where the plan created a symbolic link never follows it
   (presfix c = the flag of 6e0d949; seeded defect C13-d breaks exactly this). *)
Theorem C13_copy_preserve_never_follows_new_link : forall orc c dst srcs fs0,
  dupcheck c = true -> presfix c = true -> Forall (fun e => mem_z SLASH (fst e) = false) srcs ->
  forall l1 t q th l2 p ok th',
    copy_plan orc c dst srcs fs0 = l1 ++ OSymlink t q true th :: l2 ->
    In (OSetstat p true ok th') l2 -> p <> q.
Proof. exact copy_preserve_never_follows_new_link. Qed.
Print Assumptions C13_copy_preserve_never_follows_new_link.

(* ... and before 6e0d949 it did, under follow_symlinks, when the source's following stat still
   answered "symbolic link" (finding C13-8). *)
Theorem C13_copy_preserve_old_refuted :
  exists orc c dst srcs fs0,
    no_links fs0 /\ dupcheck c = true /\
    exists l1 t q th l2 ok,
      copy_plan orc c dst srcs fs0 = l1 ++ OSymlink t q true th :: l2 /\
      In (OSetstat q true ok true) l2.
Proof. exact copy_preserve_old_refuted. Qed.
Print Assumptions C13_copy_preserve_old_refuted.

(* non-vacuity: a plan with a duplicate name, a link, a rejected second "x", preserve *)
Example C13_copy_example :
  copy_plan (fun _ => RNone) (mkcfg true true false true) [100]
            [([116], Dir [([120], Link [47;111] Broken); ([120], Dir [([101], File true)] true);
                          ([121], File true)] true)] [([100], KDir)]
  = [OIsdir [100] true false; OIsdir [100;47;116] false false; OMkdir [100;47;116] true false;
     OSymlink [47;111] [100;47;116;47;120] true false; OSetstat [100;47;116;47;120] false true false;
     OErr EBad [100;47;116;47;120];
     OWrite [100;47;116;47;121] true false; OSetstat [100;47;116;47;121] true true false;
     OSetstat [100;47;116] true true false].
Proof. vm_compute. reflexivity. Qed.

Example C13_copy_premises_satisfiable :
  no_links [([100], KDir); ([100;47;120], KFile)] /\ dupcheck (mkcfg true true true false) = true /\
  presfix (mkcfg true true true false) = true.
Proof. split; [intros q [H | [H | []]]; inversion H|split; reflexivity]. Qed.

(* Several sources in ONE call (get([a/x, b/x], dst), glob matches in several directories, put and
   copy alike): C13_copy_never_through_new_link, C13_copy_resolves_inside and
   C13_copy_preserve_never_follows_new_link above quantify over the whole top-level source list
   [srcs], duplicate base names included - the `symlinks` set spans the call.  A set created afresh
   for every top-level source (seeded change C13-e) does not: *)
Theorem C13_copy_per_source_set_refuted :
  exists orc c dst srcs fs0,
    no_links fs0 /\ dupcheck c = true /\ presfix c = true /\
    Forall (fun e => mem_z SLASH (fst e) = false) srcs /\
    exists l1 t q th l2 o,
      copy_plan_persrc orc c dst srcs fs0 = l1 ++ OSymlink t q true th :: l2 /\ In o l2 /\
      strict o = true /\ zprefix (q ++ [SLASH]) (op_path o) = true /\ op_thru o = true.
Proof. exact copy_per_source_set_refuted. Qed.
Print Assumptions C13_copy_per_source_set_refuted.

(* the same two sources under the code as it is: the second "x" is refused (SFTPBadMessage) *)
Example C13_copy_two_sources_rejected :
  begin_copy w_orc2 (mkcfg false true false false) 3 w_dst w_two w_fs0 =
  ([OIsdir [100] true false; OSymlink [47;111] [100;47;120] true false],
   ([([100;47;120], KLink); ([100], KDir)], [[100;47;120]]), Some EBad).
Proof. exact copy_two_sources_rejected. Qed.
