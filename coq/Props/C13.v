(* C13 - File serving and downloading never leave their directory.
   Statements only; proofs are in Proofs/PathsProofs.v. *)
From AV Require Import Base.Prelude Model.Paths Proofs.PathsProofs.

(* Every client path string is mapped to the root followed by a relative path whose components
   are non-empty, not ".", not ".." and slash-free: lexically inside the root. All byte strings,
   all roots. *)
Theorem C13_chroot : forall root path, inside root (map_path root path).
Proof. exact map_path_inside. Qed.
Print Assumptions C13_chroot.

(* The mapping of the unrepaired code (normpath[1:]) does leave the root (finding C13-1). *)
Theorem C13_chroot_old_refuted : exists root path, ~ inside root (map_path_old root path).
Proof. exact map_path_old_escapes. Qed.
Print Assumptions C13_chroot_old_refuted.

(* What the server reports back is only ever a path at or below the root. *)
Theorem C13_reverse_inside : forall root path v,
  reverse_map_path root path = Some v -> path = root \/ exists r, path = root ++ SLASH :: r.
Proof. exact reverse_map_only_inside. Qed.
Print Assumptions C13_reverse_inside.

Theorem C13_reverse_roundtrip : forall root rel,
  reverse_map_path root (root ++ SLASH :: rel) = Some (SLASH :: rel).
Proof. exact reverse_map_roundtrip. Qed.
Print Assumptions C13_reverse_roundtrip.

(* SCP sink: for every record sequence, every answer of the local file system to isdir, with or
   without an error handler, every path the sink touches is the destination or reachable from it
   by appending slash-free names other than "..". *)
Theorem C13_scp : forall isdir cont dst recs,
  Forall (under dst) (scp_sink isdir cont recs [dst] []).
Proof.
  intros. apply scp_sink_under; [constructor; [apply under_self|constructor]|constructor].
Qed.
Print Assumptions C13_scp.

(* Recursive SFTP get: a listed name that passes the filter is joined directly below dst. *)
Theorem C13_get : forall dst name, get_name_ok name = true -> below dst (get_dst dst name).
Proof. exact get_name_below. Qed.
Print Assumptions C13_get.

(* Without the separator check a server-supplied name leaves the destination (finding C13-2). *)
Theorem C13_get_unfiltered_refuted :
  exists dst name, get_name_skipped name = false /\ ~ below dst (get_dst dst name).
Proof. exact get_unfiltered_escapes. Qed.
Print Assumptions C13_get_unfiltered_refuted.

(* non-vacuity: concrete instances *)
Example C13_chroot_example :
  map_path [47;114] [47;47;46;46;47;97;47;47;46;47;98] = [47;114;47;97;47;98].
Proof. vm_compute. reflexivity. Qed.
