(* C14 - Each SFTP request gets exactly one matching, well-typed reply.
   Statements only; proofs are in Proofs/SftpProtoProofs.v, the model in Model/SftpProto.v,
   the tables taken from the running code in Gen/SftpTables.v. *)
From AV Require Import Base.Prelude Model.SftpProto Gen.SftpTables Proofs.SftpProtoProofs.

(* ---- client: request ids ------------------------------------------------------------------ *)

(* After any sequence of requests, replies (any type, any id, any order), cancellations, short frames
   and EOF:
   the id the next request will get differs from the id of every outstanding request that was issued
   fewer than 2^32 requests ago.  (The hypothesis is needed: see C14_ids_stale_refuted.) *)
Theorem C14_ids : forall evs,
  let s := fst (c_run c_init evs) in
  forall id w, In (id, w) (c_reqs s) -> c_count s - w < TWO32 -> id <> c_next s.
Proof. exact next_id_fresh. Qed.
Print Assumptions C14_ids.

(* ... so such a request displaces no waiter, and the ids (and waiters) in the table are always
   pairwise distinct. *)
Theorem C14_ids_table : forall evs,
  let s := fst (c_run c_init evs) in
  NoDup (map fst (c_reqs s)) /\ NoDup (map snd (c_reqs s)) /\
  ((forall id w, In (id, w) (c_reqs s) -> c_count s - w < TWO32) ->
   forall id w, In (id, w) (c_reqs s) -> In (id, w) (c_reqs (fst (c_step s CSend)))).
Proof.
  intros evs. split; [apply outstanding_distinct|]. split; [apply outstanding_distinct|]. apply send_keeps_waiters.
Qed.
Print Assumptions C14_ids_table.

(* Without that hypothesis the statement of the plan ("ids are pairwise distinct while fewer than 2^32
   are outstanding") is false for the code as written: with a single request outstanding, 2^32 - 1
   further requests (each answered at once) bring the counter back to its id; the next request would
   take over its table entry. Reaching this state needs 2^32 requests on one session. *)
Theorem C14_ids_stale_refuted :
  exists evs, let s := fst (c_run c_init evs) in
              c_reqs s = [(0, 0)] /\ c_open s = true /\ c_next s = 0 /\ c_count s = TWO32.
Proof. exact stale_request_meets_wrapped_counter. Qed.
Print Assumptions C14_ids_stale_refuted.

(* ---- client: routing ---------------------------------------------------------------------- *)

(* Over every event sequence: a reply is only ever handed to the waiter whose request went out with
   that reply's id; request number w carries id w mod 2^32; nobody gets two outcomes. *)
Theorem C14_route : forall evs,
  let '(s, outs) := c_run c_init evs in
  (forall w ty id p, In (ODeliver w ty id p) outs -> In (OSent w id) outs) /\
  (forall w id, In (OSent w id) outs -> id = w mod TWO32) /\
  NoDup (outcome_waiters outs).
Proof. exact route_run. Qed.
Print Assumptions C14_route.

(* In every reachable live state, for every reply (any type, any payload): if a waiter is registered
   under its id it is delivered to exactly that waiter, unchanged, and all other waiters keep waiting
   (so the order in which replies arrive does not matter) - unless that waiter's caller was cancelled,
   in which case the late reply is dropped and the session goes on; if nobody is registered under the
   id (unknown or duplicate reply) every waiter that was not cancelled fails with BAD_MESSAGE, the
   session ends, and nothing is delivered. *)
Theorem C14_route_step : forall evs ty id p,
  let s := fst (c_run c_init evs) in
  c_open s = true ->
  (forall w, In (id, w) (c_reqs s) ->
     exists rest,
       (forall x, In x (c_reqs s) -> x = (id, w) \/ In x rest) /\ ~ In id (map fst rest) /\
       c_step s (CRecv ty id p) =
         if memz w (c_cancelled s)
         then (mkc (c_next s) (c_count s) rest true (removez w (c_cancelled s)), [])
         else (mkc (c_next s) (c_count s) rest true (c_cancelled s), [ODeliver w ty id p])) /\
  ((forall w, ~ In (id, w) (c_reqs s)) ->
     c_step s (CRecv ty id p) =
       (mkc (c_next s) (c_count s) [] false [],
        map (fun kw => OFail (snd kw) (ESftp FX_BAD_MESSAGE))
            (filter (fun kw => negb (memz (snd kw) (c_cancelled s))) (c_reqs s)))).
Proof. exact route_step. Qed.
Print Assumptions C14_route_step.

(* Cancelling a caller never removes a table entry (so the reply the server still owes is not mistaken
   for an unknown id) and never ends the session. *)
Theorem C14_cancel_keeps_table : forall s w,
  c_reqs (fst (c_step s (CCancel w))) = c_reqs s /\ c_open (fst (c_step s (CCancel w))) = c_open s.
Proof. exact cancel_keeps_table. Qed.
Print Assumptions C14_cancel_keeps_table.

(* When the session ends - clean EOF, a frame too short to carry an id, or the stream failing with
   ConnectionLost / DisconnectError / a reset - in any live state with any number of requests outstanding:
   the table is drained, and every waiter that was not cancelled is failed (with C14_route: exactly once). *)
Theorem C14_session_end : forall s e,
  is_end e = true -> c_open s = true ->
  c_reqs (fst (c_step s e)) = [] /\ c_open (fst (c_step s e)) = false /\
  forall id w, In (id, w) (c_reqs s) -> memz w (c_cancelled s) = false ->
               exists x, In (OFail w x) (snd (c_step s e)).
Proof. exact session_end_drains. Qed.
Print Assumptions C14_session_end.

(* ---- client: reply type ------------------------------------------------------------------- *)

(* A caller only ever gets a value from a reply whose type is the one its request calls for; a STATUS
   reply gives a normal return only to requests answered by status alone. *)
Theorem C14_type : forall v rt ty p val,
  accept v rt ty p = Ok val ->
  (ty = FXP_STATUS /\ rt = None /\ val = VNone) \/ (rt = Some ty /\ ty <> FXP_STATUS).
Proof. exact accept_type. Qed.
Print Assumptions C14_type.

Theorem C14_type_wrong : forall v rt ty p,
  ty <> FXP_STATUS -> rt <> Some ty -> accept v rt ty p = Err (ESftp FX_BAD_MESSAGE).
Proof. exact accept_wrong_type. Qed.
Print Assumptions C14_type_wrong.

(* Whatever reply arrives for a request (any type, any body: truncated, over-long, claiming 2^32-1 names,
   invalid text ...), a caller that is not handed a value is handed an SFTPError carrying a status code;
   in particular an undecodable body of a legal type is BAD_MESSAGE, never a bare decode error. *)
Theorem C14_reply_errors : forall v rt ty p e, accept v rt ty p = Err e -> exists c, e = ESftp c.
Proof. exact accept_err_is_sftp. Qed.
Print Assumptions C14_reply_errors.

(* The code before the repair ("report malformed SFTP replies ... as SFTPBadMessage") did leak the
   decoder's own exception to the caller, e.g. for a 2-byte FXP_ATTRS reply to a STAT request. *)
Theorem C14_reply_errors_old_refuted : exists v rt ty p, accept_old v rt ty p = Err EDecode.
Proof. exact accept_old_leaks. Qed.
Print Assumptions C14_reply_errors_old_refuted.

(* ---- server: one reply per request --------------------------------------------------------- *)

(* For every protocol version, every session state, every sequence of request packets long enough to
   carry a type and an id (any type, any body: truncated, extended, random), every behaviour of the
   application behind the server (return, return nothing, SFTPError, OSError, NotImplementedError, any
   other exception) and of the attribute formatter: each packet is answered by exactly one reply, with
   the packet's id, of type STATUS or the reply type of the request it names; every status code sent in
   versions 3-6 is one the version defines; and the session stays open. *)
Theorem C14_server_once : forall fmt_ok v pkts s,
  s_open s = true -> Forall (fun pb => (5 <= length (fst pb))%nat) pkts ->
  s_open (fst (s_run fmt_ok v s pkts)) = true /\
  Forall2 (fun pb rs => answered_once v (fst pb) rs) pkts (snd (s_run fmt_ok v s pkts)).
Proof. intros. apply s_run_once; assumption. Qed.
Print Assumptions C14_server_once.

(* A request type the server has no handler for: OP_UNSUPPORTED, state untouched. *)
Theorem C14_server_unsupported : forall fmt_ok v s ty id body br k b,
  key_and_body ty body = Ok (k, b) -> req_spec v k = None ->
  s_process fmt_ok v s ty id body br = (s, [mkreply FXP_STATUS id (RStatus FX_OP_UNSUPPORTED)]).
Proof. exact s_process_unsupported. Qed.
Print Assumptions C14_server_unsupported.

(* A body that cannot be decoded: an error status (BAD_MESSAGE for a short packet), state untouched,
   the application is not called. *)
Theorem C14_server_malformed : forall fmt_ok v s ty id body br k b fs ec e,
  key_and_body ty body = Ok (k, b) -> req_spec v k = Some (fs, ec) -> parse_flds v fs b = Err e ->
  s_process fmt_ok v s ty id body br = (s, [mkreply FXP_STATUS id (ladder v e)]).
Proof. exact s_process_malformed. Qed.
Print Assumptions C14_server_malformed.

(* Bytes after a complete body, where the handler checks for the end: BAD_MESSAGE. *)
Theorem C14_server_trailing : forall fmt_ok v s ty id body br k b fs ec xs rest,
  key_and_body ty body = Ok (k, b) -> req_spec v k = Some (fs, ec) -> parse_flds v fs b = Ok (xs, rest) ->
  rest <> [] -> (ec = EndAlways \/ (ec = EndLt6 /\ v < 6)) ->
  s_process fmt_ok v s ty id body br = (s, [mkreply FXP_STATUS id (RStatus FX_BAD_MESSAGE)]).
Proof. exact s_process_trailing. Qed.
Print Assumptions C14_server_trailing.

(* Every truncation: if the body of a request decodes completely (nothing left over) under the layout of
   its request type, then the same request with any non-empty suffix of that body cut off is answered
   by exactly one STATUS reply with its id and a code other than FX_OK, whatever the application would
   have done, and the server state is unchanged.  (Layouts ending in an open-ended list are excluded:
   there is exactly one, the SFTPv6 REALPATH compose-path list, C14_server_open_ended.) *)
Theorem C14_server_truncation : forall fmt_ok v s ty id body' br k b b' t fs ec xs,
  req_spec v k = Some (fs, ec) -> no_rest fs -> parse_flds v fs b = Ok (xs, []) ->
  b = b' ++ t -> t <> [] -> key_and_body ty body' = Ok (k, b') ->
  exists c, s_process fmt_ok v s ty id body' br = (s, [mkreply FXP_STATUS id (RStatus c)]) /\ c <> FX_OK.
Proof. exact s_process_truncated. Qed.
Print Assumptions C14_server_truncation.

Theorem C14_server_open_ended : forall v k fs ec,
  req_spec v k = Some (fs, ec) -> no_rest fs \/ (k = HInt FXP_REALPATH /\ 6 <= v).
Proof. exact req_spec_rest. Qed.
Print Assumptions C14_server_open_ended.

(* ---- codecs -------------------------------------------------------------------------------- *)

(* In each of the versions 3..6, every attribute record the version can carry (attrs_carriable: a
   boolean predicate over all 24 fields, i.e. over every combination of presence flags) encodes without
   error, and decoding the encoding - followed by any further bytes - returns exactly that record and
   leaves exactly those bytes. *)
Theorem C14_attrs_roundtrip : forall v a rest,
  3 <= v <= 6 -> attrs_carriable v a = true ->
  attrs_enc_ok v a = true /\ attrs_decode v (attrs_encode v a ++ rest) = Ok (a, rest).
Proof. intros v a rest Hv C. split; [apply attrs_carriable_enc_ok; assumption|apply attrs_rt; assumption]. Qed.
Print Assumptions C14_attrs_roundtrip.

Theorem C14_names_roundtrip : forall v n rest,
  3 <= v <= 6 -> name_carriable v n = true ->
  name_enc_ok v n = true /\ name_decode v (name_encode v n ++ rest) = Ok (n, rest).
Proof. intros v n rest Hv C. split; [apply name_carriable_enc_ok; assumption|apply name_rt; assumption]. Qed.
Print Assumptions C14_names_roundtrip.

(* the name list of an FXP_NAME reply *)
Theorem C14_name_list_roundtrip : forall v l rest,
  3 <= v <= 6 -> forallb (name_carriable v) l = true ->
  names_decode (S (length (flat_map (name_encode v) l ++ rest))) v (Z.of_nat (length l))
               (flat_map (name_encode v) l ++ rest) = Ok (l, rest).
Proof.
  intros v l rest Hv C. apply names_rt; [exact Hv| |exact C].
  clear C. induction l as [|n l IH]; cbn [length flat_map]; [lia|].
  rewrite <- app_assoc, app_length. pose proof (name_encode_nonempty v n). lia.
Qed.
Print Assumptions C14_name_list_roundtrip.

(* ---- status codes -------------------------------------------------------------------------- *)

(* Whatever code an error carries, the code sent to a version-v peer (3..6) is, when below 32, one
   that version v defines (docs/api.rst "SFTP error codes"); codes the version defines are sent
   unchanged (NOT_A_DIRECTORY below v6 excepted: it is sent as NO_SUCH_FILE). *)
Theorem C14_status_representable : forall v code,
  3 <= v <= 6 -> status_code_for v code <= FX_V6_END -> fx_min_version (status_code_for v code) <= v.
Proof. exact status_code_representable. Qed.
Print Assumptions C14_status_representable.

Theorem C14_status_unchanged : forall v code,
  0 <= code <= FX_V6_END -> fx_min_version code <= v -> code <> FX_NOT_A_DIRECTORY \/ 6 <= v ->
  status_code_for v code = code.
Proof. exact status_code_unchanged. Qed.
Print Assumptions C14_status_unchanged.

(* a status reply decodes to the code, reason and language it was built from *)
Theorem C14_status_roundtrip : forall v code reason lang,
  0 <= status_code_for v code < TWO32 -> status_code_for v code <> FX_UNKNOWN_PRINCIPAL ->
  str_ok reason = true -> utf8_valid reason = true -> str_ok lang = true -> ascii_valid lang = true ->
  status_decode v (status_encode v code reason lang) = Ok (status_code_for v code, reason, lang).
Proof. exact status_rt. Qed.
Print Assumptions C14_status_roundtrip.

(* ---- tables taken from the running code on this run (Gen/SftpTables.v) ----------------------- *)

(* Every errno in the table (all values 0..159 and "no errno", each probed on the running server in
   every version): the status code observed is the documented one (errno_code) after the version
   down-mapping, and it is a code the version defines. *)
Theorem C14_errno_table : forall e sym codes v,
  In (e, sym, codes) gen_errno_status -> 3 <= v <= 6 ->
  nth (Z.to_nat (v - 3)) codes 0 = status_code_for v (errno_code sym) /\
  fx_min_version (nth (Z.to_nat (v - 3)) codes 0) <= v.
Proof. exact errno_table_spec. Qed.
Print Assumptions C14_errno_table.

(* Every SFTPError code in the table (0..47 and some large ones), every version: the code observed
   on the wire is status_code_for. *)
Theorem C14_sftp_error_table : forall c codes v,
  In (c, codes) gen_sftp_status -> 3 <= v <= 6 -> nth (Z.to_nat (v - 3)) codes 0 = status_code_for v c.
Proof. exact sftp_table_spec. Qed.
Print Assumptions C14_sftp_error_table.

(* The running server has a handler for packet type t (0..255, per version) exactly when the model
   has a body layout for it; the attribute flag bits the running decoder accepts are those of the
   model; the exception the running client builds for status code c (0..47) carries c; and
   SFTPHandler._return_types is the model's return_type. *)
Theorem C14_code_tables :
  handled_table_ok gen_handled_types = true /\
  attr_bits_table_ok gen_accepted_attr_bits = true /\
  client_err_table_ok gen_client_error_code = true /\
  return_types_table_ok gen_return_types_available gen_return_types_int gen_return_types_ext = true.
Proof.
  split; [exact handled_table_checked|]. split; [exact attr_bits_table_checked|].
  split; [exact client_err_table_checked|exact return_types_table_checked].
Qed.
Print Assumptions C14_code_tables.

(* ---- non-vacuity ---------------------------------------------------------------------------- *)

Example C14_carriable_v3 :
  attrs_carriable 3 (mkattrs FT_REGULAR (Some 5) None (Some 1000) (Some 100) None None (Some 33188)
                             (Some 1700000000) None None None (Some 1700000001) None None None
                             None None None None None None None [([107], [118])]) = true.
Proof. vm_compute. reflexivity. Qed.

Example C14_carriable_v6 :
  attrs_carriable 6 (mkattrs FT_FIFO (Some 5) (Some 4096) None None (Some [195; 188]) (Some [103]) (Some 420)
                             (Some 7) (Some 9) (Some 1) (Some 0) (Some 8) (Some 999999999) (Some 2) (Some 4294967295)
                             (Some [1; 2]) (Some 65) (Some 255) (Some 2) (Some [116; 47; 112]) (Some 3) (Some [255])
                             [([107], [118]); ([], [0])]) = true.
Proof. vm_compute. reflexivity. Qed.

(* three requests answered in the order 2, 0, then a reply with an unknown id: waiters 2 and 0 get
   their own replies, waiter 1 fails, the session ends *)
Example C14_route_example :
  snd (c_run c_init [CSend; CSend; CSend; CRecv 101 2 [22]; CRecv 105 0 [0]; CRecv 101 7 []]) =
  [OSent 0 0; OSent 1 1; OSent 2 2; ODeliver 2 101 2 [22]; ODeliver 0 105 0 [0]; OFail 1 (ESftp 5)].
Proof. vm_compute. reflexivity. Qed.

(* a truncated OPEN, an unknown type and a valid STAT: three replies, session open *)
Example C14_server_example :
  s_run (fun _ => true) 3 s_init
        [([3; 0;0;0;1; 0;0;0;9; 47], BOk); ([99; 0;0;0;2], BOk); ([17; 0;0;0;3; 0;0;0;1; 47], BOs 1)] =
  (s_init, [[mkreply 101 1 (RStatus 5)]; [mkreply 101 2 (RStatus 8)]; [mkreply 101 3 (RStatus 2)]]).
Proof. vm_compute. reflexivity. Qed.
