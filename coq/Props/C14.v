(* C14 - Each SFTP request gets exactly one matching, well-typed reply. (placeholder while building) *)
From AV Require Import Base.Prelude Model.SftpProto Proofs.SftpProtoProofs.

Theorem C14_u32_roundtrip : forall x r, 0 <= x < TWO32 -> get_u32 (put_u32 x ++ r) = Some (x, r).
Proof. exact get_put_u32. Qed.
Print Assumptions C14_u32_roundtrip.
