(* C15 - Keys survive every export/import path and interoperate.
   Statements only; proofs are in Proofs/DERProofs.v and Proofs/KeyFmtProofs.v.
   The theorems are about the codec / armour / container layer of the model (Model/DER.v,
   Model/KeyFmt.v); ciphers, KDFs and the key mathematics are parameters. *)
From AV Require Import Base.Prelude Model.DER Model.KeyFmt Proofs.DERProofs Proofs.KeyFmtProofs.

(* der_decode (der_encode v) = v for every value of the universe of asn1.py that the encoder accepts,
   except the deviations excluded by [good] (each refuted separately below): tag number 31,
   RawDERObject/TaggedDERObject carrying a universal tag the decoder knows, object identifiers whose
   first two arcs encode to 128 or more, and SET given in a non-canonical listing. *)
Theorem C15_der_roundtrip : forall v, good v = true -> der_decode (enc v) = Ok v.
Proof. exact der_roundtrip. Qed.
Print Assumptions C15_der_roundtrip.

(* the same inside a longer buffer (der_decode_partial / items of a SEQUENCE): the trailing bytes are
   returned untouched *)
Theorem C15_der_partial_roundtrip : forall v rest, good v = true ->
  exists fuel, dec fuel (enc v ++ rest) = Ok (v, rest).
Proof. exact der_partial_roundtrip. Qed.
Print Assumptions C15_der_partial_roundtrip.

(* distinct values have distinct encodings *)
Theorem C15_der_encode_injective : forall v1 v2,
  good v1 = true -> good v2 = true -> enc v1 = enc v2 -> v1 = v2.
Proof. exact der_encode_injective. Qed.
Print Assumptions C15_der_encode_injective.

(* the model decoder terminates with a value or an error on every byte string: nesting depth is
   bounded by the input length, so no depth is "too deep" for the model.  The real decoder (after
   364f43a) reports nesting beyond Python's recursion limit as ASN1DecodeError; that stack-dependent
   limit is not modelled - the harness accepts exactly {model result, ASN1DecodeError} for deep input
   and nothing else (in particular no RecursionError). *)
Theorem C15_der_decode_total : forall data, der_decode data <> Err OutOfFuel.
Proof. exact der_decode_total. Qed.
Print Assumptions C15_der_decode_total.

(* every failure of the decoder is reported in one class, ASN1DecodeError (code of record after
   5ce3b74), for every byte string *)
Theorem C15_der_decode_error_class : forall data e, der_decode data = Err e -> e = DecodeErr.
Proof. exact der_decode_error_class. Qed.
Print Assumptions C15_der_decode_error_class.

(* record of the repaired defect: the class methods themselves report a BIT STRING with non-zero
   unused bits as ASN1EncodeError and an invalid UTF8String as UnicodeDecodeError; before 5ce3b74
   these classes escaped from der_decode *)
Theorem C15_der_decode_error_class_old_refuted :
  dec_primitive_old 3 false [1; 1] = Err EncodeErr /\ dec_primitive_old 12 false [195; 40] = Err UnicodeErr.
Proof. exact old_error_classes. Qed.
Print Assumptions C15_der_decode_error_class_old_refuted.

(* deviation: a tag number of exactly 31 is emitted in the short form and cannot be decoded *)
Theorem C15_der_tag31_refuted : exists v, enc_ok v = true /\ der_decode (enc v) = Err DecodeErr.
Proof. exact tag31_not_roundtrip. Qed.
Print Assumptions C15_der_tag31_refuted.

(* deviation: an OID 2.x with x >= 48 is encoded correctly but decoded as a different OID *)
Theorem C15_der_oid_first_arc_refuted :
  exists c c', oid_ok c = true /\ c <> c' /\ der_decode (enc (VOid c)) = Ok (VOid c').
Proof. exact oid_first_arc_not_roundtrip. Qed.
Print Assumptions C15_der_oid_first_arc_refuted.

(* encode . decode is not the identity on the decoder's accepted set: long-form lengths (also padded
   integers, long-form small tags, unsorted sets) are accepted *)
Theorem C15_der_canonical_refuted : exists d v, good v = true /\ der_decode d = Ok v /\ enc v <> d.
Proof. exact decoder_not_canonical. Qed.
Print Assumptions C15_der_canonical_refuted.

(* ---- base64 and line folding ---- *)

(* a2b_base64 (b2a_base64 data) = data for every byte string *)
Theorem C15_base64_roundtrip : forall data, Forall is_byte data -> a2b (b2a data) = Some data.
Proof. exact a2b_b2a. Qed.
Print Assumptions C15_base64_roundtrip.

(* ... and for every text obtained from the encoding by inserting characters outside the alphabet
   anywhere (line folding at any width, CR LF, indentation, trailing blanks) *)
Theorem C15_base64_armour_roundtrip : forall data s,
  Forall is_byte data -> filter b64_relevant s = b2a data -> a2b s = Some data.
Proof. exact a2b_b2a_with_junk. Qed.
Print Assumptions C15_base64_armour_roundtrip.

(* in particular for the folding done by wrap_base64 at any line width *)
Theorem C15_base64_folded_roundtrip : forall data wrap k,
  Forall is_byte data -> a2b (fold_lines wrap k (b2a data)) = Some data.
Proof. exact a2b_folded. Qed.
Print Assumptions C15_base64_folded_roundtrip.

(* ---- armour and format sniffing ---- *)

(* A PEM block written by wrap_base64 (any data, any line width, any key type such as
   "PRIVATE KEY"/"PUBLIC KEY", PEM name absent or a blank-free word such as RSA, EC, OPENSSH,
   ENCRYPTED) is found by _match_next, its footer is located and the content decodes to the original
   bytes with the PEM name recovered.  (Blocks with Proc-Type/DEK-Info headers and RFC 4716 blocks are
   covered by the correspondence only.) *)
Theorem C15_pem_armour_roundtrip : forall known name keytype data wrap public,
  Forall is_byte data -> no_nl keytype ->
  match name with Some n => no_ws n = true /\ n <> [] | None => True end ->
  match_next known (wrap_base64 data (pem_block_type name keytype) [] false wrap) keytype public =
  FPem (match name with Some n => n | None => [] end) [] data [].
Proof. exact pem_roundtrip. Qed.
Print Assumptions C15_pem_armour_roundtrip.

(* Trailing whitespace tolerated by the footer match (misc.match_base64, as on HEAD): after the footer
   text any run of blank, TAB, CR, FF, VT on the line - hence CRLF and CR-terminated files - and any
   number of whitespace-only lines after it; the match then ends at the end of the data. *)
Theorem C15_footer_trailing_whitespace : forall footer ws blanks,
  all_ws ws = true -> forallb all_ws blanks = true ->
  find_footer footer ((footer ++ ws) :: blanks) = Some ([], []).
Proof. exact footer_trailing_whitespace. Qed.
Print Assumptions C15_footer_trailing_whitespace.

(* The one-line OpenSSH public format (code of record, after fdd47d0): for every comment without LF/CR
   that neither starts nor ends with a blank the export succeeds and algorithm, blob and comment are
   read back. *)
Theorem C15_openssh_public_line_roundtrip : forall known alg a0 alg' blob comment,
  alg = a0 :: alg' -> a0 <> 45 -> a0 <> 48 -> no_ws alg = true -> known alg = true ->
  Forall is_byte blob -> blob <> [] ->
  match comment with Some c => comment_survives_line c /\ ~ In 13 c | None => True end ->
  exists text, export_openssh_public alg blob comment = Some text /\
               match_next known text PUBLIC_KEY true = FOpenSSH alg comment blob [].
Proof. exact openssh_public_export_import. Qed.
Print Assumptions C15_openssh_public_line_roundtrip.

(* a comment containing LF or CR is refused by both text exports (KeyExportError), for every key *)
Theorem C15_public_comment_newline_export_refused : forall alg blob c,
  In 10 c \/ In 13 c ->
  export_openssh_public alg blob (Some c) = None /\ export_rfc4716 blob (Some c) = None.
Proof. exact newline_comment_export_refused. Qed.
Print Assumptions C15_public_comment_newline_export_refused.

(* the unrepaired export (no check): a newline truncated the comment and turned its rest into another
   line of the file, and an RFC 4716 block with a newline comment was not importable (findings fixed
   by fdd47d0) *)
Theorem C15_public_comment_any_bytes_old_refuted :
  (exists alg blob c c' rest, c <> c' /\
     match_next (fun _ => true) (export_openssh_public_old alg blob (Some c)) PUBLIC_KEY true =
     FOpenSSH alg (Some c') blob rest) /\
  (exists blob c, match_next (fun _ => true) (export_rfc4716_old blob (Some c)) PUBLIC_KEY true = FErr ImportErr).
Proof.
  split.
  - exists [115; 115; 104], [1; 2; 3], [97; 10; 98], [97], [98; 10]. split; [discriminate|].
    exact openssh_public_comment_newline_not_preserved.
  - exists [1; 2; 3], [97; 10; 98]. exact rfc4716_comment_newline_not_importable.
Qed.
Print Assumptions C15_public_comment_any_bytes_old_refuted.

(* still true of the code of record (known finding C15-4): the one-line format drops blanks at the
   edges of a comment - the export succeeds and a different comment is read back *)
Theorem C15_public_comment_edge_blank_refuted :
  exists alg blob c c' text, c <> c' /\ export_openssh_public alg blob (Some c) = Some text /\
    match_next (fun _ => true) text PUBLIC_KEY true = FOpenSSH alg (Some c') blob [].
Proof.
  exists [115; 115; 104], [1; 2; 3], [32; 97], [97], (export_openssh_public_old [115; 115; 104] [1; 2; 3] (Some [32; 97])).
  split; [discriminate|]. exact openssh_public_comment_blank_not_preserved.
Qed.
Print Assumptions C15_public_comment_edge_blank_refuted.

(* ---- openssh-key-v1 container ---- *)

(* Export then import of an unencrypted container returns the same key parameters and the same
   comment for EVERY comment byte string, every 4-byte check value, every public blob.  Premise: the
   key handler reads back its own encoding and leaves the following bytes alone. *)
Theorem C15_openssh_container_roundtrip :
  forall (params : Type) (enc_priv : params -> bytes) (dec_priv : bytes -> option (params * bytes))
         cipher_known block_size kdf encrypt decrypt,
  (forall p rest, dec_priv (enc_priv p ++ rest) = Some (p, rest)) ->
  forall check p comment pub,
  length check = 4%nat -> zlen comment < 2 ^ 32 -> zlen pub < 2 ^ 32 ->
  zlen (openssh_pad 8 (check ++ check ++ enc_priv p ++ sshstring comment)) < 2 ^ 32 ->
  openssh_decode params dec_priv cipher_known kdf decrypt
    (openssh_encode params enc_priv block_size kdf encrypt check p comment pub None) None = OOk (p, comment).
Proof. exact openssh_container_roundtrip. Qed.
Print Assumptions C15_openssh_container_roundtrip.

(* The same with a cipher, for every cipher/KDF satisfying decrypt k (encrypt k x) = x. *)
Theorem C15_openssh_container_roundtrip_encrypted :
  forall (params : Type) (enc_priv : params -> bytes) (dec_priv : bytes -> option (params * bytes))
         cipher_known block_size kdf encrypt decrypt,
  (forall p rest, dec_priv (enc_priv p ++ rest) = Some (p, rest)) ->
  (forall alg k d, decrypt alg k (fst (encrypt alg k d)) (snd (encrypt alg k d)) = Some d) ->
  forall check p comment pub alg pass salt rounds,
  length check = 4%nat -> zlen comment < 2 ^ 32 -> zlen pub < 2 ^ 32 ->
  zlen alg < 2 ^ 32 -> zlen salt < 2 ^ 32 - 8 -> 0 <= rounds < 2 ^ 32 ->
  cipher_known alg = true -> zlist_eqb alg NONE_ = false -> 0 < block_size alg <= 255 ->
  (let plain := openssh_pad (Z.max (block_size alg) 8) (check ++ check ++ enc_priv p ++ sshstring comment) in
   zlen (fst (encrypt alg (kdf alg pass rounds salt) plain)) < 2 ^ 32) ->
  openssh_decode params dec_priv cipher_known kdf decrypt
    (openssh_encode params enc_priv block_size kdf encrypt check p comment pub (Some (alg, pass, salt, rounds)))
    (Some pass) = OOk (p, comment).
Proof. exact openssh_container_roundtrip_encrypted. Qed.
Print Assumptions C15_openssh_container_roundtrip_encrypted.

(* Which paddings the importer accepts: 1,2,..,k for EVERY k below 256 - whatever block size the
   writer padded to (OpenSSH 0..7 bytes, cryptography 1..8, ...). *)
Theorem C15_openssh_padding_accepted :
  forall (params : Type) (enc_priv : params -> bytes) (dec_priv : bytes -> option (params * bytes)),
  (forall p rest, dec_priv (enc_priv p ++ rest) = Some (p, rest)) ->
  forall encrypted check p comment k,
  length check = 4%nat -> zlen comment < 2 ^ 32 -> (k < 256)%nat ->
  openssh_private_section params dec_priv encrypted
    (check ++ check ++ enc_priv p ++ sshstring comment ++ count_from 1 k) = OOk (p, comment).
Proof.
  intros params enc_priv dec_priv H.
  exact (private_section_padding_accepted params enc_priv dec_priv (fun _ => false) (fun _ => 8)
           (fun _ _ _ _ => []) (fun _ _ d => (d, [])) (fun _ _ d _ => Some d) H).
Qed.
Print Assumptions C15_openssh_padding_accepted.

(* The private key record - String(alg) then strings/mpints and, for the security-key types, the
   one-byte FLAGS - is read back field by field (the flags byte unchanged, any value).  This is the
   handler premise of the container theorems, proved for the real record layouts. *)
Theorem C15_key_record_roundtrip : forall layout_of (r : krecord) rest,
  layout_of (fst r) = Some (map field_is_str (snd r)) -> zlen (fst r) < 2 ^ 32 -> Forall field_ok (snd r) ->
  dec_record layout_of (enc_record r ++ rest) = Some (r, rest).
Proof. exact record_roundtrip. Qed.
Print Assumptions C15_key_record_roundtrip.

(* differing check integers are rejected *)
Theorem C15_openssh_check_mismatch_rejected :
  forall (params : Type) (dec_priv : bytes -> option (params * bytes)) encrypted c1 c2 rest,
  length c1 = 4%nat -> length c2 = 4%nat -> undigits 256 c1 <> undigits 256 c2 ->
  openssh_private_section params dec_priv encrypted (c1 ++ c2 ++ rest) =
  OErr (if encrypted then OEncryptionErr else OImportErr).
Proof. exact openssh_check_mismatch_rejected. Qed.
Print Assumptions C15_openssh_check_mismatch_rejected.

(* padding other than 1,2,3,... or of 256 bytes and more is rejected *)
Theorem C15_openssh_bad_padding_rejected :
  forall (params : Type) (enc_priv : params -> bytes) (dec_priv : bytes -> option (params * bytes)),
  (forall p rest, dec_priv (enc_priv p ++ rest) = Some (p, rest)) ->
  forall encrypted check p comment pad,
  length check = 4%nat -> zlen comment < 2 ^ 32 ->
  pad <> count_from 1 (length pad) \/ 256 <= zlen pad ->
  openssh_private_section params dec_priv encrypted (check ++ check ++ enc_priv p ++ sshstring comment ++ pad) =
  OErr OImportErr.
Proof.
  intros params enc_priv dec_priv H.
  exact (openssh_bad_padding_rejected params enc_priv dec_priv (fun _ => false) (fun _ => 8)
           (fun _ _ _ _ => []) (fun _ _ d => (d, [])) (fun _ _ d _ => Some d) H).
Qed.
Print Assumptions C15_openssh_bad_padding_rejected.

(* Wrong passphrase, partial: whatever the cipher returns under the wrong key - nothing (MAC/tag
   failure) or a plaintext whose two check integers differ - the import fails with
   KeyEncryptionError.  Missing for the full statement: that a wrong key makes the cipher return one
   of the two (a property of the cipher/KDF, outside the model); with probability 2^-32 per wrong
   passphrase an unauthenticated cipher yields equal check integers. *)
Theorem C15_openssh_wrong_passphrase_rejected_partial :
  forall (params : Type) (dec_priv : bytes -> option (params * bytes)) cipher_known kdf decrypt
         alg salt rounds pub data mac pass',
  zlen alg < 2 ^ 32 -> zlen salt < 2 ^ 32 - 8 -> 0 <= rounds < 2 ^ 32 -> zlen pub < 2 ^ 32 -> zlen data < 2 ^ 32 ->
  cipher_known alg = true -> zlist_eqb alg NONE_ = false ->
  (decrypt alg (kdf alg pass' rounds salt) data mac = None \/
   exists c1 c2 rest, decrypt alg (kdf alg pass' rounds salt) data mac = Some (c1 ++ c2 ++ rest) /\
                      length c1 = 4%nat /\ length c2 = 4%nat /\ undigits 256 c1 <> undigits 256 c2) ->
  openssh_decode params dec_priv cipher_known kdf decrypt
    (OPENSSH_KEY_V1 ++ sshstring alg ++ sshstring BCRYPT_ ++ sshstring (sshstring salt ++ u32 rounds) ++
     u32 1 ++ sshstring pub ++ sshstring data ++ mac) (Some pass') = OErr OEncryptionErr.
Proof.
  intros params dec_priv ck kdf decrypt.
  exact (openssh_wrong_passphrase_rejected_partial params (fun _ => []) dec_priv ck (fun _ => 8) kdf
           (fun _ _ d => (d, [])) decrypt).
Qed.
Print Assumptions C15_openssh_wrong_passphrase_rejected_partial.

(* ---- PKCS wrappers ---- *)

(* RFC 1423 padding is removed again, for every block size and data *)
Theorem C15_rfc1423_roundtrip : forall bs data, 0 < bs -> rfc1423_unpad bs (rfc1423_pad bs data) = Some data.
Proof. exact rfc1423_unpad_pad. Qed.
Print Assumptions C15_rfc1423_roundtrip.

(* RSA: PKCS#8 export (PKCS#1 RSAPrivateKey inside an OCTET STRING inside PrivateKeyInfo) followed by
   the import-side shape checks returns the eight integers, for all integers (of encodable size) *)
Theorem C15_rsa_pkcs8_roundtrip : forall n e d p q dmp1 dmq1 iqmp,
  good (rsa_pkcs1_private n e d p q dmp1 dmq1 iqmp) = true ->
  good (pkcs8_private RSA_OID (Some VNull) (enc (rsa_pkcs1_private n e d p q dmp1 dmq1 iqmp))) = true ->
  rsa_pkcs8_import (rsa_pkcs8_export n e d p q dmp1 dmq1 iqmp) = Some [n; e; d; p; q; dmp1; dmq1; iqmp].
Proof. exact rsa_pkcs8_roundtrip. Qed.
Print Assumptions C15_rsa_pkcs8_roundtrip.

(* ---- comments as options, OPTIONAL ASN.1 fields ---- *)

(* the comment of a key is an option; what export writes for it is read back as the same option
   (an explicitly empty comment is the same as none).  No file name enters the model's export. *)
Theorem C15_comment_option_roundtrip : forall c, c <> Some [] -> set_comment (comment_field c) = c.
Proof. exact comment_option_roundtrip. Qed.
Print Assumptions C15_comment_option_roundtrip.

(* PBKDF2-params (RFC 8018 A.2): keyLength OPTIONAL and prf DEFAULT are accepted present or absent *)
Theorem C15_pbkdf2_optional_fields_accepted : forall known dks salt count ks prf p,
  known prf = true ->
  pbkdf2_params known dks [VSeq [VOctets salt; VInt count]] = Some (salt, count, dks, HMAC_SHA1_OID) /\
  pbkdf2_params known dks [VSeq [VOctets salt; VInt count; VInt ks]] = Some (salt, count, ks, HMAC_SHA1_OID) /\
  pbkdf2_params known dks [VSeq [VOctets salt; VInt count; VSeq [VOid prf; p]]] = Some (salt, count, dks, prf) /\
  pbkdf2_params known dks [VSeq [VOctets salt; VInt count; VInt ks; VSeq [VOid prf; p]]] = Some (salt, count, ks, prf).
Proof. exact pbkdf2_optional_fields_accepted. Qed.
Print Assumptions C15_pbkdf2_optional_fields_accepted.

(* PrivateKeyInfo / OneAsymmetricKey: attributes [0] and publicKey [1] after the key are accepted *)
Theorem C15_pkcs8_trailing_fields_accepted : forall ver alg prm key extra,
  pkcs8_private_shape (VSeq (ver :: VSeq (alg :: prm) :: VOctets key :: extra)) =
  pkcs8_private_shape (VSeq [ver; VSeq (alg :: prm); VOctets key]).
Proof. exact pkcs8_trailing_fields_accepted. Qed.
Print Assumptions C15_pkcs8_trailing_fields_accepted.

(* non-vacuity: a PKCS#8-shaped tree with an explicit tag, a bit string and a set is [good] *)
Example C15_good_example :
  good (VSeq [VInt 0; VSeq [VOid [1; 2; 840; 10045; 2; 1]; VOid [1; 2; 840; 10045; 3; 1; 7]];
              VOctets [1; 2; 3]; VTagged 2 1 (VBits 0 [4; 200]); VSet [VBool true; VInt (-129)];
              VUtf8 [195; 169]; VRaw 1 40 [9]]) = true.
Proof. vm_compute. reflexivity. Qed.

(* non-vacuity of the container theorems: the field layout of ssh-ed25519 (two strings) satisfies the
   handler premise on a concrete key, and the export of a concrete key is imported back *)
Example C15_container_example :
  let enc_priv (p : bytes * bytes) := sshstring [115;115;104] ++ sshstring (fst p) ++ sshstring (snd p) in
  let dec_priv (b : bytes) :=
    match get_string b with
    | Some (_, r) => match get_string r with
                     | Some (a, r1) => match get_string r1 with Some (c, r2) => Some ((a, c), r2) | None => None end
                     | None => None end
    | None => None end in
  openssh_decode (bytes * bytes) dec_priv (fun _ => false) (fun _ _ _ _ => []) (fun _ _ d _ => Some d)
    (openssh_encode (bytes * bytes) enc_priv (fun _ => 8) (fun _ _ _ _ => []) (fun _ _ d => (d, []))
       [1; 2; 3; 4] ([7; 7], [8; 8; 8]) [0; 255; 10; 32] [9] None) None = OOk (([7; 7], [8; 8; 8]), [0; 255; 10; 32]).
Proof. vm_compute. reflexivity. Qed.

Example C15_rsa_pkcs8_example :
  rsa_pkcs8_import (rsa_pkcs8_export 3233 17 413 61 53 53 49 38) = Some [3233; 17; 413; 61; 53; 53; 49; 38].
Proof. vm_compute. reflexivity. Qed.

(* several keys in one file: the first block is returned together with the remaining text, from
   which the second block is returned *)
Example C15_two_blocks_example :
  let b1 := wrap_base64 [1; 2; 3] [80;82;73;86;65;84;69;32;75;69;89] [] false 64 in
  let b2 := wrap_base64 [4; 5] [82;83;65;32;80;82;73;86;65;84;69;32;75;69;89] [] false 64 in
  match_next (fun _ => false) (b1 ++ b2) PRIVATE_KEY false = FPem [] [] [1; 2; 3] (NL :: b2) /\
  match_next (fun _ => false) (NL :: b2) PRIVATE_KEY false = FPem [82; 83; 65] [] [4; 5] [].
Proof. vm_compute. split; reflexivity. Qed.

(* a security-key record with flags 0x25 (user presence, verify-required, resident) keeps its flags *)
Example C15_sk_record_example :
  dec_record (fun _ => Some SK_ED25519_LAYOUT)
    (enc_record ([115; 107], [FStr [1; 2]; FStr [115; 115; 104; 58]; FByte 37; FStr [9; 9; 9]; FStr []]) ++ [0; 0; 0; 0]) =
  Some (([115; 107], [FStr [1; 2]; FStr [115; 115; 104; 58]; FByte 37; FStr [9; 9; 9]; FStr []]), [0; 0; 0; 0]).
Proof. vm_compute. reflexivity. Qed.
