(* C15 - Keys survive every export/import path and interoperate.
   Statements only; proofs are in Proofs/DERProofs.v and Proofs/KeyFmtProofs.v.
   The theorems are about the codec / armour / container layer of the model (Model/DER.v,
   Model/KeyFmt.v); ciphers, KDFs and the key mathematics are parameters. *)
From AV Require Import Base.Prelude Model.DER Model.KeyFmt Proofs.DERProofs.

(* der_decode (der_encode v) = v for every value of the universe of asn1.py that the encoder accepts,
   except the deviations excluded by [good] (each refuted separately below): tag number 31,
   RawDERObject/TaggedDERObject carrying a universal tag the decoder knows, object identifiers whose
   first two arcs encode to 128 or more, and SET given in a non-canonical listing. *)
Theorem C15_der_roundtrip : forall v, good v = true -> der_decode (enc v) = Ok v.
Proof. exact der_roundtrip. Qed.
Print Assumptions C15_der_roundtrip.

(* the same inside a longer buffer (der_decode_partial / items of a SEQUENCE): the trailing bytes are
   returned untouched *)
Theorem C15_der_partial_roundtrip : forall v rest, good v = true ->
  exists fuel, dec fuel (enc v ++ rest) = Ok (v, rest).
Proof. exact der_partial_roundtrip. Qed.
Print Assumptions C15_der_partial_roundtrip.

(* distinct values have distinct encodings *)
Theorem C15_der_encode_injective : forall v1 v2,
  good v1 = true -> good v2 = true -> enc v1 = enc v2 -> v1 = v2.
Proof. exact der_encode_injective. Qed.
Print Assumptions C15_der_encode_injective.

(* the model decoder terminates with a value or an error on every byte string (nesting depth is
   bounded by the input length; the real decoder instead hits Python's recursion limit) *)
Theorem C15_der_decode_total : forall data, der_decode data <> Err OutOfFuel.
Proof. exact der_decode_total. Qed.
Print Assumptions C15_der_decode_total.

(* deviation: a tag number of exactly 31 is emitted in the short form and cannot be decoded *)
Theorem C15_der_tag31_refuted : exists v, enc_ok v = true /\ der_decode (enc v) = Err DecodeErr.
Proof. exact tag31_not_roundtrip. Qed.
Print Assumptions C15_der_tag31_refuted.

(* deviation: an OID 2.x with x >= 48 is encoded correctly but decoded as a different OID *)
Theorem C15_der_oid_first_arc_refuted :
  exists c c', oid_ok c = true /\ c <> c' /\ der_decode (enc (VOid c)) = Ok (VOid c').
Proof. exact oid_first_arc_not_roundtrip. Qed.
Print Assumptions C15_der_oid_first_arc_refuted.

(* encode . decode is not the identity on the decoder's accepted set: long-form lengths (also padded
   integers, long-form small tags, unsorted sets) are accepted *)
Theorem C15_der_canonical_refuted : exists d v, good v = true /\ der_decode d = Ok v /\ enc v <> d.
Proof. exact decoder_not_canonical. Qed.
Print Assumptions C15_der_canonical_refuted.

(* non-vacuity: a PKCS#8-shaped tree with an explicit tag, a bit string and a set is [good] *)
Example C15_good_example :
  good (VSeq [VInt 0; VSeq [VOid [1; 2; 840; 10045; 2; 1]; VOid [1; 2; 840; 10045; 3; 1; 7]];
              VOctets [1; 2; 3]; VTagged 2 1 (VBits 0 [4; 200]); VSet [VBool true; VInt (-129)];
              VUtf8 [195; 169]; VRaw 1 40 [9]]) = true.
Proof. vm_compute. reflexivity. Qed.
