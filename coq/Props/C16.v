(* C16 - Signatures and certificates verify only when nothing was altered.
   Statements only; proofs are in Proofs/CertProofs.v.  Cryptography is symbolic: every theorem is
   universally quantified over the signature check [sigok], the key-material checks, the
   IP-network parser and the hash function (they are explicit arguments, not assumptions). *)
From AV Require Import Base.Prelude Model.Cert Proofs.CertProofs.

(* --- wire codecs ------------------------------------------------------------------------------ *)

(* Decoding a field list is the exact inverse of encoding it: a byte string decodes to [vs] with
   rest [r] exactly when it IS the encoding of [vs] followed by [r] (all byte strings). *)
Theorem C16_fields_decode_exact : forall ks l vs r, bytes_ok l = true ->
  (dec_vals ks l = Some (vs, r) <-> l = enc_vals vs ++ r /\ map kind_of vs = ks /\ Forall wf_val vs).
Proof.
  intros ks l vs r Hok. split; [apply dec_vals_inv; exact Hok|].
  intros (-> & <- & Hwf). apply dec_vals_enc. exact Hwf.
Qed.
Print Assumptions C16_fields_decode_exact.

(* --- signature verify gate -------------------------------------------------------------------- *)

(* SSHKey.verify returns true exactly when the blob is String(alg) ++ rest for an algorithm name
   that belongs to the key and the key-specific check accepts (data, alg, rest).  The
   decomposition of a blob is unique, so changing the name or the rest changes what is checked. *)
Theorem C16_verify_alg_gate : forall algs vssh data sig, bytes_ok sig = true ->
  (key_verify algs vssh data sig = true <->
   exists alg rest, sig = enc_string alg ++ rest /\ zlen alg < 2 ^ 32 /\ In alg algs /\
                    vssh data alg rest = true).
Proof. exact key_verify_iff. Qed.
Print Assumptions C16_verify_alg_gate.

Theorem C16_sig_blob_unique : forall a b r r',
  zlen a < 2 ^ 32 -> zlen b < 2 ^ 32 -> enc_string a ++ r = enc_string b ++ r' -> a = b /\ r = r'.
Proof. exact enc_string_inj. Qed.
Print Assumptions C16_sig_blob_unique.

(* --- certificates ----------------------------------------------------------------------------- *)

(* Any change of any certificate field changes the bytes the CA signs (registered algorithms,
   field values that fit their wire width). *)
Theorem C16_cert_signed_region_inj : forall c c' ka ka',
  wf_cert c -> wf_cert c' ->
  cert_alg_lookup (cf_alg c) = Some (ka, length (cf_key c)) ->
  cert_alg_lookup (cf_alg c') = Some (ka', length (cf_key c')) ->
  enc_tbs c = enc_tbs c' -> c = c'.
Proof. exact enc_tbs_inj. Qed.
Print Assumptions C16_cert_signed_region_inj.

(* A certificate blob is imported exactly when: it is the encoding of a well-formed field record
   followed by a signature String and nothing else; the bytes handed to the CA signature check
   are exactly the encoding of those fields (everything before the signature); the CA key decodes
   and its signature check on those bytes succeeds; key id and principals are UTF-8; type is user
   or host and the options/extensions decode. *)
Theorem C16_cert_import_iff : forall sigok pubkey_ok keyfields_ok addrs_ok blob ci,
  bytes_ok blob = true ->
  (cert_import sigok pubkey_ok keyfields_ok addrs_ok blob = ROk ci <->
   cert_spec sigok pubkey_ok keyfields_ok addrs_ok blob ci).
Proof. exact cert_import_iff. Qed.
Print Assumptions C16_cert_import_iff.

(* validate(cert_type, principal) succeeds exactly when the type matches (or ANY is asked),
   valid_after <= now < valid_before, and the principal is listed or the list is empty. *)
Theorem C16_validate_iff : forall ci want principal now,
  cert_validate ci want principal now = VOk <->
  (want = CERT_TYPE_ANY \/ want = cf_type (ci_fields ci)) /\
  cf_va (ci_fields ci) <= now < cf_vb (ci_fields ci) /\
  match principal with
  | None => True
  | Some p => ci_principals ci = [] \/ In p (ci_principals ci)
  end.
Proof. exact cert_validate_ok_iff. Qed.
Print Assumptions C16_validate_iff.

(* import + validate: accepted <=> CA signature over the exact contents /\ type /\ window /\
   principal (and the well-formedness conditions of cert_spec, which include the options). *)
Theorem C16_cert_accept_iff : forall sigok pubkey_ok keyfields_ok addrs_ok blob want principal now,
  bytes_ok blob = true ->
  (cert_accept sigok pubkey_ok keyfields_ok addrs_ok blob want principal now = true <->
   exists ci, cert_spec sigok pubkey_ok keyfields_ok addrs_ok blob ci /\
     (want = CERT_TYPE_ANY \/ want = cf_type (ci_fields ci)) /\
     cf_va (ci_fields ci) <= now < cf_vb (ci_fields ci) /\
     match principal with
     | None => True
     | Some p => ci_principals ci = [] \/ In p (ci_principals ci)
     end).
Proof. exact cert_accept_iff. Qed.
Print Assumptions C16_cert_accept_iff.

(* Every critical option of an imported certificate is understood: the critical-options field is
   a sequence of (name, data) pairs, each name is in the table for the certificate type (none for
   host certificates) and its data is well-formed for that option. *)
Theorem C16_critical_options_understood : forall addrs_ok typ o e l,
  bytes_ok o = true -> cert_options addrs_ok typ o e = ROk l ->
  exists pairs lo, o = enc_pairs pairs /\ spec_options addrs_ok (known_critical typ) true pairs = Some lo /\
    Forall (fun p => exists k v, assoc (fst p) (known_critical typ) = Some k /\
                                 dec_optval addrs_ok k (snd p) = Some v) pairs.
Proof. exact cert_options_critical_understood. Qed.
Print Assumptions C16_critical_options_understood.

(* Options AND extensions are read as (name, data) pairs (all byte strings, both modes): decoding
   succeeds exactly when the field is a sequence of pairs, and the result is the walk over those
   pairs in which a known name must carry well-formed data and an unknown name is an error when
   critical and is skipped together with its data otherwise.  So an extension is granted only if
   a pair with that NAME is in the signed field. *)
Theorem C16_options_follow_pairs : forall addrs_ok known critical p l, bytes_ok p = true ->
  (dec_options addrs_ok (length p) known critical p = ROk l <->
   exists pairs, p = enc_pairs pairs /\ Forall wf_pair pairs /\
                 spec_options addrs_ok known critical pairs = Some l).
Proof. exact dec_options_pairs_iff. Qed.
Print Assumptions C16_options_follow_pairs.

(* The parser before /repo commit d13f6e7 (dec_options_old: unknown extension data NOT consumed)
   did not follow the pairs: the data of an unknown extension was read as a known extension name. *)
Theorem C16_old_extensions_follow_pairs_refuted :
  exists pairs l, dec_options_old (fun _ => true) 100 user_extension_kinds false (enc_pairs pairs) = ROk l /\
                  In (N_permit_pty, OTrue) l /\ ~ In N_permit_pty (map fst pairs).
Proof. exists quirk_pairs. exact extensions_quirk. Qed.
Print Assumptions C16_old_extensions_follow_pairs_refuted.

(* Parsing loops never report out-of-fuel. *)
Theorem C16_import_total : forall sigok pubkey_ok keyfields_ok addrs_ok blob,
  cert_import sigok pubkey_ok keyfields_ok addrs_ok blob <> RFuel.
Proof. exact cert_import_no_fuel. Qed.
Print Assumptions C16_import_total.

(* --- SSHSIG ----------------------------------------------------------------------------------- *)

(* The bytes signed by SSHSIG determine the namespace, the hash algorithm and the message digest. *)
Theorem C16_sshsig_data_inj : forall ns h d ns' h' d',
  zlen ns < 2 ^ 32 -> zlen h < 2 ^ 32 -> zlen d < 2 ^ 32 ->
  zlen ns' < 2 ^ 32 -> zlen h' < 2 ^ 32 -> zlen d' < 2 ^ 32 ->
  sshsig_tbs ns h d = sshsig_tbs ns' h' d' -> ns = ns' /\ h = h' /\ d = d'.
Proof. exact sshsig_tbs_inj. Qed.
Print Assumptions C16_sshsig_data_inj.

Theorem C16_sshsig_signed_data : forall hash msg ih hname nsb tbs,
  signed_data hash msg ih hname nsb = Some tbs ->
  tbs = sshsig_tbs nsb hname (the_digest hash msg ih hname) /\ nsb <> [] /\
  exists sz, hash_size hname = Some sz /\ (ih = true -> zlen msg = sz).
Proof. exact signed_data_some. Qed.
Print Assumptions C16_sshsig_signed_data.

(* validate_sshsig returns True exactly when the file is a well-formed version-1 SSHSIG blob whose
   signer (an importable certificate's subject key, else a bare public key) signed the data built
   from THIS message, the namespace and hash named in the blob, and the allowed-signers entries
   authorise either that key for (principal, namespace, now) or - for a certificate - its CA
   through a cert-authority entry together with cert.validate(CERT_TYPE_USER, principal) at now. *)
Theorem C16_sshsig_accept_iff :
  forall sigok pubkey_ok keyfields_ok addrs_ok hash msg ih raw principal entries now,
  bytes_ok raw = true ->
  (sshsig_validate sigok pubkey_ok keyfields_ok addrs_ok hash msg ih raw principal entries now = SAccept <->
   sshsig_spec sigok pubkey_ok keyfields_ok addrs_ok hash CERT_TYPE_USER msg ih raw principal entries now).
Proof. exact sshsig_user_accept_iff. Qed.
Print Assumptions C16_sshsig_accept_iff.

Theorem C16_sshsig_total :
  forall sigok pubkey_ok keyfields_ok addrs_ok hash msg ih raw principal entries now,
  sshsig_validate sigok pubkey_ok keyfields_ok addrs_ok hash msg ih raw principal entries now <> SFuel.
Proof. exact sshsig_user_no_fuel. Qed.
Print Assumptions C16_sshsig_total.

(* An allowed-signers decision is the existence of an entry of the right kind with the same key
   whose principal patterns, namespaces and validity window match. *)
Theorem C16_allowed_signers_iff : forall entries key principal ns now ca,
  as_validate entries key principal ns now ca = true <->
  exists e, In e entries /\ e_ca e = ca /\ e_key e = key /\
    patlist_matches (e_princ e) principal = true /\
    (forall pl, e_ns e = Some pl -> patlist_matches pl ns = true) /\
    (forall t, e_va e = Some t -> t <= now) /\ (forall t, e_vb e = Some t -> now < t).
Proof.
  intros. rewrite as_validate_iff. split; intros (e & Hin & Hc & Hk & Hm); exists e;
    (split; [exact Hin|]; split; [exact Hc|]; split; [exact Hk|]); apply entry_matches_iff; exact Hm.
Qed.
Print Assumptions C16_allowed_signers_iff.

(* The certificate type matches the use: an SSHSIG accepted although the signer's own key is not
   listed (i.e. through a cert-authority entry) was made with a USER certificate that passed
   validate now: valid_after <= now < valid_before and the principal is listed or none are. *)
Theorem C16_sshsig_cert_type_matches_use :
  forall sigok pubkey_ok keyfields_ok addrs_ok hash msg ih raw principal entries now,
  bytes_ok raw = true ->
  sshsig_validate sigok pubkey_ok keyfields_ok addrs_ok hash msg ih raw principal entries now = SAccept ->
  forall pub nsb rsv hname sig, raw = enc_sshsig pub nsb rsv hname sig ->
    zlen pub < 2 ^ 32 -> zlen nsb < 2 ^ 32 -> zlen rsv < 2 ^ 32 -> zlen hname < 2 ^ 32 -> zlen sig < 2 ^ 32 ->
  forall ci ns, cert_import sigok pubkey_ok keyfields_ok addrs_ok pub = ROk ci -> utf8_decode nsb = Some ns ->
    as_validate entries (key_blob (ci_kalg ci) (cf_key (ci_fields ci))) principal ns now false = false ->
    cf_type (ci_fields ci) = CERT_TYPE_USER /\
    cf_va (ci_fields ci) <= now < cf_vb (ci_fields ci) /\
    (ci_principals ci = [] \/ In principal (ci_principals ci)).
Proof. exact sshsig_ca_path_user_cert. Qed.
Print Assumptions C16_sshsig_cert_type_matches_use.

(* The code before /repo commit 0617eca passed CERT_TYPE_ANY (sshsig_validate_old): a HOST
   certificate was accepted for SSHSIG (witness with trivially-true crypto); the model of record
   rejects the same input. *)
Theorem C16_old_sshsig_cert_type_matches_use_refuted :
  exists sigok pubkey_ok keyfields_ok addrs_ok hash raw principal entries now ci,
    sshsig_validate_old sigok pubkey_ok keyfields_ok addrs_ok hash [] false raw principal entries now = SAccept /\
    (exists pub nsb rsv hname sig, raw = enc_sshsig pub nsb rsv hname sig /\
       cert_import sigok pubkey_ok keyfields_ok addrs_ok pub = ROk ci) /\
    cf_type (ci_fields ci) = CERT_TYPE_HOST /\
    sshsig_validate sigok pubkey_ok keyfields_ok addrs_ok hash [] false raw principal entries now = SReject.
Proof.
  exists (fun _ _ _ => true), (fun _ => true), (fun _ _ => true), (fun _ => true), (fun _ _ => []),
    w_raw, [97], [w_entry], 50.
  eexists. split; [exact sshsig_host_cert_any|]. split.
  - exists (enc_cert w_fields [7]), [102], [], N_sha512, [8]. split; [reflexivity|]. vm_compute. reflexivity.
  - split; [reflexivity | exact sshsig_host_cert_user].
Qed.
Print Assumptions C16_old_sshsig_cert_type_matches_use_refuted.

(* The SSHSIG signed data depends only on the message BYTES: bytes or a path, and for a path
   however the reads are split into bursts (regular file, FIFO, large file), give the same data. *)
Theorem C16_sshsig_message_source_independent : forall hash s s' hname nsb,
  source_bytes s = source_bytes s' ->
  signed_data_src hash s false hname nsb = signed_data_src hash s' false hname nsb.
Proof. exact signed_data_src_bytes. Qed.
Print Assumptions C16_sshsig_message_source_independent.

Theorem C16_sshsig_path_chunking_irrelevant : forall hash chunks chunks' ih ih' hname nsb,
  concat chunks = concat chunks' ->
  signed_data_src hash (MPath chunks) ih hname nsb = signed_data_src hash (MPath chunks') ih' hname nsb.
Proof. exact signed_data_path_chunking. Qed.
Print Assumptions C16_sshsig_path_chunking_irrelevant.

(* Allowed-signers principals and namespaces are matched case-SENSITIVELY: a pattern without
   wildcards matches exactly itself (all code points; no case folding, trimming or normalisation). *)
Theorem C16_pattern_literal_exact : forall p,
  (forall c, In c p -> c <> 42 /\ c <> 63) -> forall s, wmatch p s = true <-> p = s.
Proof. exact wmatch_literal. Qed.
Print Assumptions C16_pattern_literal_exact.

Example C16_pattern_case_example :
  wmatch [97;108;105;99;101] [65;108;105;99;101] = false /\ wmatch [97;42] [65;108] = false /\
  wmatch [97;42] [97;76] = true.
Proof. vm_compute. repeat split; reflexivity. Qed.

(* Allowed-signers option NAMES (cert-authority, namespaces, valid-after, valid-before) are
   case-insensitive: two spellings with the same ASCII lower-casing are the same option, so a line
   written Cert-Authority is a CA line.  (Values are kept as written: C16_pattern_literal_exact.) *)
Theorem C16_option_name_case_insensitive : forall n n',
  map ascii_lower n = map ascii_lower n' -> as_opt_kind n = as_opt_kind n'.
Proof. exact as_opt_kind_case. Qed.
Print Assumptions C16_option_name_case_insensitive.

Example C16_option_name_example :
  as_opt_kind [67;101;114;116;45;65;117;116;104;111;114;105;116;121] = OCertAuthority /\
  as_opt_kind [78;65;77;69;83;80;65;67;69;83] = ONamespaces /\ as_opt_kind [99;101;114;116] = OOther.
Proof. vm_compute. repeat split; reflexivity. Qed.

(* --- time values (misc.parse_time) ------------------------------------------------------------- *)

(* A limit written with a trailing Z denotes that UTC instant whatever the process time zone is;
   a zone-less limit is local time: the UTC reading shifted by the zone offset (all digit strings,
   all offsets). *)
Theorem C16_time_Z_is_utc : forall ds off, parse_time_abs ds true off = parse_time_abs ds true 0.
Proof. exact parse_time_abs_Z. Qed.
Print Assumptions C16_time_Z_is_utc.

Theorem C16_time_zoneless_is_local : forall ds off,
  parse_time_abs ds false off =
  match parse_time_abs ds true 0 with Some t => Some (t + off) | None => None end.
Proof. exact parse_time_abs_local. Qed.
Print Assumptions C16_time_zoneless_is_local.

(* Only zone-less absolute times depend on the process time zone. *)
Theorem C16_time_zone_independent : forall s off off' now,
  match s with TAbs _ false => False | _ => True end -> parse_time s off now = parse_time s off' now.
Proof. exact parse_time_zone_independent. Qed.
Print Assumptions C16_time_zone_independent.

(* A validity window whose limits are Z-times is open exactly between those UTC instants, in
   every zone (certificate generation with string limits, allowed-signers valid-after/-before). *)
Theorem C16_window_Z_limits : forall dsa dsb off pnow now ta tb,
  parse_time_abs dsa true 0 = Some ta -> parse_time_abs dsb true 0 = Some tb ->
  (window_decision (Some (TAbs dsa true)) (Some (TAbs dsb true)) off pnow now = 0 <-> ta <= now < tb).
Proof. exact window_decision_Z. Qed.
Print Assumptions C16_window_Z_limits.

Example C16_time_example :
  parse_time_abs [50;48;50;51;49;49;49;52;50;50;49;51;50;48] true 43200 = Some 1700000000 /\
  parse_time_abs [50;48;50;51;49;49;49;52;50;50;49;51;50;48] false 43200 = Some 1700043200 /\
  parse_time_abs [50;48;50;51;48;50;51;48] true 0 = None.
Proof. vm_compute. repeat split; reflexivity. Qed.

(* --- non-vacuity ------------------------------------------------------------------------------ *)

Example C16_string_example : get_string [0;0;0;2;104;105;7] = Some ([104;105], [7]).
Proof. vm_compute. reflexivity. Qed.

(* a concrete certificate blob that imports and validates (crypto answers true), and stops
   validating one second after valid_before *)
Example C16_cert_accept_example :
  let blob := enc_cert w_fields [7] in
  cert_accept (fun _ _ _ => true) (fun _ => true) (fun _ _ => true) (fun _ => true) blob 2 None 99 = true /\
  cert_accept (fun _ _ _ => true) (fun _ => true) (fun _ _ => true) (fun _ => true) blob 2 None 100 = false /\
  cert_accept (fun _ _ _ => true) (fun _ => true) (fun _ _ => true) (fun _ => true) blob 1 None 99 = false /\
  cert_accept (fun _ _ _ => false) (fun _ => true) (fun _ _ => true) (fun _ => true) blob 2 None 99 = false.
Proof. vm_compute. repeat split; reflexivity. Qed.

Example C16_cert_spec_example :
  exists ci, cert_spec (fun _ _ _ => true) (fun _ => true) (fun _ _ => true) (fun _ => true)
                       (enc_cert w_fields [7]) ci.
Proof.
  destruct (cert_import (fun _ _ _ => true) (fun _ => true) (fun _ _ => true) (fun _ => true)
                        (enc_cert w_fields [7])) as [ci| |] eqn:E; try (vm_compute in E; discriminate).
  exists ci. apply cert_import_iff; [vm_compute; reflexivity | exact E].
Qed.
