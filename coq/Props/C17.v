(* C17 - Trust-file lookups follow the documented matching rules.
   Statements only; proofs are in Proofs/MatchProofs.v and Proofs/OptionsProofs.v.
   The model's external functions (key import, base64, HMAC-SHA1, IPv6 text parsing) are the fields of
   the record [ext]; every theorem holds for every [ext]. *)
From AV Require Import Base.Prelude Model.Match Model.Options Proofs.MatchProofs Proofs.OptionsProofs.

(* ---- patterns ----------------------------------------------------------------------------------- *)

(* The wildcard matcher accepts exactly the strings the rules describe: star = any run of code points,
   question mark = exactly one, every other code point (brackets included) = itself. All patterns, all
   strings. *)
Theorem C17_wild_iff : forall p s, wild_match p s = true <-> WMatch p s.
Proof. exact wild_iff. Qed.
Print Assumptions C17_wild_iff.

(* The components of a comma list are exactly its comma-separated pieces. *)
Theorem C17_comma_list : forall t, tjoin 44 (tsplit 44 t) = t /\ Forall (fun c => ~ In 44 c) (tsplit 44 t).
Proof. intros t. split; [apply tsplit_join|apply tsplit_no_sep]. Qed.
Print Assumptions C17_comma_list.

(* A host pattern list matches iff some non-negated component matches and no negated component does
   (every list text, host, address). *)
Theorem C17_pattern_list : forall x t host addr ip,
  hpl_match x t host addr ip = true <->
  (exists p, In (false, p) (plist_split t) /\ hp_match (hp_parse x p) host addr ip = true) /\
  (forall p, In (true, p) (plist_split t) -> hp_match (hp_parse x p) host addr ip = false).
Proof. exact hpl_match_spec. Qed.
Print Assumptions C17_pattern_list.

(* A negated match always excludes the line, whatever else matches. *)
Theorem C17_neg_excludes : forall x t host addr ip p,
  In (true, p) (plist_split t) -> hp_match (hp_parse x p) host addr ip = true ->
  hpl_match x t host addr ip = false.
Proof. exact neg_excludes. Qed.
Print Assumptions C17_neg_excludes.

(* Same rule for principals lists, stated against the declarative wildcard relation. *)
Theorem C17_principal_list : forall t v,
  wpl_match t v = true <->
  (exists p, In (false, p) (plist_split t) /\ WMatch p v) /\
  (forall p, In (true, p) (plist_split t) -> ~ WMatch p v).
Proof. exact wpl_match_spec. Qed.
Print Assumptions C17_principal_list.

(* A CIDR pattern the parser accepts matches exactly the addresses of its family in
   [network, network + 2^(bits - prefix)).  IPv4 text parsing (dotted quads, /n, netmask and hostmask
   forms, host-bit check) is part of the model. *)
Theorem C17_cidr : forall x t net a,
  parse_net x t = Some net ->
  ip_in_net a net = true <->
  match a, net with
  | IP4 v, Net4 n pl => n <= v < n + 2 ^ (32 - pl)
  | IP6 v, Net6 n pl => n <= v < n + 2 ^ (128 - pl)
  | _, _ => False
  end.
Proof. exact cidr_spec. Qed.
Print Assumptions C17_cidr.

(* ---- known_hosts ---------------------------------------------------------------------------------- *)

(* One lookup returns, per marker (none / cert-authority / revoked), exactly the keys of the entry
   lines the matching rule selects for the looked-up host and address forms: every line order, every
   marker, every salt (the HMAC is an arbitrary function here). *)
Theorem C17_lookup_spec : forall x lines st host addr port r,
  kh_load_lines x lines kh_empty = Some st ->
  kh_match x st host addr port = Some r ->
  exists ip, lookup_ip x host addr = Some ip /\
  forall m k, In k (keys_of m r) <->
              exists p, In (m, p, k) (kh_entries x lines) /\
                        line_selects x p (lookup_name host port) (lookup_name addr port) (pass_ip ip port) = true.
Proof. exact kh_match_spec. Qed.
Print Assumptions C17_lookup_spec.

(* Address and CIDR entries are consulted only when the plain names are looked up (pass_ip above is
   None whenever a port is given): in a pass with a port they never match, so an undecorated address
   entry cannot select a line whose negated names are being compared with [name]:port forms.
   (Repaired by 9f68483.) *)
Theorem C17_address_entries_plain_only : forall n host addr ip port,
  port <> 0 -> hp_match (HCidr n) host addr (pass_ip ip port) = false.
Proof. exact cidr_needs_plain_pass. Qed.
Print Assumptions C17_address_entries_plain_only.

(* Before that repair (kh_lookup_lines_mid): line "127.0.0.1,!g K", lookup of host g at 127.0.0.1 port
   2222 returned K as trusted although the negated component g matches the host name - "a negated
   match always excludes the line" was violated.  True of that old definition only. *)
Theorem C17_negation_with_port_mid_refuted :
  exists x lines host addr port p k neg r,
    In (MNone, p, k) (kh_entries x lines) /\
    In (true, neg) (plist_split p) /\ wild_match neg host = true /\
    kh_lookup_lines_mid x lines host addr port = Some r /\ In k (r_host r).
Proof. exact negation_bypassed_with_port_mid. Qed.
Print Assumptions C17_negation_with_port_mid_refuted.

(* Several files (read_known_hosts / known_hosts= with a list of file names): each file is loaded on
   its own, so the entry lines are exactly those of each file in order - a line never spans two files,
   whether or not a file ends in a newline - and a lookup pass returns, per marker, the union of what it
   returns for each file alone. *)
Theorem C17_files_entries : forall x ts,
  kh_entries x (flat_map splitlines ts) = flat_map (fun t => kh_entries x (splitlines t)) ts.
Proof. exact kh_entries_files. Qed.
Print Assumptions C17_files_entries.

Theorem C17_files_union : forall x l1 l2 st st1 st2 host addr port r r1 r2,
  kh_load_lines x (l1 ++ l2) kh_empty = Some st ->
  kh_load_lines x l1 kh_empty = Some st1 -> kh_load_lines x l2 kh_empty = Some st2 ->
  kh_match x st host addr port = Some r ->
  kh_match x st1 host addr port = Some r1 -> kh_match x st2 host addr port = Some r2 ->
  forall m k, In k (keys_of m r) <-> In k (keys_of m r1) \/ In k (keys_of m r2).
Proof. exact kh_match_files_union. Qed.
Print Assumptions C17_files_union.

(* The [host]:port fallback: when a port was given and the lookup with the port found no trusted key
   and no CA key, trusted and CA keys come from the plain-name lookup and the revoked keys from both
   lookups; otherwise the answer is the lookup with the port. *)
Theorem C17_port_fallback : forall x st host addr port r,
  kh_lookup_st x st host addr port = Some r ->
  exists r1, kh_match x st host addr port = Some r1 /\
    (((port = 0 \/ r_host r1 <> [] \/ r_ca r1 <> []) /\ r = r1) \/
     (port <> 0 /\ r_host r1 = [] /\ r_ca r1 = [] /\
      exists r2, kh_match x st host addr 0 = Some r2 /\
                 r = {| r_host := r_host r2; r_ca := r_ca r2; r_revoked := r_revoked r1 ++ r_revoked r2 |})).
Proof. exact kh_lookup_fallback. Qed.
Print Assumptions C17_port_fallback.

(* A @revoked line that the matching rule selects for the looked-up name (with its port, if any) is in
   the revoked list of the final answer, whether or not the fallback was taken.  All files, hosts,
   addresses, ports. (Repaired by 890407a.) *)
Theorem C17_revoked_kept : forall x lines host addr port r ip p k,
  kh_lookup_lines x lines host addr port = Some r ->
  lookup_ip x host addr = Some ip ->
  In (MRevoked, p, k) (kh_entries x lines) ->
  line_selects x p (lookup_name host port) (lookup_name addr port) (pass_ip ip port) = true ->
  In k (r_revoked r).
Proof. exact revoked_line_reported. Qed.
Print Assumptions C17_revoked_kept.

(* The same claim is false of the code before 890407a (definition kh_lookup_lines_old): the fallback
   discarded the first lookup's revoked list.  Witness: lines "h K" and "@revoked [h]:2222 K", lookup of
   h port 2222.  Still true of that old definition; kept as the record of the finding. *)
Theorem C17_revoked_kept_old_refuted :
  exists x lines host port p k r,
    In (MRevoked, p, k) (kh_entries x lines) /\
    line_selects x p (lookup_name host port) [] None = true /\
    kh_lookup_lines_old x lines host [] port = Some r /\
    In k (r_host r) /\ ~ In k (r_revoked r).
Proof. exact revoked_port_fallback_lost_revocation_old. Qed.
Print Assumptions C17_revoked_kept_old_refuted.

(* An empty component of a comma list never matches: a line is selected through an exact-name list
   only by a NON-EMPTY component equal to one of the looked-up names, and the empty wildcard pattern
   matches no host and no address. (Repaired by 1ebb7df; C17_lookup_spec above is stated with this
   selection rule.) *)
Theorem C17_empty_component_never_matches : forall x p h a ip,
  is_pattern_line p = false -> line_selects x p h a ip = true ->
  exists c, In c (tsplit 44 p) /\ c <> [] /\ (c = h \/ c = a).
Proof. exact exact_line_selected_by_nonempty. Qed.
Print Assumptions C17_empty_component_never_matches.

Theorem C17_empty_wildcard_matches_nothing : forall host addr ip, hp_match (HWild []) host addr ip = false.
Proof. exact empty_wildcard_matches_nothing. Qed.
Print Assumptions C17_empty_wildcard_matches_nothing.

(* Before 1ebb7df (kh_lookup_lines_old): line "a, K" was returned for host h when the lookup had no
   address, although no component matches h. *)
Theorem C17_only_matching_lines_old_refuted :
  exists x lines host p k r,
    In (MNone, p, k) (kh_entries x lines) /\
    (forall c, In c (tsplit 44 p) -> c <> [] -> wild_match c host = false) /\
    kh_lookup_lines_old x lines host [] 0 = Some r /\ In k (r_host r).
Proof. exact empty_component_matched_any_host_old. Qed.
Print Assumptions C17_only_matching_lines_old_refuted.

(* A line that is blank, a comment, or whose key field the importer rejects with KeyImportError has
   no effect on any lookup, at any position, among any other lines. *)
Theorem C17_bad_line_skipped : forall x l1 bad l2 host addr port,
  kh_parse_line x bad = LSkip \/ kh_parse_line x bad = LBlank ->
  kh_lookup_lines x (l1 ++ bad :: l2) host addr port = kh_lookup_lines x (l1 ++ l2) host addr port.
Proof. exact kh_bad_line_skipped. Qed.
Print Assumptions C17_bad_line_skipped.

(* Full claim for a damaged key field.  Premise importer_total: the key importer fails with
   KeyImportError only (what e01fa70 established for impossible key parameters; the correspondence
   checks on every run that no recorded import outcome violates it).  Then a raw line
   patterns<blank>keyfield whose key field is not a key, for whatever reason, changes no lookup. *)
Theorem C17_unparsable_key_line_inert : forall x c0 pat d l1 l2 host addr port,
  importer_total x ->
  c0 <> 35 -> c0 <> 64 -> nospace (c0 :: pat) -> trimmed d -> (forall id, keyof x d <> KOk id) ->
  kh_lookup_lines x (l1 ++ ((c0 :: pat) ++ 32 :: d) :: l2) host addr port =
  kh_lookup_lines x (l1 ++ l2) host addr port.
Proof. exact kh_not_a_key_line_inert. Qed.
Print Assumptions C17_unparsable_key_line_inert.

(* Why the premise is needed (and what was wrong before e01fa70): with an importer that raises anything
   other than KeyImportError on some key field, the loader does not skip the line, the file is lost. *)
Theorem C17_raising_importer_refuted :
  exists x l1 bad l2 host r,
    kh_lookup_lines x (l1 ++ l2) host [] 0 = Some r /\ r_host r <> [] /\
    kh_lookup_lines x (l1 ++ bad :: l2) host [] 0 = None.
Proof. exact raising_key_breaks_file. Qed.
Print Assumptions C17_raising_importer_refuted.

(* ---- authorized_keys options ------------------------------------------------------------------------ *)

(* Round trip with the quoting OpenSSH documents (value in double quotes, embedded double quote written
   backslash-quote, nothing else escaped): any non-empty list of options and EVERY value text this
   quoting can represent, i.e. every value that does not end in a backslash - backslashes anywhere
   else, also directly in front of a double quote, come back unchanged. (Repaired by 2e10b73 + fd4aee3.) *)
Theorem C17_openssh_quoting : forall opts rest,
  opts <> [] -> Forall (fun nv => Forall plain (fst nv)) opts ->
  Forall (fun nv => representable (snd nv) = true) opts ->
  tokenize (print_opts ossh_escape opts ++ 32 :: rest) = Some (map raw_opt opts, strip (32 :: rest)).
Proof. exact tokenize_ossh. Qed.
Print Assumptions C17_openssh_quoting.

(* Between 2e10b73 and fd4aee3 (tokenize_mid) the round trip failed for the representable value
   a backslash quote b: the value's backslash was paired with the escaping backslash of the quote.
   True of that old definition only. *)
Theorem C17_openssh_quoting_mid_refuted :
  exists n v rest, Forall plain n /\ representable v = true /\
    tokenize_mid (print_opts ossh_escape [(n, v)] ++ 32 :: rest) <> Some ([raw_opt (n, v)], strip (32 :: rest)).
Proof. exact tokenize_mid_backslash_quote_lost. Qed.
Print Assumptions C17_openssh_quoting_mid_refuted.

(* Before 2e10b73 (tokenize_old) every backslash was dropped. True of that old definition only. *)
Theorem C17_openssh_quoting_old_refuted :
  exists n v rest, Forall plain n /\ representable v = true /\
    tokenize_old (print_opts ossh_escape [(n, v)] ++ 32 :: rest) <> Some ([raw_opt (n, v)], strip (32 :: rest)).
Proof. exact tokenize_old_backslash_lost. Qed.
Print Assumptions C17_openssh_quoting_old_refuted.

(* Option keywords are case-insensitive: name=value and flag options act exactly as their lower-case
   spelling, for every keyword (ASCII letters), value and option map. (Repaired by c342bf5.) *)
Theorem C17_keyword_case : forall h m name v,
  ~ In 61 name -> add_option h m (name ++ 61 :: v) = add_option h m (lower name ++ 61 :: v).
Proof. exact keyword_case_insensitive. Qed.
Print Assumptions C17_keyword_case.

Theorem C17_flag_case : forall h m f, ~ In 61 f -> add_option h m f = add_option h m (lower f).
Proof. exact flag_case_insensitive. Qed.
Print Assumptions C17_flag_case.

(* Before c342bf5 (add_option_old) FROM=x recorded no from restriction. *)
Theorem C17_keyword_case_old_refuted :
  exists m, add_option_old true [] [70; 82; 79; 77; 61; 120] = Some m /\ opt_get m n_from = None /\
            exists m', add_option true [] [70; 82; 79; 77; 61; 120] = Some m' /\ opt_get m' n_from = Some (VFrom [[120]]).
Proof. exact keyword_case_old_ignored. Qed.
Print Assumptions C17_keyword_case_old_refuted.

(* Repeated from= / principals= options accumulate (none is overwritten) ... *)
Theorem C17_from_repeats : forall m l v,
  opt_get m n_from = Some (VFrom l) ->
  add_option true m (n_from ++ 61 :: v) = Some (opt_set m n_from (VFrom (l ++ [v]))).
Proof. exact from_repeats_accumulate. Qed.
Print Assumptions C17_from_repeats.

Theorem C17_principals_repeats : forall m l v,
  opt_get m n_principals = Some (VPrinc l) ->
  add_option true m (n_principals ++ 61 :: v) = Some (opt_set m n_principals (VPrinc (l ++ [v]))).
Proof. exact principals_repeats_accumulate. Qed.
Print Assumptions C17_principals_repeats.

(* ... and all of them are required to match. *)
Theorem C17_all_options_required : forall x m host addr princs,
  match_options x m host addr princs = Some true <->
  (match opt_get m n_from with
   | None | Some (VFrom []) => True
   | Some (VFrom fl) => exists ip, parse_ip x addr = Some ip /\
                                   forall t, In t fl -> hpl_match x t host addr (Some ip) = true
   | Some _ => False
   end) /\
  (match princs, opt_get m n_principals with
   | Some ps, Some (VPrinc pl) => forall t, In t pl -> exists p, In p ps /\ wpl_match t p = true
   | Some _, Some _ => False
   | _, _ => True
   end).
Proof. exact match_options_spec. Qed.
Print Assumptions C17_all_options_required.

(* validate hands out the options of an entry only if it has the presented key and all its options
   matched; nothing is returned only if no entry with that key matched; the first match wins. *)
Theorem C17_validate_sound : forall x es key host addr princs o,
  ak_validate_list x es key host addr princs = Some (Some o) ->
  exists e, In e es /\ ae_key e = key /\ ae_opts e = o /\ match_options x o host addr princs = Some true.
Proof. exact validate_sound. Qed.
Print Assumptions C17_validate_sound.

Theorem C17_validate_complete : forall x es key host addr princs,
  ak_validate_list x es key host addr princs = Some None ->
  forall e, In e es -> ae_key e = key -> match_options x (ae_opts e) host addr princs = Some false.
Proof. exact validate_complete. Qed.
Print Assumptions C17_validate_complete.

Theorem C17_validate_first : forall x es1 e es2 key host addr princs,
  (forall e', In e' es1 -> ae_key e' <> key \/ match_options x (ae_opts e') host addr princs = Some false) ->
  ae_key e = key -> match_options x (ae_opts e) host addr princs = Some true ->
  ak_validate_list x (es1 ++ e :: es2) key host addr princs = Some (Some (ae_opts e)).
Proof. exact validate_first. Qed.
Print Assumptions C17_validate_first.

(* authorized_keys: a skipped line (blank, comment, unimportable key) changes nothing for the rest. *)
Theorem C17_ak_bad_line_skipped : forall x l1 bad l2,
  ak_parse_line x bad = ALSkip \/ ak_parse_line x bad = ALBlank ->
  ak_load_from_lines x (l1 ++ bad :: l2) = ak_load_from_lines x (l1 ++ l2).
Proof. exact ak_bad_line_skipped. Qed.
Print Assumptions C17_ak_bad_line_skipped.

(* ... and, with an importer that fails with KeyImportError only, every line whose options parse and
   whose key field is not a key is such a line. *)
Theorem C17_ak_not_a_key_line : forall x line m rest,
  importer_total x ->
  line <> [] -> strip line = line -> hd 0 line <> 35 ->
  (forall id, keyof x line <> KOk id) -> parse_options true line = Some (m, rest) ->
  (forall id, keyof x rest <> KOk id) ->
  ak_parse_line x line = ALSkip.
Proof. exact ak_not_a_key_line_skipped. Qed.
Print Assumptions C17_ak_not_a_key_line.

Theorem C17_ak_raising_importer_refuted :
  exists x l1 bad l2, ak_load_from_lines x (l1 ++ l2) <> None /\ ak_load_from_lines x (l1 ++ bad :: l2) = None.
Proof. exact ak_raising_key_breaks_file. Qed.
Print Assumptions C17_ak_raising_importer_refuted.

(* ---- non-vacuity: the hypotheses above are met by concrete, non-trivial inputs --------------------- *)

Example C17_ex_wild : wild_match [42; 46; 101; 120; 46; 63] [97; 46; 101; 120; 46; 99] = true.
Proof. reflexivity. Qed.

(* 10.1.2.0/255.255.255.0 parses to 10.1.2.0/24 and contains 10.1.2.3 but not 10.1.3.3 *)
Example C17_ex_cidr :
  parse_net wit_ext [49;48;46;49;46;50;46;48;47;50;53;53;46;50;53;53;46;50;53;53;46;48] = Some (Net4 167838208 24) /\
  ip_in_net (IP4 167838211) (Net4 167838208 24) = true /\ ip_in_net (IP4 167838467) (Net4 167838208 24) = false.
Proof. vm_compute. auto. Qed.

(* "*.ex,!b.ex K" selects a.ex but not b.ex *)
Example C17_ex_lookup :
  kh_lookup_lines wit_ext [[42;46;101;120;44;33;98;46;101;120;32;75]] [97;46;101;120] [] 0
    = Some {| r_host := [7]; r_ca := []; r_revoked := [] |} /\
  kh_lookup_lines wit_ext [[42;46;101;120;44;33;98;46;101;120;32;75]] [98;46;101;120] [] 0
    = Some {| r_host := []; r_ca := []; r_revoked := [] |}.
Proof. vm_compute. auto. Qed.

(* the line "h X" (X not a key) satisfies the hypotheses of the unparsable-key-line lemma *)
Example C17_ex_bad_line : kh_parse_line wit_ext [104; 32; 88] = LSkip.
Proof.
  apply (kh_unparsable_key_line_skipped wit_ext 104 [] [88]); try discriminate.
  - repeat constructor.
  - repeat split; discriminate || reflexivity.
  - reflexivity.
Qed.

(* importer_total is satisfiable: an importer that knows one key and rejects everything else *)
Example C17_ex_importer_total :
  importer_total {| keyof := fun d => if zlist_eqb d [75] then KOk 7 else KBad;
                    b64 := fun _ => None; hmac := fun _ _ => None; ip6 := fun _ => None |}.
Proof. intros d. cbn. destruct (zlist_eqb d [75]); discriminate. Qed.

(* the repaired behaviours on the two former witnesses *)
Example C17_ex_revoked_kept :
  kh_lookup_lines wit_ext [[104; 32; 75]; 64 :: txt_revoked ++ [32; 91; 104; 93; 58; 50; 50; 50; 50; 32; 75]] [104] [] 2222
  = Some {| r_host := [7]; r_ca := []; r_revoked := [7] |}.
Proof. exact revoked_port_fallback_now_kept. Qed.

Example C17_ex_empty_component :
  kh_lookup_lines wit_ext [[97; 44; 32; 75]] [104] [] 0 = Some {| r_host := []; r_ca := []; r_revoked := [] |}.
Proof. exact empty_component_now_inert. Qed.

(* values with backslashes, also directly in front of a quote, are representable; the round trip on one *)
Example C17_ex_representable :
  representable [101;99;104;111;32;92;34;104;105;92;34;32;120] = true /\
  tokenize (print_opts ossh_escape [([99], [101;99;104;111;32;92;34;104;105;92;34;32;120])] ++ [32; 107])
  = Some ([[99;61;101;99;104;111;32;92;34;104;105;92;34;32;120]], [107]).
Proof. vm_compute. auto. Qed.

(* a value ending in a backslash is outside the format: its quoted form is refused, as by OpenSSH *)
Example C17_ex_trailing_backslash : tokenize (print_opts ossh_escape [([120], [97; 92])] ++ [32; 107]) = None.
Proof. exact tokenize_ossh_trailing_backslash_refused. Qed.

(* "127.0.0.1,!g K" looked up at 127.0.0.1 port 2222: excluded for host g, returned for host h *)
Example C17_ex_negation_with_port :
  kh_lookup_lines wit_ext [[49;50;55;46;48;46;48;46;49;44;33;103;32;75]] [103] [49;50;55;46;48;46;48;46;49] 2222
  = Some {| r_host := []; r_ca := []; r_revoked := [] |} /\
  kh_lookup_lines wit_ext [[49;50;55;46;48;46;48;46;49;44;33;103;32;75]] [104] [49;50;55;46;48;46;48;46;49] 2222
  = Some {| r_host := [7]; r_ca := []; r_revoked := [] |}.
Proof. exact negation_with_port_now_excludes. Qed.

(* two files, the first without a final newline: "h K" and "@revoked * K" stay two lines *)
Example C17_ex_files :
  kh_lookup_files wit_ext [[104; 32; 75]; 64 :: txt_revoked ++ [32; 42; 32; 75; 10]] [104] [] 0
  = Some {| r_host := [7]; r_ca := []; r_revoked := [7] |}.
Proof. vm_compute. reflexivity. Qed.
