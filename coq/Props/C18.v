(* C18 - Config files resolve like OpenSSH, and never expand unsafe input.
   Statements only; proofs are in Proofs/ConfigProofs.v; the model is Model/Config.v.
   [load] is SSHClientConfig.load / SSHServerConfig.load, [parse_file] is SSHConfig.parse,
   [env] carries the target (host, user, addresses), the process environment and the file tree. *)
Require Import Coq.Strings.String.
Require Import Coq.Sorting.Sorted Coq.Sorting.Permutation.
From AV Require Import Base.Prelude Model.Config Proofs.ConfigProofs.

(* First value wins.  For every environment (client or server, any target, any file tree), every
   list of config files, every inherited option map: an option with a set-once handler that is not
   subject to token expansion keeps the value it has - whatever lines, Host/Match blocks and
   included files follow.  Holds for the code as it is and for the corrected semantics alike. *)
Theorem C18_first_wins : forall E o k fuel base user port paths os fin v,
  kind_of (table E) o = Some k -> set_once_kind k = true -> mem_str o (pct_expand E) = false ->
  lookup o (init_opts E base user port) = Some v ->
  load fuel E base user port paths = Ok (os, fin) -> lookup o os = Some v.
Proof. intros. eapply first_wins_load; eassumption. Qed.
Print Assumptions C18_first_wins.

(* ... and the first line that is reached while the option has no value gives it a value that
   depends on that line only. *)
Theorem C18_first_value_taken : forall k o args os os' rest,
  set_once_kind k = true -> k <> KHostname ->
  run_setter k o args os = Ok (os', rest) -> lookup o os = None ->
  exists v, line_value k args = Some v /\ lookup o os' = Some v.
Proof. exact run_setter_fresh. Qed.
Print Assumptions C18_first_value_taken.

(* Lines inside a Host/Match block whose condition is false change nothing (only Host/Match lines
   are looked at). *)
Theorem C18_unmatched_lines_inert : forall rec E raw st st',
  s_matching st = false ->
  (forall toks lo args, shlex_split (strip raw) = Some toks -> split_line (is_cond E) toks = Some (lo, args) ->
                        is_cond E lo = false) ->
  step rec E raw st = Ok st' -> st' = st.
Proof. exact unmatched_line_inert. Qed.
Print Assumptions C18_unmatched_lines_inert.

(* List options accumulate: whatever a file (with everything it includes) does, the list an append
   option had before is a prefix of the list it has afterwards.  For options that undergo token
   expansion (IdentityFile, CertificateFile) this needs expansion once per load, which is what the
   code does now (impl_quirks). *)
Theorem C18_lists_accumulate : forall E o k fuel path st st' l,
  kind_of (table E) o = Some k -> append_kind k = true ->
  mem_str o (pct_expand E) = false \/ q_expand_each_parse (e_quirks E) = false ->
  lookup o (s_opts st) = Some (VList l) -> parse_file fuel E path st = Ok st' ->
  exists l', lookup o (s_opts st') = Some (VList (l ++ l')).
Proof. intros. eapply lists_accumulate_file; eassumption. Qed.
Print Assumptions C18_lists_accumulate.

(* one line of a list option appends exactly its arguments *)
Theorem C18_list_line_appends : forall o args os l,
  args <> [] -> lookup o os = Some (VList l) ->
  exists os', run_setter KAppendStringList o args os = Ok (os', []) /\ lookup o os' = Some (VList (l ++ args)).
Proof. exact append_list_step. Qed.
Print Assumptions C18_list_line_appends.

(* Match: "!" in front of a criterion inverts exactly that criterion; several criteria are and-ed. *)
Theorem C18_match_negation : forall E os c pat fin b f,
  starts_with BANG (lower c) = false -> is_keyword (lower c) = false ->
  eval_match E os [c; pat] true fin = Ok (b, f) ->
  eval_match E os [BANG :: c; pat] true fin = Ok (negb b, f).
Proof. exact match_negation_criterion. Qed.
Print Assumptions C18_match_negation.

Theorem C18_match_negation_keyword : forall E os c fin b f,
  starts_with BANG (lower c) = false ->
  eval_match E os [c] true fin = Ok (b, f) ->
  eval_match E os [BANG :: c] true fin = Ok (negb b, f).
Proof. exact match_negation_keyword. Qed.
Print Assumptions C18_match_negation_keyword.

Theorem C18_match_conjunction : forall E os a1 a2 fin b1 f1 b2 f2,
  eval_match E os a1 true fin = Ok (b1, f1) ->
  eval_match E os a2 true f1 = Ok (b2, f2) ->
  eval_match E os (a1 ++ a2) true fin = Ok (b1 && b2, f2).
Proof. exact match_conjunction. Qed.
Print Assumptions C18_match_conjunction.

(* Include in place, for the code as it is (impl_quirks has q_expand_each_parse = false, see the
   example below): an Include line in a matching context has the same effect as the text of the
   selected files written in its place, each file preceded by "Match all", and "Match all" after
   the last one - same options, same matching flag, same _final.  [tinv] says that the token table
   holds only '%' and possibly 'h', which is so at every point of a load (parse_file_tinv). *)
Theorem C18_include_in_place : forall E f l pats pathss rest st r,
  q_expand_each_parse (e_quirks E) = false ->
  s_matching st = true -> tinv (s_tokens st) ->
  tokenize E l = Some (z "include", pats) ->
  Forall2 (fun pat paths => glob E pat = Ok paths) pats pathss ->
  run_lines (parse_file f E) E (l :: rest) st = Ok r ->
  exists r', run_lines (parse_file f E) E (flat_map (inline_files E) pathss ++ MATCH_ALL :: rest) st = Ok r'
             /\ same_outcome r r'.
Proof. exact include_in_place. Qed.
Print Assumptions C18_include_in_place.

(* About the OLD variant of the definitions (old_quirks = the code before d97dd8e, where parse()
   ended with _set_tokens + expansion for every file, included ones too); it stays true of those
   definitions: "IdentityFile a%%h" in an included file resolved to "ahost", the same line written
   in place to "a%h". *)
Theorem C18_include_in_place_old_refuted : exists fs_inc fs_inl,
  lookup (z "/main") fs_inl
  = Some (flat_map (inline_files (refute_env old_quirks fs_inc)) [[z "/inc"]] ++ [MATCH_ALL]) /\
  load 5 (refute_env old_quirks fs_inc) [] None None [z "/main"]
  <> load 5 (refute_env old_quirks fs_inl) [] None None [z "/main"].
Proof.
  exists fs_included, fs_inlined. split; [vm_compute; reflexivity|].
  destruct include_not_in_place_old as [-> ->]. discriminate.
Qed.
Print Assumptions C18_include_in_place_old_refuted.

(* About the OLD variant (before d9a79c3): Include read the files selected by a glob in directory
   order.  With /d/b.conf listed before /d/a.conf this resolved Port differently from sorted order. *)
Theorem C18_include_glob_order_old_refuted : exists fs,
  load 5 (refute_env old_quirks fs) [] None None [z "/main"]
  <> load 5 (refute_env no_quirks fs) [] None None [z "/main"].
Proof. exists fs_glob. destruct include_glob_order_old as (-> & _ & ->). discriminate. Qed.
Print Assumptions C18_include_glob_order_old_refuted.

(* Include order, code as it is (since d0360eb; impl_quirks has q_glob_order = GString): the files an
   Include argument selects are exactly the files whose path matches the pattern, and they are read
   in ascending whole-string (strcmp) order, which is the order of glob(3) / ssh. *)
Theorem C18_include_order_is_strcmp : forall E pat paths,
  q_glob_order (e_quirks E) = GString -> glob E pat = Ok paths ->
  Sorted str_le paths /\
  exists cs, resolve_pattern E pat = Some cs /\
    Permutation paths (filter (fun p => comps_match cs (split_on SLASH (tl p))) (map fst (e_fs E))).
Proof. exact include_order_is_strcmp. Qed.
Print Assumptions C18_include_order_is_strcmp.

(* About the OLD variant pathsort_quirks (code between d9a79c3 and d0360eb, matches sorted as Path
   objects, i.e. component lists compared): with directories "conf" and "conf.d" below a wildcard
   that order differs from strcmp order.  Stays true of those definitions. *)
Theorem C18_include_glob_sort_old_refuted : exists fs,
  load 5 (refute_env pathsort_quirks fs) [] None None [z "/main"]
  <> load 5 (refute_env no_quirks fs) [] None None [z "/main"].
Proof. exists fs_glob2. destruct include_glob_sort_old as (-> & _ & ->). discriminate. Qed.
Print Assumptions C18_include_glob_sort_old_refuted.

(* Final pass.  The code as it is (connection.py _connect: options.update(reload=True, final=True))
   resolves the final pass from scratch; ssh parses the file again on top of the first pass, where
   first-pass values keep winning.  "Match final / Port 1 / Host * / Port 2" gives 1 here, 2 in ssh. *)
Theorem C18_final_pass_refuted : exists fs,
  resolve_two_pass 5 (refute_env impl_quirks fs) [] None None [z "/main"]
  <> resolve_two_pass_on_top 5 (refute_env impl_quirks fs) [] None None [z "/main"].
Proof. exists fs_final. destruct final_pass_restarts_as_is as [-> ->]. discriminate. Qed.
Print Assumptions C18_final_pass_refuted.

(* Percent expansion is a single pass: for every token table and every template made of literal
   text (without "%") and tokens, the result is the concatenation of the pieces; replacement text
   is not expanded again, whatever it contains. *)
Theorem C18_expand_single_pass : forall toks t,
  Forall seg_ok t -> Forall (seg_defined toks) t ->
  expand_pct toks (render t) = Ok (flat_map (subst_seg toks) t).
Proof. exact expand_pct_single_pass. Qed.
Print Assumptions C18_expand_single_pass.

(* ... but "${name}" is expanded in a second pass over the result of the first, so text produced
   by a token is read again (ssh expands both in one pass). *)
Theorem C18_expand_one_pass_refuted :
  exists toks environ s, expand_val toks environ s <> expand_one_pass toks environ s.
Proof. exact two_pass_differs_from_one_pass. Qed.
Print Assumptions C18_expand_one_pass_refuted.

(* Unsafe user names.  A server configuration is never resolved for a user name the filter calls
   unsafe: every load that reads at least one file fails. *)
Theorem C18_unsafe_user_never_loaded : forall fuel E base user port paths r,
  e_client E = false -> unsafe_user (e_user E) = true -> paths <> [] ->
  load fuel E base user port paths <> Ok r.
Proof. exact unsafe_user_never_loaded. Qed.
Print Assumptions C18_unsafe_user_never_loaded.

(* A user name that passes the filter, put anywhere into a path template, leaves the number of
   path components unchanged, contains no backslash, is not "..", does not start with "~", has no
   drive-letter prefix, and is left alone by environment expansion in every environment. *)
Theorem C18_safe_user : forall u,
  unsafe_user u = false ->
  (forall pre post, length (split_on SLASH (pre ++ u ++ post)) = length (split_on SLASH (pre ++ post))) /\
  ~ In BSL u /\ u <> [DOT; DOT] /\ starts_with TILDE u = false /\
  (forall c r, u = c :: COLON :: r -> is_alpha c = false) /\
  (forall environ, expand_env environ u = Ok u).
Proof. exact safe_user_facts. Qed.
Print Assumptions C18_safe_user.

(* ---- non-vacuity ------------------------------------------------------------------------------ *)
Definition ex_fs : list (str * list str) :=
  [(z "/main", [z "Host db"; z "  Port 1"; z "Include /inc"; z "Host *"; z "  Port=2"; z "SendEnv A B";
                z "Match !host db user al*"; z "  SendEnv C"; z "  Port 3"]);
   (z "/inc", [z "Match final"; z "Port 4"; z "SendEnv D"])].
Definition ex_env (host : str) : env :=
  Build_env true impl_quirks false false (z "lu") host [] [] [] [] (z "lh") (z "/home/u") None [] ex_fs.

Example C18_example_db :
  load 5 (ex_env (z "db")) [] (Some (z "alice")) None [z "/main"]
  = Ok ([(z "User", VStr (z "alice")); (z "Port", VInt 1); (z "SendEnv", VList [z "A"; z "B"])], true).
Proof. vm_compute. reflexivity. Qed.

Example C18_example_web :
  load 5 (ex_env (z "web")) [] (Some (z "alice")) None [z "/main"]
  = Ok ([(z "User", VStr (z "alice")); (z "Port", VInt 2); (z "SendEnv", VList [z "A"; z "B"; z "C"])], false).
Proof. vm_compute. reflexivity. Qed.

Example C18_example_first_wins_hyps :
  kind_of (table (ex_env (z "db"))) (z "Port") = Some KInt /\ set_once_kind KInt = true /\
  mem_str (z "Port") (pct_expand (ex_env (z "db"))) = false.
Proof. vm_compute. repeat split; reflexivity. Qed.

Example C18_example_impl_quirks :
  q_expand_each_parse impl_quirks = false /\ q_glob_order impl_quirks = GString.
Proof. split; reflexivity. Qed.

Example C18_example_users :
  map unsafe_user [z "alice"; z ".."; z "~x"; z "a/b"; z "c:"; z "${X}"; z "{X}"; z "."; z "a%ub"]
  = [false; true; true; true; true; true; false; false; false].
Proof. vm_compute. reflexivity. Qed.

Example C18_example_template :
  expand_pct [(PCT, [PCT]); (104, z "a%hb")] (render [Lit (z "id_"); Tok PCT; Tok 104; Lit (z ".key")])
  = Ok (z "id_%a%hb.key").
Proof. vm_compute. reflexivity. Qed.
