(* C19 - Stream and process APIs deliver what was sent, split as asked.
   Statements only; proofs are in Proofs/StreamProofs.v.  The model is Model/Stream.v.

   Vocabulary.  A schedule is any list of steps: a channel callback (data_received, exception_received,
   eof_received, connection_lost, pause/resume_writing) or a turn of the consumer coroutine, which runs its
   read calls in order until one has to wait; each turn carries the batches that chan.resume_reading()
   delivers synchronously from inside the call.  [dl s] is the list of everything ever appended to the
   receive buffer, [toks] forgets how it was cut into chunks (a list of bytes and exceptions),
   [late s] says that something was appended after EOF. *)
From AV Require Import Base.Prelude Model.Stream Proofs.StreamProofs.

(* Central theorem.  For every window, every program of read() / read(0) / readexactly(n) /
   readuntil(one separator) / readuntil(separators of one common length) / readline() calls, and every
   schedule that ends with a turn of the consumer: if nothing was delivered after EOF and (when the program
   searches for separators) everything delivered fits in the window or there is no window, then the list of
   values returned and exceptions raised is [spec_prog], a function of the delivered tokens and the EOF flag
   only.  Chunk boundaries, empty chunks (ignored since b8d274c), arrival times relative to the calls, pause
   and resume, and synchronous deliveries inside resume_reading do not appear in it. *)
Theorem C19_results_determined : forall lim prog sch orc,
  let w := run_sched lim prog (sch ++ [SRun orc]) in
  Forall op_ok prog -> late (w_sess w) = false ->
  (has_until prog = true -> lim = 0 \/ rlen (dl (w_sess w)) < lim) ->
  w_res w = spec_prog prog (toks (dl (w_sess w))) (eof (w_sess w)).
Proof. exact sched_results. Qed.
Print Assumptions C19_results_determined.

(* Chunking independence, spelled out: two schedules that deliver the same bytes and exceptions in the
   same order (cut into chunks and timed in any two ways) give the same results. *)
Theorem C19_chunking_independent : forall lim prog sch1 orc1 sch2 orc2,
  let w1 := run_sched lim prog (sch1 ++ [SRun orc1]) in
  let w2 := run_sched lim prog (sch2 ++ [SRun orc2]) in
  Forall op_ok prog ->
  late (w_sess w1) = false -> late (w_sess w2) = false ->
  (has_until prog = true -> lim = 0 \/ (rlen (dl (w_sess w1)) < lim /\ rlen (dl (w_sess w2)) < lim)) ->
  toks (dl (w_sess w1)) = toks (dl (w_sess w2)) -> eof (w_sess w1) = eof (w_sess w2) ->
  w_res w1 = w_res w2.
Proof. exact sched_independent. Qed.
Print Assumptions C19_chunking_independent.

(* The search window of readuntil (start = max(buflen + 1 - seplen, 0)) misses nothing: when the data
   scanned so far holds no separator, searching the extended buffer from the window start finds exactly
   what a search from the beginning finds. *)
Theorem C19_search_window : forall L seps buf d, eqlen L seps ->
  search seps buf 0 = None ->
  search seps (buf ++ d) (search_start L (zlen buf)) = search seps (buf ++ d) 0.
Proof. exact search_window. Qed.
Print Assumptions C19_search_window.

(* What the specification says.  readexactly(n) with n bytes pending: exactly the first n bytes; the
   remainder stays for the next call. *)
Theorem C19_exact : forall n d t eofF, 0 < n <= zlen d ->
  spec_read n [] (map B d ++ t) eofF =
  Some (ROk (firstn (Z.to_nat n) d), map B (skipn (Z.to_nat n) d) ++ t).
Proof. exact spec_exact_enough. Qed.
Print Assumptions C19_exact.

(* EOF before n bytes: IncompleteReadError whose partial is everything that arrived, expected = n. *)
Theorem C19_exact_eof : forall n d, zlen d < n ->
  spec_read n [] (map B d) true = Some (RIncomplete d (Some n), []).
Proof. exact spec_exact_eof. Qed.
Print Assumptions C19_exact_eof.

(* A signal/break before n bytes: the partial data is reported first and the exception stays queued;
   with no data before it the exception itself is raised. *)
Theorem C19_exact_signal : forall n d e r eofF, d <> [] -> zlen d < n ->
  spec_read n [] (map B d ++ X e :: r) eofF = Some (RIncomplete d (Some n), X e :: r).
Proof. exact spec_exact_exn. Qed.
Print Assumptions C19_exact_signal.

Theorem C19_signal_raised : forall n e r eofF, n <> 0 -> e <> SOFT_EOF ->
  spec_read n [] (X e :: r) eofF = Some (RRaise e, r).
Proof. exact spec_raise. Qed.
Print Assumptions C19_signal_raised.

(* read() returns everything up to EOF. *)
Theorem C19_all : forall n d, n < 0 -> spec_read n [] (map B d) true = Some (ROk d, []).
Proof. exact spec_all_eof. Qed.
Print Assumptions C19_all.

(* readuntil with a single separator returns the data up to and including the first match, which is the
   shortest prefix of the stream that ends with the separator; the rest stays buffered. *)
Theorem C19_until_single : forall sep d t eofF idx, sep <> [] ->
  search [sep] d 0 = Some idx ->
  spec_until [sep] (map B d ++ t) eofF =
    Some (ROk (firstn (Z.to_nat idx) d), map B (skipn (Z.to_nat idx) d) ++ t) /\
  (exists u, firstn (Z.to_nat idx) d = u ++ sep) /\
  (forall u v, d = u ++ sep ++ v -> idx <= zlen u + zlen sep).
Proof.
  intros sep d t eofF idx Hne Hs.
  assert (He : eqlen (zlen sep) [sep]).
  { split; [destruct sep; [contradiction|unfold zlen; simpl; lia]|constructor; [reflexivity|constructor]]. }
  split; [eapply spec_until_found; eassumption|].
  destruct (search_shortest _ _ _ _ He Hs) as [(u & p & [<-|[]] & Hu) Hmin].
  split; [exists u; exact Hu|]. intros u' v Hd. apply (Hmin u' sep v); [left; reflexivity|exact Hd].
Qed.
Print Assumptions C19_until_single.

(* Several separators: proved for sets whose members all have one length (any such set, any chunking).
   Missing: sets with members of different lengths.  For those the statement is false of any streaming
   reader when one separator contains another (see C19_until_overlap below); for non-overlapping sets of
   different lengths it is not proved.  Compiled regular expressions are not modelled. *)
Theorem C19_until_multi_partial : forall L seps d t eofF idx, eqlen L seps ->
  search seps d 0 = Some idx ->
  spec_until seps (map B d ++ t) eofF =
    Some (ROk (firstn (Z.to_nat idx) d), map B (skipn (Z.to_nat idx) d) ++ t) /\
  (exists u p, In p seps /\ firstn (Z.to_nat idx) d = u ++ p) /\
  (forall u p v, In p seps -> d = u ++ p ++ v -> idx <= zlen u + zlen p).
Proof.
  intros L seps d t eofF idx He Hs. split; [eapply spec_until_found; eassumption|].
  eapply search_shortest; eassumption.
Qed.
Print Assumptions C19_until_multi_partial.

(* No separator before EOF: IncompleteReadError with everything that arrived (readline returns it). *)
Theorem C19_until_eof : forall seps d, search seps d 0 = None ->
  spec_until seps (map B d) true = Some (RIncomplete d None, []) /\
  (forall u p v, In p seps -> d <> u ++ p ++ v).
Proof. intros seps d Hs. split; [apply spec_until_eof; assumption|apply search_none_spec; assumption]. Qed.
Print Assumptions C19_until_eof.

(* read(n), n > 0, returns what is buffered, at most n bytes, in order, nothing lost (this holds for every
   buffer, empty chunks included); with non-empty chunks an empty result means EOF or a soft EOF. *)
Theorem C19_upto : forall s n d s' orc',
  0 < n -> read_loop false [] s n [] false = (Done (ROk d), s', orc') ->
  d ++ bytes_of (rbuf s') = bytes_of (rbuf s) /\ zlen d <= n /\
  (chunks_ok (rbuf s) -> d = [] ->
     (rbuf s = [] /\ eof s = true) \/ (exists r, rbuf s = Exn SOFT_EOF :: r)).
Proof. exact read_upto. Qed.
Print Assumptions C19_upto.

(* Exit status only with complete output: wait()/run() report nothing while the channel is open, whatever
   exit-status or exit-signal messages have arrived ... *)
Theorem C19_exit_needs_close : forall ms, ~ In WClose ms -> proc_wait (proc_run ms) = None.
Proof. exact wait_needs_close. Qed.
Print Assumptions C19_exit_needs_close.

(* ... and once it is closed they report the status together with all stdout and all stderr data sent
   before the close, for every order of data, EOF, exit status, exit signal. *)
Theorem C19_exit_complete : forall pre post, ~ In WClose pre ->
  proc_wait (proc_run (pre ++ WClose :: post)) =
  Some (exit_status (proc_run pre), outs false pre, errs false pre).
Proof. exact wait_complete. Qed.
Print Assumptions C19_exit_complete.

(* Redirection copies everything, in order: what was buffered before the writer was attached, then EOF if
   it had already arrived, then whatever arrives later; EOF is passed on when recv_eof is set. *)
Theorem C19_redirect : forall es1 re es2, no_setw es1 -> no_setw es2 ->
  r_written (redir_run (es1 ++ RvSetWriter re :: es2)) =
  map item_tok (flat_map rev_item es1) ++ (if has_eof es1 && re then [TEof] else []) ++ flat_map (rev_tok re) es2.
Proof. exact redirect_copies. Qed.
Print Assumptions C19_redirect.

(* Asynchronously written redirect targets (async file objects, StreamWriters, pipes): wait()/run()/communicate()
   return only when the channel is closed and the writer queue has been joined; at that moment the target holds
   exactly what was sent before the close, in order and closed after it, for every interleaving of data, EOF,
   the moment the target is attached (also after the channel has closed, fb5761c), writer turns and close.
   (Returning at channel close alone, without the join, is what seeded change C19-d does; the theorem is false
   of that.) *)
Theorem C19_wait_flushes_redirect : forall es,
  await_done (arun es) = true -> a_target (arun es) = asent false es.
Proof. exact wait_flushes_redirect. Qed.
Print Assumptions C19_wait_flushes_redirect.

Example C19_wait_flushes_example :
  let es := [AvAttach; AvData [1]; AvTurn; AvData [2]; AvEof; AvClose] in
  await_done (arun es) = false /\ a_target (arun es) = [TData [1]] /\
  await_done (arun (es ++ [AvTurn; AvTurn])) = true.
Proof. vm_compute. repeat split; reflexivity. Qed.

(* about the old definition only: before fb5761c a pipe attached after the channel had closed was not waited
   for, so wait() could return with the output still in the writer *)
Theorem C19_attached_after_close_old_refuted : exists es,
  await_done_old (arun es) = true /\ a_target (arun es) <> asent false es.
Proof. exists [AvData [1]; AvEof; AvClose; AvAttach]. vm_compute. split; [reflexivity|discriminate]. Qed.
Print Assumptions C19_attached_after_close_old_refuted.

(* drain: waits exactly while writing is paused and the channel is there; a normal return implies writing is
   not paused; a lost channel with an error, or lost while paused, makes it fail; resume_writing and
   connection_lost release a waiting drain.
   Partial: after a clean close with writing not paused drain returns normally although nothing more can
   be written (see C19_drain_clean_close). *)
Theorem C19_drain_partial : forall s,
  (forall l, drain_run s = Blocked l -> wpaused s = true /\ lost s = false) /\
  (wpaused s = true -> lost s = false -> exists l, drain_run s = Blocked l) /\
  (drain_run s = Done (ROk []) -> wpaused s = false) /\
  (lost s = true -> (wpaused s = true \/ lost_exc s <> None) -> exists r, drain_run s = Done r /\ r <> ROk []).
Proof. exact drain_spec. Qed.
Print Assumptions C19_drain_partial.

Theorem C19_drain_released : forall s,
  (forall l, drain_run (deliver s EvResumeW) <> Blocked l) /\
  (forall x l, drain_run (deliver s (EvLost x)) <> Blocked l).
Proof. exact drain_released. Qed.
Print Assumptions C19_drain_released.

(* ---- the code before the repairs b8d274c and d47620c (run_sched_old = the model with the old
   data_received and the old readuntil branch) violated the statement; these three theorems are about the old
   definitions only and record the findings ----------------------------------------------------------- *)

(* An empty chunk (what the channel's incremental decoder hands over when a packet ends inside a multi-byte
   character) makes read(5) return an empty result although EOF has not been received and data follows. *)
Theorem C19_empty_chunk_eof_refuted : exists sch,
  let w := run_sched_old 0 [OpRead 5; OpRead 5] sch in
  w_res w = [ROk []; ROk [97]] /\ eof (w_sess w) = false.
Proof.
  exists [SDeliver (EvData []); SRun []; SDeliver (EvData [97]); SRun []]. vm_compute. split; reflexivity.
Qed.
Print Assumptions C19_empty_chunk_eof_refuted.

(* An empty chunk followed by a break/signal makes readline raise TypeError (the empty chunk is popped in
   place of the exception); the same tokens without the empty chunk raise the exception. *)
Theorem C19_empty_chunk_typeerror_refuted : exists sch1 sch2,
  let w1 := run_sched_old 0 [OpLine] sch1 in
  let w2 := run_sched_old 0 [OpLine] sch2 in
  toks (dl (w_sess w1)) = toks (dl (w_sess w2)) /\ w_res w1 = [RTypeError] /\ w_res w2 = [RRaise 9].
Proof.
  exists [SDeliver (EvData []); SDeliver (EvExn 9); SRun []], [SDeliver (EvExn 9); SRun []].
  vm_compute. repeat split; reflexivity.
Qed.
Print Assumptions C19_empty_chunk_typeerror_refuted.

(* A full window followed by a break leaves the session marked paused after the partial line and the
   exception have been consumed; the next readline then returns an empty line although there is no EOF,
   no exception and an empty buffer. *)
Theorem C19_stale_pause_refuted : exists sch,
  let w := run_sched_old 4 [OpLine; OpLine; OpLine] sch in
  w_res w = [ROk [97;97;97;97;97]; RRaise 9; ROk []] /\ eof (w_sess w) = false /\ rbuf (w_sess w) = [].
Proof.
  exists [SDeliver (EvData [97;97;97;97;97]); SDeliver (EvExn 9); SRun []]. vm_compute. repeat split; reflexivity.
Qed.
Print Assumptions C19_stale_pause_refuted.

(* the same three schedules on the repaired model *)
Example C19_repaired :
  w_res (run_sched 0 [OpRead 5; OpRead 5] [SDeliver (EvData []); SRun []; SDeliver (EvData [97]); SRun []]) = [ROk [97]] /\
  w_res (run_sched 0 [OpLine] [SDeliver (EvData []); SDeliver (EvExn 9); SRun []]) = [RRaise 9] /\
  (let w := run_sched 4 [OpLine; OpLine; OpLine] [SDeliver (EvData [97;97;97;97;97]); SDeliver (EvExn 9); SRun []] in
   w_res w = [ROk [97;97;97;97;97]; RRaise 9] /\ rpaused (w_sess w) = false).
Proof. vm_compute. repeat split; reflexivity. Qed.

(* ---- examples (non-vacuity, and the two documented limits) ------------------------------------ *)

(* hypotheses of the central theorem are met by a schedule with a read larger than the window, a pause at
   the window and a synchronous delivery inside resume_reading ... *)
Example C19_example :
  let sch := [SDeliver (EvData [97;13]); SRun []; SDeliver (EvData [10;98;98;98;98;98;98]);
              SRun [[EvData [99;13;10]]]; SDeliver EvEof] in
  let w := run_sched 4 [OpExact 1; OpRead 0; OpExact 9; OpRead (-1)] (sch ++ [SRun []]) in
  w_res w = [ROk [97]; ROk []; ROk [13;10;98;98;98;98;98;98;99]; ROk [13;10]]
  /\ rev (calls (w_sess w)) = [true; false]
  /\ Forall op_ok [OpExact 1; OpRead 0; OpExact 9; OpRead (-1)]
  /\ has_until [OpExact 1; OpRead 0; OpExact 9; OpRead (-1)] = false
  /\ late (w_sess w) = false.
Proof.
  split; [vm_compute; reflexivity|]. split; [vm_compute; reflexivity|].
  split; [repeat constructor; simpl; lia|]. split; vm_compute; reflexivity.
Qed.

(* ... and by a schedule with separators spanning chunk boundaries *)
Example C19_example_until :
  let w := run_sched 0 [OpUntil1 [13;10]; OpUntilN [[44];[59]]; OpLine]
                     [SDeliver (EvData [97;13]); SRun []; SDeliver (EvData [10;98]); SRun [];
                      SDeliver (EvData [59;99]); SDeliver EvEof; SRun []] in
  w_res w = [ROk [97;13;10]; ROk [98;59]; ROk [99]].
Proof. vm_compute. reflexivity. Qed.

(* separators where one contains the other: the result depends on chunking for any reader that answers as
   soon as it can, so no such theorem exists for them *)
Example C19_until_overlap :
  w_res (run_sched 0 [OpUntilN [[97;98;99];[97;98]]] [SDeliver (EvData [97;98;99]); SRun []]) = [ROk [97;98;99]] /\
  w_res (run_sched 0 [OpUntilN [[97;98;99];[97;98]]] [SDeliver (EvData [97;98]); SRun []; SDeliver (EvData [99]); SRun []])
    = [ROk [97;98]].
Proof. vm_compute. split; reflexivity. Qed.

(* drain after a clean close, writing not paused: returns normally *)
Example C19_drain_clean_close :
  drain_run (deliver (init_sess 0) (EvLost None)) = Done (ROk []).
Proof. vm_compute. reflexivity. Qed.
