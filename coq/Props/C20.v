(* C20 - Forwarded connections relay faithfully and only where permitted.
   Statements only; proofs are in Proofs/ForwardInv.v, Proofs/ForwardProofs.v, Proofs/SocksProofs.v.

   The pair machine [run c s0 ops] (Model/Forward.v) is the two forwarder objects of forward.py
   between one socket (A side) and one SSH channel (B side).  [start0 s0]: it starts either as a
   local forwarder still waiting for its channel (st0: forward_local_port / forward_local_path /
   forward_socks / server-side listeners) or as an already linked remote pair (st_linked:
   forward_connection / forward_unix_connection).  Operation lists are arbitrary: an operation the
   environment (asyncio socket transport, SSH channel) cannot produce in the current state is
   skipped ([legal]), so every statement quantifies over every interleaving of data, EOF, close,
   pause/resume from both sides, confirmation / failure of the channel open and loss of the
   SSH connection.  [c : cfg] selects repaired or unrepaired behaviour per defect found by this
   check; /repo now is [cfg_head] = [cfg_fixed]. *)
From AV Require Import Base.Prelude Model.Socks Proofs.SocksProofs.
From AV Require Import Model.Forward Proofs.ForwardInv Proofs.ForwardProofs Proofs.ForwardSteps Proofs.ForwardTunnel.

(* ---- relay ------------------------------------------------------------------------------- *)

(* socket -> channel: for every operation sequence, the bytes written to the channel followed by
   what still waits in the early-data buffer are exactly the bytes the socket delivered, in order;
   once the channel open is confirmed nothing waits (data that arrived before the confirmation
   included).  Holds for repaired and unrepaired code. *)
Theorem C20_relay_order_AB : forall c s0 ops, start0 s0 ->
  let s := run c s0 ops in
  inA s = written (outB s) ++ f_buf (sa s) /\ (ph s = Confirmed -> f_buf (sa s) = []).
Proof. exact relay_AB. Qed.
Print Assumptions C20_relay_order_AB.

(* channel -> socket: what was written to the socket is a prefix of what the channel delivered,
   and all of it as long as the socket transport exists. *)
Theorem C20_relay_order_BA : forall c s0 ops, start0 s0 ->
  let s := run c s0 ops in
  exists t, inB s = written (outA s) ++ t /\ (f_tr (sa s) = true -> t = []).
Proof. exact relay_BA. Qed.
Print Assumptions C20_relay_order_BA.

(* the ghost fields inA/inB are what they are said to be: a deliverable DataA appends its payload,
   an undeliverable one (transport gone / after EOF) and every other operation leave inA alone *)
Theorem C20_inA_is_delivered : forall c s,
  (forall d, inA (step c s (DataA d)) = inA s ++ (if legal s (DataA d) then d else [])) /\
  (forall o, (forall d, o <> DataA d) -> inA (step c s o) = inA s).
Proof. intros c s. split; [apply inA_step_data | apply inA_step_other]. Qed.
Print Assumptions C20_inA_is_delivered.

(* ---- half-close -------------------------------------------------------------------------- *)

(* on both transports: nothing is written after an EOF, at most one EOF, nothing at all is called
   after close() *)
Theorem C20_half_close_order : forall c s0 ops, start0 s0 ->
  let s := run c s0 ops in ordered (outA s) = true /\ ordered (outB s) = true.
Proof. exact out_ordered. Qed.
Print Assumptions C20_half_close_order.

(* EOF from the socket reaches the channel exactly once and only then: no EOF is sent while the
   socket has not half-closed; once the channel is confirmed and the socket has half-closed
   (before or after the confirmation) exactly one EOF has been sent (after all data, by the
   previous theorem). *)
Theorem C20_half_close_AB : forall c s0 ops, start0 s0 ->
  let s := run c s0 ops in
  (f_eof (sa s) = false -> count_eof (outB s) = O) /\
  (ph s = Confirmed -> f_eof (sa s) = true -> count_eof (outB s) = 1%nat).
Proof. exact eof_AB_once. Qed.
Print Assumptions C20_half_close_AB.

(* EOF from the channel while the socket is there is written to the socket, exactly once *)
Theorem C20_half_close_BA : forall c s0 ops, start0 s0 ->
  let s := run c s0 ops in
  legal s EofB = true -> f_tr (sa s) = true ->
  count_eof (outA s) = O /\ count_eof (outA (step c s EofB)) = 1%nat.
Proof. exact eof_BA_step. Qed.
Print Assumptions C20_half_close_BA.

(* ... while the other direction keeps flowing: an EOF in one direction closes no transport and
   cuts no link as long as the other direction has not seen its EOF (with the two relay theorems:
   data keeps being relayed) *)
Theorem C20_half_close_keeps_flowing : forall c s,
  (legal s EofA = true -> f_eof (sb s) = false ->
   let s' := step c s EofA in
   f_tr (sa s') = f_tr (sa s) /\ f_tr (sb s') = f_tr (sb s) /\
   f_peer (sa s') = f_peer (sa s) /\ f_peer (sb s') = f_peer (sb s)) /\
  (legal s EofB = true -> f_eof (sa s) = false ->
   let s' := step c s EofB in
   f_tr (sa s') = f_tr (sa s) /\ f_tr (sb s') = f_tr (sb s) /\
   f_peer (sa s') = f_peer (sa s) /\ f_peer (sb s') = f_peer (sb s)).
Proof. intros c s. split; [apply eofA_keeps_open | apply eofB_keeps_open]. Qed.
Print Assumptions C20_half_close_keeps_flowing.

(* ---- close ------------------------------------------------------------------------------- *)

(* closing either end closes both (code as repaired by a38f966): once either transport has
   reported connection_lost - at any point, also before the channel is confirmed, also by loss of
   the SSH connection - both transports are closed, for every operation sequence *)
Theorem C20_close_both : forall c s0 ops, fix_lost_early c = true -> start0 s0 ->
  let s := run c s0 ops in
  lostA s = true \/ lostB s = true -> f_tr (sa s) = false /\ f_tr (sb s) = false.
Proof. exact close_both_fixed. Qed.
Print Assumptions C20_close_both.

(* "closed" means transport.close() was called, exactly once *)
Theorem C20_close_called_once : forall c s0 ops, start0 s0 ->
  let s := run c s0 ops in
  (f_tr (sa s) = false -> count_close (outA s) = 1%nat) /\
  (ph s = Confirmed -> f_tr (sb s) = false -> count_close (outB s) = 1%nat).
Proof. exact closed_means_close_called. Qed.
Print Assumptions C20_close_called_once.

(* the snapshot before a38f966: a socket lost before the confirmation leaves the channel open
   after the early data was flushed into it *)
Theorem C20_close_both_old_refuted : exists ops,
  let s := run cfg_old st0 ops in
  lostA s = true /\ f_tr (sb s) = true /\ outB s = [TWrite [1]].
Proof. exists [DataA [1]; CloseA; Confirm]. exact close_both_old_witness. Qed.
Print Assumptions C20_close_both_old_refuted.

(* what did hold before the repair: every loss after a point where the channel was confirmed and
   the socket still there closes both *)
Theorem C20_close_both_old_partial : forall c s0 ops1 ops2, start0 s0 ->
  let s1 := run c s0 ops1 in
  ph s1 = Confirmed -> f_tr (sa s1) = true ->
  let s2 := run c s1 ops2 in
  lostA s2 = true \/ lostB s2 = true -> f_tr (sa s2) = false /\ f_tr (sb s2) = false.
Proof. exact close_both_partial. Qed.
Print Assumptions C20_close_both_old_partial.

(* once both directions have seen EOF the pair is closed (code as repaired by 19cc224) *)
Theorem C20_both_eof_closes : forall c s0 ops, fix_crossed c = true -> start0 s0 ->
  let s := run c s0 ops in
  f_eof (sa s) = true -> f_eof (sb s) = true -> f_tr (sa s) = false /\ f_tr (sb s) = false.
Proof. exact both_eof_closed_fixed. Qed.
Print Assumptions C20_both_eof_closes.

(* before 19cc224: when the socket's EOF comes first and the channel's EOF second the pair stays
   open, and in a tunnel whose two endpoints half-close at the same time (the two CHANNEL_EOFs
   cross) every forwarder is in that situation: all data and both EOFs are delivered, nothing is
   in flight, and all four transports stay open *)
Theorem C20_crossed_eof_old_refuted : exists ops,
  let t := trun cfg_old ops in
  q12 t = [] /\ q21 t = [] /\
  written (outA (tr_ t)) = [1;2] /\ written (outA (tl t)) = [3] /\
  count_eof (outA (tl t)) = 1%nat /\ count_eof (outA (tr_ t)) = 1%nat /\
  tun_all_closed t = false.
Proof.
  exists crossed_ops. pose proof tunnel_crossed_old_witness as H. cbv zeta in H.
  repeat split; apply H.
Qed.
Print Assumptions C20_crossed_eof_old_refuted.

(* pause propagation: a full write buffer on one side pauses reading on the other side *)
Theorem C20_pause_propagated : forall c s0 ops, start0 s0 ->
  let s := run c s0 ops in
  (legal s PauseA = true -> f_peer (sa s) = true -> outB (step c s PauseA) = outB s ++ [TPause]) /\
  (legal s ResumeA = true -> f_peer (sa s) = true -> outB (step c s ResumeA) = outB s ++ [TResume]).
Proof. exact pause_propagated. Qed.
Print Assumptions C20_pause_propagated.

(* no `assert self._transport is not None` can fail (repaired code); before a38f966 one could *)
Theorem C20_no_assert : forall c s0 ops, fix_lost_early c = true -> start0 s0 ->
  asrt (run c s0 ops) = false.
Proof. exact no_assert_fixed. Qed.
Print Assumptions C20_no_assert.

Theorem C20_no_assert_old_refuted : exists ops, asrt (run cfg_old st0 ops) = true.
Proof. exists [CloseA; Confirm; PauseB]. exact assert_old_witness. Qed.
Print Assumptions C20_no_assert_old_refuted.

(* ---- all four ends: the tunnel ------------------------------------------------------------- *)

(* [trun c ops]: local pair (client socket, channel), the two FIFO directions of the channel,
   remote pair (channel, destination socket); ops = socket events at either end, the open
   confirmation, and deliveries of the oldest channel message in either direction, in any order. *)

(* no reordering, duplication or invention end to end: what was written to the destination socket
   is a prefix of what the client socket delivered, and vice versa, for every interleaving *)
Theorem C20_tunnel_relay_order : forall c ops, let t := trun c ops in
  (exists rest, inA (tl t) = written (outA (tr_ t)) ++ rest) /\
  (exists rest, inA (tr_ t) = written (outA (tl t)) ++ rest).
Proof. exact tunnel_prefix. Qed.
Print Assumptions C20_tunnel_relay_order.

(* ... and complete: when nothing is in flight and the receiving pair is alive (channel session
   open, no EOF received yet, socket there), every byte has arrived *)
Theorem C20_tunnel_relay_complete : forall c ops, let t := trun c ops in
  (ph (tl t) = Confirmed -> q12 t = [] ->
   f_tr (sb (tr_ t)) = true -> f_eof (sb (tr_ t)) = false -> lostB (tr_ t) = false -> f_tr (sa (tr_ t)) = true ->
   written (outA (tr_ t)) = inA (tl t)) /\
  (q21 t = [] ->
   f_tr (sb (tl t)) = true -> f_eof (sb (tl t)) = false -> lostB (tl t) = false -> f_tr (sa (tl t)) = true ->
   written (outA (tl t)) = inA (tr_ t)).
Proof. exact tunnel_complete. Qed.
Print Assumptions C20_tunnel_relay_complete.

(* half-close end to end: once the client socket has half-closed (before or after the channel was
   confirmed) and everything in flight has arrived, the destination socket has been sent exactly
   one EOF (after all data, C20_half_close_order), provided the remote pair still exists; and the
   same from the destination to the client *)
Theorem C20_tunnel_half_close : forall c ops, let t := trun c ops in
  (ph (tl t) = Confirmed -> f_eof (sa (tl t)) = true -> q12 t = [] ->
   lostB (tr_ t) = false -> f_tr (sa (tr_ t)) = true -> count_eof (outA (tr_ t)) = 1%nat) /\
  (f_eof (sa (tr_ t)) = true -> q21 t = [] ->
   lostB (tl t) = false -> f_tr (sa (tl t)) = true -> count_eof (outA (tl t)) = 1%nat).
Proof. intros c ops t. split; [apply tunnel_eof_12 | apply tunnel_eof_21]. Qed.
Print Assumptions C20_tunnel_half_close.

(* closing either end closes both: once the client socket (code as repaired by a38f966: also if
   that happened before the confirmation) or the destination socket is lost and the resulting
   channel close has arrived, all four transports are closed *)
Theorem C20_tunnel_close_both : forall c ops, let t := trun c ops in
  (fix_lost_early c = true -> ph (tl t) = Confirmed -> lostA (tl t) = true -> q12 t = [] ->
   tun_all_closed t = true) /\
  (ph (tl t) = Confirmed -> lostA (tr_ t) = true -> q21 t = [] -> tun_all_closed t = true).
Proof. intros c ops t. split; [apply tunnel_close_from_local | apply tunnel_close_from_remote]. Qed.
Print Assumptions C20_tunnel_close_both.

(* ---- permission --------------------------------------------------------------------------- *)

(* A forwarding / listen request is served iff the authorized_keys options permit port
   forwarding AND the certificate (if one was used) carries permit-port-forwarding AND, for
   direct-tcpip, the destination passes the permitopen list AND the application callback says
   yes.  [decide] is the exact decision function of connection.py. *)
Theorem C20_permitted : forall kind k cr app host port,
  decide kind k cr app host port = Served <->
  key_permits k = true /\ cert_permits cr = true /\
  (kind = KDirectTcp -> permitopen_permits k host port = true) /\ app = true.
Proof. exact served_iff. Qed.
Print Assumptions C20_permitted.

(* what the three credential components mean *)
Theorem C20_permit_components : forall k cr host port,
  (key_permits k = true <-> ko_no_pf k = false) /\
  (cert_permits cr = true <-> (cr = None \/ cr = Some true)) /\
  (permitopen_permits k host port = true <->
   (ko_permitopen k = [] \/ In (host, Some port) (ko_permitopen k) \/ In (host, None) (ko_permitopen k))).
Proof.
  intros. split; [apply key_permits_spec | split; [apply cert_permits_spec | apply permitopen_permits_spec]].
Qed.
Print Assumptions C20_permit_components.

(* the application is not even asked when the credential forbids the request *)
Theorem C20_prohibited_ignores_app : forall kind k cr host port,
  app_consulted kind k cr host port = false ->
  forall app, decide kind k cr app host port = Prohibited.
Proof. exact prohibited_ignores_app. Qed.
Print Assumptions C20_prohibited_ignores_app.

(* ---- listeners and relayed sockets are released ------------------------------------------ *)

(* right after connection cleanup nothing is registered and no registered resource is open
   (repaired and unrepaired code) *)
Theorem C20_listeners_released_at_cleanup : forall c ops,
  let r := rrun c (ops ++ [RCleanup]) in r_table r = [] /\ r_open r = [] /\ r_cleaned r = true.
Proof. exact reg_cleanup_now. Qed.
Print Assumptions C20_listeners_released_at_cleanup.

(* and it stays so whatever completes afterwards (code as repaired by d2c8d1f / 5e4160a): for every
   operation sequence, once the connection has been cleaned up no listener and no relayed socket
   exists *)
Theorem C20_listeners_released : forall c ops, fix_register c = true ->
  let r := rrun c ops in r_cleaned r = true -> r_table r = [] /\ r_open r = [].
Proof. exact reg_released_fixed. Qed.
Print Assumptions C20_listeners_released.

(* before: a listener whose creation was in flight during cleanup was registered afterwards and
   stayed open *)
Theorem C20_listeners_released_old_refuted : exists ops,
  let r := rrun cfg_old ops in r_cleaned r = true /\ r_inflight r = [] /\ r_open r = [1].
Proof.
  exists [RBegin 1; RCleanup; RFinish 1]. pose proof reg_released_old_witness as H. cbv zeta in H.
  repeat split; apply H.
Qed.
Print Assumptions C20_listeners_released_old_refuted.

(* ---- SOCKS -------------------------------------------------------------------------------- *)

(* For every well-formed SOCKS4 / SOCKS4a / SOCKS5 request, every trailing data and EVERY
   chunking of the byte stream, the parser asks for exactly the destination the bytes encode,
   sends exactly the protocol's replies, hands exactly the trailing bytes on to be relayed, and
   neither closes nor crashes.  Holds with and without the repair. *)
Theorem C20_socks_parse_spec :
  forall (fx : bool) (r : sreq) (tail : bytes) (chunks : list bytes),
    req_ok r = true -> concat chunks = encode r ++ tail ->
    let s := feed_all fx chunks in
    k_req s = Some (target r) /\ k_out s = replies r /\ k_early s = tail /\
    k_crash s = false /\ k_oof s = false /\ k_tr s = true /\ k_h s = HNone.
Proof. exact socks_parse_spec. Qed.
Print Assumptions C20_socks_parse_spec.

(* malformed input is rejected cleanly (code as repaired by 7ae04cf): no input whatsoever, in no
   chunking, makes an assertion fail, and a forwarder that closed has not asked for a connection *)
Theorem C20_socks_clean : forall chunks,
  let s := feed_all true chunks in
  k_crash s = false /\ k_oof s = false /\ (k_tr s = false -> k_req s = None).
Proof.
  intros chunks s. split; [apply socks_clean_fixed | split; [apply feed_all_no_oof |]].
  apply socks_closed_no_request_fixed.
Qed.
Print Assumptions C20_socks_clean.

(* before 7ae04cf a SOCKS5 greeting with zero methods made an AssertionError escape *)
Theorem C20_socks_clean_old_refuted : exists chunks, k_crash (feed_all false chunks) = true.
Proof. exact socks_clean_head_refuted. Qed.
Print Assumptions C20_socks_clean_old_refuted.

(* a SOCKS client that half-closes before its request is complete: with the proposed repair
   (fix_6, not yet in /repo: socks_eof_fx_head = false) the forwarder closes its socket at once and
   no connection is requested; the code as it is answers "keep open" and, no tunnel having been
   started, nothing ever closes that socket (finding C20-6) *)
Theorem C20_socks_eof_incomplete : forall fx chunks,
  let s := feed_all fx chunks in
  k_h s <> HNone ->
  k_tr (fst (seof true s)) = false /\ snd (seof true s) = false /\ k_req (fst (seof true s)) = k_req s.
Proof. exact socks_eof_incomplete_fixed. Qed.
Print Assumptions C20_socks_eof_incomplete.

Theorem C20_socks_eof_incomplete_old_refuted : exists chunks,
  let s := feed_all true chunks in
  k_h s <> HNone /\ k_req s = None /\ k_tr (fst (seof false s)) = true /\ snd (seof false s) = true.
Proof. exact socks_eof_incomplete_old_refuted. Qed.
Print Assumptions C20_socks_eof_incomplete_old_refuted.

(* ---- non-vacuity -------------------------------------------------------------------------- *)

(* early data + early EOF, confirmation, reply, EOF back: everything relayed, both closed *)
Example C20_example_early :
  let s := run cfg_head st0 [DataA [1;2]; EofA; Confirm; DataB [7]; EofB] in
  outB s = [TWrite [1;2]; TEof; TClose] /\ outA s = [TWrite [7]; TEof; TClose] /\
  f_tr (sa s) = false /\ f_tr (sb s) = false.
Proof. vm_compute. repeat split. Qed.

Example C20_example_crossed_fixed :
  tun_all_closed (trun cfg_fixed (crossed_ops ++ [Deliver12; Deliver21])) = true.
Proof. vm_compute. reflexivity. Qed.

Example C20_example_permit :
  decide KDirectTcp (mkKO false [([104], Some 80)]) (Some true) true [104] 80 = Served /\
  decide KDirectTcp (mkKO false [([104], Some 80)]) (Some true) true [104] 81 = Prohibited /\
  decide KListenTcp (mkKO false [([104], Some 80)]) (Some false) true [104] 81 = Prohibited /\
  decide KDirectUnix (mkKO false []) None false [] 0 = Refused.
Proof. vm_compute. repeat split. Qed.

Example C20_example_socks :
  let s := feed_all socks_fx_head [[5;1];[0;5;1;0;3;2;104];[105;0;80;9;9]] in
  k_req s = Some (HName [104;105], 80) /\ k_early s = [9;9].
Proof. vm_compute. split; reflexivity. Qed.
