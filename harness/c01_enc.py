"""C01 at byte level: adversarial edits of a real send_packet stream against the real receive path.

A real sans-IO connection writes a stream with the REAL shim classes of asyncssh.encryption over the toy
primitives of coq/Model/PacketEnc.v (see harness/c02_enc.py); the stream is edited (bit flip, insertion,
deletion, truncation, duplicated / swapped / dropped frame, frame spliced in from another sequence number)
WITHOUT recomputing any tag - exactly the `unforgeable` premise of C01_byte_prefix_integrity, the toy tag
being forgeable by construction - and fed in a random chunking to a second real connection.  Oracle: the
payloads handed to process_packet are exactly those of the leading frames that arrived byte-identical,
with consecutive sequence numbers, and the connection ends with MACError or waits for more data; never
another error class, never a payload of or behind the first altered frame.  The same runs are evaluated by
the model inside Coq (chk_enc_feed).
"""
from . import core, sshutil
from . import c02_enc as E
from .core import zl, clist

KINDS = ('flip', 'insert', 'delete', 'truncate', 'dup', 'swap', 'drop', 'splice', 'none')


def apply_edit(frames, other, ed):
    """frames: the honest writes; other: the writes of a sender that started at another sequence number"""
    kind = ed['kind']
    data = b''.join(frames)
    if kind == 'none':
        return data
    if kind == 'flip':
        p = ed['pos'] % len(data)
        return data[:p] + bytes([data[p] ^ ed['mask']]) + data[p + 1:]
    if kind == 'insert':
        p = ed['pos'] % (len(data) + 1)
        return data[:p] + bytes.fromhex(ed['bytes']) + data[p:]
    if kind == 'delete':
        p = ed['pos'] % len(data)
        return data[:p] + data[p + ed['n']:]
    if kind == 'truncate':
        return data[:ed['pos'] % len(data)]
    fr = list(frames)
    i = ed['i'] % len(fr)
    if kind == 'dup':
        fr.insert(ed['at'] % (len(fr) + 1), fr[i])
    elif kind == 'swap':
        j = ed['j'] % len(fr)
        fr[i], fr[j] = fr[j], fr[i]
    elif kind == 'drop':
        del fr[i]
    elif kind == 'splice':
        fr[i] = other[i]
    return b''.join(fr)


def leading_intact(frames, edited):
    """number of honest frames that lie completely inside the common prefix of honest wire and edited stream"""
    data = b''.join(frames)
    p = 0
    n = min(len(data), len(edited))
    while p < n and data[p] == edited[p]:
        p += 1
    j, acc = 0, 0
    for f in frames:
        acc += len(f)
        if acc <= p:
            j += 1
        else:
            break
    return j, p


def gen_edit(rng, kind, frames):
    total = sum(len(f) for f in frames)
    if kind == 'flip':
        return {'kind': kind, 'pos': rng.randrange(total),
                'mask': (1 << rng.randrange(8)) if rng.random() < 0.7 else rng.randint(1, 255)}
    if kind == 'insert':
        return {'kind': kind, 'pos': rng.randrange(total + 1), 'bytes': E.rbytes(rng, rng.randint(1, 5)).hex()}
    if kind == 'delete':
        return {'kind': kind, 'pos': rng.randrange(total), 'n': rng.randint(1, 3)}
    if kind == 'truncate':
        return {'kind': kind, 'pos': rng.randrange(total)}
    if kind == 'dup':
        return {'kind': kind, 'i': rng.randrange(len(frames)), 'at': rng.randrange(len(frames) + 1)}
    if kind == 'swap':
        return {'kind': kind, 'i': rng.randrange(len(frames)), 'j': rng.randrange(len(frames))}
    if kind in ('drop', 'splice'):
        return {'kind': kind, 'i': rng.randrange(len(frames))}
    return {'kind': 'none'}


async def one_case(bench, cfg, msgs, ed, cuts=None, rng=None, other_seq=None):
    mode, bs, tl, k, c0, seq0 = cfg
    frames, _ = await E.real_send(bench, cfg, msgs)
    payloads = [p for p, _ in E.open_writes(cfg, frames)]
    other = None
    if ed['kind'] == 'splice':
        # a sender of the same keys at another sequence number (for GCM, which binds the invocation counter instead
        # of the sequence number, at another invocation counter)
        other, _ = await E.real_send(bench, (mode, bs, tl, k, c0 + (1 if mode == 2 else 0), other_seq), msgs)
    edited = apply_edit(frames, other, ed)
    j, p = leading_intact(frames, edited)
    chunks = E.rechunk(edited, cuts) if cuts is not None else E.chunkings(rng, edited)
    obs = await E.real_recv(bench, cfg, chunks, auth=True)
    return frames, payloads, edited, j, p, chunks, obs


def judge(cfg, frames, payloads, edited, j, p, ed, obs):
    """None if fine, else a description of the violation"""
    seq0 = cfg[5]
    got, seqs, fail, _ = obs
    if got != payloads[:j]:
        return (f'delivered {len(got)} payloads {[g.hex() for g in got]}; the {j} leading frames that arrived unaltered '
                f'carry {[q.hex() for q in payloads[:j]]}')
    if seqs != [(seq0 + i) & 0xffffffff for i in range(len(got))]:
        return f'sequence numbers {seqs}'
    if fail == 2:
        return 'connection ended with an error other than MACError'
    data = b''.join(frames)
    if edited == data:
        return None if fail == 0 else f'untouched stream ended with failure class {fail}'
    if ed['kind'] == 'flip':
        acc = 0
        for f in frames:
            if p < acc + len(f):
                break
            acc += len(f)
        if p - acc >= 4 and fail != 1:
            return 'flipped byte behind the length field of a complete frame did not end in MACError'
    return None


async def _stage(ctx):
    rng = ctx.rng
    thorough = ctx.tier == 'thorough'
    bench = await E.Bench().start()
    n = 3000 if thorough else 320
    seen_kinds, seen_modes = set(), set()
    fails = {0: 0, 1: 0, 2: 0}
    viol = 0
    cases, meta = [], []
    for i in range(n):
        mode = rng.randrange(4)
        cfg = (mode, rng.choice([8, 16, 16, 32, 64]), rng.choice([4, 16, 20, 32]), rng.randint(0, 255),
               rng.choice([0, 1, 7, 255, 1000, 70000]), rng.choice([0, 1, 255, 65535, 2 ** 31, 2 ** 32 - 2, 2 ** 32 - 1]))
        low = rng.random() < 0.5            # only types the model's checker compares completely (below 20)
        types = [t for t in E.SAFE_TYPES if t < 20] if low else E.SAFE_TYPES
        msgs = [(rng.choice(types), E.rbytes(rng, rng.choice([0, 1, 3, 4, 7, 8, 11, 12, 20, 33, 70])))
                for _ in range(rng.randint(2, 5))]
        kind = KINDS[i % len(KINDS)] if i % 7 else rng.choice(KINDS)
        probe, _ = await E.real_send(bench, cfg, msgs)
        ed = gen_edit(rng, kind, probe)                      # frame lengths do not depend on the random padding
        other_seq = (cfg[5] + rng.choice([1, 2, 256, 2 ** 31])) & 0xffffffff
        frames, payloads, edited, j, p, chunks, obs = await one_case(bench, cfg, msgs, ed, rng=rng, other_seq=other_seq)
        seen_kinds.add(kind)
        seen_modes.add(mode)
        fails[obs[2]] += 1
        ctx.note_case(('bytetamper', cfg, tuple(msgs), tuple(sorted(ed.items()))), nontrivial=kind != 'none')
        ctx.count('byte.kind.' + kind)
        ctx.count('byte.mode.' + E.MODES[mode])
        ctx.count('byte.failure.%d' % obs[2])
        ctx.count('byte.delivered.%d' % min(len(obs[0]), 6))
        why = judge(cfg, frames, payloads, edited, j, p, ed, obs)
        if why and viol < 4:
            viol += 1
            ctx.failing_input(f'byte-level tamper ({E.MODES[mode]}, blocksize {cfg[1]}, macsize {cfg[2]}; {ed}; first altered byte '
                              f'{p}, {j} frames intact): {why}; failure class {obs[2]}',
                              {'kind': 'byte_tamper', 'cfg': E.cfg_dict(cfg), 'msgs': [[t, d.hex()] for t, d in msgs],
                               'edit': ed, 'other_seq': other_seq, 'cuts': [len(c) for c in chunks]})
        if len(chunks) <= 60 and (thorough or len(cases) < 150):     # literal parsing dominates the cost in Coq
            cases.append(E.feed_case(cfg, chunks, obs))
            meta.append((cfg, ed, chunks, obs))
        if i < 2:
            ctx.sample({'byte_tamper': {'cfg': E.cfg_dict(cfg), 'edit': ed, 'frames': [f.hex() for f in frames][:4],
                                        'intact': j, 'delivered': [g.hex() for g in obs[0]], 'failure': obs[2]}})
    rc, out = core.coq_make(['Corr/C02EncCorr.vo'])
    if rc != 0:
        ctx.broke('proof:Corr/C02EncCorr.v', out)
    else:
        bad = ctx.coq_cases('byte_tamper_model', E.IMPORTS, 'chk_enc_feed', cases, ty=E.FEED_TY, shard=50)
        if bad:
            cfg, ed, chunks, obs = meta[bad[0]]
            ctx.broke('correspondence:byte_tamper_model',
                      f'{len(bad)} of {len(cases)} edited streams: model and real receive path differ; first: '
                      f'cfg={E.cfg_dict(cfg)} edit={ed} chunks={[c.hex() for c in chunks]} payloads={[g.hex() for g in obs[0]]} '
                      f'seqs={obs[1]} failure={obs[2]} final_seq={obs[3]}')
    ctx.cov['oracle']['byte_tamper'] = {'cases': n, 'failure_classes': {'stall_or_none': fails[0], 'MACError': fails[1],
                                                                       'other': fails[2]}}
    missing = [kd for kd in KINDS if kd not in seen_kinds]
    if missing or len(seen_modes) < 4:
        ctx.broke('vacuity:byte-tamper', f'edit kinds never exercised: {missing}; modes {sorted(seen_modes)}')
    if not fails[1]:
        ctx.broke('vacuity:byte-tamper-macerror', 'no edited stream ended in MACError')


def stage_byte(ctx):
    ctx.cov['rule'] += (' BYTE LEVEL: streams written by the real send_packet through the real encryption.py shim classes over toy '
                        'primitives (4 modes x block sizes {8,16,32,64} x MAC sizes {4,16,20,32} x sequence numbers incl. 2^32-1), '
                        'edited by flip / insert / delete / truncate / duplicate / swap / drop / splice-from-another-sequence-number '
                        'without recomputing tags, fed in random chunkings to the real receive path')
    ctx.cov['trusted_base'] += [
        'byte level: C01_byte_prefix_integrity takes unforgeability as a premise about the run (every accepted '
        '(sequence number, covered bytes, tag) triple was produced by the sender) and the primitive laws mode_laws; real '
        'ciphers / MACs are not modelled.  The byte-level oracle uses toy primitives whose tag is forgeable by construction, '
        'so its edits never recompute a tag; the model is tied to connection.py / encryption.py by the C02 correspondence '
        '(harness/c02_enc.py) and by chk_enc_feed on the edited streams here',
    ]
    try:
        sshutil.run(_stage(ctx), timeout=1500)
    except E.MissingAttrs as e:
        ctx.broke('tie:private-attrs', f'SSHConnection no longer has {e.args[0]}: the byte-level oracle cannot be installed')


def replay_byte(rp):
    """returns 1 iff the recorded failing input still fails"""
    core.setup_paths()
    cfg = E.cfg_of(rp['cfg'])
    msgs = [(t, bytes.fromhex(d)) for t, d in rp['msgs']]

    async def go():
        bench = await E.Bench().start()
        frames, payloads, edited, j, p, chunks, obs = await one_case(bench, cfg, msgs, rp['edit'], cuts=rp['cuts'],
                                                                     other_seq=rp.get('other_seq'))
        why = judge(cfg, frames, payloads, edited, j, p, rp['edit'], obs)
        print(obs, j, why)
        return 1 if why else 0
    return sshutil.run(go(), timeout=120)
