"""C02 (and the byte level of C01): the ENCRYPTED phase of the binary packet layer.

The REAL shim classes of asyncssh.encryption (BasicEncryption, ETMEncryption, GCMEncryption,
ChachaEncryption) are instantiated over toy cipher / MAC / AEAD objects that are implemented here exactly
as in coq/Model/PacketEnc.v (txor / toy_tag / toy_gcm_* / toy_cc_*), installed on a real sans-IO
SSHServerConnection as _recv_encryption / _send_encryption with arbitrary block and MAC sizes, and the real
data_received / _recv_pkthdr / _recv_packet / send_packet are run against the model inside Coq.
"""
import asyncio
import struct

from . import core, memwire, sshutil
from .core import zl, clist

IMPORTS = 'From AV Require Import Base.Prelude Model.Packet Model.PacketEnc Corr.C02EncCorr.'
MODES = ('basic', 'etm', 'gcm', 'chacha')
FEED_TY = '(Z * Z * nat * Z) * (Z * Z) * list bytes * (list bytes * list Z * Z * Z)'
SEND_TY = '(Z * Z * nat * Z) * (Z * Z) * list bytes * list bytes * list bytes * Z'
SAFE_TYPES = (1, 2, 3, 4, 5, 6, 7, 19, 80, 81, 82)
ALL_TYPES = SAFE_TYPES + (20, 21, 30, 31, 49, 50, 51, 52, 53, 60, 61, 79, 90, 94, 100, 255)
PRIVATE = ('_recv_encryption', '_recv_blocksize', '_recv_macsize', '_recv_seq', '_send_encryption',
           '_send_blocksize', '_send_enchdrlen', '_send_seq', '_kex_complete', '_auth_complete')


# ------------------------------------------------------------------------------------------------
# toy primitives: keep in step with coq/Model/PacketEnc.v

def tks(k, p):
    return (k + 5 * p + p // 7) % 256


def txor(k, p, data):
    return bytes(b ^ tks(k, p + i) for i, b in enumerate(data))


def toy_tag(tl, k, seq, data):
    d = struct.pack('>I', seq & 0xffffffff) + bytes(data)
    s0 = sum(d)
    s1 = sum(i * b for i, b in enumerate(d))
    # byte j = (k + 31 * |d| + sum_i d[i] * (2 * (i + j) + 1)) mod 256
    return bytes((k + 31 * len(d) + 2 * s1 + (2 * j + 1) * s0) % 256 for j in range(tl))


class ToyCipher:
    """BasicCipher duck type: position-dependent XOR key stream; state = stream position"""

    def __init__(self, k, pos):
        self.k, self.pos = k, pos

    def _crypt(self, data):
        out = txor(self.k, self.pos, data)
        self.pos += len(data)
        return out

    encrypt = _crypt
    decrypt = _crypt


class ToyMAC:
    """mac.MAC duck type; verify = equality with the recomputed tag, as in mac.py"""

    def __init__(self, tl, k):
        self.tl, self.k = tl, k

    def sign(self, seq, packet):
        return toy_tag(self.tl, self.k, seq, packet)

    def verify(self, seq, packet, sig):
        return self.sign(seq, packet) == bytes(sig)


class ToyGCM:
    """GCMCipher duck type: state = invocation counter, header is associated data"""

    def __init__(self, tl, k, n):
        self.tl, self.k, self.n = tl, k, n

    def encrypt_and_sign(self, header, data):
        out = bytes(header) + txor(self.k + 101, 11 * self.n, data)
        tag = toy_tag(self.tl, self.k + 7, self.n, out)
        self.n += 1
        return out, tag

    def verify_and_decrypt(self, header, data, mac):
        ok = toy_tag(self.tl, self.k + 7, self.n, bytes(header) + bytes(data)) == bytes(mac)
        res = txor(self.k + 101, 11 * self.n, data) if ok else None
        self.n += 1
        return res


class ToyChacha:
    """ChachaCipher duck type: nonce = UInt64(seq), separately encrypted header"""

    def __init__(self, tl, k):
        self.tl, self.k = tl, k

    def decrypt_header(self, header, nonce):
        return txor(self.k + 33, 13 * int.from_bytes(nonce, 'big'), header)

    def encrypt_and_sign(self, header, data, nonce):
        sq = int.from_bytes(nonce, 'big')
        out = txor(self.k + 33, 13 * sq, header) + txor(self.k + 77, 17 * sq + 64, data)
        return out, toy_tag(self.tl, self.k + 9, sq, out)

    def verify_and_decrypt(self, header, data, nonce, tag):
        sq = int.from_bytes(nonce, 'big')
        if toy_tag(self.tl, self.k + 9, sq, bytes(header) + bytes(data)) == bytes(tag):
            return txor(self.k + 77, 17 * sq + 64, data)
        return None


def make_shim(mode, tl, k, c0):
    """the REAL shim class of asyncssh.encryption over the toy primitives"""
    from asyncssh import encryption as E
    if mode == 0:
        return E.BasicEncryption(ToyCipher(k, c0), ToyMAC(tl, k))
    if mode == 1:
        return E.ETMEncryption(ToyCipher(k, c0), ToyMAC(tl, k))
    if mode == 2:
        return E.GCMEncryption(ToyGCM(tl, k, c0))
    return E.ChachaEncryption(ToyChacha(tl, k))


def hdrlen(mode):
    return 5 if mode == 0 else 1


# reference sender used to GENERATE input streams (allows inconsistent length fields); written against
# the toy primitives directly, not against asyncssh
def ref_frame(mode, tl, k, c, seq, lenfield, packet):
    hdr = struct.pack('>I', lenfield & 0xffffffff)
    if mode == 0:
        pkt = hdr + packet
        return c + len(pkt), txor(k, c, pkt), toy_tag(tl, k, seq, pkt)
    if mode == 1:
        pkt = hdr + txor(k, c, packet)
        return c + len(packet), pkt, toy_tag(tl, k, seq, pkt)
    if mode == 2:
        out = hdr + txor(k + 101, 11 * c, packet)
        return c + 1, out, toy_tag(tl, k + 7, c, out)
    out = txor(k + 33, 13 * seq, hdr) + txor(k + 77, 17 * seq + 64, packet)
    return c, out, toy_tag(tl, k + 9, seq, out)


def toy_open(mode, tl, k, c, seq, write):
    """toy-decrypt one transport write of the real send_packet -> (next cipher state, header+packet plain)"""
    body = write[:len(write) - tl] if tl else write
    if mode == 0:
        return c + len(body), txor(k, c, body)
    if mode == 1:
        return c + len(body) - 4, body[:4] + txor(k, c, body[4:])
    if mode == 2:
        return c + 1, body[:4] + txor(k + 101, 11 * c, body[4:])
    return c, txor(k + 33, 13 * seq, body[:4]) + txor(k + 77, 17 * seq + 64, body[4:])


# ------------------------------------------------------------------------------------------------
# the real connection, sans IO

class _T(asyncio.Transport):
    def __init__(self):
        super().__init__()
        self.writes = []
        self.closed = False

    def get_extra_info(self, name, default=None):
        return default

    def write(self, data):
        self.writes.append(bytes(data))

    def close(self):
        self.closed = True

    def abort(self):
        self.closed = True

    def is_closing(self):
        return self.closed


class _Tun:
    async def create_server(self, session_factory, host, port, **kw):
        self.factory = session_factory

        class A:
            def close(self):
                pass

            async def wait_closed(self):
                pass

            def set_tunnel(self, t):
                pass
        return A()


class Bench:
    """one in-memory listener; fresh real SSHServerConnection objects on demand"""

    async def start(self):
        import asyncssh
        self.tun = _Tun()

        class Srv(asyncssh.SSHServer):
            def connection_made(self, conn):
                self._conn = conn

            def connection_lost(self, exc):
                self._conn._verif_lost = (exc,)
        await asyncssh.listen('mem', 22, tunnel=self.tun, server_factory=Srv, server_host_keys=[sshutil.host_key()])
        return self

    def new_conn(self):
        conn = self.tun.factory('10.0.0.1', 4000)
        tr = _T()
        conn.connection_made(tr)
        conn.data_received(b'SSH-2.0-enctest\r\n')          # now in _recv_pkthdr, own KEXINIT written
        missing = [a for a in PRIVATE if not hasattr(conn, a)]
        return conn, tr, missing


class MissingAttrs(Exception):
    pass


def fail_class(exc):
    import asyncssh
    if isinstance(exc, asyncssh.MACError):
        return 1
    return 2


async def real_recv(bench, cfg, chunks, auth=False):
    """cfg = (mode, bs, tl, k, c0, seq0).  Returns (payloads, seqs, failure class, final _recv_seq)"""
    mode, bs, tl, k, c0, seq0 = cfg
    conn, tr, missing = bench.new_conn()
    if missing:
        raise MissingAttrs(missing)
    seen = []

    def process_packet(pkttype, pktid, packet):
        seen.append((pktid, bytes(packet.get_consumed_payload()) + bytes(packet.get_remaining_payload())))
        return True
    conn.process_packet = process_packet
    conn._recv_encryption = make_shim(mode, tl, k, c0)
    conn._recv_blocksize = bs
    conn._recv_macsize = tl
    conn._recv_seq = seq0
    if auth:
        conn._auth_complete = True
    failed = 0
    for ch in chunks:
        conn.data_received(ch)
        await asyncio.sleep(0)
        if tr.closed or hasattr(conn, '_verif_lost'):
            break
    await memwire.settle(3)
    if tr.closed or hasattr(conn, '_verif_lost'):
        failed = fail_class(getattr(conn, '_verif_lost', (None,))[0])
    fseq = conn._recv_seq
    conn.abort()
    return [p for _, p in seen], [s for s, _ in seen], failed, fseq


async def real_send(bench, cfg, msgs):
    """cfg = (mode, bs, tl, k, c0, seq0); msgs = [(pkttype, data)].  Returns (writes, final _send_seq)"""
    mode, bs, tl, k, c0, seq0 = cfg
    conn, tr, missing = bench.new_conn()
    if missing:
        raise MissingAttrs(missing)
    conn._send_encryption = make_shim(mode, tl, k, c0)
    conn._send_blocksize = bs
    conn._send_enchdrlen = hdrlen(mode)
    conn._send_seq = seq0
    conn._kex_complete = True
    conn._auth_complete = True
    tr.writes = []
    for t, data in msgs:
        conn.send_packet(t, data)
    writes = list(tr.writes)
    fseq = conn._send_seq
    conn.abort()
    await asyncio.sleep(0)
    return writes, fseq


def open_writes(cfg, writes):
    """toy-decrypt the writes of one real sender: [(payload, padding)] as a receiver in step would see them"""
    mode, bs, tl, k, c0, seq0 = cfg
    c, seq = c0, seq0
    out = []
    for w in writes:
        c, pt = toy_open(mode, tl, k, c, seq, w)
        seq = (seq + 1) & 0xffffffff
        padlen = pt[4] if len(pt) > 4 else 0
        ok = 0 < padlen <= len(pt)
        out.append((pt[5:len(pt) - padlen] if ok else pt[5:], pt[len(pt) - padlen:] if ok else b''))
    return out


def send_shape_bad(cfg, writes):
    """RFC 4253 section 6 for real block sizes: at least 4 bytes of padding, encrypted part a multiple of the block size"""
    mode, bs, tl, k, c0, seq0 = cfg
    if bs < 8:
        return None
    for w, (payload, pad) in zip(writes, open_writes(cfg, writes)):
        total = len(w) - tl - (0 if mode == 0 else 4)
        if len(pad) < 4 or total % bs:
            return len(pad), total
    return None


def rechunk(data, cuts):
    out, i = [], 0
    for n in cuts:
        out.append(data[i:i + n])
        i += n
    if i < len(data):
        out.append(data[i:])
    return out


# ------------------------------------------------------------------------------------------------
# generators

def rbytes(rng, n):
    return bytes(rng.randint(0, 255) for _ in range(n))


def gen_payload(rng):
    t = rng.choice([2, 2, 3, 4])
    return bytes([t]) + rbytes(rng, rng.choice([0, 1, 3, 4, 7, 8, 11, 20, 33, 70]))


def rule_padlen(mode, bs, n):
    p = -(hdrlen(mode) + n) % bs
    if p < 4:
        p += bs
    return p


def gen_stream(rng, cfg, clean, force_short=False):
    """Returns (stream, info).  info: exact (no header below one block, no flip outside MAC bytes),
    kinds of mutation used, payloads of the leading well-formed packets."""
    mode, bs, tl, k, c0, seq0 = cfg
    c, seq = c0, seq0
    out = b''
    info = {'exact': True, 'kinds': set(), 'good': []}
    intact = True
    for pi in range(rng.randint(1, 5)):
        payload = gen_payload(rng)
        r = 0.0 if clean else rng.random()
        if r < 0.6:
            padlen = rule_padlen(mode, bs, len(payload))
            if rng.random() < 0.25 and padlen + bs <= 255:
                padlen += bs * rng.randint(1, max(1, min(3, (255 - padlen) // bs)))
            padlen = min(padlen, 255)
        elif r < 0.85:
            padlen = rng.randint(0, 40)
            info['kinds'].add('misaligned')
        else:
            padlen = rng.randint(0, 3)
            info['kinds'].add('shortpad')
        packet = bytes([padlen]) + payload + rbytes(rng, padlen)
        lenfield = len(packet)
        r2 = 1.0 if clean else rng.random()
        if force_short and pi == 0:
            r2 = 0.0
        if r2 < 0.07 and bs > 4:
            lenfield = rng.randint(0, bs - 5)                   # 4 + packet_length < blocksize
            info['kinds'].add('short')
        elif r2 < 0.11:
            packet = bytes([padlen]) + rbytes(rng, padlen)      # empty payload -> decode error
            lenfield = len(packet)
            info['kinds'].add('empty')
            payload = None
        elif r2 < 0.14:
            lenfield = len(packet) + rng.choice([-1, 1, bs, -bs])
            info['kinds'].add('wronglen')
        if 4 + lenfield < bs or lenfield != len(packet):
            # below one block, or a length that desynchronises the parse (garbage headers may follow)
            info['exact'] = False
            intact = False
        c, body, mac = ref_frame(mode, tl, k, c, seq, lenfield, packet)
        seq = (seq + 1) & 0xffffffff
        r3 = 1.0 if clean else rng.random()
        if r3 < 0.08 and tl:
            i = rng.randrange(tl)
            mac = mac[:i] + bytes([mac[i] ^ rng.randint(1, 255)]) + mac[i + 1:]
            info['kinds'].add('badmac')
            intact = False
        elif r3 < 0.14:
            i = rng.randrange(len(body))
            body = body[:i] + bytes([body[i] ^ (1 << rng.randrange(8))]) + body[i + 1:]
            info['kinds'].add('flip')
            info['exact'] = False
            intact = False
        if payload is None or padlen < 1:
            intact = False
        if intact:
            info['good'].append(payload)
        out += body + mac
    if not clean and rng.random() < 0.3:
        out += rbytes(rng, rng.randint(1, max(1, bs - 1)))      # incomplete tail (less than one block)
        info['kinds'].add('tail')
    return out, info


def chunkings(rng, data):
    r = rng.random()
    if r < 0.2:
        return [data]
    if r < 0.45:
        return [data[i:i + 1] for i in range(len(data))]
    out = []
    i = 0
    while i < len(data):
        n = rng.choice([1, 2, 3, 5, 8, 13, 40, 100])
        out.append(data[i:i + n])
        i += n
        if rng.random() < 0.1:
            out.append(b'')
    return out


def gen_cfg(rng, send=False):
    mode = rng.randrange(4)
    if send:
        bs = rng.choice([8, 8, 16, 16, 32, 64, 5, 12, 1])
    else:
        bs = rng.choice([8, 8, 16, 16, 32, 64, 1, 5, 12])
    tl = rng.choice([0, 4, 4, 16, 16, 20, 32, 64])
    k = rng.randint(0, 255)
    c0 = rng.choice([0, 1, 7, 255, 1000, 70000])
    seq0 = rng.choice([0, 1, 3, 255, 256, 65535, 2 ** 31, 2 ** 32 - 2, 2 ** 32 - 1])
    return (mode, bs, tl, k, c0, seq0)


def cfg_dict(cfg):
    return dict(zip(('mode', 'bs', 'tl', 'k', 'c0', 'seq0'), cfg))


def cfg_of(d):
    return tuple(d[x] for x in ('mode', 'bs', 'tl', 'k', 'c0', 'seq0'))


def feed_case(cfg, chunks, obs):
    mode, bs, tl, k, c0, seq0 = cfg
    payloads, seqs, failed, fseq = obs
    return '((%d, %d, %d%%nat, %d), (%d, %d), %s, (%s, %s, %d, %d))' % (
        mode, bs, tl, k, c0, seq0, clist(chunks, zl), clist(payloads, zl), zl(seqs), failed,
        -1 if fseq is None else fseq)


# ------------------------------------------------------------------------------------------------

async def _stage(ctx):
    rng = ctx.rng
    thorough = ctx.tier == 'thorough'
    bench = await Bench().start()
    stats = ctx.cov['oracle'].setdefault('enc', {})

    # ---- receive side: model vs real, plus oracle (a) segmentation ------------------------------
    n = 6000 if thorough else 380
    cases, meta = [], []
    seen_modes, seen_bs = set(), set()
    got_mac_fail = got_short = got_decode = 0
    delivered_by_mode = [0, 0, 0, 0]
    segviol = 0
    for i in range(n):
        cfg = gen_cfg(rng)
        mode, bs, tl, k, c0, seq0 = cfg
        clean = rng.random() < 0.4
        force_short = False
        if rng.random() < 0.1:
            # a header below one block, without MAC, so that the negative slices are actually reached
            cfg = (mode, rng.choice([8, 16, 32, 12]), 0, k, c0, seq0)
            mode, bs, tl, k, c0, seq0 = cfg
            clean, force_short = False, True
        data, info = gen_stream(rng, cfg, clean, force_short)
        chunks = chunkings(rng, data)
        obs = await real_recv(bench, cfg, chunks)
        cases.append(feed_case(cfg, chunks, obs))
        meta.append((cfg, chunks, obs, info))
        seen_modes.add(mode)
        seen_bs.add(bs)
        got_mac_fail += obs[2] == 1
        got_decode += obs[2] == 2
        got_short += 'short' in info['kinds']
        delivered_by_mode[mode] += len(obs[0])
        ctx.note_case(('encfeed', cfg, tuple(chunks)), nontrivial=len(chunks) > 1 or len(obs[0]) > 0)
        ctx.count('enc.feed.%s' % MODES[mode])
        ctx.count('enc.feed.bs%d' % bs)
        ctx.count('enc.feed.mac%d' % tl)
        ctx.count('enc.feed.fail%d' % obs[2])
        for kd in info['kinds']:
            ctx.count('enc.feed.mut.' + kd)
        # the leading well-formed packets must have been delivered, in order
        # (without MAC a packet of exactly one block stays pending until the next byte: C02_enc_late_delivery)
        good = info['good'] if tl else info['good'][:-1]
        if bs >= 4 and obs[0][:len(good)] != good:
            ctx.failing_input(f'well-formed leading packets not delivered under {MODES[mode]} bs={bs} mac={tl}: '
                              f'{len(obs[0])} delivered, {len(good)} well-formed',
                              {'kind': 'enc_deliver', 'cfg': cfg_dict(cfg), 'chunks': [c.hex() for c in chunks],
                               'expect': [g.hex() for g in good]})
        # oracle (a): the result must not depend on the chunking (lengths of at least one block only)
        if info['exact'] and len(chunks) > 1 and segviol < 3:
            alt = [data] if rng.random() < 0.6 else chunkings(rng, data)
            obs2 = await real_recv(bench, cfg, alt)
            ctx.count('enc.oracle.segmentation')
            if obs2 != obs:
                segviol += 1
                ctx.failing_input(f'encrypted receive path ({MODES[mode]}, blocksize {bs}, macsize {tl}) depends on the '
                                  f'segmentation: {len(obs[0])} payloads / failure {obs[2]} vs {len(obs2[0])} / {obs2[2]} '
                                  f'for the same {len(data)}-byte stream',
                                  {'kind': 'enc_segmentation', 'cfg': cfg_dict(cfg), 'chunks': [c.hex() for c in chunks],
                                   'alt': [c.hex() for c in alt]})
        if i < 2:
            ctx.sample({'enc_feed': {'cfg': cfg_dict(cfg), 'chunks': [c.hex() for c in chunks][:6],
                                     'payloads': [p.hex() for p in obs[0]], 'seqs': obs[1], 'failure': obs[2]}})
    bad = ctx.coq_cases('enc_feed', IMPORTS, 'chk_enc_feed', cases, ty=FEED_TY, shard=100)
    if bad:
        cfg, chunks, obs, info = meta[bad[0]]
        ctx.broke('correspondence:enc_feed',
                  f'{len(bad)} of {len(cases)} differ; first: cfg={cfg_dict(cfg)} mutations={sorted(info["kinds"])} '
                  f'chunks={[c.hex() for c in chunks]} real payloads={[p.hex() for p in obs[0]]} seqs={obs[1]} '
                  f'failure={obs[2]} final_seq={obs[3]}')

    # ---- send side: model vs real send_packet, plus oracle (b) round trip -------------------------
    n = 2000 if thorough else 140
    cases, meta = [], []
    ignores = 0
    rtviol = 0
    send_modes = set()
    for i in range(n):
        cfg = gen_cfg(rng, send=True)
        mode, bs, tl, k, c0, seq0 = cfg
        msgs = []
        safe = rng.random() < 0.6        # types a receiver's dispatcher hands to process_packet: round trip possible
        for _ in range(rng.randint(1, 4)):
            t = rng.choice(SAFE_TYPES if safe else ALL_TYPES)
            msgs.append((t, rbytes(rng, rng.choice([0, 1, 2, 3, 4, 5, 7, 8, 11, 12, 19, 20, 27, 60, 130]))))
        writes, fseq = await real_send(bench, cfg, msgs)
        send_modes.add(mode)
        # recover the paddings by toy-decrypting every write
        opened = open_writes(cfg, writes)
        plains = [p for p, _ in opened]
        pads = [q for _, q in opened]
        requested = [bytes([t]) + d for t, d in msgs]
        ignores += len(writes) - len(msgs)
        cases.append('((%d, %d, %d%%nat, %d), (%d, %d), %s, %s, %s, %d)' % (
            mode, bs, tl, k, c0, seq0, clist(requested, zl), clist(pads, zl), clist(writes, zl),
            -1 if fseq is None else fseq))
        meta.append((cfg, msgs, writes, fseq))
        ctx.note_case(('encsend', cfg, tuple(requested)), nontrivial=True)
        ctx.count('enc.send.%s' % MODES[mode])
        ctx.count('enc.send.bs%d' % bs)
        # direct: what RFC 4253 asks of every emitted packet (>= 4 bytes of padding, aligned) for real block sizes
        shape = send_shape_bad(cfg, writes)
        if shape:
            ctx.failing_input(f'send_packet under {MODES[mode]} blocksize {bs}: padding {shape[0]} bytes, encrypted part '
                              f'{shape[1]} bytes', {'kind': 'enc_send_shape', 'cfg': cfg_dict(cfg),
                                                    'msgs': [[t, d.hex()] for t, d in msgs]})
        # oracle (b): feed the real writes to a second real connection under a random chunking
        if safe and bs >= 4 and (mode != 0 or tl > 0) and rtviol < 3:
            data = b''.join(writes)
            chunks = chunkings(rng, data)
            obs = await real_recv(bench, cfg, chunks, auth=True)
            ctx.count('enc.oracle.roundtrip')
            if obs[0] != plains or obs[2] != 0 or obs[1] != [(seq0 + j) & 0xffffffff for j in range(len(writes))]:
                rtviol += 1
                ctx.failing_input(f'packets written by send_packet under {MODES[mode]} blocksize {bs} macsize {tl} are not '
                                  f'received back: {len(obs[0])} of {len(plains)} payloads, failure class {obs[2]}',
                                  {'kind': 'enc_roundtrip', 'cfg': cfg_dict(cfg), 'cuts': [len(c) for c in chunks],
                                   'msgs': [[t, d.hex()] for t, d in msgs]})
    bad = ctx.coq_cases('enc_send', IMPORTS, 'chk_enc_send', cases, ty=SEND_TY, shard=100)
    if bad:
        cfg, msgs, writes, fseq = meta[bad[0]]
        ctx.broke('correspondence:enc_send',
                  f'{len(bad)} of {len(cases)} differ; first: cfg={cfg_dict(cfg)} msgs={[(t, d.hex()) for t, d in msgs]} '
                  f'writes={[w.hex() for w in writes]} final_seq={fseq}')

    # ---- oracle (c): a single flipped bit / byte never yields a delivered altered payload ------------
    n = 300 if thorough else 25
    flips = 0
    flipviol = 0
    for i in range(n):
        cfg = gen_cfg(rng)
        mode, bs, tl, k, c0, seq0 = cfg
        if tl < 4 or bs < 8:
            cfg = (mode, rng.choice([8, 16, 32]), rng.choice([4, 16, 20]), k, c0, seq0)
            mode, bs, tl, k, c0, seq0 = cfg
        c, seq = c0, seq0
        frames, payloads = [], []
        for _ in range(rng.randint(1, 3)):
            payload = gen_payload(rng)
            padlen = rule_padlen(mode, bs, len(payload))
            packet = bytes([padlen]) + payload + rbytes(rng, padlen)
            c, body, mac = ref_frame(mode, tl, k, c, seq, len(packet), packet)
            seq = (seq + 1) & 0xffffffff
            frames.append(body + mac)
            payloads.append(payload)
        data = b''.join(frames)
        if thorough and i < 40:
            positions = range(len(data))
        else:
            positions = sorted(set([0, 1, 2, 3, 4, 5, len(data) - 1] + [rng.randrange(len(data)) for _ in range(14)]))
        for pos in positions:
            if pos >= len(data) or flipviol >= 3:
                continue
            mask = (1 << rng.randrange(8)) if rng.random() < 0.7 else rng.randint(1, 255)
            bad_data = data[:pos] + bytes([data[pos] ^ mask]) + data[pos + 1:]
            j, acc = 0, 0
            for j, f in enumerate(frames):
                acc += len(f)
                if pos < acc:
                    break
            chunks = chunkings(rng, bad_data)
            obs = await real_recv(bench, cfg, chunks)
            flips += 1
            ctx.count('enc.oracle.flip.%s' % MODES[mode])
            ctx.note_case(('encflip', cfg, data, pos, mask), nontrivial=True)
            if obs[0] != payloads[:len(obs[0])] or len(obs[0]) > j or obs[0] != payloads[:j]:
                flipviol += 1
                ctx.failing_input(f'{MODES[mode]} blocksize {bs} macsize {tl}: byte {pos} of the wire stream (packet {j}) '
                                  f'xor {mask:#x}: delivered {[p.hex() for p in obs[0]]}, sent {[p.hex() for p in payloads]}, '
                                  f'failure class {obs[2]}',
                                  {'kind': 'enc_flip', 'cfg': cfg_dict(cfg), 'chunks': [c.hex() for c in chunks],
                                   'expect': [p.hex() for p in payloads], 'packet': j})
    stats.update({'flip_inputs': flips, 'ignore_packets_inserted': ignores,
                  'modes_received': sorted(MODES[m] for m in seen_modes), 'block_sizes': sorted(seen_bs),
                  'mac_failures': got_mac_fail, 'other_failures': got_decode, 'short_header_streams': got_short,
                  'payloads_delivered_by_mode': dict(zip(MODES, delivered_by_mode))})
    # vacuity guards
    if len(seen_modes) < 4 or len(send_modes) < 4 or min(delivered_by_mode) == 0:
        ctx.broke('vacuity:enc-modes', f'modes received {sorted(seen_modes)}, sent {sorted(send_modes)}, '
                                       f'payloads delivered per mode {delivered_by_mode}')
    if not got_mac_fail:
        ctx.broke('vacuity:enc-mac-failure', 'no generated stream made the real connection raise MACError')
    if not got_short:
        ctx.broke('vacuity:enc-short-header', 'no stream with 4 + packet_length < blocksize was generated')
    if len(seen_bs) < 3:
        ctx.broke('vacuity:enc-block-sizes', f'only block sizes {sorted(seen_bs)}')
    if not ignores:
        ctx.broke('vacuity:enc-ignore', 'send_packet never inserted MSG_IGNORE in front of a packet of type > 49')
    if not flips:
        ctx.broke('vacuity:enc-flips', 'no flipped stream was run')


def stage_enc(ctx):
    ctx.cov['rule'] += (' (f) ENCRYPTED phase: the real BasicEncryption / ETMEncryption / GCMEncryption / ChachaEncryption shims '
                        'over toy primitives installed on a real sans-IO connection; block sizes {8,16,32,64,1,5,12} x MAC sizes '
                        '{0,4,16,20,32,64} x cipher states x sequence numbers incl. 2^32-1; streams of well-formed, misaligned, '
                        'short-padded, empty-payload, wrong-length, below-one-block, wrong-MAC, bit-flipped packets and truncated '
                        'tails under 1-byte / whole / random / empty chunkings against the model in Coq; real send_packet writes '
                        '(types below 20, kex, auth and global-request types) against send_frame/pad_len/send_payloads; round trip '
                        'real sender -> real receiver; every-byte and sampled single flips')
    ctx.cov['trusted_base'] += [
        'encrypted phase: the cipher, MAC and AEAD primitives (BasicCipher, MAC.sign, GCMCipher, ChachaCipher) are '
        'abstract functions in the model; T3 lists the laws it needs as explicit premises (shown satisfiable by the toy '
        'primitives).  The correspondence installs toy primitives in the REAL shim classes and sets the private attributes '
        '_recv_encryption/_recv_blocksize/_recv_macsize/_recv_seq/_send_encryption/_send_blocksize/_send_enchdrlen/_send_seq '
        'directly; how connection.py derives those values from the negotiated algorithms (max(8, blocksize), 1 if etm else 5) '
        'is covered by the MiniSSH padding stage only.  process_packet is stubbed (dispatch is out of scope); compression '
        'and the strict-kex sequence reset are not modelled here',
    ]
    try:
        sshutil.run(_stage(ctx), timeout=1500)
    except MissingAttrs as e:
        ctx.broke('tie:private-attrs', f'SSHConnection no longer has {e.args[0]}: the encrypted-phase correspondence '
                                       f'cannot be installed')


# ------------------------------------------------------------------------------------------------

def replay_enc(rp):
    """returns 1 iff the recorded failing input still fails"""
    core.setup_paths()
    kind = rp.get('kind')
    cfg = cfg_of(rp['cfg']) if 'cfg' in rp else None

    async def go():
        bench = await Bench().start()
        if kind == 'enc_segmentation':
            a = await real_recv(bench, cfg, [bytes.fromhex(c) for c in rp['chunks']])
            b = await real_recv(bench, cfg, [bytes.fromhex(c) for c in rp['alt']])
            print(a, b)
            return 1 if a != b else 0
        if kind == 'enc_roundtrip':
            msgs = [(t, bytes.fromhex(d)) for t, d in rp['msgs']]
            writes, _ = await real_send(bench, cfg, msgs)
            exp = [p for p, _ in open_writes(cfg, writes)]
            obs = await real_recv(bench, cfg, rechunk(b''.join(writes), rp['cuts']), auth=True)
            print(obs)
            return 1 if (obs[0] != exp or obs[2] != 0 or
                         obs[1] != [(cfg[5] + j) & 0xffffffff for j in range(len(writes))]) else 0
        if kind == 'enc_deliver':
            exp = [bytes.fromhex(p) for p in rp['expect']]
            obs = await real_recv(bench, cfg, [bytes.fromhex(c) for c in rp['chunks']])
            print(obs)
            return 1 if obs[0][:len(exp)] != exp else 0
        if kind == 'enc_flip':
            exp = [bytes.fromhex(p) for p in rp['expect']]
            obs = await real_recv(bench, cfg, [bytes.fromhex(c) for c in rp['chunks']])
            print(obs)
            return 1 if obs[0] != exp[:rp['packet']] else 0
        if kind == 'enc_send_shape':
            msgs = [(t, bytes.fromhex(d)) for t, d in rp['msgs']]
            writes, _ = await real_send(bench, cfg, msgs)
            return 1 if send_shape_bad(cfg, writes) else 0
        print('unknown encrypted-phase replay kind', kind)
        return 2
    return sshutil.run(go(), timeout=120)
