"""C03 helper: one real asyncssh client <-> asyncssh server handshake over a MemWire with an on-path
party (the harness) that can rewrite any clear-text handshake message in flight, a recording hash
injected into the real key exchange handlers, and the reconstruction of the two local views
(V_C, V_S, I_C, I_S, K_S, group, e, f ...) from what was sent and what was delivered.
"""
import asyncio
import concurrent.futures
import struct

from . import memwire

MSG_KEXINIT, MSG_NEWKEYS = 20, 21


# ------------------------------------------------------------------------------------------------
# wire codecs (harness side; plain RFC 4251)

def u32(n):
    return struct.pack('>I', n)


def sstr(b):
    return u32(len(b)) + bytes(b)


def mpint_enc(n, lead=0):
    """canonical two's complement mpint of n (any sign); `lead` extra sign-extension bytes in front
    (a non-canonical encoding of the same value)"""
    if n == 0:
        body = b''
    else:
        ln = (n.bit_length() + 8) // 8 if n > 0 else ((n + 1).bit_length() + 8) // 8
        body = n.to_bytes(ln, 'big', signed=True)
    if lead:
        body = (b'\xff' if n < 0 else b'\0') * lead + body
    return sstr(body)


class Short(Exception):
    pass


class Rd:
    def __init__(self, data, pos=0):
        self.d, self.p = bytes(data), pos

    def take(self, n):
        if n < 0 or self.p + n > len(self.d):
            raise Short()
        self.p += n
        return self.d[self.p - n:self.p]

    def u32(self):
        return struct.unpack('>I', self.take(4))[0]

    def string(self):
        return self.take(self.u32())

    def mpint(self):
        return int.from_bytes(self.string(), 'big', signed=True)

    def end(self):
        return self.p == len(self.d)


def frame(payload, padlen=None):
    """clear-text binary packet (block size 8, at least 4 bytes of padding), zero padding"""
    if padlen is None:
        padlen = -(5 + len(payload)) % 8
        if padlen < 4:
            padlen += 8
    return u32(1 + len(payload) + padlen) + bytes([padlen]) + payload + bytes(padlen)


def unframe(data):
    """-> payload of the single clear-text packet in `data`, or None if `data` is not exactly one
    well-formed packet (length consistent, padding >= 4 ... as RFC 4253 section 6 wants it)"""
    if len(data) < 8:
        return None
    ln = struct.unpack('>I', data[:4])[0]
    if ln + 4 != len(data) or ln < 2:
        return None
    pad = data[4]
    if pad + 2 > ln:
        return None
    return data[5:4 + ln - pad]


def parse_kexinit(payload):
    """-> dict(cookie, lists (10 lists of bytes names), follows, reserved) or None"""
    try:
        r = Rd(payload)
        if r.take(1) != bytes([MSG_KEXINIT]):
            return None
        cookie = r.take(16)
        lists = []
        for _ in range(10):
            s = r.string()
            lists.append(s.split(b',') if s else [])
        follows = r.take(1)[0]
        reserved = r.u32()
        if not r.end():
            return None
        return {'cookie': cookie, 'lists': lists, 'follows': follows, 'reserved': reserved}
    except Short:
        return None


def build_kexinit(k):
    return (bytes([MSG_KEXINIT]) + k['cookie'] + b''.join(sstr(b','.join(l)) for l in k['lists']) +
            bytes([k['follows']]) + u32(k['reserved']))


def first_match(client, server):
    for a in client:
        if a in server:
            return a
    return None


def family_of(alg):
    a = alg.decode('ascii', 'replace') if isinstance(alg, bytes) else alg
    if a.startswith('diffie-hellman-group-exchange-'):
        return 'gex'
    if a.startswith('diffie-hellman-group'):
        return 'dh'
    if a.startswith('rsa'):
        return 'rsa'
    return 'ecdh'


# message schemas: (family, direction, index of the kex-specific message of that direction) -> field kinds
SCHEMA = {
    ('dh', 'c', 0): ['mpint'], ('dh', 's', 0): ['string', 'mpint', 'string'],
    ('gex', 'c', 0): ['raw'], ('gex', 's', 0): ['mpint', 'mpint'],
    ('gex', 'c', 1): ['mpint'], ('gex', 's', 1): ['string', 'mpint', 'string'],
    ('ecdh', 'c', 0): ['string'], ('ecdh', 's', 0): ['string', 'string', 'string'],
    ('rsa', 's', 0): ['string', 'string'], ('rsa', 'c', 0): ['string'], ('rsa', 's', 1): ['string'],
}


def split_fields(kinds, payload):
    """payload (with message number) -> list of raw field encodings, or None when it does not parse"""
    try:
        r = Rd(payload, 1)
        out = []
        for k in kinds:
            if k == 'raw':
                out.append(r.take(len(r.d) - r.p))
            else:
                start = r.p
                r.string()
                out.append(r.d[start:r.p])
        return out if r.end() else None
    except Short:
        return None


def field_value(kind, enc):
    if kind == 'raw':
        return enc
    if kind == 'mpint':
        return Rd(enc).mpint()
    return Rd(enc).string()


# ------------------------------------------------------------------------------------------------
# deterministic executor: asyncssh builds its option objects in run_in_executor; running the job
# inline keeps every session a pure function of event-loop turns (no threads, no wall clock)

class InlineExecutor(concurrent.futures.ThreadPoolExecutor):
    def submit(self, fn, *a, **kw):
        f = concurrent.futures.Future()
        try:
            f.set_result(fn(*a, **kw))
        except BaseException as e:          # noqa
            f.set_exception(e)
        return f


# ------------------------------------------------------------------------------------------------
# recording hash injected through the kex registry

class RecHash:
    def __init__(self, real, log):
        self.real, self.buf, self.log = real, bytearray(), log
        self.digest_size = getattr(real, 'digest_size', None)

    def update(self, data):
        self.buf += bytes(data)
        self.real.update(data)

    def digest(self):
        d = self.real.digest()
        self.log.append((bytes(self.buf), d))
        return d


class Recorder:
    """Replaces every (handler, hash_alg, args) entry of asyncssh.kex's registry by a wrapper that
    constructs the real handler with a recording hash factory.  records[id(conn)] = list of
    (algorithm, [(hash input, digest), ...]) per key exchange of that connection."""

    def __init__(self):
        self.records = {}
        self.saved = None
        self.ok = False
        self.gex_old = False           # make the client send the old-form group exchange request

    def install(self):
        import importlib
        kexmod = importlib.import_module('asyncssh.kex')
        table = getattr(kexmod, '_kex_handlers', None)
        if not isinstance(table, dict) or not table:
            return False
        self.saved = dict(table)
        self.table = table
        rec = self
        for alg, ent in list(table.items()):
            try:
                handler, hash_alg, args = ent
            except (TypeError, ValueError):
                continue

            def make(alg_, conn, hash_alg_, *args_, _handler=handler):
                log = []
                rec.records.setdefault(id(conn), []).append((bytes(alg_), log))

                def factory(data=b''):
                    h = RecHash(hash_alg_(), log)
                    if data:
                        h.update(data)
                    return h
                if rec.gex_old and family_of(alg_) == 'gex' and not args_:
                    args_ = (2048,)
                return _handler(alg_, conn, factory, *args_)
            table[alg] = (make, hash_alg, args)
        self.ok = True
        return True

    def uninstall(self):
        if self.saved is not None:
            self.table.clear()
            self.table.update(self.saved)
            self.saved = None
        self.ok = False


def exchange_hash_record(log):
    """the (input, digest) of the exchange hash among the recorded digests of one key exchange:
    its input starts with String(V_C) where V_C starts with 'SSH-'"""
    for inp, dig in log:
        if inp[4:8] == b'SSH-':
            return inp, dig
    return None


# ------------------------------------------------------------------------------------------------
# the on-path party

class Mitm:
    """wire.filter implementation.  Every write of an endpoint is the identification line or one
    packet.  `edit` is None or a function (side, kind, index, data, mitm) -> replacement wire bytes
    (or None for "leave it"); kind is 'ver' | 'kexinit' | 'kex' | 'newkeys' | 'other'; index counts
    the kex-specific messages of that direction."""

    def __init__(self, edit=None):
        self.edit = edit
        self.sent = {'c': [], 's': []}        # (kind, wire bytes) as written, clear-text phase only
        self.dlv = {'c': [], 's': []}         # (kind, wire bytes) as delivered
        self.enc = {'c': False, 's': False}
        self.nkex = {'c': 0, 's': 0}
        self.nwrites = 0
        self.applied = 0
        self.noted = {}

    def __call__(self, side, data):
        self.nwrites += 1
        if self.enc[side]:
            return [data]
        if not self.sent[side]:
            kind, idx = 'ver', 0
        else:
            p = unframe(data)
            t = p[0] if p else None
            if t == MSG_KEXINIT:
                kind, idx = 'kexinit', 0
            elif t == MSG_NEWKEYS:
                kind, idx = 'newkeys', 0
            elif t is not None and 30 <= t <= 49:
                kind, idx = 'kex', self.nkex[side]
                self.nkex[side] += 1
            else:
                kind, idx = 'other', 0
        self.sent[side].append((kind, data))
        out = None
        if self.edit is not None:
            out = self.edit(side, kind, idx, data, self)
        if out is None:
            out = data
        elif out != data:
            self.applied += 1
        self.dlv[side].append((kind, out))
        if kind == 'newkeys':
            self.enc[side] = True
        return [out]


# ------------------------------------------------------------------------------------------------
# views

MALFORMED = ('malformed',)


def line_version(line):
    """identification string carried by the bytes of one delivered write (RFC 4253 4.2: up to CR LF;
    a bare LF is tolerated).  Lines in front that do not start with SSH- are skipped."""
    for ln in line.split(b'\n')[:-1] if line.endswith(b'\n') else line.split(b'\n'):
        if ln.startswith(b'SSH-'):
            return ln[:-1] if ln.endswith(b'\r') else ln
    return None


def _msgs(items, kind):
    return [d for k, d in items if k == kind]


def local_view(m, who):
    """view of endpoint `who` ('c' or 's'): its own messages as it wrote them, the peer's as delivered.
    Returns dict(v_c, v_s, i_c, i_s, alg, family, k_s, fields) with MALFORMED / None for what is
    missing."""
    own, peer = m.sent[who], m.dlv['s' if who == 'c' else 'c']
    side = {'c': own if who == 'c' else peer, 's': own if who == 's' else peer}
    v = {}
    for x in ('c', 's'):
        ver = _msgs(side[x], 'ver')
        v['v_' + x] = line_version(ver[0]) if ver else None
        ki = _msgs(side[x], 'kexinit')
        v['i_' + x] = unframe(ki[0]) if ki else None
    kc = parse_kexinit(v['i_c']) if v['i_c'] else None
    ks = parse_kexinit(v['i_s']) if v['i_s'] else None
    v['alg'] = first_match(kc['lists'][0], ks['lists'][0]) if kc and ks else None
    v['family'] = family_of(v['alg']) if v['alg'] else None
    v['k_s'] = None
    v['fields'] = None
    v['sig'] = None
    fam = v['family']
    if not fam:
        return v
    vals = {}
    for x in ('c', 's'):
        msgs = [unframe(d) for d in _msgs(side[x], 'kex')]
        for i, p in enumerate(msgs):
            kinds = SCHEMA.get((fam, x, i))
            if kinds is None:
                continue
            f = split_fields(kinds, p) if p is not None else None
            vals[(x, i)] = MALFORMED if f is None else [field_value(k, e) for k, e in zip(kinds, f)]
    def get(x, i, j):
        f = vals.get((x, i))
        if f is None:
            return None
        if f is MALFORMED:
            return MALFORMED
        return f[j]
    if fam == 'dh':
        v['k_s'], v['sig'] = get('s', 0, 0), get('s', 0, 2)
        v['fields'] = ('dh', get('c', 0, 0), get('s', 0, 1))
    elif fam == 'gex':
        v['k_s'], v['sig'] = get('s', 1, 0), get('s', 1, 2)
        v['fields'] = ('gex', get('c', 0, 0), get('s', 0, 0), get('s', 0, 1), get('c', 1, 0), get('s', 1, 1))
    elif fam == 'ecdh':
        v['k_s'], v['sig'] = get('s', 0, 0), get('s', 0, 2)
        v['fields'] = ('ecdh', get('c', 0, 0), get('s', 0, 1))
    else:
        v['k_s'], v['sig'] = get('s', 0, 0), get('s', 1, 0)
        v['fields'] = ('rsa', get('s', 0, 1), get('c', 0, 0))
    return v


def bound_part(v):
    """the part of a view the exchange hash binds (everything but the signature)"""
    return (v['v_c'], v['v_s'], v['i_c'], v['i_s'], v['k_s'], v['fields'])


def view_complete(v):
    def bad(x):
        return x is None or x is MALFORMED
    return not (any(bad(v[k]) for k in ('v_c', 'v_s', 'i_c', 'i_s', 'k_s', 'fields')) or
                any(bad(x) for x in v['fields']))


# ------------------------------------------------------------------------------------------------
# one session

class Result:
    pass


class RevTunnel(memwire.MemTunnel):
    """reverse direction: the listener's factory makes the SSH CLIENT connection (listen_reverse), the
    connector's factory the SSH SERVER connection (connect_reverse); wire sides stay 'c' = SSH client"""

    async def create_connection(self, session_factory, host, port, **kw):
        wire = memwire.Wire(self.loop)
        self.wires.append(wire)
        if self.on_wire:
            self.on_wire(wire)
        cconn = self.server_factory('10.0.0.1', 40000)
        sconn = session_factory()
        ct = wire.attach('c', cconn)
        st = wire.attach('s', sconn)
        wire.sconn, wire.cconn = sconn, cconn
        cconn.connection_made(ct)
        sconn.connection_made(st)
        return st, sconn


ENTRIES = ('connect', 'create_connection', 'host_key', 'auth_methods', 'reverse')


async def run_session(cfg, edit=None, recorder=None, max_turns=6000, quiet_turns=80, entry='connect'):
    """cfg: dict(c=dict(kex, enc, mac, cmp, hostkey), s=dict(kex, enc, mac, cmp), keys=[SSHKey...],
    trusted=[SSHKey public...], c_version, s_version).  `entry` is the public entry point through which the
    client side is started: connect(), create_connection(), get_server_host_key(), get_server_auth_methods(),
    or listen_reverse() with connect_reverse() as the server.  Returns a Result; Result.c_done says that the
    entry point delivered a result to its caller (Result.value)."""
    import asyncssh
    loop = asyncio.get_running_loop()
    inline = True
    try:
        loop.set_default_executor(InlineExecutor(max_workers=1))
    except Exception:                          # noqa: fall back to the thread pool and real (short) sleeps
        inline = False
    res = Result()
    m = Mitm(edit)
    res.mitm = m
    tun = (RevTunnel if entry == 'reverse' else memwire.MemTunnel)(loop)
    state = {'s_auth': False, 's_lost': None, 'newkeys': {}, 'accepted': None, 'c_err': None}

    def on_wire(wire):
        wire.filter = m
    tun.on_wire = on_wire

    class Srv(asyncssh.SSHServer):
        def begin_auth(self, username):
            return entry == 'auth_methods'

        def password_auth_supported(self):
            return True

        def auth_completed(self):
            state['s_auth'] = True

        def connection_lost(self, exc):
            state['s_lost'] = exc if exc is not None else True

    c, s = cfg['c'], cfg['s']
    skw = dict(server_host_keys=cfg['keys'], kex_algs=s['kex'], encryption_algs=s['enc'], mac_algs=s['mac'],
               compression_algs=s['cmp'])
    if cfg.get('s_version'):
        skw['server_version'] = cfg['s_version']
    ckw = dict(known_hosts=(list(cfg['trusted']), [], []), username='u', client_keys=None, config=None,
               kex_algs=c['kex'], encryption_algs=c['enc'], mac_algs=c['mac'], compression_algs=c['cmp'],
               server_host_key_algs=c['hostkey'])
    if cfg.get('c_version'):
        ckw['client_version'] = cfg['c_version']
    if entry == 'reverse':
        def accepted(cn):
            state['accepted'] = cn

        def failed(cn, exc):
            state['c_err'] = exc
        acc = await asyncssh.listen_reverse('mem', 22, tunnel=tun, acceptor=accepted, error_handler=failed, **ckw)
        task = asyncio.ensure_future(asyncssh.connect_reverse('mem', 22, tunnel=tun, server_factory=Srv, config=None, **skw))
    else:
        acc = await asyncssh.listen('mem', 22, tunnel=tun, server_factory=Srv, **skw)
        if entry == 'connect':
            coro = asyncssh.connect('mem', 22, tunnel=tun, **ckw)
        elif entry == 'create_connection':
            coro = asyncssh.create_connection(asyncssh.SSHClient, 'mem', 22, tunnel=tun, **ckw)
        else:
            kw = dict(tunnel=tun, config=None, kex_algs=c['kex'], server_host_key_algs=c['hostkey'])
            if cfg.get('c_version'):
                kw['client_version'] = cfg['c_version']
            coro = (asyncssh.get_server_host_key('mem', 22, **kw) if entry == 'host_key' else
                    asyncssh.get_server_auth_methods('mem', 22, username='u', **kw))
        task = asyncio.ensure_future(coro)
    res.entry = entry
    last, quiet, turns = None, 0, 0
    while turns < max_turns and not task.done():
        await asyncio.sleep(0 if inline else 0.002)
        turns += 1
        cur = (m.nwrites, len(tun.wires))
        if cur == last:
            quiet += 1
            if quiet > quiet_turns:
                break
        else:
            last, quiet = cur, 0
    res.turns = turns
    res.stalled = not task.done()
    if entry == 'reverse' and task.done():
        await memwire.settle(10)
    res.c_done = False
    res.c_exc = None
    res.value = None
    conn = None
    value = exc = None
    if task.done():
        if task.cancelled():
            res.c_exc = 'Cancelled'
        elif task.exception() is not None:
            exc = task.exception()
        else:
            value = task.result()
    else:
        task.cancel()
    wire = tun.wires[-1] if tun.wires else None
    res.wire = wire
    sconn = wire.sconn if wire else None
    res.s_done = state['s_auth']
    if entry == 'reverse':
        # the task is the SERVER side (connect_reverse); the client's result is the acceptor callback
        if value is not None:
            res.s_done = True
        if state['accepted'] is not None:
            conn = state['accepted']
            res.c_done = True
        exc = state['c_err'] or exc
    elif value is not None or (task.done() and not task.cancelled() and task.exception() is None):
        res.c_done = True
        if entry == 'connect':
            conn = value
        elif entry == 'create_connection':
            conn = value[0]
        elif entry == 'host_key':
            res.value = value.public_data if value is not None else None
        else:
            res.value = list(value) if value is not None else None
    if exc is not None and not res.c_done:
        res.c_exc = type(exc).__name__
        res.c_code = getattr(exc, 'code', None)
        res.c_reason = str(getattr(exc, 'reason', exc))[:200]
    cconn = conn if conn is not None else (wire.cconn if wire else None)

    def info(cn):
        if cn is None:
            return None
        try:
            return tuple(cn.get_extra_info(k) for k in ('send_cipher', 'send_mac', 'send_compression',
                                                        'recv_cipher', 'recv_mac', 'recv_compression'))
        except Exception:                      # noqa
            return None
    res.c_info, res.s_info = info(cconn), info(sconn)
    res.c_ver_seen = cconn.get_extra_info('server_version') if cconn is not None else None
    res.s_ver_seen = sconn.get_extra_info('client_version') if sconn is not None else None
    res.c_sid = getattr(cconn, '_session_id', None) if cconn is not None else None
    res.s_sid = getattr(sconn, '_session_id', None) if sconn is not None else None
    res.c_hostkey = None
    if res.c_done and conn is not None:
        try:
            k = conn.get_server_host_key()
            res.c_hostkey = k.public_data if k is not None else None
        except Exception:                      # noqa
            pass
    res.c_rec = res.s_rec = None
    if recorder is not None and recorder.ok:
        res.c_rec = recorder.records.pop(id(cconn), None) if cconn is not None else None
        res.s_rec = recorder.records.pop(id(sconn), None) if sconn is not None else None
        recorder.records.clear()
    if conn is not None:
        conn.abort()
    if entry == 'reverse' and value is not None:
        value.abort()
    if wire is not None:
        wire.cut_link()
    acc.close()
    await memwire.settle(6)
    if not task.done():
        try:
            await asyncio.wait_for(task, 1)
        except BaseException:                  # noqa
            pass
    return res
