"""C04 helpers, part 2: the two server engines a real asyncssh client is connected to.

Engine A  a real asyncssh server over MemWire (honest; presents a plain key or a certificate).
Engine B  `Liar`, a MiniSSH based server that presents ANY blob, signs with ANY key over the right or
          a wrong hash, and can be driven message by message in any order (scripts).

Both record, at the level of the client's transport.write(), which SSH message numbers the CLIENT
really put on the wire (send_packet calls that were deferred do not count)."""
import asyncio
import collections
from unittest import mock

from . import memwire
from . import minissh as M

USER, PASSWORD = 'u', 'c04-secret-password'
KEX = b'curve25519-sha256'


class WireTap:
    """Wraps conn.send_packet and is told by the transport about every write: yields the list of
    message numbers actually written (None for writes outside send_packet, i.e. the version line)."""

    def __init__(self, conn):
        self.stack = []
        self.wire = []
        self.payloads = []
        orig = conn.send_packet

        def send_packet(pkttype, *args, **kw):
            fr = [int(pkttype), False, b''.join(bytes(a) for a in args)]
            self.stack.append(fr)
            try:
                return orig(pkttype, *args, **kw)
            finally:
                self.stack.pop()
        conn.send_packet = send_packet

    def written(self):
        if self.stack and not self.stack[-1][1]:
            self.stack[-1][1] = True
            self.wire.append(self.stack[-1][0])
            self.payloads.append(self.stack[-1][2])
        else:
            self.wire.append(None)
            self.payloads.append(None)

    def types(self):
        return [t for t in self.wire if t is not None]


def parse_kexinit_hostkey_algs(payload):
    """host key algorithm name-list of a KEXINIT payload (after the type byte)"""
    r = M.Reader(payload, 16)
    r.get_namelist()
    return r.get_namelist()


# --------------------------------------------------------------------------------------------------
# engine A

class _Tr(memwire.MemTransport):
    def get_extra_info(self, name, default=None):
        if name == 'peername' and self.side == 'c':
            return (self.wire.peer_addr, self.wire.peer_port)
        return super().get_extra_info(name, default)

    def write(self, data):
        tap = self.wire.taps.get(self.side)
        if tap is not None and not self.closed:
            tap.written()
        super().write(data)


class Tunnel(memwire.MemTunnel):
    """MemTunnel whose client transport reports a chosen peer address and whose two connections are tapped."""

    def __init__(self, peer_addr, peer_port, loop=None):
        super().__init__(loop)
        self.peer_addr, self.peer_port = peer_addr, peer_port

    async def create_connection(self, session_factory, host, port, **kw):
        wire = memwire.Wire(self.loop)
        wire.peer_addr, wire.peer_port, wire.taps = self.peer_addr, self.peer_port, {}
        self.wires.append(wire)
        sconn = self.server_factory('10.0.0.1', 40000)
        cconn = session_factory()
        for side, proto in (('s', sconn), ('c', cconn)):
            t = _Tr(wire, side)
            t.protocol = proto
            wire.tr[side], wire.proto[side] = t, proto
            wire.taps[side] = WireTap(proto)
        wire.sconn, wire.cconn = sconn, cconn
        sconn.connection_made(wire.tr['s'])
        cconn.connection_made(wire.tr['c'])
        return wire.tr['c'], cconn


def classify(exc):
    if exc is None:
        return 0
    n = type(exc).__name__
    return {'HostKeyNotVerifiable': 1, 'KeyExchangeFailed': 2, 'PermissionDenied': 0}.get(n, 'other:' + n)


def make_client_factory(cb_key, cb_ca, calls):
    import asyncssh

    class Client(asyncssh.SSHClient):
        def validate_host_public_key(self, host, addr, port, key):
            calls.append(('key', host, addr, port))
            return cb_key

        def validate_host_ca_key(self, host, addr, port, key):
            calls.append(('ca', host, addr, port))
            return cb_ca
    return Client


NICK = 'c04nick'


def client_kw(known_hosts, alias, algs, cb_key, cb_ca, calls, config=None):
    """config = path of an ssh_config file that carries Hostname / Port / HostKeyAlias for host NICK (then the
    alias is NOT passed as an argument)."""
    kw = dict(known_hosts=known_hosts, username=USER, password=PASSWORD, client_keys=None,
              config=None if config is None else [config],
              agent_path=None, preferred_auth='password', client_factory=make_client_factory(cb_key, cb_ca, calls))
    if alias is not None and config is None:
        kw['host_key_alias'] = alias
    if algs is not None:
        kw['server_host_key_algs'] = algs
    return kw


def target_args(host, port, config):
    """positional arguments of connect(): the real name and port, or the nickname the config file resolves"""
    return (host, port) if config is None else (NICK,)


async def connect_real(*, host, port, addr, known_hosts, alias, algs, cb_key, cb_ca, now, server_key, server_cert,
                       config=None):
    """One asyncssh.connect() to a real asyncssh server.  Returns the observation dict."""
    import asyncssh
    seen = {'begin_auth': 0, 'password': 0}

    class Server(asyncssh.SSHServer):
        def begin_auth(self, username):
            seen['begin_auth'] += 1
            return True

        def password_auth_supported(self):
            return True

        def validate_password(self, username, password):
            seen['password'] += 1
            return True

    tun = Tunnel(addr, port)
    calls = []
    acc = await asyncssh.listen('mem', 22, tunnel=tun, server_factory=Server,
                                server_host_keys=[(server_key, server_cert) if server_cert is not None else server_key],
                                send_server_host_keys=False)
    exc = conn = None
    with mock.patch('time.time', lambda: now):
        try:
            conn = await asyncssh.connect(*target_args(host, port, config), tunnel=tun,
                                          **client_kw(known_hosts, alias, algs, cb_key, cb_ca, calls, config))
        except Exception as e:                                    # classified below; never swallowed silently
            exc = e
        await memwire.settle(6)
    wire = tun.wires[-1] if tun.wires else None
    obs = {'class': classify(exc), 'exc': None if exc is None else type(exc).__name__, 'server_saw': dict(seen),
           'cb_calls': calls, 'client_wire': [], 'presented_blob': None, 'offered': None}
    if wire is not None:
        ct, st = wire.taps['c'], wire.taps['s']
        obs['client_wire'] = ct.types()
        for t, p in zip(st.wire, st.payloads):
            if t == M.MSG_KEX_REPLY and obs['presented_blob'] is None:
                obs['presented_blob'] = M.Reader(p).get_string()
        for t, p in zip(ct.wire, ct.payloads):
            if t == M.MSG_KEXINIT and obs['offered'] is None:
                obs['offered'] = parse_kexinit_hostkey_algs(p)
    if conn is not None:
        conn.abort()
    acc.close()
    await memwire.settle(4)
    return obs


# --------------------------------------------------------------------------------------------------
# engine B

class _LTransport(asyncio.Transport):
    def __init__(self, link):
        super().__init__()
        self.link = link

    def get_extra_info(self, name, default=None):
        return {'peername': (self.link.peer_addr, self.link.peer_port), 'sockname': ('10.0.0.1', 40000)}.get(name, default)

    def write(self, data):
        if not self.link.closed:
            if self.link.tap is not None:
                self.link.tap.written()
            self.link.to_mini.append(bytes(data))

    def is_closing(self):
        return self.link.closed

    def close(self):
        self.link.close()

    abort = close

    def pause_reading(self):
        pass

    def resume_reading(self):
        pass

    def get_write_buffer_size(self):
        return 0

    def set_write_buffer_limits(self, high=None, low=None):
        pass

    def can_write_eof(self):
        return False


class Liar(M.MiniSSH):
    """MiniSSH server that answers the client's KEX init only when told to, with any blob/signature."""

    def __init__(self, *, hostkey_alg, strict=True, ext_info=False, auto=True, kex_algs=None):
        from cryptography.hazmat.primitives.asymmetric import ed25519
        kex = list(kex_algs or [KEX]) + ([b'ext-info-s'] if ext_info else [])
        super().__init__('server', host_key=ed25519.Ed25519PrivateKey.generate(), kex_algs=kex,
                         hostkey_algs=[hostkey_alg], strict_kex=strict, auto_kex=auto)
        self.pending_init = None          # Reader positioned at the client's KEX init value
        self.reply_plan = None            # dict(blob, sign_key, sign_alg, hash_blob, garbage) for auto mode
        self.keys_ready = False
        self._k = self._h = None

    def _dispatch(self, seq, payload):
        # a liar does not police the client: messages the harness makes the client send during the first
        # exchange (ELocalSend) must not stop this endpoint the way a strict server would
        t = payload[0]
        if t in (M.MSG_KEXINIT, M.MSG_NEWKEYS) or M.MSG_KEX_FIRST <= t <= M.MSG_KEX_LAST:
            return super()._dispatch(seq, payload)
        if t == M.MSG_DISCONNECT:
            r = M.Reader(payload, 1)
            self.peer_disconnect = (r.get_u32(), r.get_string())
        self.inbox.append((t, payload))

    def _server_reply(self, r):
        self.pending_init = r
        if self.reply_plan is not None:
            self.do_reply(**self.reply_plan)
            self.do_newkeys()

    def do_reply(self, *, blob, sign_key, sign_alg, hash_blob=None, garbage=False):
        """KEX reply presenting `blob`; the signature is made with sign_key over the exchange hash computed
        with hash_blob in place of the presented blob (None = the presented blob, i.e. the right hash)."""
        pub_c, k = self._eph.shared(self.pending_init)
        h_true = self._exchange_hash(blob, pub_c, self._eph.encoded, k)
        h_signed = h_true if hash_blob is None else self._exchange_hash(hash_blob, pub_c, self._eph.encoded, k)
        sig = M.host_sign(sign_key, sign_alg, h_signed)
        if garbage:
            sig = sig[:-2] + bytes([sig[-2] ^ 1]) + sig[-1:]
        self._frame(bytes([M.MSG_KEX_REPLY]) + M.sstr(blob) + self._eph.encoded + M.sstr(sig))
        self._k, self._h, self._blob = k, h_true, blob
        self.keys_ready = True

    def do_newkeys(self):
        if self.keys_ready:
            self.keys_ready = False
            self._finish(self._blob, self._k, self._h)         # frames NEWKEYS and switches our sending keys
        else:
            self._frame(bytes([M.MSG_NEWKEYS]))                # a NEWKEYS out of the blue, current keys

    def raw(self, payload):
        self._frame(bytes(payload))


class LiarLink:
    """Liar <-> one real asyncssh client connection; also the tunnel object for connect()."""

    def __init__(self, liar, peer_addr, peer_port):
        self.mini, self.peer_addr, self.peer_port = liar, peer_addr, peer_port
        self.transport = _LTransport(self)
        self.to_mini = collections.deque()
        self.closed = False
        self.conn = self.tap = None
        self.mini_error = None
        self.cursor = 0

    async def create_connection(self, session_factory, host, port, **kw):
        self.conn = session_factory()
        self.tap = WireTap(self.conn)
        self.conn.connection_made(self.transport)
        self.mini.start()
        return self.transport, self.conn

    def close(self):
        if not self.closed:
            self.closed = True
            asyncio.get_running_loop().call_soon(self.conn.connection_lost, None)

    def pump(self):
        moved = False
        while True:
            out = self.mini.take_output()
            if out and not self.closed:
                self.conn.data_received(out)
            elif self.to_mini:
                data = self.to_mini.popleft()
                if self.mini_error is None:
                    try:
                        self.mini.feed(data)
                    except M.MiniSSHError as e:          # e.g. cannot decrypt what the client sent: still an observation
                        self.mini_error = e.kind
                        if e.kind == 'no_common_algorithm':
                            # what a server does then (the client does not check the host key algorithms itself)
                            self.mini.raw(M.disconnect(3, 'no common algorithm'))
            else:
                return moved
            moved = True

    def serve(self):
        """Behave like a server that lets everybody in: accept the service, accept any auth request."""
        mini = self.mini
        while self.cursor < len(mini.inbox):
            t, p = mini.inbox[self.cursor]
            self.cursor += 1
            if t == M.MSG_SERVICE_REQUEST:
                mini.send(M.service_accept(M.Reader(p, 1).get_string()))
            elif t == M.MSG_USERAUTH_REQUEST:
                r = M.Reader(p, 1)
                r.get_string()
                r.get_string()
                if r.get_string() == b'none':            # make the client show its password
                    mini.send(M.userauth_failure(['password']))
                else:
                    mini.send(M.userauth_success())

    async def settle(self, rounds=40, serve=False):
        """Move bytes and let the loop run until nothing moves any more (bounded, no wall clock)."""
        quiet = 0
        for _ in range(rounds * 10):
            moved = self.pump()
            if serve:
                self.serve()
                moved = self.pump() or moved
            await asyncio.sleep(0)
            quiet = 0 if moved else quiet + 1
            if quiet >= 4:
                return

    async def wait_connected(self, fut, limit=30.0):
        """asyncssh builds its options in an executor thread before it asks the tunnel for a connection:
        really wait for that (wall clock only as a backstop), everything after is driven by pump()."""
        import time as _t
        t0 = _t.monotonic()
        while self.conn is None and not fut.done():
            await asyncio.sleep(0.0005)
            if _t.monotonic() - t0 > limit:
                raise RuntimeError('asyncssh.connect() never asked the tunnel for a connection')

    def server_saw(self):
        return {'service_request': sum(1 for t, _ in self.mini.inbox if t == M.MSG_SERVICE_REQUEST),
                'userauth_request': sum(1 for t, _ in self.mini.inbox if t == M.MSG_USERAUTH_REQUEST),
                'password_seen': any(t == M.MSG_USERAUTH_REQUEST and PASSWORD.encode() in p for t, p in self.mini.inbox)}


async def connect_liar(*, host, port, addr, known_hosts, alias, algs, cb_key, cb_ca, now, hostkey_alg, plan,
                       strict=True, config=None):
    """One asyncssh.connect() to a Liar that replies according to `plan`.  Returns the observation dict."""
    import asyncssh
    liar = Liar(hostkey_alg=hostkey_alg, strict=strict)
    liar.reply_plan = plan
    link = LiarLink(liar, addr, port)
    calls = []
    exc = conn = None
    with mock.patch('time.time', lambda: now):
        fut = asyncio.ensure_future(asyncssh.connect(*target_args(host, port, config), tunnel=link,
                                                     **client_kw(known_hosts, alias, algs, cb_key, cb_ca, calls, config)))
        await link.wait_connected(fut)
        for _ in range(60):
            await link.settle(serve=True)
            if fut.done():
                break
        if fut.done():
            try:
                conn = fut.result()
            except Exception as e:
                exc = e
        else:
            fut.cancel()
            exc = TimeoutError('connect() neither returned nor failed')
        await link.settle(serve=True)
    offered = None
    for t, p in zip(link.tap.wire, link.tap.payloads) if link.tap else ():
        if t == M.MSG_KEXINIT and offered is None:
            offered = parse_kexinit_hostkey_algs(p)
    obs = {'class': classify(exc), 'exc': None if exc is None else type(exc).__name__, 'server_saw': link.server_saw(),
           'cb_calls': calls, 'client_wire': link.tap.types() if link.tap else [], 'offered': offered,
           'mini_error': link.mini_error, 'negotiated': liar.negotiated.get('hostkey') if liar.negotiated else None}
    if conn is not None:
        conn.abort()
    elif link.conn is not None and not link.closed:
        link.conn.abort()
    await link.settle(rounds=4)
    return obs


# --------------------------------------------------------------------------------------------------
# engine B, scripted: the server's messages in any order, one action at a time

def other_payload(t):
    """A well-formed payload for message number t (so that only the PHASE decides what happens)."""
    body = {
        1: M.u32(11) + M.sstr('bye') + M.sstr(''), 2: M.sstr(''), 3: M.u32(0), 4: b'\0' + M.sstr('dbg') + M.sstr(''),
        30: M.sstr(b'\x01' * 32), 32: M.sstr('junk'),
        50: M.sstr(USER) + M.sstr('ssh-connection') + M.sstr('none'), 54: b'',
        51: M.namelist(['password']) + b'\0', 52: b'', 53: M.sstr('hello\n') + M.sstr(''),
        60: M.sstr('ssh-ed25519') + M.sstr('x'), 80: M.sstr('no-such-request@c04') + b'\1',
        90: M.sstr('session') + M.u32(0) + M.u32(1 << 20) + M.u32(1 << 15),
    }[t]
    return bytes([t]) + body


SCRIPT_ALGS = ['ssh-ed25519', 'ecdsa-sha2-nistp256', 'ssh-ed25519-cert-v01@openssh.com',
               'ecdsa-sha2-nistp256-cert-v01@openssh.com']       # always offered in scripts: the order is the subject there

LOCAL_ARGS = {
    2: (M.sstr(''),), 4: (b'\0', M.sstr('dbg'), M.sstr('')), 5: (M.sstr('ssh-userauth'),), 6: (M.sstr('ssh-userauth'),),
    50: (M.sstr(USER), M.sstr('ssh-connection'), M.sstr('password'), b'\0', M.sstr(PASSWORD)),
    53: (M.sstr('banner'), M.sstr('')), 80: (M.sstr('keepalive@c04'), b'\1'),
    90: (M.sstr('session'), M.u32(0), M.u32(1 << 20), M.u32(1 << 15)),
}


async def run_script(*, host, port, addr, known_hosts, alias, cb_key, cb_ca, actions, strict, ext_info,
                     hostkey_alg, make_plan):
    """Drive a real asyncssh client with a scripted Liar.  actions: list of
         ('kexinit', common) | ('reply', variant, now) | ('newkeys',) | ('accept', userauth) |
         ('other', t) | ('local', t)
       make_plan(variant) -> kwargs of Liar.do_reply.  Returns (number of actions executed, observation)."""
    import asyncssh
    liar = Liar(hostkey_alg=hostkey_alg, strict=strict, ext_info=ext_info, auto=False)
    link = LiarLink(liar, addr, port)
    calls = []
    fut = asyncio.ensure_future(asyncssh.connect(host, port, tunnel=link,
                                                 **client_kw(known_hosts, alias, SCRIPT_ALGS, cb_key, cb_ca, calls)))
    await link.wait_connected(fut)
    await link.settle()
    done = 0
    kexinit_payload = None
    for act in actions:
        kind = act[0]
        now = act[2] if kind == 'reply' else 1_000_000
        with mock.patch('time.time', lambda: now):
            if kind == 'kexinit':
                if kexinit_payload is None:
                    if not act[1]:
                        liar.kex_algs = [b'no-such-kex@c04']
                    try:
                        liar._send_kexinit()
                    except M.MiniSSHError as e:           # our own negotiation fails when there is nothing in common
                        link.mini_error = e.kind
                    kexinit_payload = liar.our_kexinit_payload
                else:
                    liar.raw(kexinit_payload)
            elif kind == 'reply':
                if liar.pending_init is not None and liar._eph is not None:
                    liar.do_reply(**make_plan(act[1]))
                    liar.pending_init = None
                else:                                     # no exchange running: a reply out of the blue
                    liar.raw(bytes([M.MSG_KEX_REPLY]) + M.sstr(make_plan(act[1])['blob']) + M.sstr(b'\x02' * 32) +
                             M.sstr(M.sstr('ssh-ed25519') + M.sstr(b'\x03' * 64)))
            elif kind == 'newkeys':
                liar.do_newkeys()
            elif kind == 'accept':
                liar.raw(M.service_accept('ssh-userauth' if act[1] else 'ssh-connection'))
            elif kind == 'other':
                liar.raw(other_payload(act[1]))
            elif kind == 'local':
                link.conn.send_packet(act[1], *LOCAL_ARGS[act[1]])
            await link.settle()
        done += 1
        if any(t is not None and t >= 50 for t in link.tap.wire):
            break                                         # the first USERAUTH message is out: end of the model's scope
    await link.settle()
    closed = link.closed
    obs = {'client_wire': link.tap.types(), 'closed': closed, 'server_saw': link.server_saw(),
           'mini_error': link.mini_error, 'exc': None}
    if fut.done():
        try:
            fut.result().abort()
        except Exception as e:
            obs['exc'] = type(e).__name__
    else:
        fut.cancel()
    if link.conn is not None and not link.closed:
        link.conn.abort()
    await link.settle(rounds=4)
    return done, obs


# --------------------------------------------------------------------------------------------------
# engine B behind other ways of reaching a server: through another SSH connection (tunnel= / ProxyJump),
# over a socket the caller connected (sock=), through a proxy command.  The client's peer address differs in
# each: none for a tunnelled connection and a proxy command, the socket's peer for sock=.

class LiarEndpoint:
    """A Liar with a plan, fed with bytes; answers like a server that lets everybody in."""

    def __init__(self, hostkey_alg, plan):
        self.mini = Liar(hostkey_alg=hostkey_alg)
        self.mini.reply_plan = plan
        self.cursor = 0
        self.error = None
        self.started = False

    def on_data(self, data):
        mini = self.mini
        if not self.started:
            self.started = True
            mini.start()
        if data and self.error is None:
            try:
                mini.feed(data)
            except M.MiniSSHError as e:
                self.error = e.kind
                if e.kind == 'no_common_algorithm':
                    mini.raw(M.disconnect(3, 'no common algorithm'))
        while self.cursor < len(mini.inbox):
            t, p = mini.inbox[self.cursor]
            self.cursor += 1
            if t == M.MSG_SERVICE_REQUEST:
                mini.send(M.service_accept(M.Reader(p, 1).get_string()))
            elif t == M.MSG_USERAUTH_REQUEST:
                r = M.Reader(p, 1)
                r.get_string()
                r.get_string()
                mini.send(M.userauth_failure(['password']) if r.get_string() == b'none' else M.userauth_success())
        return mini.take_output()

    def observation(self, exc, calls):
        mini = self.mini
        seen = [t for d, t in mini.log if d == 'recv']            # what the client put on the wire, as the server read it
        offered = None
        if mini.peer_kexinit_payload:
            offered = parse_kexinit_hostkey_algs(mini.peer_kexinit_payload[1:])
        return {'class': classify(exc), 'exc': None if exc is None else type(exc).__name__,
                'server_saw': {'service_request': seen.count(M.MSG_SERVICE_REQUEST),
                               'userauth_request': sum(1 for t in seen if t == M.MSG_USERAUTH_REQUEST),
                               'password_seen': any(t == M.MSG_USERAUTH_REQUEST and PASSWORD.encode() in p_
                                                    for t, p_ in mini.inbox),
                               'undecodable_after_newkeys': self.error == 'mac'},
                'cb_calls': calls, 'client_wire': seen, 'offered': offered, 'mini_error': self.error,
                'negotiated': mini.negotiated.get('hostkey') if mini.negotiated else None}


RELAY = ("import sys,socket,threading,os\n"
         "s=socket.create_connection((sys.argv[1],int(sys.argv[2])))\n"
         "def a():\n"
         "  while True:\n"
         "    d=os.read(0,65536)\n"
         "    if not d: break\n"
         "    s.sendall(d)\n"
         "  s.shutdown(1)\n"
         "threading.Thread(target=a,daemon=True).start()\n"
         "while True:\n"
         "  d=s.recv(65536)\n"
         "  if not d: break\n"
         "  os.write(1,d)\n")


async def connect_via(path, *, host, port, addr, known_hosts, alias, algs, cb_key, cb_ca, now, hostkey_alg, plan,
                      config=None, limit=60.0):
    """One asyncssh.connect() reaching a LiarEndpoint by `path`:
         'jump'   tunnel=<a real asyncssh client connection to a real asyncssh jump server whose address is addr>
         'sock'   sock=<a TCP socket connected on loopback> (the peer address is 127.0.0.1)
         'proxy'  proxy_command=<a relay process>
    Returns the observation dict (client_wire = the message numbers the server received)."""
    import asyncssh
    import socket
    import sys
    from . import sshutil
    end = LiarEndpoint(hostkey_alg, plan)
    calls, cleanup = [], []
    kw = client_kw(known_hosts, alias, algs, cb_key, cb_ca, calls, config)
    exc = conn = None
    requested = []
    try:
        if path == 'jump':
            class Bridge(asyncssh.SSHTCPSession):
                def connection_made(self, chan):
                    self.chan = chan

                def session_started(self):
                    out = end.on_data(b'')
                    if out:
                        self.chan.write(out)

                def data_received(self, data, datatype):
                    out = end.on_data(data)
                    if out:
                        self.chan.write(out)

            class Jump(asyncssh.SSHServer):
                def begin_auth(self, username):
                    return False

                def connection_requested(self, dest_host, dest_port, orig_host, orig_port):
                    requested.append((dest_host, dest_port))
                    return Bridge()

            tun = Tunnel(addr, 22)                                # the jump host is at `addr`
            acc = await asyncssh.listen('jump', 22, tunnel=tun, server_factory=Jump,
                                        server_host_keys=[sshutil.host_key()])
            cleanup.append(acc.close)
            outer = await asyncssh.connect('jump', 22, tunnel=tun, known_hosts=None, username='j', client_keys=None,
                                           config=None, agent_path=None)
            cleanup.append(outer.abort)
            kw['tunnel'] = outer
        else:
            async def handle(reader, writer):
                try:
                    out = end.on_data(b'')
                    while True:
                        if out:
                            writer.write(out)
                        data = await reader.read(65536)
                        if not data:
                            break
                        out = end.on_data(data)
                except (ConnectionError, OSError, asyncio.CancelledError):
                    pass                                    # the run is over: nothing left to serve
                finally:
                    writer.close()
            srv = await asyncio.start_server(handle, '127.0.0.1', 0)
            cleanup.append(srv.close)
            rport = srv.sockets[0].getsockname()[1]
            if path == 'sock':
                sock = socket.create_connection(('127.0.0.1', rport))
                sock.setblocking(False)
                kw['sock'] = sock
            else:
                kw['proxy_command'] = [sys.executable, '-c', RELAY, '127.0.0.1', str(rport)]
        with mock.patch('time.time', lambda: now):
            try:
                conn = await asyncio.wait_for(asyncssh.connect(*target_args(host, port, config), **kw), limit)
            except Exception as e:
                exc = e
            await asyncio.sleep(0)
    finally:
        if conn is not None:
            conn.abort()
        for f in reversed(cleanup):
            f()
        await memwire.settle(6)
    obs = end.observation(exc, calls)
    obs['requested'] = requested
    return obs
