"""C04 helpers, part 1: the key pool, an independent OpenSSH certificate builder, the known_hosts
generator and an independent reference evaluation of a generated known_hosts (the oracle's view of
"what the trust configuration accepts").  Nothing here imports asyncssh except Pool.akey()."""
import base64
import hashlib
import hmac
import ipaddress
import json
import os

from cryptography.hazmat.primitives import serialization
from cryptography.hazmat.primitives.asymmetric import ec, ed25519

from . import core
from . import minissh as M

# index -> (role, algorithm).  Roles only guide the generator; any key may appear anywhere.
POOL_SPEC = [('host', 'ed25519'), ('host', 'ed25519'), ('host', 'ecdsa'), ('host', 'ed25519'),
             ('ca', 'ed25519'), ('ca', 'ecdsa'), ('ca', 'ed25519'), ('outsider', 'ed25519')]
HOST_KEYS = [0, 1, 2, 3]
CA_KEYS = [4, 5, 6]
OUTSIDER = 7

ALG_NAME = {'ed25519': b'ssh-ed25519', 'ecdsa': b'ecdsa-sha2-nistp256'}
CERT_ALG = {'ed25519': b'ssh-ed25519-cert-v01@openssh.com', 'ecdsa': b'ecdsa-sha2-nistp256-cert-v01@openssh.com'}


class Pool:
    """Private keys as `cryptography` objects (MiniSSH side), lazily as asyncssh keys (real server side)."""

    def __init__(self, pems):
        self.pems = pems
        self.priv = [serialization.load_pem_private_key(p.encode(), None) for p in pems]
        self.alg = [a for _, a in POOL_SPEC]
        self.blob = [M.host_key_blob(k) for k in self.priv]
        self._akeys = {}

    def text(self, i):
        """one-line OpenSSH public key text of pool key i"""
        return (ALG_NAME[self.alg[i]] + b' ' + base64.b64encode(self.blob[i])).decode()

    def akey(self, i):
        import asyncssh
        if i not in self._akeys:
            self._akeys[i] = asyncssh.import_private_key(self.pems[i])
        return self._akeys[i]

    def index_of_blob(self, blob):
        """pool index of a public key blob; keys outside the pool get a stable id >= 1000"""
        for i, b in enumerate(self.blob):
            if b == blob:
                return i
        return 1000 + int.from_bytes(hashlib.sha1(blob).digest()[:4], 'big')


def _generate():
    pems = []
    for _, alg in POOL_SPEC:
        k = ed25519.Ed25519PrivateKey.generate() if alg == 'ed25519' else ec.generate_private_key(ec.SECP256R1())
        pems.append(k.private_bytes(serialization.Encoding.PEM, serialization.PrivateFormat.PKCS8,
                                    serialization.NoEncryption()).decode())
    return pems


def load_pool(create=True):
    """The pool is made once (setup) and cached under <out>/.work/C04/pool.json."""
    path = os.path.join(core.WORK, 'C04', 'pool.json')
    try:
        pems = json.load(open(path))['pems']
        if len(pems) == len(POOL_SPEC):
            return Pool(pems)
    except (OSError, ValueError, KeyError):
        pass
    if not create:
        raise FileNotFoundError(path)
    pems = _generate()
    os.makedirs(os.path.dirname(path), exist_ok=True)
    tmp = path + '.%d' % os.getpid()
    with open(tmp, 'w') as f:
        json.dump({'pems': pems}, f)
    os.replace(tmp, path)
    return Pool(pems)


# --------------------------------------------------------------------------------------------------
# OpenSSH certificates (PROTOCOL.certkeys), built here from the format description

def u64(n):
    return int(n).to_bytes(8, 'big')


def build_cert(pool, subject, ca, *, ctype=2, after=0, before=2 ** 64 - 1, principals=(), key_id='c04',
               serial=1, bad_sig=False, nonce=b'\x07' * 32):
    """Certificate blob for pool key `subject` signed by pool key `ca`."""
    alg = pool.alg[subject]
    r = M.Reader(pool.blob[subject])
    r.get_string()
    keypart = r.rest()                                    # the key specific fields of the plain blob
    body = (M.sstr(CERT_ALG[alg]) + M.sstr(nonce) + keypart + u64(serial) + M.u32(ctype) + M.sstr(key_id) +
            M.sstr(b''.join(M.sstr(p) for p in principals)) + u64(after) + u64(before) +
            M.sstr(b'') + M.sstr(b'') + M.sstr(b'') + M.sstr(pool.blob[ca]))
    sig = M.host_sign(pool.priv[ca], ALG_NAME[pool.alg[ca]], body)
    if bad_sig:
        sig = sig[:-3] + bytes([sig[-3] ^ 0x40]) + sig[-2:]
    return body + M.sstr(sig)


def cert_text(pool, subject, blob):
    return (CERT_ALG[pool.alg[subject]] + b' ' + base64.b64encode(blob)).decode()


# --------------------------------------------------------------------------------------------------
# known_hosts: generated lines and their reference evaluation

HOSTS = ['mem', 'foo.example.com', 'foo.example.com.evil.net', 'xfoo.example.com', 'example.com', 'evil.net',
         'bar', 'FOO.example.com', 'foo.example.org']
ADDRS = ['10.0.0.2', '10.0.0.20', '10.0.1.2', '192.168.7.9', '2001:db8::7']
PORTS = [22, 22, 2222, 22222]


def wild(pat, s):
    """Anchored match of a pattern with * and ? against the whole of s (case-sensitive)."""
    if not pat:
        return not s
    if pat[0] == '*':
        return any(wild(pat[1:], s[i:]) for i in range(len(s) + 1))
    return bool(s) and (pat[0] == '?' or pat[0] == s[0]) and wild(pat[1:], s[1:])


def hashed_field(name, salt):
    return '|1|%s|%s' % (base64.b64encode(salt).decode(),
                         base64.b64encode(hmac.new(salt, name.encode(), hashlib.sha1).digest()).decode())


def field_matches(field, host, addr, port):
    """Does the host field of one line apply to (host, addr, port)?  port=None is the default port.
    Rules (asyncssh documentation / ssh(1) known_hosts format): comma separated patterns, ! negates, a
    line applies iff some positive pattern matches and no negated one does; * and ? wildcards match
    the whole name; a pattern that is an IP network matches the address, but only in a lookup without a
    port (it names the undecorated address); names of non-default ports are written [name]:port; a field starting with | is an HMAC-SHA1 of one name."""
    h = '[%s]:%d' % (host, port) if port and host else host
    a = '[%s]:%d' % (addr, port) if port and addr else addr
    if field.startswith('|'):
        _, magic, salt, digest = field.split('|')
        salt, digest = base64.b64decode(salt), base64.b64decode(digest)
        return any(n and hmac.new(salt, n.encode(), hashlib.sha1).digest() == digest for n in (h, a))
    pos = neg = False
    for pat in field.split(','):
        negate = pat.startswith('!')
        if negate:
            pat = pat[1:]
        try:
            net = ipaddress.ip_network(pat)
        except ValueError:
            net = None
        if net is not None and any(c in field for c in '*?/!'):
            # an address / CIDR pattern names the plain (default port) address: in the [name]:port pass it
            # matches nothing, positive or negated (/repo 9f68483); it is consulted by the fallback lookup
            # the address is the peer address, or the host itself when it is written as an IP and no address is known
            ip = addr
            if not ip:
                try:
                    ip = str(ipaddress.ip_address(host))
                except ValueError:
                    ip = ''
            hit = not port and bool(ip) and ipaddress.ip_address(ip) in net
        else:
            hit = (bool(h) and wild(pat, h)) or (bool(a) and wild(pat, a))
        if hit and negate:
            neg = True
        elif hit:
            pos = True
    return pos and not neg


def ref_lookup(lines, host, addr, port):
    """Reference result of the lookup: (trusted, cas, revoked) as sorted lists of pool indices.
    `lines` are the structured lines of gen_known_hosts; port=None means the default port."""
    def once(p):
        t, c, r = set(), set(), set()
        for ln in lines:
            if ln['kind'] != 'entry' or not field_matches(ln['field'], host, addr, p):
                continue
            {'': t, 'cert-authority': c, 'revoked': r}[ln['marker']].add(ln['key'])
        return t, c, r
    t, c, r = once(port)
    if port and not (t or c):
        t, c, r2 = once(None)
        r |= r2
    return sorted(t), sorted(c), sorted(r)


def render(pool, lines):
    out = []
    for ln in lines:
        if ln['kind'] == 'raw':
            out.append(ln['text'])
        else:
            mk = '@' + ln['marker'] + ' ' if ln['marker'] else ''
            out.append('%s%s%s%s%s' % (ln.get('indent', ''), mk, ln['field'], ln.get('sep', ' '), pool.text(ln['key']))
                       + ln.get('comment', ''))
    return '\n'.join(out) + '\n'


def gen_field(rng, host, addr, port):
    """A host field aimed at (host, addr, port), or at something near it."""
    wrap = (lambda n: '[%s]:%d' % (n, port)) if port else (lambda n: n)
    other_host = rng.choice([h for h in HOSTS if h != host])
    other_addr = rng.choice([a for a in ADDRS if a != addr])
    dom = host.split('.', 1)[1] if '.' in host else host
    v4 = ':' not in addr
    net24 = addr.rsplit('.', 1)[0] + '.0/24' if v4 else '2001:db8::/32'
    choices = [
        lambda: wrap(host), lambda: wrap(addr), lambda: wrap(host) + ',' + wrap(addr),
        lambda: host, lambda: addr,                                   # plain names: the port fallback
        lambda: other_host, lambda: other_addr, lambda: wrap(other_host) + ',' + other_addr,
        lambda: '[%s]:%d' % (host, rng.choice([2222, 22222, 2200])),
        lambda: '*', lambda: '*.' + dom, lambda: '*' + dom, lambda: host[:2] + '*', lambda: host[:-1] + '?',
        lambda: '?' + host[1:], lambda: '*.example.com', lambda: '*.example.com,!foo.example.com',
        lambda: '*,!' + host, lambda: '*,!' + other_host, lambda: '!' + other_host + ',' + wrap(host),
        lambda: wrap(host) + ',!' + wrap(addr), lambda: wrap(host) + ',!' + addr, lambda: wrap(host) + ',!' + other_addr,
        lambda: wrap(addr) + ',!' + wrap(host),
        lambda: '[*]:%d' % (port or 2222), lambda: '[*.example.com]:*', lambda: '*example.co?',
        lambda: net24, lambda: ('10.0.0.0/8' if v4 else '2001:db8::/64') + ',!' + addr,
        lambda: '10.0.0.0/30', lambda: '*,!' + net24, lambda: addr.rsplit('.', 1)[0] + '.*' if v4 else '2001:*',
        lambda: hashed_field(wrap(host), rng.randbytes(20)), lambda: hashed_field(wrap(addr), rng.randbytes(20)),
        lambda: hashed_field(host, rng.randbytes(20)), lambda: hashed_field(other_host, rng.randbytes(20)),
        lambda: hashed_field(host.upper(), rng.randbytes(8)),
    ]
    return rng.choice(choices)()


def gen_known_hosts(rng, host, addr, port, focus=None):
    """Structured lines for one known_hosts text.  focus = (key indices the generator should talk about)."""
    keys = list(focus or []) + HOST_KEYS + CA_KEYS
    lines = []
    for _ in range(rng.randint(1, 7)):
        k = rng.random()
        if k < 0.08:
            lines.append({'kind': 'raw', 'text': rng.choice(['', '# comment', '   ', '#@revoked * ssh-ed25519 AAAA'])})
            continue
        if k < 0.13:
            # lines asyncssh skips: a key it cannot parse
            lines.append({'kind': 'raw', 'text': rng.choice([
                gen_field(rng, host, addr, port) + ' ssh-ed25519 AAAAnotbase64!!',
                '@revoked ' + gen_field(rng, host, addr, port) + ' ssh-unknown AAAAC3NzaC1lZDI1NTE5'])})
            continue
        key = rng.choice(keys[:max(3, len(focus or []))]) if rng.random() < 0.6 else rng.choice(keys)
        marker = rng.choice(['', '', '', 'cert-authority', 'cert-authority', 'revoked'])
        if key in CA_KEYS and rng.random() < 0.7:
            marker = rng.choice(['cert-authority', 'cert-authority', 'revoked'])
        lines.append({'kind': 'entry', 'marker': marker, 'field': gen_field(rng, host, addr, port), 'key': key,
                      'sep': rng.choice([' ', ' ', '\t', '  ']), 'indent': rng.choice(['', '', ' ']),
                      'comment': rng.choice(['', '', ' me@host', ' # x'])})
    return lines
