"""C05 engine: drives a REAL asyncssh server connection through generated USERAUTH histories.

  * the peer is MiniSSH (harness/minissh.py, independent of asyncssh), linked in memory through the
    public `tunnel=` hook (minissh_selftest.Link);
  * the application (SSHServer subclass) answers from a table (`world`); callbacks configured as
    asynchronous return awaitables that wait on futures the harness completes when the schedule says so;
  * reload_config() inside _finish_userauth hops through loop.run_in_executor(None, ...): a
    ThreadPoolExecutor subclass installed with the public loop.set_default_executor keeps those jobs
    until the schedule completes them;
  * requests are symbolic (who, which credential, how it is signed) and are turned into bytes once the
    session id is known, so a recorded case can be replayed on a new connection.

Also here: an independent Python evaluation of the specification `granted` (which users are entitled to be
authenticated given the packets delivered), with real Ed25519 verification from `cryptography`.
"""
import asyncio
import base64
import concurrent.futures
import fnmatch
import hashlib
import struct
import time

from cryptography.exceptions import InvalidSignature
from cryptography.hazmat.primitives.asymmetric import ed25519
from cryptography.hazmat.primitives.serialization import Encoding, NoEncryption, PrivateFormat, PublicFormat

from . import minissh as M
from .minissh_selftest import Link

CONN = b'ssh-connection'
SK_ALG, SK_APP = b'sk-ssh-ed25519@openssh.com', b'ssh:'
# the peer address the server connection sees: kind -> transport peername
PEERS = {'ipv4': ('10.0.0.1', 40000), 'ipv6': ('fd00::1', 40000, 0, 0), 'none': None}
PEER_ADDR = '10.0.0.1'            # what minissh_selftest._Transport reports as peername
PROBE_HOST, PROBE_PORT = 'h1', 80
SETTLE_ROUNDS = 40

# ---------------------------------------------------------------------------------------------------
# deterministic pool of keys and certificates


class Pool:
    KEYS = ['K1', 'K2', 'K3', 'K4', 'K5', 'CA1', 'CA2']

    def __init__(self):
        import asyncssh
        self.priv, self.akey, self.blob, self.kid = {}, {}, {}, {}
        for i, name in enumerate(self.KEYS):
            seed = hashlib.sha256(b'c05-key:' + name.encode()).digest()
            p = ed25519.Ed25519PrivateKey.from_private_bytes(seed)
            self.priv[name] = p
            raw = p.public_key().public_bytes(Encoding.Raw, PublicFormat.Raw)
            self.blob[name] = M.sstr('ssh-ed25519') + M.sstr(raw)
            self.kid[name] = i + 1
            self.akey[name] = asyncssh.import_private_key(
                p.private_bytes(Encoding.PEM, PrivateFormat.OpenSSH, NoEncryption()))
        # a software stand-in for a FIDO token: an Ed25519 key producing sk-ssh-ed25519@openssh.com signatures
        # with chosen flags (user presence or not)
        seed = hashlib.sha256(b'c05-key:SK1').digest()
        p = ed25519.Ed25519PrivateKey.from_private_bytes(seed)
        raw = p.public_key().public_bytes(Encoding.Raw, PublicFormat.Raw)
        self.KEYS = self.KEYS + ['SK1']
        self.priv['SK1'] = p
        self.blob['SK1'] = M.sstr(SK_ALG) + M.sstr(raw) + M.sstr(SK_APP)
        self.kid['SK1'] = len(self.KEYS)
        self.akey['SK1'] = asyncssh.import_public_key(SK_ALG + b' ' + base64.b64encode(self.blob['SK1']))
        self.kid_of_blob = {self.blob[n]: self.kid[n] for n in self.KEYS}
        now = int(time.time())
        self.now = now
        # name -> spec; certificates are made with asyncssh's own generator (trusted: C16 covers the codec)
        specs = {
            'C1': dict(key='K1', ca='CA1', principals=['alice']),
            'C2': dict(key='K2', ca='CA1', principals=[], force='cforced', pty=False),
            'C3': dict(key='K1', ca='CA1', principals=['bob', 'carol'], fwd=False),
            'C4': dict(key='K3', ca='CA2', principals=['alice']),
            'C5': dict(key='K1', ca='CA1', principals=['alice'], after=now - 7200, before=now - 3600),
            'C6': dict(key='K1', ca='CA1', principals=['alice'], host=True),
            'C7': dict(key='K2', ca='CA1', principals=['root', 'alice'], src=['10.9.9.0/24']),
            'C8': dict(key='K2', ca='CA1', principals=['alice'], src=['10.0.0.0/24'], force='srcforced'),
            'C9': dict(key='K4', ca='CA1', principals=['alice', 'bob'], force='c9forced', fwd=False),
            'C10': dict(key='K5', ca='CA1', principals=[], after=now + 3600, before=now + 7200),
            'C11': dict(key='K3', ca='CA1', principals=['root']),
            'CS1': dict(key='SK1', ca='CA1', principals=['alice']),
            'CS2': dict(key='SK1', ca='CA1', principals=['alice'], no_touch=True),
        }
        self.cert_spec = specs
        self.cert_blob = {}
        for name, sp in specs.items():
            ca, key = self.akey[sp['ca']], self.akey[sp['key']]
            after, before = sp.get('after', now - 86400), sp.get('before', now + 86400 * 365)
            if sp.get('host'):
                c = ca.generate_host_certificate(key, name, principals=sp['principals'], valid_after=after,
                                                 valid_before=before)
            else:
                c = ca.generate_user_certificate(key, name, principals=sp['principals'], valid_after=after,
                                                 valid_before=before, force_command=sp.get('force'),
                                                 source_address=sp.get('src'),
                                                 permit_port_forwarding=sp.get('fwd', True),
                                                 permit_pty=sp.get('pty', True),
                                                 touch_required=not sp.get('no_touch'))
            self.cert_blob[name] = c.public_data
        self.garbage = M.sstr('ssh-ed25519') + M.sstr(b'\x01' * 7)

    def cert_record(self, name):
        sp = self.cert_spec[name]
        src = sp.get('src')
        return dict(key=self.kid[sp['key']], ca=self.kid[sp['ca']], is_user=not sp.get('host'),
                    after=sp.get('after', self.now - 86400), before=sp.get('before', self.now + 86400 * 365),
                    principals=list(sp['principals']),
                    opts=dict(force=sp.get('force'), pty=sp.get('pty', True), fwd=sp.get('fwd', True),
                              no_touch=bool(sp.get('no_touch'))),
                    src=src)

    def blob_of(self, ref):
        if ref == 'garbage':
            return self.garbage
        if ref.startswith('cert:'):
            return self.cert_blob[ref[5:]]
        return self.blob[ref]


_POOL = None


def pool():
    global _POOL
    if _POOL is None:
        _POOL = Pool()
    return _POOL


# ---------------------------------------------------------------------------------------------------
# user names and other strings

SPECIAL_NAMES = {
    '!badutf8': b'\xff\xfe',
    '!ctrl': b'ro\x00ot',
    '!long': b'a' * 1024,
    '!wide': 'ｒoot'.encode('utf-8'),         # FULLWIDTH r: saslprep maps it to 'root'
    '!shy': 'al­ice'.encode('utf-8'),        # soft hyphen is mapped to nothing: 'alice'
}


def name_bytes(label):
    return SPECIAL_NAMES.get(label, label.encode('utf-8'))


def real_prep(b):
    """bytes.decode('utf-8') + saslprep as the implementation under test does it (trusted, unmodelled)."""
    from asyncssh.saslprep import saslprep, SASLPrepError
    try:
        return saslprep(b.decode('utf-8'))
    except (UnicodeDecodeError, SASLPrepError):
        return None


def is_utf8(b):
    try:
        b.decode('utf-8')
        return True
    except UnicodeDecodeError:
        return False


# ---------------------------------------------------------------------------------------------------
# authorized_keys entries:  dict(key='K1'|'CA1', ca=bool, command=str|None, no_pty=bool, no_fwd=bool,
#                                permitopen=[[host, port|None]], principals=[patternlist...], frm=None|'ok'|'bad')

FROM_TEXT = {'ok': '10.0.0.*,fd00::*', 'bad': '192.168.*'}


def from_result(frm, peer):
    """what a from= / source-address check against the peer address must give: absent / ok / bad / raise
    (no IP peer address: the check cannot be made, the restriction must not match)"""
    if not frm:
        return 'absent'
    if peer == 'none':
        return 'raise'
    return frm


def src_result(src, peer):
    if src is None:
        return 'absent'
    if peer == 'none':
        return 'raise'
    return 'ok' if (src == ['10.0.0.0/24'] and peer == 'ipv4') else 'bad'


def ak_line(e):
    p = pool()
    opts = []
    if e.get('ca'):
        opts.append('cert-authority')
    if e.get('command') is not None:
        opts.append('command="%s"' % e['command'])
    if e.get('no_pty'):
        opts.append('no-pty')
    if e.get('no_fwd'):
        opts.append('no-port-forwarding')
    for h, port in e.get('permitopen', []):
        opts.append('permitopen="%s:%s"' % (h, '*' if port is None else port))
    for pl in e.get('principals', []):
        opts.append('principals="%s"' % pl)
    if e.get('frm'):
        opts.append('from="%s"' % FROM_TEXT[e['frm']])
    if e.get('no_touch'):
        opts.append('no-touch-required')
    line = ('sk-ssh-ed25519@openssh.com ' if e['key'] == 'SK1' else 'ssh-ed25519 ') + \
        base64.b64encode(p.blob[e['key']]).decode()
    return (','.join(opts) + ' ' if opts else '') + line


def ak_object(entries):
    import asyncssh
    if entries is None:
        return None
    if not entries:
        return asyncssh.SSHAuthorizedKeys()
    return asyncssh.import_authorized_keys('\n'.join(ak_line(e) for e in entries) + '\n')


# ---------------------------------------------------------------------------------------------------
# the world:  JSON-able dict
#   needs_no_auth: [user...]            users for which begin_auth returns False
#   ak: {user: [entry...] | None}      what begin_auth(user) installs (absent = None)
#   ak_server: [entry...] | None       the listener's authorized_client_keys
#   pw: [[user, pw, 'T'|'C']]          validate_password (anything else False)
#   chpw: [[user, old, new, 'T'|'C']]
#   kbd_cfg: 'yes' | 'no' | 'ni'
#   kbd_chal: {user: 'T' | 'F' | n}    get_kbdint_challenge (absent = 'F')
#   kbd_resp: [[user, [responses], 'T' | n]]
#   cb_key: [[user, keyname]]  cb_ca: [[user, keyname]]
#   pw_supported, pk_cb_supported: bool
#   async: {begin, pw, key, ca, kbd: bool}
#   installs: {user: bool}             does begin_auth(user) call set_authorized_keys at all (absent = True)?
#                                      False = like examples/simple_keyed_server.py for a user without a key file

def default_world():
    return dict(needs_no_auth=['guest'], ak={}, ak_server=None, pw=[], chpw=[], kbd_cfg='no', kbd_chal={},
                kbd_resp=[], cb_key=[], cb_ca=[], pw_supported=True, pk_cb_supported=False, installs={}, peer='ipv4',
                **{'async': dict(begin=False, pw=False, key=False, ca=False, kbd=False)})


def w_pw(world, u, pw):
    for a, b, r in world['pw']:
        if a == u and b == pw:
            return r
    return 'F'


def w_chpw(world, u, old, new):
    for a, b, c, r in world['chpw']:
        if a == u and b == old and c == new:
            return r
    return 'F'


def w_kbd_resp(world, u, rs):
    for a, b, r in world['kbd_resp']:
        if a == u and list(b) == list(rs):
            return r
    return 'F'


def kbd_mode(world):
    if world['kbd_cfg'] == 'yes':
        return 'app'
    if world['kbd_cfg'] == 'ni' and world['pw_supported']:
        return 'pw'
    return 'off'


def key_src(world, U):
    """whose key set is in force after reload_config + begin_auth(U): U's if the application installs one,
    else the configured one (None)"""
    return U if world.get('installs', {}).get(U, True) else None


def w_ak(world, src):
    """src None = listener's keys, else the user whose keys are installed"""
    return world['ak_server'] if src is None else world['ak'].get(src)


# ---------------------------------------------------------------------------------------------------
# independent evaluation of the specification (Model/Auth.v `grants_via` / `granted`), with real signatures

class Rd:
    def __init__(self, b):
        self.b, self.i = b, 0

    def u32(self):
        if self.i + 4 > len(self.b):
            raise ValueError
        v = struct.unpack('>I', self.b[self.i:self.i + 4])[0]
        self.i += 4
        return v

    def string(self):
        n = self.u32()
        if self.i + n > len(self.b):
            raise ValueError
        v = self.b[self.i:self.i + n]
        self.i += n
        return v

    def boolean(self):
        if self.i >= len(self.b):
            raise ValueError
        v = self.b[self.i] != 0
        self.i += 1
        return v

    def end(self):
        if self.i != len(self.b):
            raise ValueError


def real_verify(keyname, data, sigblob):
    """cryptographic validity only (the user-presence decision is sig_up + the touch table)"""
    try:
        r = Rd(sigblob)
        alg, sig = r.string(), r.string()
        if keyname == 'SK1':
            if alg != SK_ALG or r.i + 5 != len(sigblob):
                return False
            tail = sigblob[r.i:]
            pool().priv[keyname].public_key().verify(
                sig, hashlib.sha256(SK_APP).digest() + tail + hashlib.sha256(data).digest())
            return True
        r.end()
        if alg != b'ssh-ed25519':
            return False
        pool().priv[keyname].public_key().verify(sig, data)
        return True
    except (ValueError, InvalidSignature):
        return False


def sig_up(sigblob):
    try:
        r = Rd(sigblob)
        r.string(), r.string()
        return r.i < len(sigblob) and bool(sigblob[r.i] & 1)
    except ValueError:
        return False


def sk_accepts(keyname, touch, sigblob):
    return keyname != 'SK1' or not touch or sig_up(sigblob)


def wpl_match(patlist, value):
    pos = neg = False
    for p in patlist.split(','):
        n = p.startswith('!')
        if n:
            p = p[1:]
        esc = p.replace('[', '[[]')          # as pattern.py: brackets are literal
        if fnmatch.fnmatchcase(value, esc):
            if n:
                neg = True
            else:
                pos = True
    return pos and not neg


RAISE = 'raise'


def spec_ak_validate(entries, keyname, cert_principals, ca, peer='ipv4'):
    """the matching entry, None, or RAISE (a from= restriction that cannot be checked: never a match)"""
    for e in entries or []:
        if bool(e.get('ca')) != ca or e['key'] != keyname:
            continue
        fr = from_result(e.get('frm'), peer)
        if fr == 'raise':
            return RAISE
        if fr == 'bad':
            continue
        if cert_principals is not None and not all(any(wpl_match(pl, pr) for pr in cert_principals)
                                                   for pl in e.get('principals', [])):
            continue
        return e
    return None


def kopts_of_entry(e):
    if e is None:
        return dict(command=None, no_pty=False, no_fwd=False, permitopen=[], principals=[], no_touch=False)
    return dict(command=e.get('command'), no_pty=bool(e.get('no_pty')), no_fwd=bool(e.get('no_fwd')),
                permitopen=[list(x) for x in e.get('permitopen', [])], principals=list(e.get('principals', [])),
                no_touch=bool(e.get('no_touch')))


KEYNAME_OF_KID = None


def keyname_of_blob(blob):
    p = pool()
    for n in p.KEYS:
        if p.blob[n] == blob:
            return n
    return None


def certname_of_blob(blob):
    p = pool()
    for n, b in p.cert_blob.items():
        if b == blob:
            return n
    return None


def spec_eval_request(world, sid, src, U, full):
    """Evaluate one request payload for user U against the keys of `src`.  Returns None (no grant) or the
    restrictions (kopts dict, copts dict|None) that come with the grant.  Raises ValueError when malformed."""
    r = Rd(full)
    if full[:1] != b'\x32':
        raise ValueError
    r.i = 1
    ub, svc, m = r.string(), r.string(), r.string()
    if m == b'password':
        if not world['pw_supported']:
            return None
        chg = r.boolean()
        pw = r.string()
        new = r.string() if chg else b''
        r.end()
        p, n = real_prep(pw), real_prep(new)
        if p is None or n is None:
            return None
        res = w_chpw(world, U, p, n) if chg else w_pw(world, U, p)
        return (kopts_of_entry(None), None) if res == 'T' else None
    if m == b'publickey':
        akl = w_ak(world, src)
        if akl is None and not world['pk_cb_supported']:
            return None
        sigp = r.boolean()
        r.string()
        kb = r.string()
        msg = full[:r.i]
        if not sigp:
            return None
        sig = r.string()
        r.end()
        kn, cn = keyname_of_blob(kb), certname_of_blob(kb)
        if kn is not None:
            e = spec_ak_validate(akl, kn, None, False, world.get('peer', 'ipv4'))
            if e == RAISE or (e is None and [U, kn] not in [list(x) for x in world['cb_key']]):
                return None
            ko = kopts_of_entry(e)
            if not real_verify(kn, M.sstr(sid) + msg, sig) or not sk_accepts(kn, not ko['no_touch'], sig):
                return None
            return (ko, None)
        if cn is not None:
            c = pool().cert_record(cn)
            caname = pool().cert_spec[cn]['ca']
            e = spec_ak_validate(akl, caname, c['principals'], True, world.get('peer', 'ipv4'))
            if e == RAISE or (e is None and [U, caname] not in [list(x) for x in world['cb_ca']]):
                return None
            ko = kopts_of_entry(e)
            if not c['is_user'] or not (c['after'] <= pool().now < c['before']):
                return None
            if not ko['principals'] and c['principals'] and U not in c['principals']:
                return None
            if src_result(c['src'], world.get('peer', 'ipv4')) in ('bad', 'raise'):
                return None
            ckn = pool().cert_spec[cn]['key']
            if not real_verify(ckn, M.sstr(sid) + msg, sig) or \
                    not sk_accepts(ckn, not (ko['no_touch'] and c['opts']['no_touch']), sig):
                return None
            return (ko, dict(c['opts']))
        return None
    if m == b'keyboard-interactive':
        if kbd_mode(world) == 'off':
            return None
        lang, sub = r.string(), r.string()
        r.end()
        if any(c >= 128 for c in lang) or not is_utf8(sub):
            return None
        if kbd_mode(world) == 'app' and world['kbd_chal'].get(U, 'F') == 'T':
            return (kopts_of_entry(None), None)
        return None
    return None


def spec_kbd_resp_grants(world, U, p):
    if p[:1] != b'\x3d':
        return False
    try:
        r = Rd(p)
        r.i = 1
        n = r.u32()
        rs = [r.string() for _ in range(n)]
        r.end()
    except ValueError:
        return False
    if not all(is_utf8(x) for x in rs):
        return False
    rs = [x.decode('utf-8') for x in rs]
    mode = kbd_mode(world)
    if mode == 'pw':
        return len(rs) == 1 and w_pw(world, U, rs[0]) == 'T'
    if mode == 'app':
        return w_kbd_resp(world, U, rs) == 'T'
    return False


def spec_grants_via(world, sid, U, D, p):
    """list of restrictions (kopts, copts|None) with which the delivered request p entitles U"""
    try:
        r = Rd(p)
        if p[:1] != b'\x32':
            return []
        r.i = 1
        ub, svc, m = r.string(), r.string(), r.string()
    except ValueError:
        return []
    if len(ub) >= 1024 or svc != CONN or real_prep(ub) != U or real_prep(ub) is None:
        return []
    out = []
    if U in world['needs_no_auth']:
        out.append((kopts_of_entry(None), None))
    srcs = [key_src(world, U)]
    if U == '' and None not in srcs:
        srcs.append(None)
    for src in srcs:
        try:
            g = spec_eval_request(world, sid, src, U, p)
        except ValueError:
            g = None
        if g is not None:
            out.append(g)
        if m == b'keyboard-interactive' and kbd_mode(world) != 'off' and \
                any(spec_kbd_resp_grants(world, U, q) for q in D):
            out.append((kopts_of_entry(None), None))
    return out


def spec_granted(world, sid, U, D):
    return any(spec_grants_via(world, sid, U, D, p) for p in D)


def enforce(ko, co):
    """(forced command, pty allowed, forwarding to the probe target allowed) under restrictions (ko, co)"""
    forced = (co or {}).get('force') or None
    if forced is None:
        forced = ko['command']
    pty = (not ko['no_pty']) and (co['pty'] if co is not None else True)
    fwd = (not ko['no_fwd']) and (co['fwd'] if co is not None else True)
    if ko['permitopen']:
        fwd = fwd and ([PROBE_HOST, PROBE_PORT] in ko['permitopen'] or [PROBE_HOST, None] in ko['permitopen'])
    starts = tuple(('exec', forced) if forced is not None else r for r in PROBE_STARTS)
    return (forced, pty, fwd, starts)


# what the four probe channels ask for
PROBE_STARTS = (('exec', 'probe'), ('shell',), ('subsys', 'other'), ('subsys', 'sftp'))


# ---------------------------------------------------------------------------------------------------
# symbolic requests -> payload bytes

class Tables:
    """what the Coq world needs to know about the byte strings that occur in a case"""

    def __init__(self):
        self.prep, self.badutf8, self.blobs, self.sigs = {}, set(), {}, []

    def text(self, b):
        r = real_prep(b)
        ident = None
        try:
            ident = b.decode('ascii')
        except UnicodeDecodeError:
            pass
        if r is None or r != ident:
            self.prep[b] = r
        if not is_utf8(b):
            self.badutf8.add(b)
        return b


def build_request(spec, sid, tb):
    p = pool()
    ub = tb.text(name_bytes(spec['user']))
    svc = spec.get('service', 'ssh-connection').encode()
    m = spec['method'].encode()
    head = M.sstr(ub) + M.sstr(svc) + M.sstr(m)
    meth = spec['method']
    if meth == 'password':
        pw = tb.text(name_bytes(spec['pw']))
        body = (b'\1' if spec.get('new') is not None else b'\0') + M.sstr(pw)
        if spec.get('new') is not None:
            body += M.sstr(tb.text(name_bytes(spec['new'])))
    elif meth == 'publickey':
        kb = p.blob_of(spec['key'])
        if spec['key'].startswith('cert:'):
            tb.blobs[kb] = ('cert', spec['key'][5:])
        elif spec['key'] != 'garbage':
            tb.blobs[kb] = ('key', spec['key'])
        base_key = p.cert_spec[spec['key'][5:]]['key'] if spec['key'].startswith('cert:') else spec['key']
        if base_key == 'SK1':
            alg = b'sk-ssh-ed25519-cert-v01@openssh.com' if spec['key'].startswith('cert:') else SK_ALG
        else:
            alg = b'ssh-ed25519-cert-v01@openssh.com' if spec['key'].startswith('cert:') else b'ssh-ed25519'
        body = (b'\1' if spec.get('signed') else b'\0') + M.sstr(alg) + M.sstr(kb)
        if spec.get('signed'):
            sg = spec.get('sig', {})
            by = sg.get('by') or (p.cert_spec[spec['key'][5:]]['key'] if spec['key'].startswith('cert:') else
                                  (spec['key'] if spec['key'] != 'garbage' else 'K1'))
            s_sid = sid if sg.get('sid', 'ok') == 'ok' else hashlib.sha256(b'other' + sid).digest()
            s_user = M.sstr(tb.text(name_bytes(sg['user']))) if sg.get('user') is not None else M.sstr(ub)
            s_svc = M.sstr(sg['service'].encode()) if sg.get('service') else M.sstr(svc)
            data = M.sstr(s_sid) + b'\x32' + s_user + s_svc + M.sstr(m) + body
            if by == 'SK1':
                # the token signs sha256(application) || flags || counter || sha256(data); flag bit 0 = user present
                tail = bytes([1 if spec.get('up', True) else 0]) + M.u32(7)
                raw = p.priv[by].sign(hashlib.sha256(SK_APP).digest() + tail + hashlib.sha256(data).digest())
                if sg.get('flip'):
                    raw = bytes([raw[0] ^ 1]) + raw[1:]
                blob = M.sstr(SK_ALG) + M.sstr(raw) + tail
                if not sg.get('flip'):
                    tb.sigs.append((p.kid[by], data, blob))
                body += M.sstr(blob)
                full = b'\x32' + head + body
                if spec.get('trunc'):
                    full = full[:-spec['trunc']]
                return full
            raw = p.priv[by].sign(data)
            if sg.get('flip'):
                raw = bytes([raw[0] ^ 1]) + raw[1:]
            elif not sg.get('empty'):
                tb.sigs.append((p.kid[by], data, M.sstr('ssh-ed25519') + M.sstr(raw)))
            if sg.get('empty') == 'string':
                body += M.sstr(b'')                         # zero-length signature string
            elif sg.get('empty'):
                body += M.sstr(M.sstr('ssh-ed25519') + M.sstr(b''))     # well-formed blob, zero-length signature
            else:
                body += M.sstr(M.sstr('ssh-ed25519') + M.sstr(raw))
    elif meth == 'keyboard-interactive':
        body = M.sstr(spec.get('lang', '').encode('latin-1')) + M.sstr(tb.text(spec.get('sub', '').encode('latin-1')))
    else:
        body = bytes.fromhex(spec.get('extra', ''))
    full = b'\x32' + head + body
    if spec.get('trunc'):
        full = full[:-spec['trunc']]
    return full


def build_msg(spec, sid, tb):
    k = spec['kind']
    if k == 'info_response':
        rs = [tb.text(name_bytes(x)) for x in spec['responses']]
        n = spec.get('count', len(rs))
        return b'\x3d' + M.u32(n) + b''.join(M.sstr(x) for x in rs) + bytes.fromhex(spec.get('extra', ''))
    if k == 'ignore':
        return b'\x02' + M.sstr(b'xyz')
    if k == 'bad_ignore':
        return b'\x02' + b'\x00\x00'
    if k == 'junk60':
        return bytes([spec.get('type', 60)]) + M.sstr(b'junk')
    if k == 'chan_open':
        return M.channel_open_session(spec.get('chan', 1), 1 << 20, 32768)
    if k == 'global':
        return bytes([80]) + M.sstr('probe@verif') + b'\1'
    if k == 'service_request':
        return M.client_service_request('ssh-userauth')
    if k == 'raw':
        return bytes.fromhex(spec['hex'])
    raise ValueError(k)


def build_payload(op, sid, tb):
    if op[0] == 'req':
        return build_request(op[1], sid, tb)
    return build_msg(op[1], sid, tb)


# ---------------------------------------------------------------------------------------------------
# deterministic executor

class DetExecutor(concurrent.futures.ThreadPoolExecutor):
    """Default executor of the harness loop.  manual=False: run the job inline at submit().  manual=True:
    keep it; `sink(run)` is told, where run() executes the job and completes its future."""

    def __init__(self):
        super().__init__(max_workers=1)
        self.manual = False
        self.sink = None

    def submit(self, fn, *a, **k):
        f = concurrent.futures.Future()

        def run():
            if f.done():
                return
            if not f.set_running_or_notify_cancel():
                return
            try:
                f.set_result(fn(*a, **k))
            except BaseException as e:          # noqa
                f.set_exception(e)
        if self.manual and self.sink is not None:
            self.sink(f, run)
        else:
            run()
        return f


_EXEC = {}


def executor():
    loop = asyncio.get_running_loop()
    ex = _EXEC.get(id(loop))
    if ex is None:
        ex = DetExecutor()
        loop.set_default_executor(ex)
        _EXEC.clear()
        _EXEC[id(loop)] = ex
    return ex


# ---------------------------------------------------------------------------------------------------
# the application

class Runtime:
    def __init__(self, world):
        self.world = world
        self.conn = None
        self.log = []               # ('begin', u) ('completed', u) ('call', name, args, result) ('exec', cmd) ...
        self.next_fid = 0
        self.pending = {}           # fid -> ('fut', asyncio future) | ('job', concurrent future, run)
        self.kinds = {}             # fid -> 'reload' | 'begin' | 'pw' | 'key' | 'ca' | 'kbd'
        self.ak_objs = {u: ak_object(es) for u, es in world['ak'].items()}

    def new_fid(self, kind, obj):
        fid = self.next_fid
        self.next_fid += 1
        self.pending[fid] = obj
        self.kinds[fid] = kind
        return fid

    def live(self):
        """fids that can still be completed"""
        out = []
        for fid, obj in self.pending.items():
            if obj[0] == 'fut' and not obj[1].done():
                out.append(fid)
            elif obj[0] == 'job' and not obj[1].done():
                out.append(fid)
        return out

    def answer(self, kind, value):
        """value or exception, now or later depending on the world's async flag for this callback"""
        if not self.world['async'][kind]:
            if isinstance(value, BaseException):
                raise value
            return value
        fut = asyncio.get_running_loop().create_future()
        self.new_fid(kind, ('fut', fut))

        async def wait():
            await fut
            if isinstance(value, BaseException):
                raise value
            return value
        return wait()

    def job_sink(self, cf, run):
        self.new_fid('reload', ('job', cf, run))


def make_server_class(rt):
    import asyncssh
    world = rt.world
    p = pool()

    class ProbeSession(asyncssh.SSHServerSession):
        def connection_made(self, chan):
            self.chan = chan

        def pty_requested(self, *a):
            rt.log.append(('pty',))
            return True

        def exec_requested(self, command):
            rt.log.append(('exec', command))
            return True

        def shell_requested(self):
            rt.log.append(('shell',))
            return True

        def subsystem_requested(self, subsystem):
            rt.log.append(('subsys', subsystem))
            return True

    class Srv(asyncssh.SSHServer):
        def connection_made(self, conn):
            rt.conn = conn

        def connection_lost(self, exc):
            rt.log.append(('lost', type(exc).__name__ if exc else None))

        def begin_auth(self, username):
            rt.log.append(('begin', username))
            if world.get('installs', {}).get(username, True):
                rt.conn.set_authorized_keys(rt.ak_objs.get(username))
            return rt.answer('begin', username not in world['needs_no_auth'])

        def auth_completed(self):
            rt.log.append(('completed', rt.conn.get_extra_info('username')))

        def password_auth_supported(self):
            return world['pw_supported']

        def validate_password(self, username, password):
            r = w_pw(world, username, password)
            rt.log.append(('call', 'validate_password', username, password, r))
            return rt.answer('pw', asyncssh.PasswordChangeRequired('CHANGE') if r == 'C' else r == 'T')

        def change_password(self, username, old, new):
            r = w_chpw(world, username, old, new)
            rt.log.append(('call', 'change_password', username, old, new, r))
            return rt.answer('pw', asyncssh.PasswordChangeRequired('CHANGE') if r == 'C' else r == 'T')

        def kbdint_auth_supported(self):
            return {'yes': True, 'no': False, 'ni': NotImplemented}[world['kbd_cfg']]

        def get_kbdint_challenge(self, username, lang, submethods):
            r = world['kbd_chal'].get(username, 'F')
            rt.log.append(('call', 'kbd_chal', username, r))
            v = True if r == 'T' else False if r == 'F' else ('n', 'i', '', [('p%d' % i, False) for i in range(r)])
            return rt.answer('kbd', v)

        def validate_kbdint_response(self, username, responses):
            r = w_kbd_resp(world, username, list(responses))
            rt.log.append(('call', 'kbd_resp', username, list(responses), r))
            v = True if r == 'T' else False if r == 'F' else ('n', 'i', '', [('p%d' % i, False) for i in range(r)])
            return rt.answer('kbd', v)

        def public_key_auth_supported(self):
            return world['pk_cb_supported']

        def validate_public_key(self, username, key):
            kn = keyname_of_blob(key.public_data)
            r = [username, kn] in [list(x) for x in world['cb_key']]
            rt.log.append(('call', 'validate_public_key', username, kn, r))
            return rt.answer('key', r)

        def validate_ca_key(self, username, key):
            kn = keyname_of_blob(key.public_data)
            r = [username, kn] in [list(x) for x in world['cb_ca']]
            rt.log.append(('call', 'validate_ca_key', username, kn, r))
            return rt.answer('ca', r)

        def session_requested(self):
            rt.log.append(('session',))
            return ProbeSession()

        def connection_requested(self, dest_host, dest_port, orig_host, orig_port):
            rt.log.append(('fwd', dest_host, dest_port))
            return False

    return Srv


# ---------------------------------------------------------------------------------------------------
# running one case

class PeerTransport(type(Link(M.MiniSSH('client')).transport)):
    """the Link transport with a chosen peername: an IPv4 / IPv6 address, or none at all (what a UNIX-domain
    socket or a tunnel without address reports)"""

    def __init__(self, link, peername):
        super().__init__(link)
        self._peername = peername

    def get_extra_info(self, name, default=None):
        if name == 'peername':
            return self._peername if self._peername is not None else default
        return super().get_extra_info(name, default)


class CaseResult:
    pass


def classify_replies(msgs):
    """server->client messages (type, payload) -> abstract replies, dropping transport noise"""
    out = []
    for t, pl in msgs:
        if t == 51:
            r = M.Reader(pl, 1)
            names = r.get_namelist()
            out.append(('F', b'publickey' in names, b'keyboard-interactive' in names, b'password' in names))
        elif t == 52:
            out.append(('S',))
        elif t == 60:
            out.append(classify60(pl))
        elif t == 3:
            out.append(('U',))
        elif t in (91, 92):
            out.append(('V', 90))
        elif t in (81, 82):
            out.append(('V', 80))
    return out


def classify60(pl):
    try:
        r = M.Reader(pl, 1)
        a, b = r.get_string(), r.get_string()
        if r.pos == len(pl):
            if a == b'CHANGE':
                return ('C',)
            return ('K',)
        r.get_string()
        n = r.get_u32()
        return ('I', n)
    except M.MiniSSHError:
        return ('?',)


async def settle():
    for _ in range(SETTLE_ROUNDS):
        await asyncio.sleep(0)


async def run_case(world, ops=None, chooser=None, plan=None, probe=True):
    """Execute a case against the real server.
    Either `ops` (a recorded op list: ('req'|'msg', spec) / ('complete', fid) / ('settle',)) is replayed, or
    `plan` (list of ('req'|'msg', spec)) is executed with scheduling decisions taken by `chooser`
    (a random.Random) - the op list actually executed is returned in result.ops."""
    import asyncssh
    ex = executor()
    ex.manual = False
    rt = Runtime(world)
    seed = hashlib.sha256(repr(sorted(world.items(), key=repr)).encode()).digest()
    ctr = [0]

    def det_rng(n):
        ctr[0] += 1
        out = b''
        while len(out) < n:
            out += hashlib.sha256(seed + struct.pack('>II', ctr[0], len(out))).digest()
        return out[:n]
    mini = M.MiniSSH('client', kex_algs=[b'curve25519-sha256'], enc_algs=[b'aes128-ctr'],
                     mac_algs=[b'hmac-sha2-256'], rng=det_rng)
    link = Link(mini)
    link.transport = PeerTransport(link, PEERS[world.get('peer', 'ipv4')])
    acc = await asyncssh.listen('mem', 22, tunnel=link, server_factory=make_server_class(rt),
                                server_host_keys=[pool().akey['CA2']], encoding=None,
                                authorized_client_keys=ak_object(world['ak_server']))
    link.attach(link.server_factory(PEER_ADDR, 40000))
    res = CaseResult()
    res.rt = rt
    try:
        await link.until(lambda: mini.kex_count == 1, 'initial key exchange')
        mini.send(M.client_service_request('ssh-userauth'))
        await link.expect(M.MSG_SERVICE_ACCEPT, 'SERVICE_ACCEPT')
        await settle()
        link.pump()
        start = len(mini.inbox)
        sid = mini.session_id
        tb = Tables()
        ex.sink = rt.job_sink
        ex.manual = True
        done_ops, payloads, snaps = [], [], []
        quiescent = True
        state = {'dead': False}

        def replies():
            return classify_replies(mini.inbox[start:])

        def ncompleted():
            return sum(1 for e in rt.log if e[0] == 'completed')

        def check_dead(after_settle):
            if mini.peer_disconnect is not None or (after_settle and link.closed):
                state['dead'] = True

        async def do(op):
            nonlocal quiescent
            if op[0] in ('req', 'msg'):
                pl = build_payload(op, sid, tb)
                payloads.append(pl)
                mini.send(pl)
                link.pump()
                quiescent = False
                check_dead(False)
            elif op[0] == 'complete':
                obj = rt.pending.get(op[1])
                if obj is not None and obj[0] == 'fut':
                    if not obj[1].done():
                        obj[1].set_result(None)
                    quiescent = False
                elif obj is not None:
                    if not quiescent:           # the executor hop needs a quiescent loop (see module docstring)
                        await settle()
                        link.pump()
                        quiescent = True
                        check_dead(True)
                        done_ops.append(('settle',))
                        snaps.append((len(replies()), ncompleted(), state['dead']))
                        if state['dead']:
                            return
                    if not obj[1].done():
                        obj[2]()
                        await asyncio.sleep(0)        # the wrap_future hop: the asyncio future is done now
                    quiescent = False
                check_dead(False)
            elif op[0] == 'turn':
                await asyncio.sleep(0)          # exactly one iteration of the event loop
                link.pump()
                quiescent = False
                check_dead(True)
            else:
                await settle()
                link.pump()
                quiescent = True
                check_dead(True)
            done_ops.append(op)
            if op[0] == 'settle':
                snaps.append((len(replies()), ncompleted(), state['dead']))

        if ops is not None:
            for op in ops:
                if state['dead']:
                    break
                await do(tuple(op) if not isinstance(op, tuple) else op)
        else:
            todo = list(plan)
            while todo and not state['dead']:
                live = rt.live()
                x = chooser.random()
                if live and x < 0.30:
                    await do(('complete', chooser.choice(live)))
                elif x < 0.45 and not quiescent:
                    await do(('settle',))
                elif x < 0.60 and not quiescent:
                    await do(('turn',))
                else:
                    await do(todo.pop(0))
                    y = chooser.random()
                    if y < 0.45:
                        await do(('settle',))
                    elif y < 0.65:
                        await do(('turn',))
            for _ in range(40):
                if state['dead']:
                    break
                await do(('settle',))
                live = rt.live()
                if not live or state['dead']:
                    break
                await do(('complete', chooser.choice(live)))
        if not state['dead'] and (not done_ops or done_ops[-1][0] != 'settle'):
            await do(('settle',))
        res.ops, res.payloads, res.snaps, res.sid, res.tables = done_ops, payloads, snaps, sid, tb
        res.dead = state['dead']
        res.replies = replies()
        res.completed_as = [e[1] for e in rt.log if e[0] == 'completed']
        res.begun = [e[1] for e in rt.log if e[0] == 'begin']
        res.enforced = None
        ex.manual = False
        if probe and res.completed_as and not res.dead:
            res.enforced = await probe_restrictions(mini, link, rt)
    finally:
        ex.manual = False
        ex.sink = None
        for obj in rt.pending.values():
            if obj[0] == 'fut' and not obj[1].done():
                obj[1].cancel()
            elif obj[0] == 'job' and not obj[1].done():
                obj[1].cancel()
        if link.conn is not None:
            link.conn.abort()
        acc.close()
        await asyncio.sleep(0)
        await asyncio.sleep(0)
    return res


async def probe_restrictions(mini, link, rt):
    """after authentication: session + pty-req + exec, and a direct-tcpip open; which restrictions bite?"""
    mark = len(rt.log)
    base = len(mini.inbox)

    def find(types, frm):
        for i in range(frm, len(mini.inbox)):
            t, pl = mini.inbox[i]
            if t in types:
                return i, t, pl
        return None
    mini.send(M._msg(M.MSG_CHANNEL_OPEN, M.sstr('session'), M.u32(41), M.u32(1 << 20), M.u32(32768)))
    got = []
    await link.until(lambda: got.append(find((91, 92, 1), base)) or got[-1] is not None or link.closed, 'session open')
    hit = got[-1]
    if hit is None or hit[1] != 91:
        return ('no-session',)
    r = M.Reader(hit[2], 1)
    r.get_u32()
    chan = r.get_u32()
    pos = hit[0] + 1
    mini.send(M._msg(M.MSG_CHANNEL_REQUEST, M.u32(chan), M.sstr('pty-req'), b'\1', M.sstr('xterm'), M.u32(80), M.u32(24),
                     M.u32(0), M.u32(0), M.sstr(b'')))
    got = []
    await link.until(lambda: got.append(find((99, 100, 1), pos)) or got[-1] is not None or link.closed, 'pty-req reply')
    pty = got[-1] is not None and got[-1][1] == 99
    pos = (got[-1][0] + 1) if got[-1] else pos
    mini.send(M._msg(M.MSG_CHANNEL_REQUEST, M.u32(chan), M.sstr('exec'), b'\1', M.sstr('probe')))
    got = []
    await link.until(lambda: got.append(find((99, 100, 1), pos)) or got[-1] is not None or link.closed, 'exec reply')
    cmds = [e[1] for e in rt.log[mark:] if e[0] == 'exec']
    forced = None if not cmds or cmds[0] == 'probe' else cmds[0]
    pos = (got[-1][0] + 1) if got[-1] else pos
    mini.send(M._msg(M.MSG_CHANNEL_OPEN, M.sstr('direct-tcpip'), M.u32(42), M.u32(1 << 20), M.u32(32768),
                     M.sstr(PROBE_HOST), M.u32(PROBE_PORT), M.sstr('10.0.0.1'), M.u32(40000)))
    got = []
    await link.until(lambda: got.append(find((91, 92, 1), pos)) or got[-1] is not None or link.closed, 'direct-tcpip reply')
    fwd = any(e[0] == 'fwd' for e in rt.log[mark:])
    pos = (got[-1][0] + 1) if got[-1] else pos
    # every way a session can be started, each on a channel of its own: what is the session object told?
    starts = [('exec', cmds[0]) if cmds else ('none',)]
    for k, req in enumerate(PROBE_STARTS[1:]):
        mini.send(M._msg(M.MSG_CHANNEL_OPEN, M.sstr('session'), M.u32(50 + k), M.u32(1 << 20), M.u32(32768)))
        got = []
        await link.until(lambda: got.append(find((91, 92, 1), pos)) or got[-1] is not None or link.closed, 'session open')
        hit = got[-1]
        if hit is None or hit[1] != 91:
            starts.append(('none',))
            continue
        r = M.Reader(hit[2], 1)
        r.get_u32()
        ch = r.get_u32()
        pos = hit[0] + 1
        m2 = len(rt.log)
        if req[0] == 'shell':
            mini.send(M._msg(M.MSG_CHANNEL_REQUEST, M.u32(ch), M.sstr('shell'), b'\1'))
        else:
            mini.send(M._msg(M.MSG_CHANNEL_REQUEST, M.u32(ch), M.sstr('subsystem'), b'\1', M.sstr(req[1])))
        got = []
        await link.until(lambda: got.append(find((99, 100, 1), pos)) or got[-1] is not None or link.closed, 'start reply')
        pos = (got[-1][0] + 1) if got[-1] else pos
        ev = [e for e in rt.log[m2:] if e[0] in ('exec', 'shell', 'subsys')]
        starts.append(tuple(ev[0]) if ev else ('none',))
    return (forced, pty, fwd, tuple(starts))


# ---------------------------------------------------------------------------------------------------
# Coq literals

def hx(b):
    return '(hx "%s")' % bytes(b).hex()


def ctext(s):
    """Python str -> list of code points"""
    if all(ord(c) < 256 for c in s):
        return hx(bytes(ord(c) for c in s))
    return '[' + ';'.join(str(ord(c)) for c in s) + ']'


def cbool(b):
    return 'true' if b else 'false'


def copt(x, f):
    return 'None' if x is None else '(Some %s)' % f(x)


def clist(xs, f):
    return '[' + '; '.join(f(x) for x in xs) + ']'


def c_kopts(e):
    ko = kopts_of_entry(e)
    return '(mkKo %s %s %s %s %s %s)' % (
        copt(ko['command'], ctext), cbool(ko['no_pty']), cbool(ko['no_fwd']),
        clist(ko['permitopen'], lambda hp: '(%s, %s)' % (ctext(hp[0]), copt(hp[1], str))),
        clist(ko['principals'], ctext), cbool(ko['no_touch']))


C_FROM = {'absent': 'FrAbsent', 'ok': 'FrOk', 'bad': 'FrBad', 'raise': 'FrRaise'}


def c_entry(e, peer='ipv4'):
    return '(mkAe %d %s %s %s)' % (pool().kid[e['key']], cbool(bool(e.get('ca'))), c_kopts(e),
                                   C_FROM[from_result(e.get('frm'), peer)])


def c_cert(name, peer='ipv4'):
    c = pool().cert_record(name)
    return '(mkCert %d %d %s %d %d %s (mkCo %s %s %s %s) %s)' % (
        c['key'], c['ca'], cbool(c['is_user']), c['after'], c['before'], clist(c['principals'], ctext),
        copt(c['opts']['force'], ctext), cbool(c['opts']['pty']), cbool(c['opts']['fwd']), cbool(c['opts']['no_touch']),
        C_FROM[src_result(c['src'], peer)])


def c_pwres(r):
    return {'T': 'PTrue', 'F': 'PFalse', 'C': 'PChange'}[r]


def c_kbdres(r):
    return 'KTrue' if r == 'T' else 'KFalse' if r == 'F' else '(KChal %d)' % r


def c_tables(world, tb):
    p = pool()
    peer = world.get('peer', 'ipv4')
    aks = [(None, world['ak_server'])] + [(u, es) for u, es in sorted(world['ak'].items())]
    blobs = []
    for b, (kind, name) in sorted(tb.blobs.items()):
        blobs.append('(%s, %s)' % (hx(b), 'BKey %d' % p.kid[name] if kind == 'key' else 'BCert ' + c_cert(name, peer)))
    a = world['async']
    noinst = sorted(u for u, v in world.get('installs', {}).items() if not v)
    return ('(mkT %s %s %s %s %s %s %s %s %s %s %s %s %d %s %s %s (%s, %s, %s, %s, %s) %s [%d])' % (
        clist(sorted(tb.prep.items()), lambda kv: '(%s, %s)' % (hx(kv[0]), copt(kv[1], ctext))),
        clist(sorted(tb.badutf8), hx),
        clist(world['needs_no_auth'], ctext),
        clist([x for x in aks if x[1] is not None], lambda ue: '(%s, %s)' % (copt(ue[0], ctext), clist(ue[1], lambda e: c_entry(e, peer)))),
        clist(world['pw'], lambda e: '(%s, %s, %s)' % (ctext(e[0]), ctext(e[1]), c_pwres(e[2]))),
        clist(world['chpw'], lambda e: '(%s, %s, %s, %s)' % (ctext(e[0]), ctext(e[1]), ctext(e[2]), c_pwres(e[3]))),
        clist(sorted(world['kbd_chal'].items()), lambda kv: '(%s, %s)' % (ctext(kv[0]), c_kbdres(kv[1]))),
        clist(world['kbd_resp'], lambda e: '(%s, %s, %s)' % (ctext(e[0]), clist(e[1], ctext), c_kbdres(e[2]))),
        clist(world['cb_key'], lambda e: '(%s, %d)' % (ctext(e[0]), p.kid[e[1]])),
        clist(world['cb_ca'], lambda e: '(%s, %d)' % (ctext(e[0]), p.kid[e[1]])),
        clist(blobs, str),
        clist(tb.sigs, lambda e: '(%d, %s, %s)' % (e[0], hx(e[1]), hx(e[2]))),
        p.now, cbool(world['pw_supported']), {'yes': 'TYes', 'no': 'TNo', 'ni': 'TNotImpl'}[world['kbd_cfg']],
        cbool(world['pk_cb_supported']),
        cbool(a['begin']), cbool(a['pw']), cbool(a['key']), cbool(a['ca']), cbool(a['kbd']), clist(noinst, ctext), p.kid['SK1']))


def c_reply(r):
    k = r[0]
    if k == 'F':
        return '(RFailure %s %s %s)' % (cbool(r[1]), cbool(r[2]), cbool(r[3]))
    if k == 'I':
        return '(RInfoReq %d)' % r[1]
    if k == 'V':
        return '(RServed %d)' % r[1]
    return {'S': 'RSuccess', 'K': 'RPkOk', 'C': 'RChangeReq', 'U': 'RUnimpl', '?': 'RUnimpl'}[k]


def c_start(r):
    return 'SShell' if r[0] == 'shell' else ('SExec ' if r[0] == 'exec' else 'SSubsys ') + ctext(r[1])


def c_case(fixed, world, res, granted_users):
    ops, pi = [], 0
    for op in res.ops:
        if op[0] in ('req', 'msg'):
            ops.append('ODeliver ' + hx(res.payloads[pi]))
            pi += 1
        elif op[0] == 'complete':
            ops.append('OComplete %d' % op[1])
        elif op[0] == 'turn':
            ops.append('OTurn')
        else:
            ops.append('OSettle')
    auth_replies = [r for r in res.replies if r[0] != 'V']
    n80 = sum(1 for r in res.replies if r == ('V', 80))
    n90 = sum(1 for r in res.replies if r == ('V', 90))
    enf = res.enforced
    if enf is not None and (len(enf) != 4 or any(x[0] == 'none' for x in enf[3])):
        enf = None
    obs = '(%s, %d, %d, %s, %s, %s, %s)' % (
        clist(auth_replies, c_reply), n80, n90, clist(res.completed_as, ctext), clist(res.begun, ctext),
        cbool(res.dead),
        copt(enf, lambda e: '(%s, %s, %s, %s)' % (copt(e[0], ctext), cbool(e[1]), cbool(e[2]), clist(e[3], c_start))))
    gr = clist(granted_users, lambda ug: '(%s, %s)' % (ctext(ug[0]), cbool(ug[1])))
    return '(%s, %s, %s, %s, %s, %s, %s)' % (
        cbool(fixed), c_tables(world, res.tables), hx(res.sid), clist(ops, str),
        clist(res.snaps, lambda s: '(%d, %d, %s)' % (s[0], s[1], cbool(s[2]))), obs, gr)


def sshutil_run(coro, timeout=120):
    """run one coroutine in a fresh event loop (the deterministic executor is installed per loop)"""
    async def _w():
        return await asyncio.wait_for(coro, timeout)
    return asyncio.run(_w())
