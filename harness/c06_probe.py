"""C06 probe engine: bring a REAL asyncssh endpoint (client or server) into a chosen phase of the
handshake / authentication dialogue with MiniSSH (harness/minissh.py, independent implementation) as the
peer, inject one or more messages there, and record what the endpoint did and how the rest of a complete
scripted session went.  Everything is in memory and driven by event-loop turns (no wall clock).

The scripted session (same for every run; the untampered run is the "twin"):
  version exchange - KEXINIT - ECDH - NEWKEYS - service request/accept - 'none' auth (refused) -
  password auth for alice (accepted) - session channel - shell - echo "ping1" - re-key started by
  MiniSSH - echo "ping2" - channel close - disconnect.

Injection positions ("phases"; always from the point of view of the real endpoint):
  K0  pre-kexinit            the peer's version line is in, its KEXINIT is not
  K1  kex-running            peer KEXINIT processed, the exchange-specific message is awaited
  K2  kex-newkeys-sent       own NEWKEYS sent, peer's NEWKEYS not yet received
  E0  post-newkeys-pre-service
  A0  auth-running           server: one refused request behind it; client: password request outstanding
  A1  auth-done              USERAUTH_SUCCESS sent/accepted, no connection-layer message seen yet
  C0  authenticated          session channel open, data flowing
  R0  rekey-running          re-exchange: peer KEXINIT processed, exchange message awaited
  R1  rekey-newkeys-sent     re-exchange: own NEWKEYS sent, peer's not yet received
"""
import asyncio
import collections
import concurrent.futures
import os
import struct

from . import minissh as M

PHASES = ['K0', 'K1', 'K2', 'E0', 'A0', 'A1', 'C0', 'R0', 'R1']
PHASE_NAMES = {
    'K0': 'pre-kexinit', 'K1': 'kex-running', 'K2': 'kex-newkeys-sent', 'E0': 'post-newkeys-pre-service',
    'A0': 'auth-running', 'A1': 'auth-done', 'C0': 'authenticated', 'R0': 'rekey-running',
    'R1': 'rekey-newkeys-sent'}
ROLES = ['client', 'server']
VARIANTS = ['wf', 'empty', 'trunc', 'trail']
PASSWORDS = {'alice': 'pw-alice', 'mallory': 'pw-mallory'}
MY_CHAN, WINDOW, MAXPKT = 7, 1 << 21, 32768
EP_CHAN = 0                     # asyncssh numbers its first channel 0
KEX, ENC, MAC, HK = b'curve25519-sha256', b'aes128-ctr', b'hmac-sha2-256', b'ssh-ed25519'


class InlineExecutor(concurrent.futures.ThreadPoolExecutor):
    """run_in_executor without threads: the call runs at once, completion is delivered through the
    event loop like any other callback (asyncssh hops through the default executor in reload_config
    and when it builds connection options)."""

    def submit(self, fn, *a, **k):
        f = concurrent.futures.Future()
        try:
            f.set_result(fn(*a, **k))
        except BaseException as e:      # noqa
            f.set_exception(e)
        return f


class ProbeMini(M.MiniSSH):
    """MiniSSH that keeps every framed packet separately (so the harness delivers packet by packet) and can
    frame given payloads right before its own next packet of a given type (hook)."""

    def __init__(self, *a, **k):
        super().__init__(*a, **k)
        self.pkts = collections.deque()     # (is_probe, wire bytes, seq, type)
        self.hook = None                    # (msgtype, [payloads])
        self.probe_seqs = []

    def _frame(self, payload, **kw):
        if self.hook and payload and payload[0] == self.hook[0]:
            pls, self.hook = self.hook[1], None
            for p in pls:
                self._frame1(p, True)
        self._frame1(payload, False, **kw)

    def _frame1(self, payload, is_probe, **kw):
        start, seq = len(self._out), self.send_seq
        M.MiniSSH._frame(self, payload, **kw)
        wire = bytes(self._out[start:])
        del self._out[start:]
        if is_probe:
            self.probe_seqs.append(seq)
        self.pkts.append((is_probe, wire, seq, payload[0] if payload else None))

    def inject_now(self, payloads):
        for p in payloads:
            self._frame1(bytes(p), True)


class _Transport(asyncio.Transport):
    def __init__(self, sess):
        super().__init__()
        self.sess = sess

    def get_extra_info(self, name, default=None):
        return {'peername': ('10.0.0.1', 40000), 'sockname': ('10.0.0.2', 22)}.get(name, default)

    def write(self, data):
        if not self.sess.ep_closed:
            self.sess.to_mini.append(bytes(data))
            self.sess.moved = True

    def is_closing(self):
        return self.sess.ep_closed

    def close(self):
        self.sess.ep_close()

    abort = close

    def pause_reading(self):
        pass

    def resume_reading(self):
        pass

    def get_write_buffer_size(self):
        return 0

    def set_write_buffer_limits(self, high=None, low=None):
        pass

    def can_write_eof(self):
        return False


class _Acceptor:
    def close(self):
        pass

    async def wait_closed(self):
        pass

    def get_addresses(self):
        return [('10.0.0.2', 22)]

    def get_port(self):
        return 22

    sockets = []

    def set_tunnel(self, t):
        pass


class _ListenTunnel:
    server_factory = None

    async def create_server(self, session_factory, host, port, **kw):
        self.server_factory = session_factory
        return _Acceptor()


class Stop(Exception):
    def __init__(self, step, why):
        super().__init__(step, why)
        self.step, self.why = step, why


def exc_class(exc):
    if exc is None:
        return 'None'
    n = type(exc).__name__
    return n if n in ('ProtocolError', 'PermissionDenied', 'KeyExchangeFailed', 'MACError', 'ServiceNotAvailable',
                      'IllegalUserName', 'DisconnectError', 'ConnectionLost', 'HostKeyNotVerifiable',
                      'CompressionError', 'ProtocolNotSupported') else 'Other:' + n


_ENV = {}


def env():
    """Per-process fixtures: keys, a reusable server acceptor/factory and prebuilt client options."""
    if not _ENV:
        import asyncssh
        from cryptography.hazmat.primitives.asymmetric import ed25519
        _ENV['asyncssh'] = asyncssh
        _ENV['srv_key'] = asyncssh.generate_private_key('ssh-ed25519')
        _ENV['mini_key'] = ed25519.Ed25519PrivateKey.generate()
        _ENV['cur'] = None
    return _ENV


def _define_apps():
    asyncssh = env()['asyncssh']
    if 'Srv' in _ENV:
        return

    class EchoSession(asyncssh.SSHServerSession):
        def __init__(self, sess):
            self.sess = sess

        def connection_made(self, chan):
            self.chan = chan
            self.sess.ev.append(('session', chan.get_extra_info('username')))

        def shell_requested(self):
            return True

        def data_received(self, data, datatype):
            self.sess.ev.append(('data', bytes(data), datatype))
            self.chan.write(data)

        def eof_received(self):
            self.sess.ev.append(('eof',))
            return True

        def signal_received(self, signal):
            self.sess.ev.append(('signal', signal))

        def connection_lost(self, exc):
            self.sess.ev.append(('session_lost', exc_class(exc)))

    class Srv(asyncssh.SSHServer):
        def __init__(self):
            self.sess = _ENV['cur']

        def connection_made(self, conn):
            self.conn = conn

        def connection_lost(self, exc):
            self.sess.ev.append(('lost', exc_class(exc)))

        def begin_auth(self, username):
            self.sess.ev.append(('begin_auth', username))
            return True

        def password_auth_supported(self):
            return True

        def validate_password(self, username, password):
            self.sess.ev.append(('validate_password', username))
            return PASSWORDS.get(username) == password

        def auth_completed(self):
            self.sess.ev.append(('auth_completed', self.conn.get_extra_info('username')))

        def session_requested(self):
            return EchoSession(self.sess)

    class Cli(asyncssh.SSHClient):
        def __init__(self):
            self.sess = _ENV['cur']

        def connection_made(self, conn):
            self.conn = conn

        def connection_lost(self, exc):
            self.sess.ev.append(('lost', exc_class(exc)))

        def auth_banner_received(self, msg, lang):
            self.sess.ev.append(('banner', msg))

        def auth_completed(self):
            self.sess.ev.append(('auth_completed', self.conn.get_extra_info('username')))

        def password_auth_requested(self):
            self.sess.ev.append(('password_requested',))
            return PASSWORDS['alice']

        def password_change_requested(self, prompt, lang):
            self.sess.ev.append(('password_change_requested',))
            return NotImplemented

    class Collect(asyncssh.SSHClientSession):
        def __init__(self):
            self.sess = _ENV['cur']
            self.got = bytearray()

        def data_received(self, data, datatype):
            self.sess.ev.append(('data', bytes(data), datatype))
            self.got += data

        def eof_received(self):
            self.sess.ev.append(('eof',))

        def connection_lost(self, exc):
            self.sess.ev.append(('session_lost', exc_class(exc)))

    _ENV.update(Srv=Srv, Cli=Cli, Collect=Collect)


def canon_msg(t, payload):
    """What is compared between a probed run and its twin: random material is dropped."""
    if t == M.MSG_KEXINIT:
        return (t, bytes(payload[17:]))
    if M.MSG_KEX_FIRST <= t <= M.MSG_KEX_LAST:
        return (t,)
    return (t, bytes(payload[1:]))


class Sess:
    """One real endpoint + one MiniSSH peer."""

    def __init__(self, role, strict):
        e = env()
        _define_apps()
        self.role, self.strict = role, strict
        self.mini = ProbeMini('client' if role == 'server' else 'server',
                              host_key=None if role == 'server' else e['mini_key'],
                              kex_algs=[KEX], enc_algs=[ENC], mac_algs=[MAC], hostkey_algs=[HK],
                              strict_kex=strict, auto_kex=False)
        self.to_mini = collections.deque()
        self.ep_closed = False
        self.lost_called = False
        self.moved = False
        self.conn = None
        self.transport = _Transport(self)
        self.ev = []                     # endpoint-side application events
        self.rx = []                     # every message MiniSSH decoded from the endpoint, canonical
        self._rawpos = 0
        self.mini_failed = None
        self.cursor = 0                  # into self.rx for expect()
        self.reactions = []              # per probe group: dict
        self.step = 'start'
        self.connect_task = self.session_task = None
        self.chan = self.client_session = None
        self.server_factory = None

    # ---- tunnel interface (asyncssh's public tunnel= hook) --------------------------------------
    async def create_server(self, session_factory, host, port, **kw):
        self.server_factory = session_factory
        return _Acceptor()

    async def create_connection(self, session_factory, host, port, **kw):
        self.attach(session_factory())
        return self.transport, self.conn

    def attach(self, conn):
        self.conn = conn
        conn.connection_made(self.transport)
        self.mini.start()
        v = self.mini.take_output()
        self.mini.pkts.append((False, v, None, 'version'))

    def ep_close(self):
        if not self.ep_closed:
            self.ep_closed = True
            self.moved = True
            asyncio.get_running_loop().call_soon(self._lost)

    def _lost(self):
        if not self.lost_called and self.conn is not None:
            self.lost_called = True
            self.conn.connection_lost(None)

    # ---- moving bytes --------------------------------------------------------------------------
    def feed_mini(self):
        n = 0
        while self.to_mini:
            data = self.to_mini.popleft()
            n += 1
            if self.mini_failed:
                continue
            try:
                self.mini.feed(data)
            except M.MiniSSHError as exc:
                self.mini_failed = exc.kind
                self.rx.append(('mini_failed', exc.kind))
            self._collect()
        return n

    def _collect(self):
        raw = self.mini.raw_packets
        while self._rawpos < len(raw):
            rec = raw[self._rawpos]
            self._rawpos += 1
            p = rec.get('payload')
            if p:
                self.rx.append(canon_msg(p[0], p) + (('seq', rec['seq']),))

    async def settle(self, quiet=3, limit=80):
        """Run event loop turns until nothing was written/closed for `quiet` consecutive turns."""
        calm = 0
        for _ in range(limit):
            self.moved = False
            await asyncio.sleep(0)
            if self.moved:
                calm = 0
            else:
                calm += 1
                if calm >= quiet:
                    return

    async def deliver_one(self):
        """Deliver MiniSSH's next packet to the endpoint; a probe group is observed as one reaction."""
        is_probe, wire, seq, t = self.mini.pkts.popleft()
        if not is_probe:
            if not self.ep_closed:
                self.conn.data_received(wire)
            await self.settle()
            return
        group = [(wire, seq, t)]
        while self.mini.pkts and self.mini.pkts[0][0]:
            _, w2, s2, t2 = self.mini.pkts.popleft()
            group.append((w2, s2, t2))
        self.feed_mini()
        mark_rx, mark_ev = len(self.rx), len(self.ev)
        glued = getattr(self, 'glue', False)
        if glued:
            if not self.ep_closed:
                self.conn.data_received(b''.join(w for w, _, _ in group))
            await self.settle()
        else:
            for w, _, _ in group:
                if not self.ep_closed:
                    self.conn.data_received(w)
                await self.settle()
        self.feed_mini()
        self.reactions.append({'step': self.step, 'seqs': [s for _, s, _ in group],
                               'rx': self.rx[mark_rx:], 'ev': self.ev[mark_ev:], 'mark_rx': mark_rx,
                               'mark_ev': mark_ev, 'closed': self.ep_closed,
                               'disconnect': self.mini.peer_disconnect})

    async def pump(self):
        """Move everything that can move, one packet at a time, until quiescent."""
        progressed = False
        while True:
            if self.feed_mini():
                progressed = True
            if self.mini.pkts:
                await self.deliver_one()
                progressed = True
                continue
            await self.settle()
            if not self.to_mini and not self.mini.pkts:
                return progressed

    async def until(self, cond, what):
        self.step = what
        idle = 0
        while True:
            await self.pump()
            if cond():
                return
            if self.mini_failed:
                raise Stop(what, 'mini:' + self.mini_failed)
            if self.ep_closed:
                raise Stop(what, 'closed')
            idle += 1
            if idle >= 3:
                raise Stop(what, 'stuck')

    async def expect(self, t, what):
        found = []

        def scan():
            while self.cursor < len(self.rx) and not found:
                m = self.rx[self.cursor]
                self.cursor += 1
                if m[0] == t:
                    found.append(m)
            return bool(found)
        await self.until(scan, what)
        return found[0]

    def send(self, payload):
        self.mini.send(payload)

    async def inject(self, payloads):
        self.mini.inject_now(payloads)
        await self.pump()


# ---------------------------------------------------------------------------------------------------
# the scripted sessions

def _echoed(sess):
    out = bytearray()
    for m in sess.rx:
        if m[0] == M.MSG_CHANNEL_DATA and len(m) > 1 and isinstance(m[1], bytes):
            r = M.Reader(m[1])
            r.get_u32()
            out += r.get_string()
    return bytes(out)


async def script_vs_server(s, phase, probes):
    """MiniSSH is the client; the real endpoint is an asyncssh server."""
    e = env()
    m = s.mini
    if 'acceptor' not in e:
        e['acc_sess'] = _ListenTunnel()
        await e['asyncssh'].listen('mem', 22, tunnel=e['acc_sess'], server_factory=lambda: _ENV['Srv'](),
                                   server_host_keys=[e['srv_key']], kex_algs=[KEX.decode()],
                                   encryption_algs=[ENC.decode()], mac_algs=[MAC.decode()],
                                   compression_algs=['none'], encoding=None, login_timeout=0,
                                   keepalive_interval=0)
        e['acceptor'] = e['acc_sess'].server_factory
    e['cur'] = s
    hooks = {'K0': 20, 'K1': 30, 'K2': 21}
    if phase in hooks:
        m.hook = (hooks[phase], probes)
    s.attach(e['acceptor']('10.0.0.1', 40000))
    await s.until(lambda: m.peer_version is not None and m.peer_kexinit_payload is not None, 'version')
    m.start_rekey()
    await s.until(lambda: m.kex_count == 1, 'kex1')
    if phase == 'E0':
        await s.inject(probes)
    s.send(M.client_service_request())
    await s.expect(M.MSG_SERVICE_ACCEPT, 'service')
    s.send(M.client_auth_none('alice'))
    await s.expect(M.MSG_USERAUTH_FAILURE, 'auth-none')
    if phase == 'A0':
        await s.inject(probes)
    s.send(M.client_auth_password('alice', PASSWORDS['alice']))
    await s.expect(M.MSG_USERAUTH_SUCCESS, 'auth-password')
    if phase == 'A1':
        await s.inject(probes)
    s.send(M.channel_open_session(MY_CHAN, WINDOW, MAXPKT))
    conf = await s.expect(M.MSG_CHANNEL_OPEN_CONFIRMATION, 'channel-open')
    r = M.Reader(conf[1])
    r.get_u32()
    chan = r.get_u32()
    s.send(M.channel_request_shell(chan))
    await s.expect(M.MSG_CHANNEL_SUCCESS, 'shell')
    s.send(M.channel_data(chan, b'ping1'))
    await s.until(lambda: _echoed(s).endswith(b'ping1'), 'echo1')
    if phase == 'C0':
        await s.inject(probes)
    hooks = {'R0': 30, 'R1': 21}
    if phase in hooks:
        m.hook = (hooks[phase], probes)
    m.start_rekey()
    await s.until(lambda: m.kex_count == 2 and not m.kex_in_progress, 'rekey')
    s.send(M.channel_data(chan, b'ping2'))
    await s.until(lambda: _echoed(s).endswith(b'ping2'), 'echo2')
    s.send(M.channel_close(chan))
    await s.expect(M.MSG_CHANNEL_CLOSE, 'channel-close')
    s.send(M.disconnect(11, 'bye'))
    await s.until(lambda: s.ep_closed, 'disconnect')


async def script_vs_client(s, phase, probes):
    """MiniSSH is the server; the real endpoint is an asyncssh client."""
    e = env()
    asyncssh = e['asyncssh']
    m = s.mini
    e['cur'] = s
    if 'cli_options' not in e:
        e['cli_options'] = asyncssh.SSHClientConnectionOptions(
            known_hosts=None, username='alice', client_keys=None, config=None, agent_path=None,
            client_factory=lambda: _ENV['Cli'](), kex_algs=[KEX.decode()], encryption_algs=[ENC.decode()],
            mac_algs=[MAC.decode()], compression_algs=['none'], server_host_key_algs=[HK.decode()],
            preferred_auth=['password'], login_timeout=0, keepalive_interval=0, connect_timeout=None)
    hooks = {'K0': 20, 'K1': 31, 'K2': 21}
    if phase in hooks:
        m.hook = (hooks[phase], probes)

    async def connect():
        try:
            conn = await asyncssh.connect('mem', 22, tunnel=s, options=e['cli_options'])
            s.ev.append(('connect', 'ok', conn.get_extra_info('username')))
            return conn
        except Exception as exc:      # noqa
            s.ev.append(('connect', exc_class(exc)))
            return None
    s.connect_task = asyncio.ensure_future(connect())
    for _ in range(50):
        if s.conn is not None:
            break
        await asyncio.sleep(0)
    if s.conn is None:
        raise Stop('connect', 'no-connection')
    await s.until(lambda: m.peer_version is not None and m.peer_kexinit_payload is not None, 'version')
    m.start_rekey()
    await s.until(lambda: m.kex_count == 1, 'kex1')
    await s.expect(M.MSG_SERVICE_REQUEST, 'service-request')
    if phase == 'E0':
        await s.inject(probes)
    s.send(M.service_accept('ssh-userauth'))
    await s.expect(M.MSG_USERAUTH_REQUEST, 'auth-none')
    s.send(M.userauth_failure(['password']))
    req = await s.expect(M.MSG_USERAUTH_REQUEST, 'auth-password')
    if PASSWORDS['alice'].encode() not in req[1]:
        raise Stop('auth-password', 'no-password-request')
    if phase == 'A0':
        await s.inject(probes)
    s.send(M.userauth_success())
    await s.until(lambda: s.connect_task.done(), 'connect-returns')
    conn = s.connect_task.result()
    if conn is None:
        raise Stop('connect-returns', 'connect-failed')
    if phase == 'A1':
        await s.inject(probes)

    async def open_session():
        try:
            chan, sess = await conn.create_session(lambda: _ENV['Collect'](), encoding=None)
            s.ev.append(('session_open',))
            return chan, sess
        except Exception as exc:      # noqa
            s.ev.append(('session_open_failed', exc_class(exc)))
            return None
    s.session_task = asyncio.ensure_future(open_session())
    op = await s.expect(M.MSG_CHANNEL_OPEN, 'channel-open')
    r = M.Reader(op[1])
    r.get_string()
    peer_chan = r.get_u32()
    s.send(M.channel_open_confirmation(peer_chan, MY_CHAN, WINDOW, MAXPKT))
    await s.expect(M.MSG_CHANNEL_REQUEST, 'shell')
    s.send(M.channel_success(peer_chan))
    await s.until(lambda: s.session_task.done(), 'session-open')
    res = s.session_task.result()
    if res is None:
        raise Stop('session-open', 'failed')
    chan, csess = res
    chan.write(b'ping1')
    await s.until(lambda: _echoed(s).endswith(b'ping1'), 'data1')
    s.send(M.channel_data(peer_chan, b'ping1'))
    await s.until(lambda: bytes(csess.got).endswith(b'ping1'), 'echo1')
    if phase == 'C0':
        await s.inject(probes)
    hooks = {'R0': 31, 'R1': 21}
    if phase in hooks:
        m.hook = (hooks[phase], probes)
    m.start_rekey()
    await s.until(lambda: m.kex_count == 2 and not m.kex_in_progress, 'rekey')
    chan.write(b'ping2')
    await s.until(lambda: _echoed(s).endswith(b'ping2'), 'data2')
    s.send(M.channel_data(peer_chan, b'ping2'))
    await s.until(lambda: bytes(csess.got).endswith(b'ping2'), 'echo2')
    chan.close()
    await s.expect(M.MSG_CHANNEL_CLOSE, 'channel-close')
    s.send(M.channel_close(peer_chan))
    await s.pump()
    conn.close()
    await s.until(lambda: s.ep_closed, 'disconnect')


async def run_session(role, strict, phase=None, probes=(), glue=False):
    """Run the scripted session with `probes` (payload byte strings) injected at `phase` (None = twin).
    Returns a transcript dict (JSON-able after canon())."""
    s = Sess(role, strict)
    s.glue = glue
    final = ('completed',)
    try:
        await (script_vs_server if role == 'server' else script_vs_client)(s, phase, [bytes(p) for p in probes])
    except Stop as st:
        final = ('stopped', st.step, st.why)
    # wind down whatever is left so nothing leaks into the next session
    try:
        if s.conn is not None and not s.ep_closed:
            s.conn.abort()
        for t in (s.connect_task, s.session_task):
            if t is not None and not t.done():
                t.cancel()
        for _ in range(6):
            await asyncio.sleep(0)
    except Exception:       # noqa
        pass
    s.feed_mini()
    return {'role': role, 'strict': strict, 'phase': phase, 'final': final, 'rx': s.rx, 'ev': s.ev,
            'reactions': s.reactions, 'mini_failed': s.mini_failed, 'negotiated_strict': s.mini.strict,
            'kex_count': s.mini.kex_count}


# ---------------------------------------------------------------------------------------------------
# verdicts

def strip_seq(msgs):
    return [tuple(x for x in m if not (isinstance(x, tuple) and x and x[0] == 'seq')) for m in msgs]


def verdict(tr, twin):
    """Handled | Unimplemented | Fatal | Ignored  (H U F I), plus a short reason for H."""
    if not tr['reactions']:
        return 'X', 'probe-not-delivered'
    rc = tr['reactions'][0]
    rx_all, ev_all = strip_seq(tr['rx']), list(tr['ev'])
    react_rx = strip_seq(rc['rx'])
    rest_rx = rx_all[:rc['mark_rx']] + rx_all[rc['mark_rx'] + len(react_rx):]
    rest_ev = ev_all[:rc['mark_ev']] + ev_all[rc['mark_ev'] + len(rc['ev']):]
    visible = [m for m in react_rx if m[0] != M.MSG_IGNORE]
    app = [e for e in rc['ev'] if e[0] not in ('lost', 'session_lost', 'connect')]
    if rc['closed'] or rc['disconnect'] is not None:
        others = [m for m in visible if m[0] != M.MSG_DISCONNECT]
        if not others and not app:
            return 'F', ''
        return 'H', 'effect-then-close'
    same = rest_rx == strip_seq(twin['rx']) and rest_ev == list(twin['ev']) and tr['final'] == twin['final']
    if not visible and not app and same:
        return 'I', ''
    if (len(visible) == 1 and visible[0][0] == M.MSG_UNIMPLEMENTED and not app and same and
            len(rc['seqs']) == 1 and visible[0][1] == struct.pack('>I', rc['seqs'][0])):
        return 'U', ''
    if visible or app:
        return 'H', 'reply' if visible else 'app-event'
    if tr['final'] != twin['final']:
        return 'H', 'later:' + '/'.join(str(x) for x in tr['final'])
    return 'H', 'later-differs'


# ---------------------------------------------------------------------------------------------------
# payloads

def kexinit_payload(strict, role_of_sender):
    kex = [KEX]
    if strict:
        kex.append(M.STRICT_C if role_of_sender == 'client' else M.STRICT_S)
    return (bytes([M.MSG_KEXINIT]) + bytes(range(16)) + M.namelist(kex) + M.namelist([HK]) + M.namelist([ENC]) * 2 +
            M.namelist([MAC]) * 2 + M.namelist([b'none']) * 2 + M.namelist([]) * 2 + b'\0' + M.u32(0))


_X25519_PUB = bytes.fromhex('8520f0098930a754748b7ddcb43ef75a0dbf3a0d26381af4eba4a98eaa9b4e6a')     # RFC 7748 6.1


def wf_body(t, to_role, strict=True):
    """A well-formed body for message type t as sent TO an endpoint of role `to_role`, chosen so that it
    would have a visible effect if it were processed; b'' where the type has no defined format."""
    S, U = M.sstr, M.u32
    sender = 'client' if to_role == 'server' else 'server'
    if t == 1:
        return U(11) + S('bye') + S('')
    if t == 2:
        return S('x')
    if t == 3:
        return U(0)
    if t == 4:
        return b'\1' + S('dbg') + S('')
    if t in (5, 6):
        return S('ssh-userauth')
    if t == 7:
        return U(1) + S('server-sig-algs') + S('ssh-ed25519')
    if t == 20:
        return kexinit_payload(strict, sender)[1:]
    if t == 30:
        return S(_X25519_PUB)
    if t == 31:
        return S(S('ssh-ed25519') + S(bytes(32))) + S(_X25519_PUB) + S(S('ssh-ed25519') + S(bytes(64)))
    if t == 50:
        return S('mallory') + S('ssh-connection') + S('password') + b'\0' + S(PASSWORDS['mallory'])
    if t == 51:
        return M.namelist(['password']) + b'\0'
    if t == 53:
        return S('injected banner\n') + S('')
    if t == 60:
        return S('new password please') + S('')          # PASSWD_CHANGEREQ shape (also INFO_REQUEST prefix)
    if t == 61:
        return U(0)
    if t == 80:
        return S('keepalive@openssh.com') + b'\1'
    if t == 90:
        return S('session') + U(33) + U(WINDOW) + U(MAXPKT)
    if t == 91:
        return U(EP_CHAN) + U(34) + U(WINDOW) + U(MAXPKT)
    if t == 92:
        return U(EP_CHAN) + U(1) + S('no') + S('')
    if t == 93:
        return U(EP_CHAN) + U(1000)
    if t == 94:
        return U(EP_CHAN) + S('inj')
    if t == 95:
        return U(EP_CHAN) + U(1) + S('inj')
    if t in (96, 97, 99, 100):
        return U(EP_CHAN)
    if t == 98:
        return U(EP_CHAN) + S('exit-status' if to_role == 'client' else 'signal') + b'\0' + \
            (U(3) if to_role == 'client' else S('INT'))
    if 101 <= t <= 127:
        return U(EP_CHAN)
    return b''


def variants(t, to_role, strict=True):
    """{variant: payload}; variants that coincide with an earlier one are left out."""
    wf = bytes([t]) + wf_body(t, to_role, strict)
    out = {'wf': wf}
    for name, p in (('empty', bytes([t])), ('trunc', wf[:-1]), ('trail', wf + b'\0')):
        if len(p) >= 1 and p not in out.values():
            out[name] = p
    return out


# ---------------------------------------------------------------------------------------------------
# worker entry points (one event loop per worker process, many sessions per loop)

def _canon(o):
    if isinstance(o, (bytes, bytearray)):
        return {'b': bytes(o).hex()}
    if isinstance(o, (list, tuple)):
        return [_canon(x) for x in o]
    if isinstance(o, dict):
        return {k: _canon(v) for k, v in o.items()}
    return o


def worker_init(repo):
    import sys
    os.environ.setdefault('PYTHONHASHSEED', '0')
    if repo not in sys.path:
        sys.path.insert(0, repo)
    import logging
    logging.disable(logging.CRITICAL)


async def _batch(jobs):
    loop = asyncio.get_running_loop()
    loop.set_default_executor(InlineExecutor(max_workers=1))
    loop.set_exception_handler(lambda lp, ctx: _ENV.setdefault('loop_errors', []).append(
        {k: repr(v)[:300] for k, v in ctx.items()}))
    twins, out = {}, []
    for job in jobs:
        role, strict, phase = job['role'], job['strict'], job['phase']
        key = (role, strict)
        if key not in twins:
            twins[key] = await run_session(role, strict)
        probes = [bytes.fromhex(p) for p in job['probes']]
        tr = await run_session(role, strict, phase, probes, glue=job.get('glue', False))
        v, why = verdict(tr, twins[key])
        res = {'job': job, 'verdict': v, 'why': why, 'final': list(tr['final']),
               'twin_final': list(twins[key]['final'])}
        if job.get('detail') or v in ('H', 'X'):
            rc = tr['reactions'][0] if tr['reactions'] else None
            res['reaction'] = _canon({'rx': strip_seq(rc['rx']), 'ev': rc['ev'], 'closed': rc['closed'],
                                      'step': rc['step'], 'seqs': rc['seqs']}) if rc else None
            res['ev'] = _canon(tr['ev'])
        if job.get('detail'):
            res['rx'] = _canon(tr['rx'])
            res['twin_ev'] = _canon(twins[key]['ev'])
            res['reactions'] = _canon([{k: x[k] for k in ('rx', 'ev', 'closed', 'step', 'seqs')}
                                       for x in tr['reactions']])
        out.append(res)
    return out, _ENV.pop('loop_errors', [])


def run_batch(jobs):
    return asyncio.run(_batch(jobs))
