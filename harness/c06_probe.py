"""C06 probe engine: bring a REAL asyncssh endpoint (client or server) into a chosen phase of the
handshake / authentication dialogue with MiniSSH (harness/minissh.py, independent implementation) as the
peer, inject one or more messages there, and record what the endpoint did and how the rest of a complete
scripted session went.  Everything is in memory and driven by event-loop turns (no wall clock).

The scripted session (same for every run; the untampered run is the "twin"):
  version exchange - KEXINIT - ECDH - NEWKEYS - service request/accept - 'none' auth (refused) -
  password auth for alice (accepted) - session channel - shell - echo "ping1" - re-key started by
  MiniSSH - echo "ping2" - channel close - disconnect.

Injection positions ("phases"; always from the point of view of the real endpoint):
  K0  pre-kexinit            the peer's version line is in, its KEXINIT is not
  K1  kex-running            peer KEXINIT processed, the exchange-specific message is awaited
  K2  kex-newkeys-sent       own NEWKEYS sent, peer's NEWKEYS not yet received
  E0  post-newkeys-pre-service
  A0  auth-running           server: one refused request behind it; client: password request outstanding
  A1  auth-done              USERAUTH_SUCCESS sent/accepted, no connection-layer message seen yet
  C0  authenticated          session channel open, data flowing
  R0  rekey-running          re-exchange: peer KEXINIT processed, exchange message awaited
  R1  rekey-newkeys-sent     re-exchange: own NEWKEYS sent, peer's not yet received
Two further client sessions (scripts C1, C2: the client prefers keyboard-interactive, password, publickey and its
credential callbacks SUSPEND until the harness releases them) provide the windows between two methods, N0..N5,
where the previous method has ended and the next one has not sent its request yet (see PHASE_NAMES).
A second scripted session (several authentication methods; applications whose validators WOULD accept a
stale answer) provides the phases around finished authentication attempts:
  server:  none (refused) - keyboard-interactive: challenge [M0], wrong answer, FAILURE [M1] - publickey
           with an unknown key, FAILURE [M2] - password wrong, FAILURE [M3] - password right, SUCCESS - channel
  client:  none (refused) - keyboard-interactive request [M0] - challenge, answer sent [M1] - FAILURE,
           password request sent [M2] - FAILURE - keyboard-interactive again, SUCCESS [M3] - channel
"""
import asyncio
import collections
import concurrent.futures
import os
import struct

from . import minissh as M

PHASES = ['K0', 'K1', 'K2', 'E0', 'A0', 'A1', 'C0', 'R0', 'R1', 'M0', 'M1', 'M2', 'M3', 'G1', 'G2']
CLIENT_PHASES = ['N0', 'N1', 'N2', 'N3', 'N4', 'N5']        # client only: the windows between two methods
SCRIPT_OF = {'G1': 'GW', 'G2': 'GR', 'N0': 'C1', 'N1': 'C1', 'N2': 'C1', 'N3': 'C2', 'N4': 'C2', 'N5': 'C2'}
B_PHASES = ('M0', 'M1', 'M2', 'M3')        # probed in the second scripted session (several auth methods)
PHASE_NAMES = {
    'K0': 'pre-kexinit', 'K1': 'kex-running', 'K2': 'kex-newkeys-sent', 'E0': 'post-newkeys-pre-service',
    'A0': 'auth-running', 'A1': 'auth-done', 'C0': 'authenticated', 'R0': 'rekey-running',
    'R1': 'rekey-newkeys-sent',
    'M0': 'kbdint-attempt-running', 'M1': 'kbdint-attempt-failed(server)/kbdint-response-sent(client)',
    'M2': 'publickey-attempt-failed(server)/kbdint-attempt-failed(client)',
    'M3': 'password-attempt-failed(server)/authenticated-through-kbdint(client)'}
WRONG_KEX = b'ecdh-sha2-nistp256'        # MiniSSH lists it first when it "guesses wrong"; the endpoints do not offer it
PHASE_NAMES.update({
    'G1': 'kex-running, wrongly guessed first kex packet announced (the probe takes its place)',
    'G2': 'kex-running, rightly guessed first kex packet announced',
    'N0': "between-methods: 'none' refused, keyboard-interactive callback pending",
    'N1': 'between-methods: keyboard-interactive prompt cancelled after its request, password callback pending',
    'N2': 'between-methods: password change not supported after its request, publickey callback pending',
    'N3': 'between-methods: keyboard-interactive skipped by its callback, password callback pending',
    'N4': 'between-methods: password callback had nothing to offer, publickey callback pending',
    'N5': 'between-methods: publickey query refused, publickey callback pending again'})
KBD_ANSWER = 'open sesame'


def phases_of(role):
    return PHASES + (CLIENT_PHASES if role == 'client' else [])


def script_of(phase):
    return SCRIPT_OF.get(phase) or ('B' if phase in B_PHASES else 'A')
ROLES = ['client', 'server']
VARIANTS = ['wf', 'empty', 'trunc', 'trail']
PASSWORDS = {'alice': 'pw-alice', 'mallory': 'pw-mallory'}
MY_CHAN, WINDOW, MAXPKT = 7, 1 << 21, 32768
EP_CHAN = 0                     # asyncssh numbers its first channel 0
KEX, ENC, MAC, HK = b'curve25519-sha256', b'aes128-ctr', b'hmac-sha2-256', b'ssh-ed25519'


class InlineExecutor(concurrent.futures.ThreadPoolExecutor):
    """run_in_executor without threads: the call runs at once, completion is delivered through the
    event loop like any other callback (asyncssh hops through the default executor in reload_config
    and when it builds connection options)."""

    def submit(self, fn, *a, **k):
        f = concurrent.futures.Future()
        try:
            f.set_result(fn(*a, **k))
        except BaseException as e:      # noqa
            f.set_exception(e)
        return f


class ProbeMini(M.MiniSSH):
    """MiniSSH that keeps every framed packet separately (so the harness delivers packet by packet) and can
    frame given payloads right before its own next packet of a given type (hook) or right before its own
    n-th packet (inject_pos)."""

    def __init__(self, *a, **k):
        super().__init__(*a, **k)
        self.pkts = collections.deque()     # dicts: probe, wire, seq, payload
        self.hook = None                    # (msgtype, [payloads])
        self.inject_pos = None              # (n, [payloads]): before our own n-th framed packet (0-based)
        self.own_count = 0
        self.inject_after = None            # (n, [payloads]): right behind our own n-th packet, before it is delivered
        self.nprobes = 0

    def _frame(self, payload, **kw):
        if self.hook and payload and payload[0] == self.hook[0]:
            pls, self.hook = self.hook[1], None
            for p in pls:
                self._frame1(p, True)
        if self.inject_pos and self.inject_pos[0] == self.own_count:
            pls, self.inject_pos = self.inject_pos[1], None
            for p in pls:
                self._frame1(p, True)
        self.own_count += 1
        self._frame1(payload, False, **kw)
        if self.inject_after and self.inject_after[0] == self.own_count - 1:
            pls, self.inject_after = self.inject_after[1], None
            if payload and payload[0] == M.MSG_NEWKEYS:
                self._behind_newkeys = pls          # what follows NEWKEYS must use the new keys: see _finish
            else:
                for p in pls:
                    self._frame1(p, True)

    def _finish(self, k_s, k, h):
        self._behind_newkeys = None
        M.MiniSSH._finish(self, k_s, k, h)
        pls, self._behind_newkeys = self._behind_newkeys, None
        for p in pls or ():
            self._frame1(p, True)

    def _frame1(self, payload, is_probe, **kw):
        start, seq = len(self._out), self.send_seq
        M.MiniSSH._frame(self, payload, **kw)
        wire = bytes(self._out[start:])
        del self._out[start:]
        self.pkts.append({'probe': is_probe, 'wire': wire, 'seq': seq, 'payload': bytes(payload),
                          'pidx': self.nprobes if is_probe else None})
        if is_probe:
            self.nprobes += 1

    guess = None                        # 'wrong' | 'right': first_kex_packet_follows in our FIRST KEXINIT

    def _send_kexinit(self):
        if not self.guess or self.our_kexinit_payload is not None:
            return M.MiniSSH._send_kexinit(self)
        # as MiniSSH._send_kexinit, with first_kex_packet_follows = 1 and, for a wrong guess, a first method the
        # peer does not offer (so it is not the one negotiated)
        kex = ([WRONG_KEX] if self.guess == 'wrong' else []) + list(self.kex_algs)
        if self.strict_kex:
            kex.append(M.STRICT_C if self.is_client else M.STRICT_S)
        nl = M.namelist
        payload = (bytes([M.MSG_KEXINIT]) + self.rng(16) + nl(kex) + nl(self.hostkey_algs) +
                   nl(self._dir('enc', 'cs')) + nl(self._dir('enc', 'sc')) + nl(self._dir('mac', 'cs')) +
                   nl(self._dir('mac', 'sc')) + nl(self._dir('comp', 'cs')) + nl(self._dir('comp', 'sc')) +
                   nl([]) * 2 + b'\1' + M.u32(0))
        self.our_kexinit_payload = payload
        self._our_kexinit_out = self._tx_blocked = True
        self._frame(payload)
        if self._peer_kexinit_in:
            self._begin_kex()

    def inject_now(self, payloads):
        for p in payloads:
            self._frame1(bytes(p), True)

    def _dispatch(self, seq, payload):
        """As MiniSSH._dispatch, but as an observer: MiniSSH's own strict-KEX enforcement on what it
        RECEIVES is switched off, so that whatever the endpoint under test sends is recorded."""
        t = payload[0]
        if t == M.MSG_KEXINIT:
            self._on_kexinit(seq, payload)
        elif t == M.MSG_NEWKEYS:
            self._on_newkeys()
        elif M.MSG_KEX_FIRST <= t <= M.MSG_KEX_LAST:
            self._on_kex_message(t, payload)
        else:
            if t == M.MSG_DISCONNECT:
                r = M.Reader(payload, 1)
                try:
                    self.peer_disconnect = (r.get_u32(), r.get_string())
                except M.MiniSSHError:
                    self.peer_disconnect = (None, b'')
            self.inbox.append((t, payload))


class _Transport(asyncio.Transport):
    def __init__(self, sess):
        super().__init__()
        self.sess = sess

    def get_extra_info(self, name, default=None):
        return {'peername': ('10.0.0.1', 40000), 'sockname': ('10.0.0.2', 22)}.get(name, default)

    def write(self, data):
        if not self.sess.ep_closed:
            self.sess.to_mini.append(bytes(data))
            self.sess.moved = True

    def is_closing(self):
        return self.sess.ep_closed

    def close(self):
        self.sess.ep_close()

    abort = close

    def pause_reading(self):
        pass

    def resume_reading(self):
        pass

    def get_write_buffer_size(self):
        return 0

    def set_write_buffer_limits(self, high=None, low=None):
        pass

    def can_write_eof(self):
        return False


class _Acceptor:
    def close(self):
        pass

    async def wait_closed(self):
        pass

    def get_addresses(self):
        return [('10.0.0.2', 22)]

    def get_port(self):
        return 22

    sockets = []

    def set_tunnel(self, t):
        pass


class _ListenTunnel:
    server_factory = None

    async def create_server(self, session_factory, host, port, **kw):
        self.server_factory = session_factory
        return _Acceptor()


class Stop(Exception):
    def __init__(self, step, why):
        super().__init__(step, why)
        self.step, self.why = step, why


def exc_class(exc):
    if exc is None:
        return 'None'
    n = type(exc).__name__
    return n if n in ('ProtocolError', 'PermissionDenied', 'KeyExchangeFailed', 'MACError', 'ServiceNotAvailable',
                      'IllegalUserName', 'DisconnectError', 'ConnectionLost', 'HostKeyNotVerifiable',
                      'CompressionError', 'ProtocolNotSupported') else 'Other:' + n


_ENV = {}


def env():
    """Per-process fixtures: keys, a reusable server acceptor/factory and prebuilt client options."""
    if 'asyncssh' not in _ENV:
        import asyncssh
        from cryptography.hazmat.primitives.asymmetric import ed25519
        _ENV['asyncssh'] = asyncssh
        _ENV['srv_key'] = asyncssh.generate_private_key('ssh-ed25519')
        _ENV['mini_key'] = ed25519.Ed25519PrivateKey.generate()
        _ENV['cur'] = None
    return _ENV


def _define_apps():
    asyncssh = env()['asyncssh']
    if 'Srv' in _ENV:
        return

    class EchoSession(asyncssh.SSHServerSession):
        def __init__(self, sess):
            self.sess = sess

        def connection_made(self, chan):
            self.chan = chan
            self.sess.ev.append(('session', chan.get_extra_info('username')))

        def shell_requested(self):
            return True

        def data_received(self, data, datatype):
            self.sess.ev.append(('data', bytes(data), datatype))
            self.chan.write(data)

        def eof_received(self):
            self.sess.ev.append(('eof',))
            return True

        def signal_received(self, signal):
            self.sess.ev.append(('signal', signal))

        def connection_lost(self, exc):
            self.sess.ev.append(('session_lost', exc_class(exc)))

    class Srv(asyncssh.SSHServer):
        def __init__(self):
            self.sess = _ENV['cur']

        def connection_made(self, conn):
            self.conn = conn

        def connection_lost(self, exc):
            self.sess.ev.append(('lost', exc_class(exc)))

        def begin_auth(self, username):
            self.sess.ev.append(('begin_auth', username))
            return True

        def password_auth_supported(self):
            return True

        def validate_password(self, username, password):
            self.sess.ev.append(('validate_password', username))
            return PASSWORDS.get(username) == password

        def kbdint_auth_supported(self):
            return True

        def get_kbdint_challenge(self, username, lang, submethods):
            self.sess.ev.append(('kbdint_challenge', username))
            return '', '', 'en', [('Password:', False)]

        def validate_kbdint_response(self, username, responses):
            self.sess.ev.append(('validate_kbdint', username, list(responses)))
            return list(responses) == [KBD_ANSWER]

        def public_key_auth_supported(self):
            return True

        def validate_public_key(self, username, key):
            self.sess.ev.append(('validate_public_key', username))
            return False

        def auth_completed(self):
            self.sess.ev.append(('auth_completed', self.conn.get_extra_info('username')))

        def session_requested(self):
            return EchoSession(self.sess)

    class Cli(asyncssh.SSHClient):
        def __init__(self):
            self.sess = _ENV['cur']

        def connection_made(self, conn):
            self.conn = conn

        def connection_lost(self, exc):
            self.sess.ev.append(('lost', exc_class(exc)))

        def auth_banner_received(self, msg, lang):
            self.sess.ev.append(('banner', msg))

        def auth_completed(self):
            self.sess.ev.append(('auth_completed', self.conn.get_extra_info('username')))

        def password_auth_requested(self):
            self.sess.ev.append(('password_requested',))
            if self.sess.gated:
                return self.sess.gate('password')
            return PASSWORDS['alice']

        def password_change_requested(self, prompt, lang):
            self.sess.ev.append(('password_change_requested',))
            self.sess.ev.append(('method_skipped', 'password-change'))
            return NotImplemented

        def kbdint_auth_requested(self):
            self.sess.ev.append(('kbdint_requested',))
            if self.sess.gated:
                return self.sess.gate('kbdint')
            return ''

        def kbdint_challenge_received(self, name, instructions, lang, prompts):
            self.sess.ev.append(('kbdint_challenge', len(prompts)))
            if self.sess.gated:
                self.sess.ev.append(('method_skipped', 'kbdint-prompt'))
                return None                                   # the user cancels the prompt
            return [KBD_ANSWER] * len(prompts)

        def public_key_auth_requested(self):
            self.sess.ev.append(('publickey_requested',))
            if self.sess.gated:
                return self.sess.gate('publickey')
            return None

    class Collect(asyncssh.SSHClientSession):
        def __init__(self):
            self.sess = _ENV['cur']
            self.got = bytearray()

        def data_received(self, data, datatype):
            self.sess.ev.append(('data', bytes(data), datatype))
            self.got += data

        def eof_received(self):
            self.sess.ev.append(('eof',))

        def connection_lost(self, exc):
            self.sess.ev.append(('session_lost', exc_class(exc)))

    _ENV.update(Srv=Srv, Cli=Cli, Collect=Collect)


def canon_msg(t, payload):
    """What is compared between a probed run and its twin: random material is dropped."""
    if t == M.MSG_KEXINIT:
        return (t, bytes(payload[17:]))
    if M.MSG_KEX_FIRST <= t <= M.MSG_KEX_LAST:
        return (t,)
    if t == M.MSG_USERAUTH_REQUEST:
        try:                                # a signed publickey request: the signature covers the session id
            r = M.Reader(payload, 1)
            r.get_string(); r.get_string()
            if r.get_string() == b'publickey' and r.get_bool():
                r.get_string(); r.get_string()
                return (t, bytes(payload[1:r.pos]) + b'<signature>')
        except M.MiniSSHError:
            pass
    return (t, bytes(payload[1:]))


class Sess:
    """One real endpoint + one MiniSSH peer."""

    def __init__(self, role, strict):
        e = env()
        _define_apps()
        self.role, self.strict = role, strict
        self.mini = ProbeMini('client' if role == 'server' else 'server',
                              host_key=None if role == 'server' else e['mini_key'],
                              kex_algs=[KEX], enc_algs=[ENC], mac_algs=[MAC], hostkey_algs=[HK],
                              strict_kex=strict, auto_kex=False)
        self.to_mini = collections.deque()
        self.ep_closed = False
        self.lost_called = False
        self.moved = False
        self.conn = None
        self.transport = _Transport(self)
        self.ev = []                     # endpoint-side application events
        self.rx = []                     # every message MiniSSH decoded from the endpoint, canonical
        self._rawpos = 0
        self.mini_failed = None
        self.cursor = 0                  # into self.rx for expect()
        self.reactions = []              # per probe group: dict
        self.steps = []                  # every chunk delivered to the endpoint with what it sent in reaction
        self._step_mark = 0
        self.glue = None
        self.gates = {}                  # suspended application callbacks: name -> future
        self.gated = False
        self.step = 'start'
        self.connect_task = self.session_task = None
        self.chan = self.client_session = None
        self.server_factory = None

    # ---- application callbacks that wait for the harness ------------------------------------------------
    async def gate(self, name):
        fut = asyncio.get_running_loop().create_future()
        self.gates[name] = fut
        self.ev.append(('callback_pending', name))
        try:
            return await fut
        finally:
            self.gates.pop(name, None)

    async def release(self, name, value, cls):
        """Answer the pending callback `name`; logged as a step of its own (type -2, cls 0 = nothing to offer)."""
        self.feed_mini()
        if len(self.rx) > self._step_mark:
            self.steps.append({'chunk': [], 'outs': self._outs_since(self._step_mark), 'closed': self.ep_closed, 'ev': []})
            self._step_mark = len(self.rx)
        fut = self.gates.get(name)
        if fut is None or fut.done():
            raise Stop('release-' + name, 'callback-not-pending')
        mark_rx, mark_ev = len(self.rx), len(self.ev)
        fut.set_result(value)
        await self.settle()
        self.feed_mini()
        self.steps.append({'chunk': [{'probe': False, 'payload': None, 'seq': None, 'pidx': None, 'release': cls}],
                           'outs': self._outs_since(mark_rx), 'closed': self.ep_closed, 'ev': list(self.ev[mark_ev:])})
        self._step_mark = len(self.rx)

    # ---- tunnel interface (asyncssh's public tunnel= hook) --------------------------------------
    async def create_server(self, session_factory, host, port, **kw):
        self.server_factory = session_factory
        return _Acceptor()

    async def create_connection(self, session_factory, host, port, **kw):
        self.attach(session_factory())
        return self.transport, self.conn

    def attach(self, conn):
        self.conn = conn
        conn.connection_made(self.transport)
        self.mini.start()
        v = self.mini.take_output()
        self.mini.pkts.append({'probe': False, 'wire': v, 'seq': None, 'payload': None})

    def ep_close(self):
        if not self.ep_closed:
            self.ep_closed = True
            self.moved = True
            asyncio.get_running_loop().call_soon(self._lost)

    def _lost(self):
        if not self.lost_called and self.conn is not None:
            self.lost_called = True
            self.conn.connection_lost(None)

    # ---- moving bytes --------------------------------------------------------------------------
    def feed_mini(self):
        n = 0
        while self.to_mini:
            data = self.to_mini.popleft()
            n += 1
            if self.mini_failed:
                continue
            try:
                self.mini.feed(data)
            except M.MiniSSHError as exc:
                self.mini_failed = exc.kind
                self.rx.append(('mini_failed', exc.kind))
            self._collect()
        return n

    def _collect(self):
        raw = self.mini.raw_packets
        while self._rawpos < len(raw):
            rec = raw[self._rawpos]
            self._rawpos += 1
            p = rec.get('payload')
            if p:
                self.rx.append(canon_msg(p[0], p) + (('seq', rec['seq']),))

    async def settle(self, limit=200):
        """Run event loop turns until nothing else is runnable: the loop's ready queue is empty when this
        task resumes, twice in a row (inline executor completions and task wake-ups all pass through that
        queue; there are no timers).  Without access to the queue: a fixed number of turns."""
        loop = asyncio.get_running_loop()
        ready = getattr(loop, '_ready', None)
        if ready is None:
            for _ in range(40):
                await asyncio.sleep(0)
            return
        calm = 0
        for _ in range(limit):
            await asyncio.sleep(0)
            if len(ready) == 0:
                calm += 1
                if calm >= 2:
                    return
            else:
                calm = 0

    def _outs_since(self, mark):
        """(type, arg, seq) of every packet MiniSSH decoded from the endpoint since rx[mark]."""
        out = []
        for m in self.rx[mark:]:
            if m[0] == 'mini_failed':
                out.append(('mini_failed', m[1], -1))
                continue
            seq = [x[1] for x in m if isinstance(x, tuple) and x and x[0] == 'seq'][0]
            arg = int.from_bytes(m[1], 'big') if m[0] == M.MSG_UNIMPLEMENTED and len(m[1]) == 4 else 0
            out.append((m[0], arg, seq))
        return out

    async def deliver_one(self):
        """Deliver MiniSSH's next packet(s) to the endpoint as one chunk, let the endpoint run until nothing
        is runnable, and log the step.  Chunks: one packet; with glue='prev' probes ride in the chunk of the
        script packet in front of them; with glue='group' consecutive probes form one chunk."""
        self.feed_mini()
        if len(self.rx) > self._step_mark:          # sent on the application's initiative since the last step
            self.steps.append({'chunk': [], 'outs': self._outs_since(self._step_mark), 'closed': self.ep_closed,
                               'ev': []})
            self._step_mark = len(self.rx)
        q = self.mini.pkts
        chunk = [q.popleft()]
        glue = self.glue
        if glue == 'prev' and not chunk[0]['probe']:
            while q and q[0]['probe']:
                chunk.append(q.popleft())
        elif glue in ('group', 'prev') and chunk[0]['probe']:
            while q and q[0]['probe']:
                chunk.append(q.popleft())
        has_probe = any(c['probe'] for c in chunk)
        mark_rx, mark_ev = len(self.rx), len(self.ev)
        if not self.ep_closed:
            self.conn.data_received(b''.join(c['wire'] for c in chunk))
        await self.settle()
        self.feed_mini()
        self.steps.append({'chunk': [{'probe': c['probe'], 'payload': c['payload'], 'seq': c['seq'],
                                      'pidx': c.get('pidx')} for c in chunk],
                           'outs': self._outs_since(mark_rx), 'closed': self.ep_closed,
                           'ev': list(self.ev[mark_ev:])})
        self._step_mark = len(self.rx)
        if has_probe:
            self.reactions.append({'step': self.step, 'seqs': [c['seq'] for c in chunk if c['probe']],
                                   'rx': self.rx[mark_rx:], 'ev': self.ev[mark_ev:], 'mark_rx': mark_rx,
                                   'mark_ev': mark_ev, 'closed': self.ep_closed,
                                   'disconnect': self.mini.peer_disconnect,
                                   'with_script_packet': any(not c['probe'] for c in chunk)})

    async def pump(self):
        """Move everything that can move, one packet at a time, until quiescent."""
        progressed = False
        while True:
            if self.feed_mini():
                progressed = True
            if self.mini.pkts:
                await self.deliver_one()
                progressed = True
                continue
            await self.settle()
            if not self.to_mini and not self.mini.pkts:
                return progressed

    async def until(self, cond, what):
        self.step = what
        idle = 0
        while True:
            await self.pump()
            if cond():
                return
            if self.mini_failed:
                raise Stop(what, 'mini:' + self.mini_failed)
            if self.ep_closed:
                raise Stop(what, 'closed')
            idle += 1
            if idle >= 3:
                raise Stop(what, 'stuck')

    async def expect(self, t, what):
        found = []

        def scan():
            while self.cursor < len(self.rx) and not found:
                m = self.rx[self.cursor]
                self.cursor += 1
                if m[0] == t:
                    found.append(m)
            return bool(found)
        await self.until(scan, what)
        return found[0]

    def send(self, payload):
        self.mini.send(payload)

    async def inject(self, payloads):
        self.mini.inject_now(payloads)
        await self.pump()


# ---------------------------------------------------------------------------------------------------
# the scripted sessions

def _echoed(sess):
    out = bytearray()
    for m in sess.rx:
        if m[0] == M.MSG_CHANNEL_DATA and len(m) > 1 and isinstance(m[1], bytes):
            r = M.Reader(m[1])
            r.get_u32()
            out += r.get_string()
    return bytes(out)


async def script_vs_server(s, phase, probes):
    """MiniSSH is the client; the real endpoint is an asyncssh server."""
    e = env()
    m = s.mini
    await _server_acceptor()
    e['cur'] = s
    hooks = {'K0': 20, 'K1': 30, 'K2': 21}
    if phase in hooks:
        m.hook = (hooks[phase], probes)
    s.attach(e['acceptor']('10.0.0.1', 40000))
    await s.until(lambda: m.peer_version is not None and m.peer_kexinit_payload is not None, 'version')
    m.start_rekey()
    await s.until(lambda: m.kex_count == 1, 'kex1')
    if phase == 'E0':
        await s.inject(probes)
    s.send(M.client_service_request())
    await s.expect(M.MSG_SERVICE_ACCEPT, 'service')
    s.send(M.client_auth_none('alice'))
    await s.expect(M.MSG_USERAUTH_FAILURE, 'auth-none')
    if phase == 'A0':
        await s.inject(probes)
    s.send(M.client_auth_password('alice', PASSWORDS['alice']))
    await s.expect(M.MSG_USERAUTH_SUCCESS, 'auth-password')
    if phase == 'A1':
        await s.inject(probes)
    s.send(M.channel_open_session(MY_CHAN, WINDOW, MAXPKT))
    conf = await s.expect(M.MSG_CHANNEL_OPEN_CONFIRMATION, 'channel-open')
    r = M.Reader(conf[1])
    r.get_u32()
    chan = r.get_u32()
    s.send(M.channel_request_shell(chan))
    await s.expect(M.MSG_CHANNEL_SUCCESS, 'shell')
    s.send(M.channel_data(chan, b'ping1'))
    await s.until(lambda: _echoed(s).endswith(b'ping1'), 'echo1')
    if phase == 'C0':
        await s.inject(probes)
    hooks = {'R0': 30, 'R1': 21}
    if phase in hooks:
        m.hook = (hooks[phase], probes)
    m.start_rekey()
    await s.until(lambda: m.kex_count == 2 and not m.kex_in_progress, 'rekey')
    s.send(M.channel_data(chan, b'ping2'))
    await s.until(lambda: _echoed(s).endswith(b'ping2'), 'echo2')
    s.send(M.channel_close(chan))
    await s.expect(M.MSG_CHANNEL_CLOSE, 'channel-close')
    s.send(M.disconnect(11, 'bye'))
    await s.until(lambda: s.ep_closed, 'disconnect')


def kbdint_request(user):
    return M._msg(M.MSG_USERAUTH_REQUEST, M.sstr(user), M.sstr('ssh-connection'), M.sstr('keyboard-interactive'),
                  M.sstr(''), M.sstr(''))


def publickey_query(user):
    return M._msg(M.MSG_USERAUTH_REQUEST, M.sstr(user), M.sstr('ssh-connection'), M.sstr('publickey'), b'\0',
                  M.sstr('ssh-ed25519'), M.sstr(M.sstr('ssh-ed25519') + M.sstr(_ED25519_PUB)))


def info_request():
    return M._msg(60, M.sstr(''), M.sstr(''), M.sstr(''), M.u32(1), M.sstr('Password:'), b'\0')


def info_response(answers):
    return M._msg(61, M.u32(len(answers)), *[M.sstr(a) for a in answers])


async def script_vs_server_b(s, phase, probes):
    """Second session, MiniSSH is the client: one attempt per method family, each ended by FAILURE."""
    e = env()
    m = s.mini
    await _server_acceptor()
    e['cur'] = s
    s.attach(e['acceptor']('10.0.0.1', 40000))
    await s.until(lambda: m.peer_version is not None and m.peer_kexinit_payload is not None, 'version')
    m.start_rekey()
    await s.until(lambda: m.kex_count == 1, 'kex1')
    s.send(M.client_service_request())
    await s.expect(M.MSG_SERVICE_ACCEPT, 'service')
    s.send(M.client_auth_none('alice'))
    await s.expect(M.MSG_USERAUTH_FAILURE, 'auth-none')
    s.send(kbdint_request('alice'))
    await s.expect(60, 'kbdint-challenge')
    if phase == 'M0':
        await s.inject(probes)
    s.send(info_response(['wrong answer']))
    await s.expect(M.MSG_USERAUTH_FAILURE, 'kbdint-failure')
    if phase == 'M1':
        await s.inject(probes)
    s.send(publickey_query('alice'))
    await s.expect(M.MSG_USERAUTH_FAILURE, 'publickey-failure')
    if phase == 'M2':
        await s.inject(probes)
    s.send(M.client_auth_password('alice', 'not the password'))
    await s.expect(M.MSG_USERAUTH_FAILURE, 'password-failure')
    if phase == 'M3':
        await s.inject(probes)
    s.send(M.client_auth_password('alice', PASSWORDS['alice']))
    await s.expect(M.MSG_USERAUTH_SUCCESS, 'auth-password')
    s.send(M.channel_open_session(MY_CHAN, WINDOW, MAXPKT))
    conf = await s.expect(M.MSG_CHANNEL_OPEN_CONFIRMATION, 'channel-open')
    r = M.Reader(conf[1])
    r.get_u32()
    chan = r.get_u32()
    s.send(M.channel_request_shell(chan))
    await s.expect(M.MSG_CHANNEL_SUCCESS, 'shell')
    s.send(M.channel_data(chan, b'ping1'))
    await s.until(lambda: _echoed(s).endswith(b'ping1'), 'echo1')
    s.send(M.channel_close(chan))
    await s.expect(M.MSG_CHANNEL_CLOSE, 'channel-close')
    s.send(M.disconnect(11, 'bye'))
    await s.until(lambda: s.ep_closed, 'disconnect')


async def script_vs_client_b(s, phase, probes):
    """Second session, MiniSSH is the server: the client prefers keyboard-interactive, then password."""
    e = env()
    asyncssh = e['asyncssh']
    m = s.mini
    e['cur'] = s
    if 'cli_options_b' not in e:
        e['cli_options_b'] = asyncssh.SSHClientConnectionOptions(
            known_hosts=None, username='alice', client_keys=None, config=None, agent_path=None,
            client_factory=lambda: _ENV['Cli'](), kex_algs=[KEX.decode()], encryption_algs=[ENC.decode()],
            mac_algs=[MAC.decode()], compression_algs=['none'], server_host_key_algs=[HK.decode()],
            preferred_auth=['keyboard-interactive', 'password'], login_timeout=0, keepalive_interval=0,
            connect_timeout=None)

    async def connect():
        try:
            conn = await asyncssh.connect('mem', 22, tunnel=s, options=e['cli_options_b'])
            s.ev.append(('connect', 'ok', conn.get_extra_info('username')))
            return conn
        except Exception as exc:      # noqa
            s.ev.append(('connect', exc_class(exc)))
            return None
    s.connect_task = asyncio.ensure_future(connect())
    for _ in range(50):
        if s.conn is not None:
            break
        await asyncio.sleep(0)
    if s.conn is None:
        raise Stop('connect', 'no-connection')
    await s.until(lambda: m.peer_version is not None and m.peer_kexinit_payload is not None, 'version')
    m.start_rekey()
    await s.until(lambda: m.kex_count == 1, 'kex1')
    await s.expect(M.MSG_SERVICE_REQUEST, 'service-request')
    s.send(M.service_accept('ssh-userauth'))
    await s.expect(M.MSG_USERAUTH_REQUEST, 'auth-none')
    s.send(M.userauth_failure(['keyboard-interactive', 'password']))
    req = await s.expect(M.MSG_USERAUTH_REQUEST, 'auth-kbdint')
    if b'keyboard-interactive' not in req[1]:
        raise Stop('auth-kbdint', 'no-kbdint-request')
    if phase == 'M0':
        await s.inject(probes)
    s.send(info_request())
    await s.expect(61, 'kbdint-response')
    if phase == 'M1':
        await s.inject(probes)
    s.send(M.userauth_failure(['password']))
    req = await s.expect(M.MSG_USERAUTH_REQUEST, 'auth-password')
    if PASSWORDS['alice'].encode() not in req[1]:
        raise Stop('auth-password', 'no-password-request')
    if phase == 'M2':
        await s.inject(probes)
    s.send(M.userauth_failure(['keyboard-interactive']))
    await s.expect(M.MSG_USERAUTH_REQUEST, 'auth-kbdint-2')
    s.send(info_request())
    await s.expect(61, 'kbdint-response-2')
    s.send(M.userauth_success())
    await s.until(lambda: s.connect_task.done(), 'connect-returns')
    conn = s.connect_task.result()
    if conn is None:
        raise Stop('connect-returns', 'connect-failed')
    if phase == 'M3':
        await s.inject(probes)

    await _client_tail(s, conn)


def pk_ok_for(req_payload_after_type):
    """PK_OK echoing algorithm and key of a publickey query (payload after the type byte)."""
    r = M.Reader(req_payload_after_type)
    r.get_string(); r.get_string(); r.get_string(); r.get_bool()
    alg, blob = r.get_string(), r.get_string()
    return M._msg(60, M.sstr(alg), M.sstr(blob))


async def script_vs_client_c(s, phase, probes, flavour):
    """Client sessions whose credential callbacks suspend (gated): the windows between two methods.
    flavour 1: 'none' refused [N0] - kbdint request, challenge, prompt cancelled [N1] - password request,
               PASSWD_CHANGEREQ, not supported [N2] - publickey: query, PK_OK, signed request, SUCCESS
    flavour 2: 'none' refused - kbdint callback offers nothing [N3] - password callback offers nothing [N4] -
               publickey query, FAILURE [N5] - publickey query again, PK_OK, signed request, SUCCESS"""
    e = env()
    asyncssh = e['asyncssh']
    m = s.mini
    e['cur'] = s
    s.gated = True
    if 'cli_options_c' not in e:
        e['cli_key'] = asyncssh.generate_private_key('ssh-ed25519')
        e['cli_options_c'] = asyncssh.SSHClientConnectionOptions(
            known_hosts=None, username='alice', client_keys=None, config=None, agent_path=None,
            client_factory=lambda: _ENV['Cli'](), kex_algs=[KEX.decode()], encryption_algs=[ENC.decode()],
            mac_algs=[MAC.decode()], compression_algs=['none'], server_host_key_algs=[HK.decode()],
            preferred_auth=['keyboard-interactive', 'password', 'publickey'], login_timeout=0,
            keepalive_interval=0, connect_timeout=None)

    async def connect():
        try:
            conn = await asyncssh.connect('mem', 22, tunnel=s, options=e['cli_options_c'])
            s.ev.append(('connect', 'ok', conn.get_extra_info('username')))
            return conn
        except Exception as exc:      # noqa
            s.ev.append(('connect', exc_class(exc)))
            return None
    s.connect_task = asyncio.ensure_future(connect())
    for _ in range(50):
        if s.conn is not None:
            break
        await asyncio.sleep(0)
    if s.conn is None:
        raise Stop('connect', 'no-connection')
    await s.until(lambda: m.peer_version is not None and m.peer_kexinit_payload is not None, 'version')
    m.start_rekey()
    await s.until(lambda: m.kex_count == 1, 'kex1')
    await s.expect(M.MSG_SERVICE_REQUEST, 'service-request')
    s.send(M.service_accept('ssh-userauth'))
    await s.expect(M.MSG_USERAUTH_REQUEST, 'auth-none')
    s.send(M.userauth_failure(['keyboard-interactive', 'password', 'publickey']))
    await s.until(lambda: 'kbdint' in s.gates, 'kbdint-callback')
    if flavour == 1:
        if phase == 'N0':
            await s.inject(probes)
        await s.release('kbdint', '', 1)
        await s.expect(M.MSG_USERAUTH_REQUEST, 'auth-kbdint')
        s.send(info_request())
        await s.until(lambda: 'password' in s.gates, 'password-callback')
        if phase == 'N1':
            await s.inject(probes)
        await s.release('password', PASSWORDS['alice'], 1)
        await s.expect(M.MSG_USERAUTH_REQUEST, 'auth-password')
        s.send(M._msg(60, M.sstr('new password please'), M.sstr('')))
        await s.until(lambda: 'publickey' in s.gates, 'publickey-callback')
        if phase == 'N2':
            await s.inject(probes)
    else:
        await s.release('kbdint', None, 0)
        await s.until(lambda: 'password' in s.gates, 'password-callback')
        if phase == 'N3':
            await s.inject(probes)
        await s.release('password', None, 0)
        await s.until(lambda: 'publickey' in s.gates, 'publickey-callback')
        if phase == 'N4':
            await s.inject(probes)
        await s.release('publickey', e['cli_key'], 1)
        await s.expect(M.MSG_USERAUTH_REQUEST, 'auth-publickey-1')
        s.send(M.userauth_failure(['publickey']))
        await s.until(lambda: 'publickey' in s.gates, 'publickey-callback-2')
        if phase == 'N5':
            await s.inject(probes)
    await s.release('publickey', e['cli_key'], 1)
    q = await s.expect(M.MSG_USERAUTH_REQUEST, 'auth-publickey-query')
    s.send(pk_ok_for(q[1]))
    await s.expect(M.MSG_USERAUTH_REQUEST, 'auth-publickey-signed')
    s.send(M.userauth_success())
    await s.until(lambda: s.connect_task.done(), 'connect-returns')
    conn = s.connect_task.result()
    if conn is None:
        raise Stop('connect-returns', 'connect-failed')
    await _client_tail(s, conn)


async def script_vs_client_c1(s, phase, probes):
    await script_vs_client_c(s, phase, probes, 1)


async def script_vs_client_c2(s, phase, probes):
    await script_vs_client_c(s, phase, probes, 2)


async def script_vs_client_d(s, phase, probes):
    """Client session in which the server starts a re-key while authentication is running ('none' request
    outstanding); the probes are injected while that exchange is open (before MiniSSH's KEX reply), i.e. while the
    client defers every non-kex packet it wants to send."""
    e = env()
    asyncssh = e['asyncssh']
    m = s.mini
    e['cur'] = s
    if 'cli_options' not in e:
        e['cli_options'] = asyncssh.SSHClientConnectionOptions(
            known_hosts=None, username='alice', client_keys=None, config=None, agent_path=None,
            client_factory=lambda: _ENV['Cli'](), kex_algs=[KEX.decode()], encryption_algs=[ENC.decode()],
            mac_algs=[MAC.decode()], compression_algs=['none'], server_host_key_algs=[HK.decode()],
            preferred_auth=['password'], login_timeout=0, keepalive_interval=0, connect_timeout=None)

    async def connect():
        try:
            conn = await asyncssh.connect('mem', 22, tunnel=s, options=e['cli_options'])
            s.ev.append(('connect', 'ok', conn.get_extra_info('username')))
            return conn
        except Exception as exc:      # noqa
            s.ev.append(('connect', exc_class(exc)))
            return None
    s.connect_task = asyncio.ensure_future(connect())
    for _ in range(50):
        if s.conn is not None:
            break
        await asyncio.sleep(0)
    if s.conn is None:
        raise Stop('connect', 'no-connection')
    await s.until(lambda: m.peer_version is not None and m.peer_kexinit_payload is not None, 'version')
    m.start_rekey()
    await s.until(lambda: m.kex_count == 1, 'kex1')
    await s.expect(M.MSG_SERVICE_REQUEST, 'service-request')
    s.send(M.service_accept('ssh-userauth'))
    await s.expect(M.MSG_USERAUTH_REQUEST, 'auth-none')
    if probes:
        m.hook = (31, probes)
    m.start_rekey()
    await s.until(lambda: m.kex_count == 2 and not m.kex_in_progress, 'rekey')
    s.send(M.userauth_failure(['password']))
    req = await s.expect(M.MSG_USERAUTH_REQUEST, 'auth-password')
    s.send(M.userauth_success())
    await s.until(lambda: s.connect_task.done(), 'connect-returns')
    conn = s.connect_task.result()
    if conn is None:
        raise Stop('connect-returns', 'connect-failed')
    await _client_tail(s, conn)


async def _client_tail(s, conn):
    """After authentication (client endpoint): session channel, echo, close."""
    async def open_session():
        try:
            chan, sess = await conn.create_session(lambda: _ENV['Collect'](), encoding=None)
            s.ev.append(('session_open',))
            return chan, sess
        except Exception as exc:      # noqa
            s.ev.append(('session_open_failed', exc_class(exc)))
            return None
    s.session_task = asyncio.ensure_future(open_session())
    op = await s.expect(M.MSG_CHANNEL_OPEN, 'channel-open')
    r = M.Reader(op[1])
    r.get_string()
    peer_chan = r.get_u32()
    s.send(M.channel_open_confirmation(peer_chan, MY_CHAN, WINDOW, MAXPKT))
    await s.expect(M.MSG_CHANNEL_REQUEST, 'shell')
    s.send(M.channel_success(peer_chan))
    await s.until(lambda: s.session_task.done(), 'session-open')
    res = s.session_task.result()
    if res is None:
        raise Stop('session-open', 'failed')
    chan, csess = res
    _app(lambda: chan.write(b'ping1'), 'data1')
    await s.until(lambda: _echoed(s).endswith(b'ping1'), 'data1')
    s.send(M.channel_data(peer_chan, b'ping1'))
    await s.until(lambda: bytes(csess.got).endswith(b'ping1'), 'echo1')
    _app(chan.close, 'channel-close')
    await s.expect(M.MSG_CHANNEL_CLOSE, 'channel-close')
    s.send(M.channel_close(peer_chan))
    await s.pump()
    _app(conn.close, 'disconnect')
    await s.until(lambda: s.ep_closed, 'disconnect')


async def _server_acceptor():
    e = env()
    if 'acceptor' not in e:
        e['acc_sess'] = _ListenTunnel()
        await e['asyncssh'].listen('mem', 22, tunnel=e['acc_sess'], server_factory=lambda: _ENV['Srv'](),
                                   server_host_keys=[e['srv_key']], kex_algs=[KEX.decode()],
                                   encryption_algs=[ENC.decode()], mac_algs=[MAC.decode()],
                                   compression_algs=['none'], encoding=None, login_timeout=0,
                                   keepalive_interval=0)
        e['acceptor'] = e['acc_sess'].server_factory


def _app(fn, step):
    """An application-side call of the scripted session; an exception ends the script at that step."""
    try:
        fn()
    except Exception as exc:      # noqa
        raise Stop(step, 'app:' + type(exc).__name__) from None


async def script_vs_client(s, phase, probes):
    """MiniSSH is the server; the real endpoint is an asyncssh client."""
    e = env()
    asyncssh = e['asyncssh']
    m = s.mini
    e['cur'] = s
    if 'cli_options' not in e:
        e['cli_options'] = asyncssh.SSHClientConnectionOptions(
            known_hosts=None, username='alice', client_keys=None, config=None, agent_path=None,
            client_factory=lambda: _ENV['Cli'](), kex_algs=[KEX.decode()], encryption_algs=[ENC.decode()],
            mac_algs=[MAC.decode()], compression_algs=['none'], server_host_key_algs=[HK.decode()],
            preferred_auth=['password'], login_timeout=0, keepalive_interval=0, connect_timeout=None)
    hooks = {'K0': 20, 'K1': 31, 'K2': 21}
    if phase in hooks:
        m.hook = (hooks[phase], probes)

    async def connect():
        try:
            conn = await asyncssh.connect('mem', 22, tunnel=s, options=e['cli_options'])
            s.ev.append(('connect', 'ok', conn.get_extra_info('username')))
            return conn
        except Exception as exc:      # noqa
            s.ev.append(('connect', exc_class(exc)))
            return None
    s.connect_task = asyncio.ensure_future(connect())
    for _ in range(50):
        if s.conn is not None:
            break
        await asyncio.sleep(0)
    if s.conn is None:
        raise Stop('connect', 'no-connection')
    await s.until(lambda: m.peer_version is not None and m.peer_kexinit_payload is not None, 'version')
    m.start_rekey()
    await s.until(lambda: m.kex_count == 1, 'kex1')
    await s.expect(M.MSG_SERVICE_REQUEST, 'service-request')
    if phase == 'E0':
        await s.inject(probes)
    s.send(M.service_accept('ssh-userauth'))
    await s.expect(M.MSG_USERAUTH_REQUEST, 'auth-none')
    s.send(M.userauth_failure(['password']))
    req = await s.expect(M.MSG_USERAUTH_REQUEST, 'auth-password')
    if PASSWORDS['alice'].encode() not in req[1]:
        raise Stop('auth-password', 'no-password-request')
    if phase == 'A0':
        await s.inject(probes)
    s.send(M.userauth_success())
    await s.until(lambda: s.connect_task.done(), 'connect-returns')
    conn = s.connect_task.result()
    if conn is None:
        raise Stop('connect-returns', 'connect-failed')
    if phase == 'A1':
        await s.inject(probes)

    async def open_session():
        try:
            chan, sess = await conn.create_session(lambda: _ENV['Collect'](), encoding=None)
            s.ev.append(('session_open',))
            return chan, sess
        except Exception as exc:      # noqa
            s.ev.append(('session_open_failed', exc_class(exc)))
            return None
    s.session_task = asyncio.ensure_future(open_session())
    op = await s.expect(M.MSG_CHANNEL_OPEN, 'channel-open')
    r = M.Reader(op[1])
    r.get_string()
    peer_chan = r.get_u32()
    s.send(M.channel_open_confirmation(peer_chan, MY_CHAN, WINDOW, MAXPKT))
    await s.expect(M.MSG_CHANNEL_REQUEST, 'shell')
    s.send(M.channel_success(peer_chan))
    await s.until(lambda: s.session_task.done(), 'session-open')
    res = s.session_task.result()
    if res is None:
        raise Stop('session-open', 'failed')
    chan, csess = res
    _app(lambda: chan.write(b'ping1'), 'data1')
    await s.until(lambda: _echoed(s).endswith(b'ping1'), 'data1')
    s.send(M.channel_data(peer_chan, b'ping1'))
    await s.until(lambda: bytes(csess.got).endswith(b'ping1'), 'echo1')
    if phase == 'C0':
        await s.inject(probes)
    hooks = {'R0': 31, 'R1': 21}
    if phase in hooks:
        m.hook = (hooks[phase], probes)
    m.start_rekey()
    await s.until(lambda: m.kex_count == 2 and not m.kex_in_progress, 'rekey')
    _app(lambda: chan.write(b'ping2'), 'data2')
    await s.until(lambda: _echoed(s).endswith(b'ping2'), 'data2')
    s.send(M.channel_data(peer_chan, b'ping2'))
    await s.until(lambda: bytes(csess.got).endswith(b'ping2'), 'echo2')
    _app(chan.close, 'channel-close')
    await s.expect(M.MSG_CHANNEL_CLOSE, 'channel-close')
    s.send(M.channel_close(peer_chan))
    await s.pump()
    _app(conn.close, 'disconnect')
    await s.until(lambda: s.ep_closed, 'disconnect')


async def run_session(role, strict, phase=None, probes=(), glue=None, pos=None, script=None):
    """Run the scripted session with `probes` (payload byte strings) injected at `phase` (None = twin).
    Returns a transcript dict (JSON-able after canon())."""
    s = Sess(role, strict)
    s.glue = glue
    if pos is not None:
        if glue == 'prev' and pos > 0:
            s.mini.inject_after = (pos - 1, [bytes(p) for p in probes])
        else:
            s.mini.inject_pos = (pos, [bytes(p) for p in probes])
    final = ('completed',)
    script = script or script_of(phase)
    if script in ('GW', 'GR'):
        s.mini.guess = 'wrong' if script == 'GW' else 'right'
    fn = {('server', 'A'): script_vs_server, ('client', 'A'): script_vs_client,
          ('server', 'B'): script_vs_server_b, ('client', 'B'): script_vs_client_b,
          ('client', 'C1'): script_vs_client_c1, ('client', 'C2'): script_vs_client_c2,
          ('client', 'D'): script_vs_client_d, ('server', 'GW'): script_vs_server, ('client', 'GW'): script_vs_client,
          ('server', 'GR'): script_vs_server, ('client', 'GR'): script_vs_client}[(role, script)]
    try:
        await fn(s, 'K1' if phase in ('G1', 'G2') else phase, [bytes(p) for p in probes])
    except Stop as st:
        final = ('stopped', st.step, st.why)
    # wind down whatever is left so nothing leaks into the next session
    try:
        if s.conn is not None and not s.ep_closed:
            s.conn.abort()
        for f in list(s.gates.values()):
            if not f.done():
                f.cancel()
        for t in (s.connect_task, s.session_task):
            if t is not None and not t.done():
                t.cancel()
        for _ in range(6):
            await asyncio.sleep(0)
    except Exception:       # noqa
        pass
    s.feed_mini()
    return {'role': role, 'strict': strict, 'phase': phase, 'script': script, 'final': final, 'rx': s.rx, 'ev': s.ev,
            'reactions': s.reactions, 'steps': s.steps, 'own_count': s.mini.own_count, 'mini_failed': s.mini_failed, 'negotiated_strict': s.mini.strict,
            'kex_count': s.mini.kex_count}


# ---------------------------------------------------------------------------------------------------
# verdicts

def strip_seq(msgs):
    return [tuple(x for x in m if not (isinstance(x, tuple) and x and x[0] == 'seq')) for m in msgs]


def _is_prefix(a, b):
    return len(a) <= len(b) and list(a) == list(b[:len(a)])


_END_EVENTS = ('lost', 'session_lost', 'connect', 'session_open_failed')


def verdict(tr, twin):
    """Classify what the injected message(s) did, by observation from outside:
       F  fatal: the endpoint ended the connection in direct reaction, nothing else visible happened
       L  late fatal: no visible reaction (or only an UNIMPLEMENTED reply); the rest of the session is a
          prefix of the untampered twin and then the endpoint ends the connection
       U  answered with UNIMPLEMENTED carrying the probe's sequence number; rest of the session == twin
       I  ignored: no reaction at all; rest of the session == twin
       H  handled: anything else (a reply, an application-visible event, a different continuation, a hang)
       X  the probe could not be delivered (machinery problem)
    With several probes in one session each reaction is classified locally and the session gets F/L/H or
    N (= every probe was answered by UNIMPLEMENTED or ignored and the rest == twin).
    Returns (verdict, reason)."""
    if not tr['reactions']:
        return 'X', 'probe-not-delivered'
    rx_all, ev_all = strip_seq(tr['rx']), list(tr['ev'])
    keep_rx, keep_ev = [True] * len(rx_all), [True] * len(ev_all)
    local = []
    for rc in tr['reactions']:
        if rc.get('with_script_packet'):
            return 'G', 'glued-with-script-packet'
        react_rx = strip_seq(rc['rx'])
        for i in range(rc['mark_rx'], rc['mark_rx'] + len(react_rx)):
            keep_rx[i] = False
        for i in range(rc['mark_ev'], rc['mark_ev'] + len(rc['ev'])):
            keep_ev[i] = False
        visible = [m for m in react_rx if m[0] != M.MSG_IGNORE]
        app = [e for e in rc['ev'] if e[0] not in _END_EVENTS]
        # only UNIMPLEMENTED replies, each naming a different probe of this group
        named = [v[1] for v in visible if v[0] == M.MSG_UNIMPLEMENTED]
        unimpl = (bool(visible) and len(named) == len(visible) and len(set(named)) == len(named) and
                  all(n in [struct.pack('>I', q) for q in rc['seqs']] for n in named))
        if rc['closed'] or rc['disconnect'] is not None:
            others = [m for m in visible if m[0] not in (M.MSG_DISCONNECT, M.MSG_UNIMPLEMENTED)]
            local.append(('F', '') if not others and not app else ('H', 'effect-then-close'))
        elif not visible and not app:
            local.append(('I', ''))
        elif unimpl and not app:
            local.append(('U', ''))
        else:
            local.append(('H', 'reply' if visible and not unimpl else 'app-event'))
    rest_rx = [m for m, k in zip(rx_all, keep_rx) if k]
    rest_ev = [e for e, k in zip(ev_all, keep_ev) if k]
    for v, why in local:
        if v == 'H':
            return 'H', why
    if local[-1][0] == 'F':
        return 'F', ''
    same = rest_rx == strip_seq(twin['rx']) and rest_ev == list(twin['ev']) and tr['final'] == twin['final']
    if same:
        return (local[0][0] if len(local) == 1 else 'N'), ''
    fin = tr['final']
    if fin[0] == 'stopped' and fin[2] == 'closed':
        trx = [m for m in rest_rx if m[0] not in (M.MSG_DISCONNECT, M.MSG_IGNORE)]
        twx = [m for m in strip_seq(twin['rx']) if m[0] not in (M.MSG_DISCONNECT, M.MSG_IGNORE)]
        tev = [e for e in rest_ev if e[0] not in _END_EVENTS]
        twe = [e for e in twin['ev'] if e[0] not in _END_EVENTS]
        if _is_prefix(trx, twx) and _is_prefix(tev, twe):
            return 'L', fin[1]
        return 'H', 'later-differs-then-close'
    if fin != twin['final']:
        return 'H', 'later:' + '/'.join(str(x) for x in fin)
    return 'H', 'later-differs'


# ---------------------------------------------------------------------------------------------------
# payloads

def kexinit_payload(strict, role_of_sender):
    kex = [KEX]
    if strict:
        kex.append(M.STRICT_C if role_of_sender == 'client' else M.STRICT_S)
    return (bytes([M.MSG_KEXINIT]) + bytes(range(16)) + M.namelist(kex) + M.namelist([HK]) + M.namelist([ENC]) * 2 +
            M.namelist([MAC]) * 2 + M.namelist([b'none']) * 2 + M.namelist([]) * 2 + b'\0' + M.u32(0))


_X25519_PUB = bytes.fromhex('8520f0098930a754748b7ddcb43ef75a0dbf3a0d26381af4eba4a98eaa9b4e6a')     # RFC 7748 6.1


_ED25519_PUB = bytes.fromhex('d75a980182b10ab7d54bfed3c964073a0ee172f3daa62325af021a68f707511a')


def wf_body(t, to_role, strict=True):
    """A well-formed body for message type t as sent TO an endpoint of role `to_role`, chosen so that it
    would have a visible effect if it were processed; b'' where the type has no defined format."""
    S, U = M.sstr, M.u32
    sender = 'client' if to_role == 'server' else 'server'
    if t == 1:
        return U(11) + S('bye') + S('')
    if t == 2:
        return S('x')
    if t == 3:
        return U(0)
    if t == 4:
        return b'\1' + S('dbg') + S('')
    if t in (5, 6):
        return S('ssh-userauth')
    if t == 7:
        return U(1) + S('server-sig-algs') + S('ssh-ed25519')
    if t == 20:
        return kexinit_payload(strict, sender)[1:]
    if t == 30:
        return S(_X25519_PUB)
    if t == 31:
        # a real Ed25519 public key (RFC 8032 7.1 test 1) with a signature that cannot verify; an all-zero
        # key would be a small-order point for which OpenSSL accepts the all-zero signature one time in four
        return S(S('ssh-ed25519') + S(_ED25519_PUB)) + S(_X25519_PUB) + S(S('ssh-ed25519') + S(bytes(64)))
    if t == 50:
        return S('mallory') + S('ssh-connection') + S('password') + b'\0' + S(PASSWORDS['mallory'])
    if t == 51:
        return M.namelist(['password']) + b'\0'
    if t == 53:
        return S('injected banner\n') + S('')
    if t == 60:
        # to a client: a complete INFO_REQUEST with one prompt (its first two strings also read as a
        # PASSWD_CHANGEREQ, which is not checked for trailing data); to a server: PK_OK / CHANGEREQ shape
        return (S('') + S('') + S('') + U(1) + S('Password:') + b'\0') if to_role == 'client' else \
            S('new password please') + S('')
    if t == 61:
        # to a server: the answer its validator WOULD accept
        return (U(1) + S(KBD_ANSWER)) if to_role == 'server' else U(0)
    if t == 80:
        return S('keepalive@openssh.com') + b'\1'
    if t == 90:
        return S('session') + U(33) + U(WINDOW) + U(MAXPKT)
    if t == 91:
        return U(EP_CHAN) + U(34) + U(WINDOW) + U(MAXPKT)
    if t == 92:
        return U(EP_CHAN) + U(1) + S('no') + S('')
    if t == 93:
        return U(EP_CHAN) + U(1000)
    if t == 94:
        return U(EP_CHAN) + S('inj')
    if t == 95:
        return U(EP_CHAN) + U(1) + S('inj')
    if t in (96, 97, 99, 100):
        return U(EP_CHAN)
    if t == 98:
        return U(EP_CHAN) + S('exit-status' if to_role == 'client' else 'signal') + b'\0' + \
            (U(3) if to_role == 'client' else S('INT'))
    if 101 <= t <= 127:
        return U(EP_CHAN)
    return b''


def variants(t, to_role, strict=True):
    """{variant: payload}; variants that coincide with an earlier one are left out."""
    wf = bytes([t]) + wf_body(t, to_role, strict)
    out = {'wf': wf}
    for name, p in (('empty', bytes([t])), ('trunc', wf[:-1]), ('trail', wf + b'\0')):
        if len(p) >= 1 and p not in out.values():
            out[name] = p
    return out


# ---------------------------------------------------------------------------------------------------
# worker entry points (one event loop per worker process, many sessions per loop)

def _canon(o):
    if isinstance(o, (bytes, bytearray)):
        return {'b': bytes(o).hex()}
    if isinstance(o, (list, tuple)):
        return [_canon(x) for x in o]
    if isinstance(o, dict):
        return {k: _canon(v) for k, v in o.items()}
    return o


def worker_init(repo, fresh_loop=False):
    import sys
    os.environ.setdefault('PYTHONHASHSEED', '0')
    if repo not in sys.path:
        sys.path.insert(0, repo)
    import logging
    logging.disable(logging.CRITICAL)
    if fresh_loop:                      # a forked worker must not share the parent's event loop (selector, self-pipe)
        for k in ('loop', 'acceptor', 'acc_sess', 'cli_options'):
            _ENV.pop(k, None)


async def _batch(jobs):
    loop = asyncio.get_running_loop()
    loop.set_default_executor(InlineExecutor(max_workers=1))
    loop.set_exception_handler(lambda lp, ctx: _ENV.setdefault('loop_errors', []).append(
        {k: repr(v)[:300] for k, v in ctx.items()}))
    twins, out = {}, []
    for job in jobs:
        role, strict, phase = job['role'], job['strict'], job['phase']
        script = job.get('script') or script_of(phase)
        tscript = 'A' if script in ('GW', 'GR') else script
        key = (role, strict, tscript)
        if key not in twins:
            twins[key] = await run_session(role, strict, script=tscript)
        probes = [bytes.fromhex(p) for p in job['probes']]
        tr = await run_session(role, strict, phase, probes, glue=job.get('glue'), pos=job.get('pos'), script=script)
        v, why = verdict(tr, twins[key])
        res = {'job': job, 'verdict': v, 'why': why, 'final': list(tr['final']),
               'twin_final': list(twins[key]['final'])}
        if job.get('detail') or v in ('H', 'X'):
            rc = tr['reactions'][0] if tr['reactions'] else None
            res['reaction'] = _canon({'rx': strip_seq(rc['rx']), 'ev': rc['ev'], 'closed': rc['closed'],
                                      'step': rc['step'], 'seqs': rc['seqs']}) if rc else None
            res['ev'] = _canon(tr['ev'])
        if job.get('steps'):
            res['brief'] = [{'chunk': [((-2 if c.get('release') is not None else c['payload'][0] if c['payload'] else -1),
                                        bool(c['probe'])) for c in st['chunk']],
                             'outs': [o[0] for o in st['outs']], 'ev': _canon(st['ev']), 'closed': st['closed']}
                            for st in tr['steps']]
            res['coq_steps'] = coq_steps(tr, job.get('mal', ()))
            res['script'] = tr['script']
            res['nsteps'] = len(tr['steps'])
            res['ev'] = _canon(tr['ev'])
            res['sent50'] = sum(1 for m in tr['rx'] if m[0] == M.MSG_USERAUTH_REQUEST)
        if job.get('detail'):
            res['rx'] = _canon(tr['rx'])
            res['twin_ev'] = _canon(twins[key]['ev'])
            res['reactions'] = _canon([{k: x[k] for k in ('rx', 'ev', 'closed', 'step', 'seqs')}
                                       for x in tr['reactions']])
        out.append(res)
    return out, _ENV.pop('loop_errors', [])


def run_batch(jobs):
    """All sessions of one process run on one event loop (the reusable server factory and the prebuilt client
    options are bound to it)."""
    loop = _ENV.get('loop')
    if loop is None or loop.is_closed():
        for k in ('acceptor', 'acc_sess', 'cli_options'):
            _ENV.pop(k, None)
        loop = _ENV['loop'] = asyncio.new_event_loop()
    asyncio.set_event_loop(loop)
    return loop.run_until_complete(_batch(jobs))


# ---------------------------------------------------------------------------------------------------
# the verdict table

def table_jobs(types):
    """One job per distinct payload of (role, strict, phase, type, variant)."""
    jobs = []
    for role in ROLES:
        for strict in (True, False):
            for t in types:
                vs = variants(t, role, strict)
                for ph in phases_of(role):
                    for name, p in vs.items():
                        jobs.append({'role': role, 'strict': strict, 'phase': ph, 't': t, 'variant': name,
                                     'probes': [p.hex()]})
    return jobs


def run_jobs(jobs, repo, workers=None, chunk=150, timeout=600):
    """Shard jobs over worker processes. Returns (results in job order, loop errors)."""
    import multiprocessing
    workers = workers or max(2, min(12, (os.cpu_count() or 4) - 2))
    if len(jobs) <= chunk:
        worker_init(repo)
        return run_batch(jobs)
    # interleave so that every shard holds a mix of cheap and expensive sessions
    shards = [jobs[i::max(1, (len(jobs) + chunk - 1) // chunk)] for i in range(max(1, (len(jobs) + chunk - 1) // chunk))]
    ctx = multiprocessing.get_context('fork')
    res_by_id, errs = {}, []
    ex = concurrent.futures.ProcessPoolExecutor(max_workers=workers, mp_context=ctx, initializer=worker_init,
                                                initargs=(repo, True))
    try:
        # wall-clock backstop only: sessions are driven by event loop turns and cannot wait for anything, but a
        # defect in the code under test could spin inside one callback
        for out, e in ex.map(run_batch, shards, timeout=timeout):
            errs += e
            for r in out:
                res_by_id[id_of(r['job'])] = r
    except concurrent.futures.TimeoutError:
        for pr in list(getattr(ex, '_processes', {}).values()):
            try:
                pr.kill()
            except Exception:       # noqa
                pass
        ex.shutdown(wait=False, cancel_futures=True)
        raise RuntimeError('probe workers did not finish within %d s (an endpoint is spinning?)' % timeout)
    ex.shutdown()
    return [res_by_id[id_of(j)] for j in jobs], errs


def id_of(job):
    return (job['role'], job['strict'], job['phase'], job.get('t'), job.get('variant'), tuple(job['probes']),
            job.get('glue'), job.get('pos'), job.get('script'))


# ---------------------------------------------------------------------------------------------------
# abstraction of packets into the model's events (Model/Transport.v)

def classify(payload, to_role, genuine, script='A'):
    """(type, cls) of a packet delivered to an endpoint of role to_role; genuine = built by MiniSSH's own
    protocol engine (so key exchange messages are cryptographically valid).  None payload = version line."""
    if payload is None:
        return -1, 0
    t = payload[0] if payload else 0
    cls = 0
    try:
        r = M.Reader(payload, 1)
        if t == 20:
            r._take(16)
            kex = r.get_namelist()
            lists = [kex] + [r.get_namelist() for _ in range(9)]
            follows = r.get_bool()
            cls = (1 if (M.STRICT_C if to_role == 'server' else M.STRICT_S) in kex else 0) + \
                (2 if (follows and kex[:1] != [KEX]) else 0)
        elif t == 30:
            cls = 0 if len(r.get_string()) == 32 else 1
        elif t == 31:
            cls = 0 if genuine else 1
        elif t == 21:
            cls = 0 if genuine else 1
        elif t in (5, 6):
            cls = 0 if r.get_string() == b'ssh-userauth' else 1
        elif t == 50:
            user, service, method = r.get_string(), r.get_string(), r.get_string()
            u = {b'alice': 1, b'mallory': 2}.get(user, 3)
            if service != b'ssh-connection':
                cls = -1
            elif method == b'none':
                cls = 100 * u
            elif method == b'password':
                r.get_bool()
                pw = r.get_string()
                cls = 100 * u + 10 + {PASSWORDS['alice'].encode(): 1, PASSWORDS['mallory'].encode(): 2}.get(pw, 0)
            elif method == b'keyboard-interactive':
                cls = 100 * u + 30
            elif method == b'publickey':
                cls = 100 * u + 40
            else:
                cls = 100 * u + 20
        elif t == 51:
            # the offered methods the scripted client is configured to use, in its order of preference
            names = r.get_namelist()
            prefs = {'A': [b'password'], 'B': [b'keyboard-interactive', b'password']}.get(
                script, [b'keyboard-interactive', b'password', b'publickey'])
            code = {b'password': 1, b'keyboard-interactive': 2, b'publickey': 3}
            lst = tuple(code[n] for n in prefs if n in names)
            cls = {(): 0, (1,): 1, (2,): 2, (2, 1): 3, (2, 1, 3): 4, (3,): 5}.get(lst, 0)
        elif t == 60 and to_role == 'client':
            # PK_OK naming a key (2); otherwise an INFO_REQUEST the gated application cancels (1) / answers (0)
            cls = 1 if script in ('C1', 'C2') else 0
            try:
                r2 = M.Reader(payload, 1)
                a1 = r2.get_string()
                r2.get_string()
                if r2.pos == len(payload) and a1.startswith(b'ssh-') and genuine:
                    cls = 2
            except M.MiniSSHError:
                pass
        elif t == 61:
            n = r.get_u32()
            cls = 0 if [r.get_string() for _ in range(n)] == [KBD_ANSWER.encode()] else 1
    except M.MiniSSHError:
        cls = 0
    return t, cls


def coq_steps(tr, mal=()):
    """The steps of a transcript as a Coq literal of type list ostep; mal[i] = probe i has a damaged body."""
    to_role = tr['role']
    out = []
    for st in tr['steps']:
        chunk = []
        for c in st['chunk']:
            if c.get('release') is not None:
                chunk.append('((-2),%d,false)' % c['release'])
                continue
            t, cls = classify(c['payload'], to_role, not c['probe'], tr.get('script', 'A'))
            chunk.append('(%s,%s,%s)' % (_cz(t), _cz(cls), 'true' if (c['probe'] and c.get('pidx') is not None and c['pidx'] < len(mal) and mal[c['pidx']])
                                         else 'false'))
        if any(t == 'mini_failed' for (t, a, q) in st['outs']):
            break            # MiniSSH (the observer) gave up on what it received: nothing reliable from here on
        obs = ['(%d,%d,%d)' % (t, a, q) for (t, a, q) in st['outs']]
        out.append('([%s],[%s],%s)' % (';'.join(chunk), ';'.join(obs), 'true' if st['closed'] else 'false'))
    return '[' + ';'.join(out) + ']'


def coq_chunks(steps, to_role, script='A'):
    out = []
    for st in steps:
        chunk = []
        for c in st['chunk']:
            if c.get('release') is not None:
                chunk.append('((-2),%d,false)' % c['release'])
                continue
            t, cls = classify(c['payload'], to_role, not c['probe'], script)
            chunk.append('(%s,%s,false)' % (_cz(t), _cz(cls)))
        out.append('[' + ';'.join(chunk) + ']')
    return '[' + ';'.join(out) + ']'


def _cz(n):
    return '(%d)' % n if n < 0 else str(n)


def _loop():
    loop = _ENV.get('loop')
    if loop is None or loop.is_closed():
        for k in ('acceptor', 'acc_sess', 'cli_options'):
            _ENV.pop(k, None)
        loop = _ENV['loop'] = asyncio.new_event_loop()
        loop.set_default_executor(InlineExecutor(max_workers=1))
    asyncio.set_event_loop(loop)
    return loop


def run_one(role, strict, phase=None, probes=(), glue=None, pos=None, script=None):
    """One session in this process (blocking)."""
    return _loop().run_until_complete(run_session(role, strict, phase, probes, glue=glue, pos=pos, script=script))


def run_twin(role, strict, script='A'):
    return run_one(role, strict, script=script)
