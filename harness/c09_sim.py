"""C09 engine: drive a REAL asyncssh client+server pair over a manually scheduled MemWire with the op
alphabet of coq/Model/Close.v, one endpoint-local model trace per side, and the model-level
observation of each endpoint at every settle point.

Harness ops (JSON lists):
  ['open', pty, keep_c, accept, keep_s, acc_pty, acc_final]   client task conn.create_session(...)
  ['eof'|'close'|'abort'|'pause'|'resume'|'wait_closed'|'read'|'drain', side, cidx]
  ['write', side, cidx, nbytes]
  ['global'] ['conn_close', side] ['conn_abort', side] ['conn_wait', side]
  ['deliver', side]      next queued transport write of `side` is delivered to its peer
  ['deliver_all', side]  everything `side` has queued is delivered (what TCP does before an EOF)
  ['cut'] / ['cut', 'reset']  the link is cut: the byte stream ends / the transports report an error
  ['settle']             the event loop runs until nothing is ready (bounded number of turns)
`cidx` is the ordinal of the 'open' op; the server's index of the same channel may differ.
"""
import asyncio
import struct

from . import memwire

SETTLE_TURNS = 14

SS = {'open': 0, 'eof_pending': 1, 'eof': 2, 'close_pending': 3, 'closed': 4}
UNK = 9
LOG = {'made': 0, 'started': 1, 'data': 2, 'eof': 3, 'lost0': 4, 'lost1': 5}
OLOG = {'made': 0, 'auth': 1, 'lost0': 2, 'lost1': 3}


def _u32(b, off):
    return struct.unpack('>I', b[off:off + 4])[0]


def _sstr(b, off):
    n = _u32(b, off)
    return b[off + 4:off + 4 + n], off + 4 + n


def make_sessions():
    """Recording stream sessions: log the callback, then let the real stream session act."""
    import asyncssh
    from asyncssh import stream

    class RecMixin:
        buffer_data = True

        def _rec_init(self, keep, hw):
            self.log = []
            self.keep = keep
            self.hw = hw
            self.chan = None
            self._in_lost = False

        def connection_made(self, chan):
            self.log.append('made')
            self.chan = chan
            super().connection_made(chan)
            try:
                chan.set_write_buffer_limits(high=self.hw, low=self.hw)
            except Exception:
                pass

        def session_started(self):
            self.log.append('started')

        def data_received(self, data, datatype):
            self.log.append('data')
            if RecMixin.buffer_data:          # False: plain callback session, nothing accumulates in the stream
                super().data_received(data, datatype)

        def eof_received(self):
            if not self._in_lost:
                self.log.append('eof')
            super().eof_received()
            return self.keep

        def connection_lost(self, exc):
            self.log.append('lost1' if exc is not None else 'lost0')
            self._in_lost = True
            try:
                super().connection_lost(exc)
            finally:
                self._in_lost = False

    class CliSess(RecMixin, stream.SSHClientStreamSession):
        def __init__(self, keep, hw):
            stream.SSHClientStreamSession.__init__(self)
            self._rec_init(keep, hw)

    class SrvSess(RecMixin, stream.SSHServerStreamSession):
        def __init__(self, keep, hw, acc_pty, acc_final):
            stream.SSHServerStreamSession.__init__(self, None)
            self._rec_init(keep, hw)
            self.acc_pty = acc_pty
            self.acc_final = acc_final

        def pty_requested(self, term_type, term_size, term_modes):
            return self.acc_pty

        def shell_requested(self):
            return self.acc_final

        def exec_requested(self, command):
            return self.acc_final

        def subsystem_requested(self, subsystem):
            return self.acc_final

    CliSess.mixin = RecMixin
    return CliSess, SrvSess


class Sim:
    def __init__(self, window=256, hw=32, pktsize=128, buffer_data=True):
        self.buffer_data = buffer_data
        self.W = window
        self.hw = hw
        self.pktsize = pktsize
        self.trace = {'c': [], 's': []}          # model ops (Coq text)
        self.obs = {'c': [], 's': []}            # one observation per Settle
        self.olog = {'c': [], 's': []}
        self.cch = []                            # client channels by cidx
        self.sch = []                            # server channels by sidx
        self.s_of_c = {}
        self.c_of_s = {}
        self.cnum = {}                           # client channel number -> cidx
        self.snum = {}                           # server channel number -> sidx
        self.n_open_seen = 0
        self.gfuts = []
        self.cwait = {'c': [], 's': []}
        self.saved_meta = {'c': [], 's': []}
        self.lost_seen = {'c': False, 's': False}
        self.ops = []
        self._pending_open = None
        self._pending_sess = None
        self.errors = []

    # ------------------------------------------------------------------------------------------
    async def start(self):
        import asyncssh
        sim = self
        CliSess, SrvSess = make_sessions()
        CliSess.mixin.buffer_data = self.buffer_data
        self.CliSess, self.SrvSess = CliSess, SrvSess

        class Srv(asyncssh.SSHServer):
            def connection_made(self, conn):
                sim.olog['s'].append('made')

            def connection_lost(self, exc):
                sim.olog['s'].append('lost1' if exc is not None else 'lost0')

            def begin_auth(self, username):
                return False

            def auth_completed(self):
                sim.olog['s'].append('auth')

            def session_requested(self):
                plan = sim._pending_open
                if plan is None or not plan['accept']:
                    return False
                sess = SrvSess(plan['keep_s'], sim.hw, plan['acc_pty'], plan['acc_final'])
                sim._pending_sess = sess
                return sess

            def server_requested(self, listen_host, listen_port):
                return False

        class Cli(asyncssh.SSHClient):
            def connection_made(self, conn):
                sim.olog['c'].append('made')

            def connection_lost(self, exc):
                sim.olog['c'].append('lost1' if exc is not None else 'lost0')

            def auth_completed(self):
                sim.olog['c'].append('auth')

        srv_kw = dict(window=self.W, max_pktsize=self.pktsize, encoding=None, line_editor=False)
        tun, wire, acc, conn = await memwire.connected_pair(Srv, srv_kw=srv_kw,
                                                            cli_kw=dict(client_factory=Cli))
        await memwire.settle(SETTLE_TURNS)
        self.wire, self.acc, self.cconn, self.sconn = wire, acc, wire.cconn, wire.sconn
        self.conn = {'c': wire.cconn, 's': wire.sconn}
        self.loop = asyncio.get_running_loop()
        self.loop.set_exception_handler(lambda loop, ctx: self.errors.append(repr(ctx.get('exception') or ctx.get('message'))))
        memwire.tap(wire.cconn, [], wire, 'c')
        memwire.tap(wire.sconn, [], wire, 's')
        orig = wire.sconn.create_server_channel

        def create_server_channel(*a, **k):
            ch = orig(*a, **k)          # raises ChannelOpenError when the connection is gone
            plan = sim._pending_open
            sidx = len(sim.sch)
            sim.sch.append({'chan': ch, 'sess': sim._pending_sess, 'wc': [], 'rd': [], 'dr': [], 'cidx': plan['cidx']})
            sim.s_of_c[plan['cidx']] = sidx
            sim.c_of_s[sidx] = plan['cidx']
            return ch
        wire.sconn.create_server_channel = create_server_channel
        wire.auto = False
        return self

    # ------------------------------------------------------------------------------------------
    def _chan(self, side, cidx):
        """(chan, sess, record) the application of `side` holds for channel cidx, or None"""
        if cidx >= len(self.cch):
            return None
        if side == 'c':
            r = self.cch[cidx]
            t = r['task']
            if t.done() and not t.cancelled() and t.exception() is None:
                ch, se = t.result()
                return ch, se, r
            return None
        sidx = self.s_of_c.get(cidx)
        if sidx is None:
            return None
        r = self.sch[sidx]
        if r['sess'] is None or r['sess'].chan is None:
            return None
        return r['chan'], r['sess'], r

    def has(self, side, cidx):
        return self._chan(side, cidx) is not None

    def lidx(self, side, cidx):
        return cidx if side == 'c' else self.s_of_c[cidx]

    def _bufcls(self, ch):
        try:
            n = ch.get_write_buffer_size()
        except Exception:
            return 'BEmpty'
        return 'BEmpty' if n == 0 else ('BLow' if n <= self.hw else 'BHigh')

    def _anychan(self, side, lidx):
        """channel object of endpoint-local index (even without an application handle)"""
        if side == 's':
            return self.sch[lidx]['chan'] if lidx < len(self.sch) else None
        r = self.cch[lidx]
        se = r.get('sess')
        return se.chan if se is not None and se.chan is not None else None

    # ------------------------------------------------------------------------------------------
    async def do(self, op):
        import asyncssh
        self.ops.append(op)
        k = op[0]
        T = self.trace
        if k == 'open':
            _, pty, keep_c, accept, keep_s, acc_pty, acc_final = op
            cidx = len(self.cch)
            rec = {'sess': None, 'wc': [], 'rd': [], 'dr': [],
                   'plan': dict(cidx=cidx, accept=accept, keep_s=keep_s, acc_pty=acc_pty, acc_final=acc_final)}

            def factory(rec=rec, keep_c=keep_c):
                rec['sess'] = self.CliSess(keep_c, self.hw)
                return rec['sess']
            rec['task'] = _spawn(self.cconn.create_session(
                factory, term_type=('ansi' if pty else None), window=self.W, max_pktsize=self.pktsize,
                encoding=None))
            self.cch.append(rec)
            T['c'].append(f'LOpen {cb(pty)} {cb(keep_c)}')
        elif k in ('eof', 'close', 'abort', 'pause', 'resume', 'wait_closed', 'read', 'drain', 'write'):
            side, cidx = op[1], op[2]
            h = self._chan(side, cidx)
            if h is None:
                return
            ch, se, rec = h
            li = self.lidx(side, cidx)
            try:
                if k == 'eof':
                    ch.write_eof()
                    T[side].append(f'LEof {li}')
                elif k == 'close':
                    ch.close()
                    T[side].append(f'LClose {li}')
                elif k == 'abort':
                    ch.abort()
                    T[side].append(f'LAbort {li}')
                elif k == 'pause':
                    ch.pause_reading()
                    T[side].append(f'LPause {li}')
                elif k == 'resume':
                    ch.resume_reading()
                    T[side].append(f'LResume {li}')
                elif k == 'wait_closed':
                    rec['wc'].append(_spawn(ch.wait_closed()))
                    T[side].append(f'LWaitClosed {li}')
                elif k == 'read':
                    rec['rd'].append(_spawn(asyncssh.SSHReader(se, ch).read(65536)))
                    T[side].append(f'LRead {li}')
                elif k == 'drain':
                    rec['dr'].append(_spawn(asyncssh.SSHWriter(se, ch).drain()))
                    T[side].append(f'LDrain {li}')
                elif k == 'write':
                    try:
                        asyncssh.SSHWriter(se, ch).write(b'x' * op[3])
                    except OSError:
                        pass
                    T[side].append(f'LWrite {li} {self._bufcls(ch)}')
            except (OSError, asyncssh.Error) as e:      # pragma: no cover
                self.errors.append(f'{k}: {e!r}')
        elif k == 'global':
            self.gfuts.append(_spawn(
                self.cconn.forward_remote_port('', 7000 + len(self.gfuts), 'localhost', 7)))
            # the coroutine only runs at the next loop turn; callers settle right after this op
            T['c'].append('LGlobal')
        elif k == 'conn_close':
            self.conn[op[1]].close()
            T[op[1]].append('LConnClose')
        elif k == 'conn_abort':
            self.conn[op[1]].abort()
            T[op[1]].append('LConnAbort')
        elif k == 'conn_wait':
            self.cwait[op[1]].append(_spawn(self.conn[op[1]].wait_closed()))
            T[op[1]].append('LConnWaitClosed')
        elif k == 'deliver':
            self._deliver(op[1])
        elif k == 'deliver_all':
            while self.wire.q[op[1]] and not self.wire.lost['c' if op[1] == 's' else 's']:
                self._deliver(op[1])
        elif k == 'cut':
            for s in 'cs':
                self.saved_meta[s] += list(self.wire.delivered_meta[s]) + list(self.wire.meta[s])
                self.wire.delivered_meta[s] = []
            # ['cut'] = the stream just ends (FIN); ['cut', 'reset'] = the transport reports an error
            self.wire.cut_link(ConnectionResetError('connection reset') if len(op) > 1 and op[1] == 'reset' else None)
        elif k == 'settle':
            await memwire.settle(SETTLE_TURNS)
            for s in 'cs':
                if self.wire.lost[s] and not self.lost_seen[s]:
                    self.lost_seen[s] = True
                    T[s].append('Cut')
                    # the loss was reported in the middle of this settle: give the loop the same number of
                    # turns again so that both sides of the comparison are quiescent
            await memwire.settle(SETTLE_TURNS)
            for s in 'cs':
                T[s].append('Settle')
                self.obs[s].append(self.observe(s))
        else:
            raise ValueError(op)

    async def run(self, ops):
        for op in ops:
            await self.do(op)

    # ------------------------------------------------------------------------------------------
    def pending(self, side):
        return self.wire.pending(side) if not (self.wire.lost['c'] or self.wire.lost['s'] or self.wire.cut) else 0

    def next_meta(self, side):
        return self.wire.meta[side][0] if self.wire.meta[side] else None

    def _deliver(self, side):
        """deliver the next queued write of `side`; append the decoded packet to the peer's trace"""
        w = self.wire
        if not w.q[side]:
            return
        peer = 's' if side == 'c' else 'c'
        meta = w.meta[side][0]
        mop, post = self._decode_for(peer, meta)
        w.deliver(side, 1)
        if post is not None:
            mop = post()
        self.trace[peer].append(mop)

    def _decode_for(self, Y, meta):
        """model op for endpoint Y receiving the packet described by meta; `post` (if not None) is
        evaluated after delivery to fill in an environment annotation"""
        if meta is None:
            return 'PIgnore', None
        t, p = meta
        loc = (lambda n: self.cnum.get(n)) if Y == 'c' else (lambda n: self.snum.get(n))
        if t == 90:                                      # CHANNEL_OPEN (to the server)
            _, off = _sstr(p, 0)
            cn = _u32(p, off)
            cidx = self.cnum.get(cn)
            plan = self.cch[cidx]['plan'] if cidx is not None else None
            self._pending_open = plan
            self._pending_sess = None
            if plan is None:
                return 'PBad', None
            return f"POpen {cb(plan['accept'])} {cb(plan['keep_s'])}", None
        if t in (91, 92, 93, 94, 95, 96, 97, 98, 99, 100):
            li = loc(_u32(p, 0))
            if li is None:
                return 'PBad', None
            if t == 91:
                return f'PConfirm {li}', None
            if t == 92:
                return f'PFail {li}', None
            if t == 93:
                def post(li=li, Y=Y):
                    ch = self._anychan(Y, li)
                    return f'PAdjust {li} {self._bufcls(ch) if ch is not None else "BEmpty"}'
                return None, post
            if t in (94, 95):
                return f'PData {li}', None
            if t == 96:
                return f'PEof {li}', None
            if t == 97:
                return f'PClose {li}', None
            if t == 98:
                name, off = _sstr(p, 4)
                want = bool(p[off])
                final = name in (b'shell', b'exec', b'subsystem')
                if Y == 's' and name in (b'shell', b'exec', b'subsystem', b'pty-req'):
                    se = self.sch[li]['sess']
                    acc = se.acc_final if final else se.acc_pty
                    return f'PRequest {li} {cb(final)} {cb(want)} {cb(acc)}', None
                return 'PIgnore', None
            return f'PReply {li} {cb(t == 99)}', None
        if t in (81, 82):
            return f'PGlobalReply {cb(t == 81)}', None
        if t == 1:
            return f'PDisconnect {cb(_u32(p, 0) == 11)}', None
        return 'PIgnore', None

    # ------------------------------------------------------------------------------------------
    def emitted(self, X):
        """model-level packets endpoint X has put on the wire so far: (kind, local idx, arg)"""
        w = self.wire
        metas = self.saved_meta[X] + list(w.delivered_meta[X]) + list(w.meta[X])
        out = []
        for m in metas:
            if m is None:
                continue
            t, p = m
            if t == 90:
                _, off = _sstr(p, 0)
                cn = _u32(p, off)
                if cn not in self.cnum:
                    self.cnum[cn] = self.n_open_seen
                    self.n_open_seen += 1
                out.append((0, self.cnum[cn], 0))
            elif t == 91:
                cn, sn = _u32(p, 0), _u32(p, 4)
                if sn not in self.snum and cn in self.cnum and self.cnum[cn] in self.s_of_c:
                    self.snum[sn] = self.s_of_c[self.cnum[cn]]
                out.append((1, self.snum.get(sn, UNK), 0))
            elif t == 92:
                out.append((2, 0, 0))
            elif t in (96, 97, 98, 99, 100):
                n = _u32(p, 0)
                # the recipient number is the PEER's number: translate to X's own index
                if X == 'c':
                    sidx = self.snum.get(n)
                    li = self.c_of_s.get(sidx, UNK) if sidx is not None else UNK
                else:
                    cidx = self.cnum.get(n)
                    li = self.s_of_c.get(cidx, UNK) if cidx is not None else UNK
                if t == 96:
                    out.append((3, li, 0))
                elif t == 97:
                    out.append((4, li, 0))
                elif t == 98:
                    name, off = _sstr(p, 4)
                    if p[off]:
                        out.append((5, li, 0 if name == b'pty-req' else 1))
                else:
                    out.append((6, li, 1 if t == 99 else 0))
            elif t == 80:
                _, off = _sstr(p, 0)
                if p[off]:
                    out.append((7, 0, 0))
            elif t == 1:
                out.append((8, 0, 0))
        return out

    @staticmethod
    def _npending(futs):
        return sum(1 for f in futs if not f.done())

    def observe(self, X):
        conn = self.conn[X]
        self.emitted('c')                 # learn channel numbers in wire order (client first)
        self.emitted('s')
        regs = getattr(conn, '_channels', None)
        chans = []
        recs = self.cch if X == 'c' else self.sch
        for r in recs:
            se = r.get('sess')
            ch = self._anychan(X, len(chans))
            if ch is not None:
                ss = SS.get(getattr(ch, '_send_state', None), UNK)
                rs = SS.get(getattr(ch, '_recv_state', None), UNK)
                reg = UNK if regs is None else int(any(v is ch for v in regs.values()))
            else:
                ss = rs = reg = UNK
            log = [LOG[x] for x in (se.log if se is not None else [])]
            if X == 'c':
                t = r['task']
                cr = 1 if not t.done() else (3 if (t.cancelled() or t.exception() is not None) else 2)
            else:
                cr = 0
            chans.append((ss, rs, reg, log, cr, self._npending(r['wc']), self._npending(r['rd']),
                          self._npending(r['dr'])))
        return (bool(conn.is_closed()), [OLOG[x] for x in self.olog[X]],
                self._npending(self.gfuts) if X == 'c' else 0, self._npending(self.cwait[X]),
                self.emitted(X), chans)

    def all_futures(self):
        """(label, future) for every awaited API call issued so far"""
        out = []
        for i, r in enumerate(self.cch):
            out.append((f'create_session#{i}', r['task']))
        for side, recs in (('c', self.cch), ('s', self.sch)):
            for i, r in enumerate(recs):
                for kind in ('wc', 'rd', 'dr'):
                    for j, f in enumerate(r[kind]):
                        out.append((f'{side}:{ {"wc": "wait_closed", "rd": "read", "dr": "drain"}[kind] }#{i}.{j}', f))
        for j, f in enumerate(self.gfuts):
            out.append((f'global_request#{j}', f))
        for side in 'cs':
            for j, f in enumerate(self.cwait[side]):
                out.append((f'{side}:conn.wait_closed#{j}', f))
        return out

    async def shutdown(self):
        """end of a run: make sure nothing of this pair survives (not part of any observation)"""
        try:
            self.wire.cut_link()
        except Exception:
            pass
        await memwire.settle(6)
        for _, f in self.all_futures():
            if not f.done():
                f.cancel()
        try:
            self.acc.close()
        except Exception:
            pass
        await memwire.settle(4)


def cb(b):
    return 'true' if b else 'false'


def _retrieve(f):
    if not f.cancelled():
        f.exception()


def _spawn(coro):
    """task whose exception (the normal outcome of many calls here) is always retrieved"""
    f = asyncio.ensure_future(coro)
    f.add_done_callback(_retrieve)
    return f
