"""C10 direct oracle (a): MiniSSH (or a raw byte source) as a hostile peer of a real asyncssh endpoint, in
both roles and every protocol phase.  This module is both the library (matrix of hostile payloads, session
drivers, per-payload observations) and the batch runner that the check starts as a SUBPROCESS:

    python -m harness.c10_hostile <jobs.json> <out.jsonl>

so that a blocked event loop (a spin inside asyncssh) becomes a finding instead of a hung check: the parent
(props/c10.py) reads the result lines, and the job that was in flight when the child stopped answering is
the failing input.  Inside the child every job also runs under SIGALRM, which breaks most spins in place and
lets the batch go on.

A job is one connection: {'role': 'server'|'client' (what ASYNCSSH is), 'phase': ..., 'payloads': [hex, ...]
(SSH payloads sent one after the other with MiniSSH's current keys) or 'raw': [hex chunks] (bytes handed to
data_received as they are), 'chunk': n}.  After every payload the event loop is run until nothing moves and
the observations the property talks about are taken: does the connection continue or was it closed and its
owner told (connection_lost(exc)), bytes written and loop turns per input, the loop's exception handler,
tasks left behind.
"""
import asyncio
import concurrent.futures
import gc
import json
import os
import random
import signal
import struct
import sys
import time
import traceback

PHASES = ['prekex', 'inkex', 'postkex', 'inauth', 'authed', 'chan']
EXTREMES = [0, 1, 2 ** 31, 2 ** 32 - 1]
CASE_ALARM = 20            # seconds before SIGALRM interrupts one job (a job normally takes milliseconds)
SETTLE_LIMIT = 3000        # loop turns after which a payload is reported as "never settles"


class InlineExecutor(concurrent.futures.ThreadPoolExecutor):
    """run_in_executor() work (config reloads, option loading) done on the spot: no thread, no wall clock, the
    continuation is scheduled in the next loop turn"""

    def submit(self, fn, *args, **kwargs):
        f = concurrent.futures.Future()
        try:
            f.set_result(fn(*args, **kwargs))
        except BaseException as e:                  # noqa
            f.set_exception(e)
        return f


class Hang(BaseException):
    """raised by the SIGALRM handler inside whatever is spinning"""


def u32(n):
    return struct.pack('>I', n & 0xffffffff)


def sstr(b):
    return u32(len(b)) + b


# ------------------------------------------------------------------------------------------------
# message matrix: every message as a list of typed fields so that each peer-controlled numeric field, length
# and count can be replaced by an extreme value

def F(kind, val):
    return (kind, val)


def enc_field(f):
    k, v = f
    if k == 'u32':
        return u32(v)
    if k == 'u64':
        return struct.pack('>Q', v & (2 ** 64 - 1))
    if k == 'bool' or k == 'byte':
        return bytes([v & 0xff])
    if k == 'str' or k == 'nl':
        return sstr(v)
    if k == 'raw':
        return v
    raise ValueError(k)


def enc(t, fields):
    return bytes([t]) + b''.join(enc_field(f) for f in fields)


def wellformed(chan, peer):
    """(name, type, fields) for every message type asyncssh knows, as sent by a peer.  chan = the channel
    number the endpoint under test allocated (recipient field), peer = ours."""
    U, S, B, R, N = (lambda v: F('u32', v)), (lambda v: F('str', v)), (lambda v: F('bool', v)), \
        (lambda v: F('raw', v)), (lambda v: F('nl', v))
    ms = [
        ('disconnect', 1, [U(11), S(b'bye'), S(b'')]),
        ('disconnect_proto', 1, [U(2), S(b'x'), S(b'en')]),
        ('ignore', 2, [S(b'data')]),
        ('unimplemented', 3, [U(0)]),
        ('debug', 4, [B(1), S(b'msg'), S(b'')]),
        ('service_request', 5, [S(b'ssh-userauth')]),
        ('service_request_conn', 5, [S(b'ssh-connection')]),
        ('service_accept', 6, [S(b'ssh-userauth')]),
        ('ext_info', 7, [U(1), S(b'server-sig-algs'), S(b'ssh-ed25519,rsa-sha2-256')]),
        ('ext_info2', 7, [U(2), S(b'global-requests-ok'), S(b''), S(b'x'), S(b'y')]),
        ('newcompress', 8, []),
        ('kexinit', 20, [R(b'\x11' * 16), N(b'curve25519-sha256'), N(b'ssh-ed25519'), N(b'aes128-ctr'),
                         N(b'aes128-ctr'), N(b'hmac-sha2-256'), N(b'hmac-sha2-256'), N(b'none'), N(b'none'),
                         N(b''), N(b''), B(0), U(0)]),
        ('newkeys', 21, []),
        ('kex30', 30, [S(b'\x09' * 32)]),
        ('kex31', 31, [S(b'hostkey'), S(b'\x09' * 32), S(b'sig')]),
        ('kex32', 32, [U(2048)]),
        ('kex33', 33, [S(b'x')]),
        ('kex34', 34, [U(1024), U(2048), U(8192)]),
        ('auth_none', 50, [S(b'guest'), S(b'ssh-connection'), S(b'none')]),
        ('auth_password', 50, [S(b'u'), S(b'ssh-connection'), S(b'password'), B(0), S(b'nope')]),
        ('auth_password_change', 50, [S(b'u'), S(b'ssh-connection'), S(b'password'), B(1), S(b'a'), S(b'b')]),
        ('auth_publickey_query', 50, [S(b'u'), S(b'ssh-connection'), S(b'publickey'), B(0), S(b'ssh-ed25519'),
                                      S(sstr(b'ssh-ed25519') + sstr(b'\x05' * 32))]),
        ('auth_publickey_sig', 50, [S(b'u'), S(b'ssh-connection'), S(b'publickey'), B(1), S(b'ssh-ed25519'),
                                    S(sstr(b'ssh-ed25519') + sstr(b'\x05' * 32)),
                                    S(sstr(b'ssh-ed25519') + sstr(b'\x06' * 64))]),
        ('auth_kbdint', 50, [S(b'u'), S(b'ssh-connection'), S(b'keyboard-interactive'), S(b''), S(b'')]),
        ('auth_hostbased', 50, [S(b'u'), S(b'ssh-connection'), S(b'hostbased'), S(b'ssh-ed25519'),
                                S(sstr(b'ssh-ed25519') + sstr(b'\x05' * 32)), S(b'host.'), S(b'u'),
                                S(sstr(b'ssh-ed25519') + sstr(b'\x06' * 64))]),
        ('auth_gssapi', 50, [S(b'u'), S(b'ssh-connection'), S(b'gssapi-with-mic'), U(1), S(b'\x06\x09*\x86H\x86\xf7\x12\x01\x02\x02')]),
        ('auth_unknown', 50, [S(b'u'), S(b'ssh-connection'), S(b'frobnicate')]),
        ('auth_bad_service', 50, [S(b'u'), S(b'ssh-frob'), S(b'none')]),
        ('auth_failure', 51, [N(b'password,publickey'), B(0)]),
        ('auth_success', 52, []),
        ('auth_banner', 53, [S(b'hello\n'), S(b'')]),
        ('auth60_pk_ok', 60, [S(b'ssh-ed25519'), S(sstr(b'ssh-ed25519') + sstr(b'\x05' * 32))]),
        ('auth60_info_request', 60, [S(b'name'), S(b'instr'), S(b''), U(2), S(b'Password: '), B(0), S(b'x'), B(1)]),
        ('auth60_passwd_change', 60, [S(b'prompt'), S(b'')]),
        ('auth61_info_response', 61, [U(1), S(b'resp')]),
        ('auth62', 62, []), ('auth63', 63, [S(b'tok')]), ('auth64', 64, [U(1), U(2), S(b'm'), S(b'')]),
        ('auth65', 65, [S(b'tok')]), ('auth66', 66, [S(b'mic')]),
        ('greq_tcpip_forward', 80, [S(b'tcpip-forward'), B(1), S(b'127.0.0.1'), U(0)]),
        ('greq_cancel_tcpip', 80, [S(b'cancel-tcpip-forward'), B(1), S(b'127.0.0.1'), U(1)]),
        ('greq_streamlocal', 80, [S(b'streamlocal-forward@openssh.com'), B(1), S(b'/nonexistent/c10.sock')]),
        ('greq_cancel_streamlocal', 80, [S(b'cancel-streamlocal-forward@openssh.com'), B(1), S(b'/nonexistent/c10.sock')]),
        ('greq_keepalive', 80, [S(b'keepalive@openssh.com'), B(1)]),
        ('greq_hostkeys', 80, [S(b'hostkeys-00@openssh.com'), B(0), S(sstr(b'ssh-ed25519') + sstr(b'\x05' * 32))]),
        ('greq_hostkeys_2', 80, [S(b'hostkeys-00@openssh.com'), B(0), S(sstr(b'ssh-ed25519') + sstr(b'\x05' * 32)),
                                 S(sstr(b'ssh-frob') + sstr(b'zz'))]),
        ('greq_hostkeys_prove', 80, [S(b'hostkeys-prove-00@openssh.com'), B(1), S(sstr(b'ssh-ed25519') + sstr(b'\x05' * 32))]),
        ('greq_unknown', 80, [S(b'frob@example.com'), B(1), S(b'x')]),
        ('greq_noreply', 80, [S(b'frob@example.com'), B(0)]),
        ('request_success', 81, [U(4022)]),
        ('request_success_sigs', 81, [S(sstr(b'ssh-ed25519') + sstr(b'\x06' * 64))]),
        ('request_failure', 82, []),
        ('open_session', 90, [S(b'session'), U(peer + 1), U(2 ** 21), U(32768)]),
        ('open_direct_tcpip', 90, [S(b'direct-tcpip'), U(peer + 2), U(2 ** 21), U(32768), S(b'127.0.0.1'), U(9), S(b'10.0.0.9'), U(1234)]),
        ('open_forwarded_tcpip', 90, [S(b'forwarded-tcpip'), U(peer + 3), U(2 ** 21), U(32768), S(b'127.0.0.1'), U(9), S(b'10.0.0.9'), U(1234)]),
        ('open_direct_streamlocal', 90, [S(b'direct-streamlocal@openssh.com'), U(peer + 4), U(2 ** 21), U(32768), S(b'/nonexistent/c10'), S(b''), U(0)]),
        ('open_forwarded_streamlocal', 90, [S(b'forwarded-streamlocal@openssh.com'), U(peer + 5), U(2 ** 21), U(32768), S(b'/nonexistent/c10'), S(b'')]),
        ('open_x11', 90, [S(b'x11'), U(peer + 6), U(2 ** 21), U(32768), S(b'10.0.0.9'), U(6000)]),
        ('open_agent', 90, [S(b'auth-agent@openssh.com'), U(peer + 7), U(2 ** 21), U(32768)]),
        ('open_tun', 90, [S(b'tun@openssh.com'), U(peer + 8), U(2 ** 21), U(32768), U(1), U(0x7fffffff)]),
        ('open_unknown', 90, [S(b'frob'), U(peer + 9), U(2 ** 21), U(32768), S(b'x')]),
        ('open_confirmation', 91, [U(chan), U(peer), U(2 ** 21), U(32768)]),
        ('open_failure', 92, [U(chan), U(2), S(b'no'), S(b'')]),
        ('window_adjust', 93, [U(chan), U(1000)]),
        ('data', 94, [U(chan), S(b'hello')]),
        ('extended_data', 95, [U(chan), U(1), S(b'err')]),
        ('eof', 96, [U(chan)]),
        ('close', 97, [U(chan)]),
        ('creq_pty', 98, [U(chan), S(b'pty-req'), B(1), S(b'xterm'), U(80), U(24), U(0), U(0), S(b'\x03\x00\x00\x00\x7f\x00')]),
        ('creq_pty_modes', 98, [U(chan), S(b'pty-req'), B(1), S(b'xterm'), U(80), U(24), U(0), U(0), S(b'\x80\x00\x00\x96\x00\x81\x00\x00\x96\x00\x00')]),
        ('creq_x11', 98, [U(chan), S(b'x11-req'), B(1), B(0), S(b'MIT-MAGIC-COOKIE-1'), S(b'00' * 16), U(0)]),
        ('creq_env', 98, [U(chan), S(b'env'), B(1), S(b'LANG'), S(b'C')]),
        ('creq_shell', 98, [U(chan), S(b'shell'), B(1)]),
        ('creq_exec', 98, [U(chan), S(b'exec'), B(1), S(b'true')]),
        ('creq_subsystem', 98, [U(chan), S(b'subsystem'), B(1), S(b'frob')]),
        ('creq_window_change', 98, [U(chan), S(b'window-change'), B(0), U(80), U(24), U(0), U(0)]),
        ('creq_xon_xoff', 98, [U(chan), S(b'xon-xoff'), B(0), B(1)]),
        ('creq_signal', 98, [U(chan), S(b'signal'), B(0), S(b'INT')]),
        ('creq_exit_status', 98, [U(chan), S(b'exit-status'), B(0), U(3)]),
        ('creq_exit_signal', 98, [U(chan), S(b'exit-signal'), B(0), S(b'KILL'), B(0), S(b'msg'), S(b'')]),
        ('creq_break', 98, [U(chan), S(b'break'), B(1), U(100)]),
        ('creq_agent', 98, [U(chan), S(b'auth-agent-req@openssh.com'), B(1)]),
        ('creq_eow', 98, [U(chan), S(b'eow@openssh.com'), B(0)]),
        ('creq_unknown', 98, [U(chan), S(b'frob'), B(1), S(b'x')]),
        ('channel_success', 99, [U(chan)]),
        ('channel_failure', 100, [U(chan)]),
    ]
    return ms


def field_variants(t, fields, full):
    """(label, payload) variants of one well-formed message: truncations, extensions, every numeric field /
    length / count at its extremes, odd string contents"""
    base = enc(t, fields)
    out = [('wf', base)]
    body_len = len(base) - 1
    cuts = range(body_len) if full else sorted({0, 1, 3, 4, 5, body_len // 2, body_len - 1} & set(range(body_len)))
    for c in cuts:
        out.append(('trunc%d' % c, base[:1 + c]))
    for label, ext in (('ext1', b'\0'), ('ext3', b'\xff\xff\xff'), ('ext4', b'\0\0\0\1'), ('ext9', b'\0\0\0\5hello')):
        out.append((label, base + ext))
    for i, (k, v) in enumerate(fields):
        def with_field(rep):
            return bytes([t]) + b''.join(rep if j == i else enc_field(f) for j, f in enumerate(fields))
        if k == 'u32':
            for x in EXTREMES + [2 ** 31 - 1, 255, 256]:
                if x != v:
                    out.append(('f%d=%d' % (i, x), with_field(u32(x))))
        elif k == 'bool':
            for x in (0, 1, 2, 255):
                if x != v:
                    out.append(('f%d=b%d' % (i, x), with_field(bytes([x]))))
        elif k in ('str', 'nl'):
            for x in EXTREMES:
                if x != len(v):
                    out.append(('f%d.len=%d' % (i, x), with_field(u32(x) + v)))
            conts = [b'', b'\xff\xfe', b'\x00', v + b'\x00', b',', b',,', v + b',' + v, b'A' * 300, b'\xc3']
            if full:
                conts += [b'B' * 70000, bytes(range(256))]
            for c in conts:
                if c != v:
                    out.append(('f%d.val=%s' % (i, c[:6].hex()), with_field(sstr(c))))
    return out


def build_payloads(rng, tier, chan=0, peer=7):
    """the full list of (label, payload) for one (role, phase); quick samples from it"""
    full = tier == 'thorough'
    allp = []
    for name, t, fields in wellformed(chan, peer):
        for label, p in field_variants(t, fields, full):
            allp.append((name + ':' + label, p))
    known = {t for _, t, _ in wellformed(0, 0)}
    for t in range(256):
        bodies = [b'', b'\0\0\0\0', rng.randbytes(rng.randint(1, 40))]
        if t not in known or full:
            for b in bodies:
                allp.append(('type%d:%d' % (t, len(b)), bytes([t]) + b))
    return allp


# ------------------------------------------------------------------------------------------------
# sessions

def _imports():
    import asyncssh
    from . import minissh as M
    from . import minissh_selftest as S
    return asyncssh, M, S


class RawPeer:
    """stands in for MiniSSH when the peer only throws bytes"""

    def __init__(self):
        self._out = bytearray()
        self.got = bytearray()
        self.peer_disconnect = None

    def start(self):
        pass

    def take_output(self):
        out = bytes(self._out)
        del self._out[:]
        return out

    def feed(self, data):
        self.got += data


def make_link(S, M, peer, chunk):
    class HLink(S.Link):
        def __init__(self, mini, chunk=None):
            super().__init__(mini, chunk)
            self.out_bytes = 0
            self.mini_dead = None
            self.hold = False            # keep what asyncssh writes away from MiniSSH
            self.escaped = []            # exceptions that came out of data_received / connection_lost
            link = self
            orig = self.transport.write

            def write(data):
                link.out_bytes += len(data)
                orig(data)
            self.transport.write = write

        def deliver(self, data):
            for p in S.pieces(data, self.chunk):
                if self.closed:
                    return
                try:
                    self.conn.data_received(p)
                except Hang:
                    raise
                except BaseException as e:          # noqa: must never happen: the property
                    self.escaped.append('data_received raised %s: %s' % (type(e).__name__, e))
                    return

        def pump(self):
            moved = False
            while True:
                out = self.mini.take_output()
                if out and not self.closed:
                    self.deliver(out)
                elif out:
                    pass
                elif self.to_mini and not self.hold:
                    data = self.to_mini.popleft()
                    if self.mini_dead is None:
                        try:
                            self.mini.feed(data)
                        except M.MiniSSHError as e:
                            self.mini_dead = e
                else:
                    return moved
                moved = True
    return HLink(peer, chunk)


def ready_count(loop):
    r = getattr(loop, '_ready', None)          # CPython asyncio internal; absent -> fixed number of turns
    return len(r) if r is not None else None


async def settle(link, limit=SETTLE_LIMIT):
    """run the loop until nothing moves: no bytes in flight, no ready callbacks.  Returns the number of turns
    (None if the limit was hit: something keeps rescheduling itself)."""
    loop = asyncio.get_running_loop()
    quiet = 0
    for turn in range(limit):
        moved = link.pump()
        await asyncio.sleep(0)
        rc = ready_count(loop)
        if moved or (rc is not None and rc > 0):
            quiet = 0
        else:
            quiet += 1
            if quiet >= (3 if rc is not None else 12):
                return turn + 1
    return None


async def settle_io(link, rounds=4):
    """settle() for jobs with real sockets in them (the stand-in X server): quiet in loop turns AND over a few
    short real sleeps"""
    total = 0
    quiet = 0
    while quiet < rounds and total < 400:
        before = (link.out_bytes, len(link.to_mini))
        t = await settle(link)
        await asyncio.sleep(0.004)
        moved = link.pump()
        total += 1
        quiet = quiet + 1 if (not moved and before == (link.out_bytes, len(link.to_mini))) else 0
    return t


class Ctl:
    """everything one connection's job needs"""
    pass


def det_rng(seed):
    r = random.Random(seed)
    return lambda n: r.randbytes(n)


def kexinit_payload(M, rng):
    nl = M.namelist
    return (bytes([20]) + rng(16) + nl([b'curve25519-sha256']) + nl([b'ssh-ed25519']) + nl([b'aes128-ctr']) * 2 +
            nl([b'hmac-sha2-256']) * 2 + nl([b'none']) * 2 + nl([]) * 2 + b'\0' + u32(0))


ALG_KW = {'kex_algs': ['curve25519-sha256'], 'encryption_algs': ['aes128-ctr'], 'mac_algs': ['hmac-sha2-256'],
          'compression_algs': ['none']}
_KEYS = {}

# the peer's identification string and the negotiated compression are chosen by the peer too: asyncssh has
# work-arounds keyed on 'dropbear' (+ compression: maximum packet size - 1), 'Cisco' (IGNORE without payload),
# 'cryptlib' (extra NUL in USERAUTH_BANNER), 'OpenSSH' / 'paramiko' (SFTP symlink argument order)
PEER_VERSIONS = ['SSH-2.0-MiniSSH_1.0', 'SSH-2.0-dropbear_2022.83', 'SSH-2.0-OpenSSH_9.2', 'SSH-2.0-Cisco-1.25',
                 'SSH-2.0-cryptlib', 'SSH-2.0-paramiko_3.4.0']
COMPRESSIONS = ['none', 'zlib', 'zlib@openssh.com']


def peer_settings(job):
    job = job or {}
    return (job.get('peer_version') or PEER_VERSIONS[0]).encode('latin-1'), job.get('comp') or 'none'


def alg_kw(comp):
    kw = dict(ALG_KW)
    kw['compression_algs'] = [comp]
    return kw


def host_key_pair():
    """(asyncssh private key, PyCA private key) for the two roles; the PyCA key is fixed so that payloads built
    in the parent process can name it"""
    asyncssh, M, S = _imports()
    if 'a' not in _KEYS:
        from cryptography.hazmat.primitives.asymmetric import ed25519
        _KEYS['a'] = asyncssh.generate_private_key('ssh-ed25519')
        _KEYS['c'] = ed25519.Ed25519PrivateKey.from_private_bytes(bytes(range(32)))
    return _KEYS['a'], _KEYS['c']


def mini_host_key_blob():
    M = _imports()[1]
    return M.host_key_blob(host_key_pair()[1])


X11_COOKIE_MARK = b'@C10-X11-COOKIE@'          # 16 bytes: replaced by the cookie of the x11-req at run time


async def until(link, cond, what, turns=4000):
    deadline = time.monotonic() + 20
    n = 0
    while True:
        link.pump()
        if cond():
            return True
        if link.closed and not link.to_mini:
            return False
        n += 1
        if n > turns:
            if time.monotonic() > deadline:
                return False
            await asyncio.sleep(0.001)
        else:
            await asyncio.sleep(0)


async def open_server_role(phase, seed, chunk, job=None):
    """asyncssh is the SERVER, the hostile peer the client.  Returns Ctl at the requested phase."""
    asyncssh, M, S = _imports()
    c = Ctl()
    c.role, c.phase, c.owner, c.chan, c.peer_chan, c.connect = 'server', phase, [], 0, 7, None
    raw = phase in ('banner', 'rawstream')
    pv, comp = peer_settings(job)
    mini = RawPeer() if raw else M.MiniSSH('client', kex_algs=[b'curve25519-sha256'], enc_algs=[b'aes128-ctr'],
                                            mac_algs=[b'hmac-sha2-256'], hostkey_algs=[b'ssh-ed25519'],
                                            rng=det_rng(seed), auto_kex=phase not in ('prekex', 'inkex'),
                                            version=pv, comp_algs=(comp.encode(),))
    link = make_link(S, M, mini, chunk)
    c.link, c.mini = link, mini
    owner = c.owner

    class Session(asyncssh.SSHServerSession):
        def connection_made(self, chan):
            self.chan = chan

        def shell_requested(self):
            return True

        def exec_requested(self, command):
            return True

        def subsystem_requested(self, subsystem):
            return subsystem == 'echo'

        def data_received(self, data, datatype):
            self.chan.write(data)

    class Srv(asyncssh.SSHServer):
        def connection_made(self, conn):
            owner.append(('made', None))

        def connection_lost(self, exc):
            owner.append(('lost', exc))

        def begin_auth(self, username):
            return username != 'guest'

        def password_auth_supported(self):
            return True

        def validate_password(self, username, password):
            return password == 'pw'

        def public_key_auth_supported(self):
            return True

        def validate_public_key(self, username, key):
            return False

        def kbdint_auth_supported(self):
            return True

        def get_kbdint_challenge(self, username, lang, submethods):
            return 'n', 'i', '', [('Password: ', False)]

        def validate_kbdint_response(self, username, responses):
            return False

        def session_requested(self):
            return Session()

        def connection_requested(self, dest_host, dest_port, orig_host, orig_port):
            return False

        def server_requested(self, listen_host, listen_port):
            return False

        def unix_server_requested(self, listen_path):
            return False

        def unix_connection_requested(self, dest_path):
            return False

    c.gate, c.suspended = None, []
    susp = (job or {}).get('suspend')
    if susp:
        c.gate = asyncio.get_running_loop().create_future()
        orig_cb = getattr(Srv, susp)

        async def suspended_cb(self, *a):
            c.suspended.append(susp)
            await c.gate                              # completes only after the hostile input was handled
            return orig_cb(self, *a)
        setattr(Srv, susp, suspended_cb)
    akey, _ = host_key_pair()
    c.acc = await asyncssh.listen('mem', 22, tunnel=link, server_factory=Srv, encoding=None,
                                  server_host_keys=[akey], **alg_kw(comp))
    link.attach(link.server_factory('10.0.0.1', 40000))
    c.conn = link.conn
    await settle(link)
    if raw or phase == 'prekex':
        return c
    if phase == 'inkex':
        mini.send_raw_packet(kexinit_payload(M, det_rng(seed + 1)))
        await settle(link)
        return c
    if not await until(link, lambda: mini.kex_count == 1, 'kex'):
        raise RuntimeError('bring-up: key exchange did not finish')
    if phase == 'postkex':
        await settle(link)
        return c
    cur = [0]

    def got(t):
        while cur[0] < len(mini.inbox):
            tt, p = mini.inbox[cur[0]]
            cur[0] += 1
            if tt == t:
                c.last = p
                return True
        return False
    mini.send(M.client_service_request('ssh-userauth'))
    if not await until(link, lambda: got(M.MSG_SERVICE_ACCEPT), 'service accept'):
        raise RuntimeError('bring-up: no SERVICE_ACCEPT')
    if phase == 'inauth':
        mini.send(M.client_auth_none('u'))
        if not await until(link, lambda: got(M.MSG_USERAUTH_FAILURE), 'auth failure'):
            raise RuntimeError('bring-up: no USERAUTH_FAILURE')
        await settle(link)
        return c
    mini.send(M.client_auth_none('guest'))
    if not await until(link, lambda: got(M.MSG_USERAUTH_SUCCESS), 'auth success'):
        raise RuntimeError('bring-up: no USERAUTH_SUCCESS')
    if phase == 'authed':
        await settle(link)
        return c
    mini.send(M.channel_open_session(c.peer_chan, 1 << 21, 32768))
    if not await until(link, lambda: got(M.MSG_CHANNEL_OPEN_CONFIRMATION), 'open confirmation'):
        raise RuntimeError('bring-up: no CHANNEL_OPEN_CONFIRMATION')
    c.chan = struct.unpack('>I', c.last[5:9])[0]
    mini.send(M.channel_request_shell(c.chan))
    if not await until(link, lambda: got(M.MSG_CHANNEL_SUCCESS), 'shell'):
        raise RuntimeError('bring-up: no CHANNEL_SUCCESS')
    await settle(link)
    return c


async def open_client_role(phase, seed, chunk, job=None):
    """asyncssh is the CLIENT (connect() with a password, a server_host_keys_handler and a trusted key),
    the hostile peer the server."""
    asyncssh, M, S = _imports()
    c = Ctl()
    c.role, c.phase, c.owner, c.chan, c.peer_chan = 'client', phase, [], 0, 7
    raw = phase in ('banner', 'rawstream')
    akey, ckey = host_key_pair()
    pv, comp = peer_settings(job)
    mini = RawPeer() if raw else M.MiniSSH('server', host_key=ckey, kex_algs=[b'curve25519-sha256'],
                                            enc_algs=[b'aes128-ctr'], mac_algs=[b'hmac-sha2-256'],
                                            hostkey_algs=[b'ssh-ed25519'], rng=det_rng(seed),
                                            auto_kex=phase not in ('prekex', 'inkex'),
                                            version=pv, comp_algs=(comp.encode(),))
    link = make_link(S, M, mini, chunk)
    c.link, c.mini = link, mini
    owner = c.owner
    c.hostkeys_calls = []

    class Cli(asyncssh.SSHClient):
        def connection_made(self, conn):
            owner.append(('made', None))

        def connection_lost(self, exc):
            owner.append(('lost', exc))

        def kbdint_auth_requested(self):
            return ''

        def kbdint_challenge_received(self, name, instructions, lang, prompts):
            return ['x'] * len(prompts)

        def password_change_requested(self, prompt, lang):
            return 'old', 'new'

    c.gate, c.suspended = None, []
    susp = (job or {}).get('suspend')

    def hk_handler(added, removed, retained, revoked):
        c.hostkeys_calls.append((len(added), len(removed), len(retained), len(revoked)))
    if susp == 'server_host_keys_handler':
        c.gate = asyncio.get_running_loop().create_future()
        sync_handler = hk_handler

        async def hk_handler(added, removed, retained, revoked):      # noqa: F811
            c.suspended.append(susp)
            await c.gate
            sync_handler(added, removed, retained, revoked)

    if raw:
        trusted = None
    else:
        import base64
        pub = asyncssh.import_public_key(b'ssh-ed25519 ' + base64.b64encode(M.host_key_blob(ckey)) + b' mini\n')
        trusted = ([pub], [], [])
    c.connect = asyncio.ensure_future(asyncssh.connect(
        'mem', 22, tunnel=link, known_hosts=trusted, username='u', password='pw', client_keys=None, config=None,
        client_factory=Cli, server_host_keys_handler=hk_handler, agent_path=None,
        server_host_key_algs=['ssh-ed25519'], **alg_kw(comp)))
    # connect() reads its defaults in an executor: wait for the connection object with real sleeps
    deadline = time.monotonic() + 15
    while link.conn is None and not c.connect.done():
        await asyncio.sleep(0.001)
        if time.monotonic() > deadline:
            raise RuntimeError('bring-up: connect() never created a connection')
    c.conn = link.conn
    await settle(link)
    if raw or phase == 'prekex':
        return c
    if phase == 'inkex':
        mini.send_raw_packet(kexinit_payload(M, det_rng(seed + 1)))
        link.hold = True                      # the client's KEX_ECDH_INIT is never answered
        await settle(link)
        return c
    if not await until(link, lambda: mini.kex_count == 1, 'kex'):
        raise RuntimeError('bring-up: key exchange did not finish')
    cur = [0]

    def got(t):
        while cur[0] < len(mini.inbox):
            tt, p = mini.inbox[cur[0]]
            cur[0] += 1
            if tt == t:
                c.last = p
                return True
        return False
    if not await until(link, lambda: got(M.MSG_SERVICE_REQUEST), 'service request'):
        raise RuntimeError('bring-up: no SERVICE_REQUEST')
    if phase == 'postkex':
        await settle(link)
        return c
    mini.send(M.service_accept(b'ssh-userauth'))
    if not await until(link, lambda: got(M.MSG_USERAUTH_REQUEST), 'auth request'):
        raise RuntimeError('bring-up: no USERAUTH_REQUEST')
    if phase == 'inauth':
        mini.send(M.userauth_failure([b'password', b'keyboard-interactive', b'publickey']))
        if not await until(link, lambda: got(M.MSG_USERAUTH_REQUEST), 'second auth request'):
            raise RuntimeError('bring-up: no second USERAUTH_REQUEST')
        await settle(link)
        return c
    mini.send(M.userauth_success())
    if not await until(link, c.connect.done, 'connect() to return'):
        raise RuntimeError('bring-up: connect() did not return')
    c.cconn = c.connect.result()
    if phase == 'authed':
        await settle(link)
        return c
    c.x11_cookie = None

    class CS(asyncssh.SSHClientSession):
        pass
    x11_kw = {}
    if phase == 'x11':
        x11_kw = await start_x_server(c)
    opening = asyncio.ensure_future(c.cconn.create_session(CS, encoding=None, **x11_kw))
    if not await until(link, lambda: got(M.MSG_CHANNEL_OPEN), 'channel open'):
        raise RuntimeError('bring-up: no CHANNEL_OPEN')
    r = M.Reader(c.last, 1)
    r.get_string()
    c.chan = r.get_u32()
    win, mp = (job or {}).get('open_params') or (1 << 21, 32768)
    mini.send(M.channel_open_confirmation(c.chan, c.peer_chan, win, mp))

    def serve():
        while cur[0] < len(mini.inbox):
            tt, p = mini.inbox[cur[0]]
            cur[0] += 1
            if tt == M.MSG_CHANNEL_REQUEST:
                rr = M.Reader(p, 1)
                rr.get_u32()
                rtype = rr.get_string()
                want = rr.get_bool()
                if rtype == b'x11-req':
                    rr.get_bool()
                    rr.get_string()
                    c.x11_cookie = bytes.fromhex(rr.get_string().decode('ascii'))
                if want:
                    mini.send(M.channel_success(c.chan))
        return opening.done()
    if not await until(link, serve, 'create_session'):
        if (job or {}).get('open_params'):
            c.opening = opening                       # hostile parameters: the open may be refused
            return c
        raise RuntimeError('bring-up: create_session did not return')
    c.opening = opening
    if (job or {}).get('open_params') and opening.exception() is None:
        chan, _sess = opening.result()
        chan.write(b'hello' * 10)                     # makes the send loop run with the peer's parameters
    await settle(link)
    return c


async def start_x_server(c):
    """a stand-in X server on 127.0.0.1:6000+n and an Xauthority file naming its cookie; returns the
    create_session() options that switch X11 forwarding on"""
    import tempfile
    loop = asyncio.get_running_loop()
    c.x_received = bytearray()

    class XProto(asyncio.Protocol):
        def data_received(self, data):
            c.x_received += data
    base = 300 + (os.getpid() * 7) % 500
    for dpy in list(range(base, base + 40)):
        try:
            c.x_server = await loop.create_server(XProto, '127.0.0.1', 6000 + dpy)
            break
        except OSError:
            continue
    else:
        raise RuntimeError('bring-up: no free port for the stand-in X server')
    c.x_tmp = tempfile.mkdtemp(prefix='c10-x11-')
    import atexit
    import shutil as _shutil
    atexit.register(_shutil.rmtree, c.x_tmp, True)      # also when the session ends by an exception
    path = os.path.join(c.x_tmp, 'Xauthority')

    def s16(b):
        return len(b).to_bytes(2, 'big') + b
    with open(path, 'wb') as f:
        f.write((65535).to_bytes(2, 'big') + s16(b'') + s16(str(dpy).encode()) + s16(b'MIT-MAGIC-COOKIE-1') +
                s16(bytes(range(0xa0, 0xb0))))
    return {'x11_forwarding': True, 'x11_display': '127.0.0.1:%d' % dpy, 'x11_auth_path': path}


def exc_class(e):
    if e is None:
        return None
    return type(e).__name__


async def run_job(job):
    """one connection; returns the observations"""
    asyncssh, M, S = _imports()
    loop = asyncio.get_running_loop()
    loop.set_default_executor(InlineExecutor(max_workers=1))
    loop_errors = []
    loop.set_exception_handler(lambda l, ctx: loop_errors.append(
        '%s | %r' % (ctx.get('message'), ctx.get('exception'))))
    before_tasks = set(asyncio.all_tasks())
    role, phase = job['role'], job['phase']
    opener = open_server_role if role == 'server' else open_client_role
    c = await opener(phase, job.get('seed', 0), job.get('chunk'), job)
    link = c.link
    res = {'steps': [], 'bringup_closed': link.closed}
    items = [('raw', bytes.fromhex(h)) for h in job.get('raw', [])] + \
            [('pkt', bytes.fromhex(h)) for h in job.get('payloads', [])]
    measure = job.get('measure_alloc')
    if measure:
        import tracemalloc
        tracemalloc.start()
    for kind, data in items:
        if link.closed:
            break
        out0 = link.out_bytes
        if measure:
            import tracemalloc
            tracemalloc.reset_peak()
            cur0 = tracemalloc.get_traced_memory()[0]
        if kind == 'raw':
            link.deliver(data)
            nin = len(data)
        else:
            if getattr(c, 'x11_cookie', None) and X11_COOKIE_MARK in data:
                data = data.replace(X11_COOKIE_MARK, c.x11_cookie)
            before = len(c.mini._out)
            c.mini.send_raw_packet(data)
            nin = len(c.mini._out) - before
        turns = await (settle_io(link) if job.get('real_io') else settle(link))
        step = {'in': nin, 'out': link.out_bytes - out0, 'turns': turns, 'closed': link.closed}
        if measure:
            cur1, peak = tracemalloc.get_traced_memory()
            step['held'] = cur1
            step['transient'] = peak - cur0
        res['steps'].append(step)
    if measure:
        import tracemalloc
        tracemalloc.stop()
    res['sent'] = len(res['steps'])
    res['closed_by_input'] = link.closed
    res['suspended'] = list(getattr(c, 'suspended', []))
    if getattr(c, 'gate', None) is not None and not c.gate.done():
        await settle(link)                          # the connection (if it died) finishes its cleanup first ...
        c.gate.set_result(None)                     # ... then the application callback completes
        await settle(link)
    if getattr(c, 'x_server', None) is not None:
        res['x_server_received'] = len(c.x_received)
        c.x_server.close()
        import shutil
        shutil.rmtree(c.x_tmp, ignore_errors=True)
    try:
        v = c.conn.get_extra_info('client_version' if role == 'server' else 'server_version')
        res['version'] = v if v is None else str(v)
    except Exception as e:                          # noqa
        res['version'] = None
    if c.phase == 'chan' and c.chan != 0:
        res['error'] = 'bring-up: the endpoint under test allocated channel %d, the payloads assume 0' % c.chan
    # let a closed connection finish its cleanup, then close whatever is still open
    await settle(link)
    res['owner_after_input'] = [(k, exc_class(e)) for k, e in c.owner]
    if c.connect is not None:
        res['connect_done'] = c.connect.done()
        if c.connect.done() and not c.connect.cancelled():
            res['connect_exc'] = exc_class(c.connect.exception())
    if not link.closed:
        try:
            c.conn.abort()
        except Exception as e:                      # noqa
            res['abort_error'] = repr(e)
    if getattr(c, 'acc', None) is not None:
        c.acc.close()
    await settle(link)
    if c.connect is not None and not c.connect.done():
        res['connect_hung'] = True
        c.connect.cancel()
        await settle(link)
    res['owner_final'] = [(k, exc_class(e)) for k, e in c.owner]
    res['hostkeys_calls'] = len(getattr(c, 'hostkeys_calls', []))
    res['escaped'] = link.escaped
    res['mini_dead'] = str(link.mini_dead) if link.mini_dead else None
    res['peer_disconnect'] = getattr(c.mini, 'peer_disconnect', None) and list(
        (c.mini.peer_disconnect[0], c.mini.peer_disconnect[1].decode('latin-1')))
    op = getattr(c, 'opening', None)
    if op is not None and op.done() and not op.cancelled():
        op.exception()
    gc.collect()
    await asyncio.sleep(0)
    def leftover():
        return [t for t in asyncio.all_tasks()
                if t not in before_tasks and t is not asyncio.current_task() and not t.done()]
    left = leftover()
    waited = 0
    while left and waited < 60:                     # something may really be in another thread: give it time
        await asyncio.sleep(0.05)
        waited += 1
        left = leftover()
    res['leftover_tasks'] = [repr(t.get_coro())[:160] for t in left]
    for t in left:
        t.cancel()
    if left:
        await asyncio.sleep(0)
    res['loop_errors'] = [e for e in loop_errors if 'Hang(' not in e]
    res['hangs'] = list(HANG_LOG)
    return res


def judge(job, res):
    """the property, evaluated on the observations of one connection.  Returns a list of violation strings."""
    bad = []
    if 'error' in res:
        return bad
    for h in res.get('hangs', []):
        import re
        fr = re.findall(r'File "([^"]*)", line (\d+), in (\S+)', h)
        bad.append('the event loop was BLOCKED (no progress within the watchdog time); innermost frames: ' +
                   ' <- '.join('%s:%s %s' % (os.path.basename(f), ln, fn) for f, ln, fn in reversed(fr[-5:])))
    for i, st in enumerate(res.get('steps', [])):
        if st['turns'] is None:
            bad.append('step %d: the event loop never became idle (%d turns) after %d input bytes' % (i, SETTLE_LIMIT, st['in']))
        elif st['turns'] > 200 + st['in']:
            bad.append('step %d: %d event-loop turns for %d input bytes' % (i, st['turns'], st['in']))
        if st['out'] > 16 * st['in'] + 8192:
            bad.append('step %d: %d bytes written in reply to %d input bytes' % (i, st['out'], st['in']))
    for e in res.get('escaped', []):
        bad.append('exception left the protocol callback: ' + e)
    for e in res.get('loop_errors', []):
        bad.append('event-loop exception handler called: ' + e[:300])
    lost = [x for x in res.get('owner_final', []) if x[0] == 'lost']
    made = [x for x in res.get('owner_final', []) if x[0] == 'made']
    if res.get('closed_by_input'):
        lost_now = [x for x in res.get('owner_after_input', []) if x[0] == 'lost']
        if made and len(lost_now) != 1:
            bad.append('connection closed on hostile input but owner.connection_lost was called %d times' % len(lost_now))
        elif made and lost_now[0][1] is None and not any(h[:2] == '01' for h in job.get('payloads', [])):
            bad.append('connection closed on hostile input but the owner was told connection_lost(None)')
        if job['role'] == 'client' and not made and not res.get('connect_done'):
            bad.append('connection closed before connect() returned, and connect() is still waiting')
    if made and len(lost) != 1:
        bad.append('owner.connection_made was called but connection_lost was called %d times by the end' % len(lost))
    if res.get('connect_hung') and res.get('closed_by_input'):
        bad.append('connect() never completed although the connection was closed')
    if res.get('leftover_tasks'):
        bad.append('tasks left behind after the connection was closed: ' + '; '.join(res['leftover_tasks'])[:300])
    return bad


# ------------------------------------------------------------------------------------------------
# batch runner (child process)

HANG_LOG = []              # stacks taken by the watchdog (a Hang raised inside a task is swallowed by the task)
STATE = {'alarm': CASE_ALARM, 'hangs': 0}


def arm(secs):
    """the watchdog counts CPU time of this process (a spin burns it; a machine busy with other work does not), with
    a much longer wall-clock alarm behind it for a loop that blocks without spinning"""
    signal.setitimer(signal.ITIMER_PROF, secs)
    signal.alarm(20 * secs)


def disarm():
    signal.setitimer(signal.ITIMER_PROF, 0)
    signal.alarm(0)


def _alarm(signum, frame):
    where = ''.join(traceback.format_stack(frame, 8))
    HANG_LOG.append(where[-1500:])
    disarm()
    raise Hang('no progress for %d s of CPU time; innermost frames when the watchdog fired:\n%s' % (STATE['alarm'], where))


def run_connections(job, emit):
    """a job's payloads over as many connections as it takes (a connection is used until it is closed);
    emit(record) once per connection: {'first': index of its first payload, 'count': payloads it consumed,
    'res': observations | 'hang': stack | 'error': text}"""
    items = job.get('payloads', [])
    if not items:
        items = [None]                       # raw-only job: exactly one connection
    i = 0
    while i < len(items):
        sub = dict(job)
        if items[0] is not None:
            sub['payloads'] = items[i:i + job.get('per_conn', 8)]
        if STATE['hangs'] >= 3:                     # circuit breaker: a spinning endpoint must stay cheap
            emit({'first': i, 'count': len(items) - i, 'skipped': True})
            return
        STATE['alarm'] = job.get('alarm', CASE_ALARM)
        del HANG_LOG[:]
        arm(STATE['alarm'])
        rec = {'first': i}
        try:
            res = asyncio.run(run_job(sub))
            rec['res'] = res
            rec['count'] = max(1, res.get('sent', 1))
            if res.get('hangs'):
                STATE['hangs'] += 1
        except Hang as e:
            STATE['hangs'] += 1
            rec['hang'] = str(e)[-1800:]
            rec['count'] = len(sub.get('payloads', [])) or 1
        except Exception as e:                      # bring-up or harness failure: reported, never silent
            rec['error'] = '%s: %s' % (type(e).__name__, e)
            rec['trace'] = traceback.format_exc()[-1200:]
            rec['count'] = len(sub.get('payloads', [])) or 1
        finally:
            disarm()
        emit(rec)
        i += rec['count']


def run_parser_stage(job):
    """one stage of harness/c10_parsers.py under the alarm; -> record like run_connections emits"""
    import tempfile
    import shutil
    from . import c10_parsers as P
    rng = random.Random('c10:%s:%s' % (job['stage'], job.get('seed', 0)))
    n, tier, stage = job.get('n', 100), job.get('tier', 'quick'), job['stage']
    rec = {'first': 0, 'count': 1}
    root = tempfile.mkdtemp(prefix='c10-')
    P.PROGRESS.clear()
    STATE['alarm'] = job.get('alarm', 60)
    arm(STATE['alarm'])
    try:
        if stage == 'getters':
            cases, bad, stats = P.getters_run(rng, n)
        elif stage == 'agent':
            cases, bad, stats = asyncio.run(P.agent_run(rng, n))
        elif stage == 'socks':
            cases, raised, stats, inputs = P.socks_run(rng, n)
            bad = [('SSHSOCKSForwarder.data_received', b'|'.join(ch), exc) for ch, exc in raised]
            rec['chunks'] = [[c.hex() for c in ch] for ch, _ in raised]
        elif stage == 'x11':
            cases, bad, stats = P.x11_run(rng, n)
        elif stage == 'sftp_framing':
            cases, bad, stats = asyncio.run(P.sftp_framing_run(rng, n, root))
        elif stage == 'copy':
            cases, bad, stats, params = asyncio.run(P.copy_run(rng, tier, root, job.get('only')))
            rec['hows'] = [(p[6] if len(p) > 6 and p[6] else ('two_opens' if p[0] else 'distinct')) for p in params]
        elif stage == 'fuzz_imports':
            bad, stats = P.fuzz_imports(rng, n, job.get('only'))
            cases = []
        elif stage == 'fuzz_sftp_server':
            bad, stats = asyncio.run(P.fuzz_sftp_server(rng, root, tier == 'thorough'))
            cases = []
        elif stage == 'fuzz_sftp_client':
            bad, stats = asyncio.run(P.fuzz_sftp_client(rng, tier == 'thorough'))
            cases = []
        else:
            raise ValueError('unknown stage ' + stage)
        stats = {k: v for k, v in stats.items() if isinstance(v, int)}
        rec['res'] = {'cases': cases, 'stats': stats, 'hows': rec.pop('hows', None),
                      'bad': [(f, d.hex() if isinstance(d, (bytes, bytearray)) else str(d), e) for f, d, e in bad]}
    except Hang as e:
        rec['hang'] = str(e)[-1800:]
        rec['item'] = P.PROGRESS.get('item')
    except Exception as e:                          # noqa: harness failure: reported, never silent
        rec['error'] = '%s: %s' % (type(e).__name__, e)
        rec['trace'] = traceback.format_exc()[-1500:]
    finally:
        disarm()
        shutil.rmtree(root, ignore_errors=True)
    return rec


def child_main(jobs_path, out_path):
    os.environ.setdefault('PYTHONHASHSEED', '0')
    jobs = json.load(open(jobs_path))
    out = open(out_path, 'a', buffering=1)
    signal.signal(signal.SIGALRM, _alarm)
    signal.signal(signal.SIGPROF, _alarm)
    import logging
    logging.disable(logging.CRITICAL)
    for idx, job in jobs:
        def emit(rec, idx=idx):
            out.write(json.dumps({'idx': idx, 'rec': rec}, default=repr) + '\n')
            out.flush()
            out.write(json.dumps({'start': idx, 'next': rec['first'] + rec['count']}) + '\n')
            out.flush()
        out.write(json.dumps({'start': idx, 'next': 0}) + '\n')
        out.flush()
        if job.get('kind') == 'parsers':
            emit(run_parser_stage(job))
        else:
            run_connections(job, emit)
        out.write(json.dumps({'done': idx}) + '\n')
        out.flush()
    out.write(json.dumps({'end': True}) + '\n')
    out.close()


if __name__ == '__main__':
    child_main(sys.argv[1], sys.argv[2])
