"""C10: the parsers asyncssh feeds with untrusted bytes, driven directly.

Part 1 (correspondence): the real SSHPacket getters, agent client, SOCKS forwarder, SFTP server framing and
copy-data loop are run on generated inputs and their observations printed as Coq literals for the checkers of
coq/Corr/C10Corr.v.
Part 2 (direct oracle b): byte strings given to the import / decode functions and to the SFTP, agent and SOCKS
parsers: a result or the DOCUMENTED exception class only.

Everything here may be executed inside the watchdog child (harness/c10_hostile.py dispatches 'parsers' jobs).
"""
import asyncio
import base64
import os
import shutil
import struct
import tempfile

from .core import zl, cz, cbool, copt, clist


PROGRESS = {}          # the input in flight (named in the report when the watchdog fires)


def u32(n):
    return struct.pack('>I', n & 0xffffffff)


def u64(n):
    return struct.pack('>Q', n & (2 ** 64 - 1))


def sstr(b):
    return u32(len(b)) + b


# ================================================================================================
# 1. SSHPacket getters

OPS = ['get_byte', 'get_boolean', 'get_uint16', 'get_uint32', 'get_uint64', 'get_string', 'get_mpint',
       'get_namelist', 'check_end', 'get_bytes']


def gen_packet(rng):
    parts = []
    for _ in range(rng.randint(0, 6)):
        k = rng.randint(0, 9)
        if k == 0:
            parts.append(bytes([rng.choice([0, 1, 2, 127, 128, 255])]))
        elif k == 1:
            parts.append(u32(rng.choice([0, 1, 2, 3, 4, 5, 2 ** 31, 2 ** 32 - 1, rng.randint(0, 40)])))
        elif k == 2:
            parts.append(u64(rng.choice([0, 1, 2 ** 63, 2 ** 64 - 1, rng.randint(0, 2 ** 40)])))
        elif k in (3, 4):
            parts.append(sstr(rng.randbytes(rng.randint(0, 12))))
        elif k == 5:
            parts.append(sstr(b','.join(rng.choice([b'', b'a', b'bc', b'x@y', b',']) for _ in range(rng.randint(0, 4)))))
        elif k == 6:
            n = rng.choice([0, 1, -1, 127, 128, -128, -129, 255, 256, 2 ** 64, -2 ** 64, rng.randint(-10 ** 9, 10 ** 9)])
            l = (n.bit_length() + 8) // 8 if n else 0
            parts.append(sstr(n.to_bytes(l, 'big', signed=True)))
        elif k == 7:
            parts.append(rng.randbytes(rng.randint(1, 5)))
        elif k == 8:
            parts.append(struct.pack('>H', rng.choice([0, 1, 65535])))
        else:
            parts.append(u32(rng.randint(0, 20)))          # a length with no / a short body behind it
    data = b''.join(parts)
    r = rng.random()
    if r < 0.25 and data:
        data = data[:rng.randint(0, len(data))]
    elif r < 0.35:
        data += rng.randbytes(rng.randint(1, 3))
    return data


def oval_coq(v):
    if v == 'err':
        return 'VErr'
    if v is None:
        return 'VUnit'
    if isinstance(v, bool):
        return 'VZ %d' % int(v)
    if isinstance(v, int):
        return 'VZ %s' % cz(v)
    if isinstance(v, bytes):
        return 'VB %s' % zl(v)
    return 'VL %s' % clist(list(v), zl)


def getters_run(rng, n):
    """-> (cases, undocumented): Coq cases and the list of (op, packet, exception) outside PacketDecodeError"""
    from asyncssh.packet import SSHPacket, PacketDecodeError
    cases, bad, stats = [], [], {'ok': 0, 'err': 0, 'err_partial': 0}
    for _ in range(n):
        data = gen_packet(rng)
        PROGRESS['item'] = ['getters', data.hex()]
        p = SSHPacket(data)
        ops, got = [], []
        for _ in range(rng.randint(1, 8)):
            c = rng.choice([0, 1, 2, 3, 3, 4, 5, 5, 5, 6, 7, 8, 9])
            arg = rng.choice([0, 1, 2, 5, 9]) if c == 9 else 0
            ops.append((c, arg))
            before = len(p.get_consumed_payload())
            try:
                v = getattr(p, OPS[c])(arg) if c == 9 else getattr(p, OPS[c])()
                got.append(oval_coq(v))
                stats['ok'] += 1
            except PacketDecodeError:
                got.append('VErr')
                stats['err'] += 1
                if len(p.get_consumed_payload()) != before:
                    stats['err_partial'] += 1
            except Exception as e:                      # noqa: the property: documented error only
                got.append('VErr')
                bad.append((OPS[c], data, type(e).__name__))
        idx = len(p.get_consumed_payload())
        cases.append('(%s, %s, %s, %d)' % (zl(data), clist(ops, lambda o: '(%d, %d)' % o), clist(got), idx))
    return cases, bad, stats


# ================================================================================================
# 2. agent client

class _AgentReader:
    def __init__(self, stream):
        self.buf = bytearray(stream)

    async def readexactly(self, n):
        if len(self.buf) < n:
            part = bytes(self.buf)
            del self.buf[:]
            raise asyncio.IncompleteReadError(part, n)
        out = bytes(self.buf[:n])
        del self.buf[:n]
        return out


class _AgentWriter:
    def __init__(self):
        self.out = bytearray()
        self.closed = False

    def write(self, data):
        self.out += data

    def close(self):
        self.closed = True

    async def wait_closed(self):
        pass


class FakeAgent:
    def __init__(self, stream):
        self.stream = stream

    async def open_agent_connection(self):
        return _AgentReader(self.stream), _AgentWriter()


def frame(b):
    return u32(len(b)) + b


def gen_agent_stream(rng, op):
    """a response stream for op 0 get_keys / 1 query_extensions / 2 sign: mostly well-formed, then damaged"""
    if op == 0:
        n = rng.randint(0, 4)
        keys = []
        for _ in range(n):
            blob = sstr(rng.choice([b'ssh-ed25519', b'ssh-rsa', b'x', b'', b'ssh-ed25519-cert-v01@openssh.com',
                                    b'sk-ssh-ed25519@openssh.com'])) + rng.randbytes(rng.randint(0, 6))
            if rng.random() < 0.15:
                blob = rng.randbytes(rng.randint(0, 5))            # not even a string inside
            keys.append(sstr(blob) + sstr(rng.choice([b'', b'comment', b'\xff\xfe', b'c' * 20])))
        count = rng.choice([n, n, n, n + 1, 0, 1, 2 ** 31, 2 ** 32 - 1, max(0, n - 1)])
        body = bytes([rng.choice([12, 12, 12, 12, 5, 6, 0, 255])]) + u32(count) + b''.join(keys)
    elif op == 1:
        body = bytes([rng.choice([6, 6, 6, 5, 12, 0])]) + b''.join(
            sstr(rng.choice([b'query', b'session-bind@openssh.com', b'\xff', b'', b'\xc3\xa9', b'\xed\xa0\x80']))
            for _ in range(rng.randint(0, 4)))
    else:
        body = bytes([rng.choice([14, 14, 14, 5, 6, 0])]) + sstr(rng.randbytes(rng.randint(0, 10)))
    r = rng.random()
    if r < 0.2:
        body = body[:rng.randint(0, len(body))]
    elif r < 0.3:
        body += rng.randbytes(rng.randint(1, 4))
    stream = frame(body)
    r = rng.random()
    if r < 0.1:
        stream = stream[:rng.randint(0, len(stream))]
    elif r < 0.2:
        stream = u32(rng.choice([0, 1, 2 ** 31, 2 ** 32 - 1, len(body) + 1])) + body
    elif r < 0.3:
        stream += frame(b'\x05')
    return stream


async def agent_observe(op, stream):
    """-> ('val',) | ('keys', [(blob, comment)]) | ('strs', [..]) | ('sig', b) | ('undoc', class name)"""
    import asyncssh
    agent = await asyncssh.connect_agent(FakeAgent(stream))
    try:
        if op == 0:
            keys = await agent.get_keys()
            return ('keys', [(bytes(k.public_data), bytes(k.get_comment_bytes() or b'')) for k in keys])
        if op == 1:
            exts = await agent.query_extensions()
            return ('strs', [e.encode('utf-8') for e in exts])
        sig = await agent.sign(b'blob', b'data', 0)
        return ('sig', bytes(sig))
    except ValueError as e:
        if type(e).__name__ in ('ValueError', 'PacketDecodeError'):
            return ('val',)
        return ('undoc', type(e).__name__)
    except Exception as e:                              # noqa
        return ('undoc', type(e).__name__)
    finally:
        agent.close()


def aout_coq(o):
    if o[0] == 'val' or o[0] == 'undoc':
        return 'AVal'
    if o[0] == 'keys':
        return 'AKeys %s' % clist(o[1], lambda kc: '(%s, %s)' % (zl(kc[0]), zl(kc[1])))
    if o[0] == 'strs':
        return 'AStrs %s' % clist(o[1], zl)
    return 'ASig %s' % zl(o[1])


async def agent_run(rng, n):
    cases, bad, stats = [], [], {}
    for i in range(n):
        op = i % 3
        stream = gen_agent_stream(rng, op)
        PROGRESS['item'] = ['agent', ['get_keys', 'query_extensions', 'sign'][op], stream.hex()]
        o = await agent_observe(op, stream)
        stats[o[0]] = stats.get(o[0], 0) + 1
        if o[0] == 'undoc':
            bad.append((['get_keys', 'query_extensions', 'sign'][op], stream, o[1]))
        cases.append('(%d, %s, %s)' % (op, zl(stream), aout_coq(o)))
    return cases, bad, stats


# ================================================================================================
# 3. SOCKS forwarder

class _SockTransport:
    def __init__(self):
        self.w, self.closed = [], False

    def write(self, d):
        self.w.append(bytes(d))

    def close(self):
        self.closed = True

    def abort(self):
        self.closed = True

    def get_extra_info(self, n, d=None):
        return ('10.1.2.3', 5555) if n == 'peername' else d

    def pause_reading(self):
        pass

    def resume_reading(self):
        pass


class _SockConn:
    def create_task(self, coro, *a, **k):
        coro.close()


def socks_observe(chunks):
    """-> (raised class or None, writes, open, fwd or None, leftover or None)"""
    from asyncssh.socks import SSHSOCKSForwarder
    fwd = []

    async def coro(session_factory, *args):
        pass
    f = SSHSOCKSForwarder(_SockConn(), coro)
    f.forward = lambda *a: fwd.append(a)             # public method of SSHLocalForwarder: starts the tunnel
    t = _SockTransport()
    f.connection_made(t)
    raised = None
    for ch in chunks:
        if t.closed:
            break
        try:
            f.data_received(ch)
        except Exception as e:                          # noqa
            raised = type(e).__name__
            break
    left = getattr(f, '_inpbuf', None)
    return raised, t.w, not t.closed, (fwd[0][:2] if fwd else None), (bytes(left) if isinstance(left, bytes) else None)


def gen_socks(rng):
    def host():
        return rng.choice([b'a', b'example.com', b'', b'\xc3\xa9', b'\xff', b'\xed\xa0\x80', b'h' * 255,
                           b'\xf0\x9f\x98\x80', b'\xc0\x80', b'\xe0\x80\x80', b'\xf4\x90\x80\x80'])
    r = rng.randint(0, 9)
    port = struct.pack('>H', rng.choice([0, 22, 80, 65535]))
    if r <= 1:          # SOCKS4 / 4a
        addr = rng.choice([b'\x01\x02\x03\x04', b'\x00\x00\x00\x01', b'\x00\x00\x00\x00', b'\x00\x00\x00\xff', b'\xff\xff\xff\xff'])
        s = b'\x04' + bytes([rng.choice([1, 1, 1, 2, 0])]) + port + addr + rng.choice([b'', b'user', b'\xff']) + b'\0'
        if addr[:3] == b'\0\0\0' and addr[3]:
            s += host().replace(b'\0', b'') + b'\0'
        s += rng.choice([b'', b'', b'tail', b'\0', b'more\0'])
    elif r <= 5:        # SOCKS5
        nm = rng.choice([0, 1, 1, 2, 3])
        methods = bytes(rng.choice([0, 0, 1, 2, 255]) for _ in range(nm))
        s = b'\x05' + bytes([rng.choice([nm, nm, nm, nm + 1, 0])]) + methods
        at = rng.choice([1, 3, 3, 4, 0, 2, 255])
        cmd = b'\x05' + bytes([rng.choice([1, 1, 1, 2, 3])]) + bytes([rng.choice([0, 0, 0, 1])]) + bytes([at])
        if at == 1:
            cmd += rng.randbytes(4)
        elif at == 4:
            cmd += rng.randbytes(16)
        elif at == 3:
            h = host()[:255]
            cmd += bytes([rng.choice([len(h), len(h), 0, 1])]) + h
        s += cmd + port + rng.choice([b'', b'', b'payload', b'\x05\x00'])
    elif r == 6:
        s = bytes([rng.choice([0, 1, 3, 6, 71, 255])]) + rng.randbytes(rng.randint(0, 12))
    elif r == 7:
        s = b'\x04\x01' + port + b'\x00\x00\x00\x01' + b'u' * rng.choice([10, 254, 255, 256, 300])
    else:
        s = rng.randbytes(rng.randint(0, 24))
    if rng.random() < 0.2 and s:
        s = s[:rng.randint(0, len(s))]
    # chunking
    k = rng.random()
    if k < 0.4:
        chunks = [s]
    elif k < 0.6:
        chunks = [s[i:i + 1] for i in range(len(s))]
    else:
        cuts = sorted(rng.sample(range(len(s) + 1), min(len(s) + 1, rng.randint(1, 3))))
        chunks = [s[a:b] for a, b in zip([0] + cuts, cuts + [len(s)])]
    return [c for c in chunks if c] or [b'']


SOCKS_FIXED = [
    [b'\x05\x00'], [b'\x05\x01\x01\x01'], [b'\x05\x01\x01'], [b'\x05\x01\x00', b'\x05\x01\x00\x03', b'\x03abc\x00P'],
    [b'\x04\x01\x00P\x00\x00\x00\x01\xff\x00ok\x00'], [b'\x04\x01\x00P\x00\x00\x00\x01u\x00\xff\x00ok\x00'],
    [b'\x05\x01\x00\x05\x01\x00\x03\x02\xff\xfe\x02ab\x00P'], [b'\x07\x01\x04\x01'],
    [b'\x04\x01\x00P\x01\x02\x03\x04' + b'a' * 300], [b'\x05\x01\x00\x05\x01\x00\x03\x00\x00\x16'],
    [b'\x05\x01\x00\x05\x01\x00\x04' + bytes(range(16)) + b'\x01\xbb'], [b'\x05\x02\x01\x00\x05\x02\x00\x01'],
    [b'\x04\x02\x00\x16\x01\x02\x03\x04\x00'], [b'\x05\x01\x00\x05\x01\x00\x01\x7f\x00\x00\x01\x00\x16extra'],
]


def socks_case_coq(chunks, obs):
    raised, writes, is_open, fwd, left = obs
    if fwd is not None:
        host, port = fwd
        hb = host.encode('utf-8', 'surrogateescape')
        try:
            import ipaddress
            packed = ipaddress.ip_address(host).packed
        except ValueError:
            packed = None
        fw = '(Some (%s, %s, %d))' % (zl(hb), copt(packed, zl), port)
    else:
        fw = 'None'
    return '(%s, (%s, %s, %s, %s, %s))' % (clist(chunks, zl), cbool(raised is not None), clist(writes, zl),
                                            cbool(is_open), fw, copt(left, zl))


def socks_run(rng, n):
    cases, raised_cases, stats = [], [], {'raised': 0, 'forwarded': 0, 'closed': 0, 'waiting': 0}
    inputs = list(SOCKS_FIXED) + [gen_socks(rng) for _ in range(n)]
    for chunks in inputs:
        PROGRESS['item'] = ['socks', [c.hex() for c in chunks]]
        obs = socks_observe(chunks)
        if obs[0] is not None:
            stats['raised'] += 1
            raised_cases.append((chunks, obs[0]))
        elif obs[3] is not None:
            stats['forwarded'] += 1
        elif not obs[2]:
            stats['closed'] += 1
        else:
            stats['waiting'] += 1
        cases.append(socks_case_coq(chunks, obs))
    return cases, raised_cases, stats, inputs


# ================================================================================================
# 4. SFTP server: framing and copy-data, through the public run_sftp_server() with in-memory streams

class _Log:
    def get_child(self, *a, **k):
        return self

    def __getattr__(self, name):
        return lambda *a, **k: None


class MemReader:
    def __init__(self):
        self.buf = bytearray()
        self.eof = False
        self.waiter = None
        self.logger = _Log()

    def get_extra_info(self, name, default=None):
        return default

    async def readexactly(self, n):
        while len(self.buf) < n:
            if self.eof:
                raise asyncio.IncompleteReadError(bytes(self.buf), n)
            self.waiter = asyncio.get_running_loop().create_future()
            try:
                await self.waiter
            finally:
                self.waiter = None
        out = bytes(self.buf[:n])
        del self.buf[:n]
        return out

    def _wake(self):
        if self.waiter is not None and not self.waiter.done():
            self.waiter.set_result(None)

    def feed(self, data):
        self.buf += data
        self._wake()

    def feed_eof(self):
        self.eof = True
        self._wake()


class MemWriter:
    def __init__(self):
        self.out = bytearray()
        self.closed = False
        self.channel = self
        self.logger = _Log()

    def write(self, data):
        if self.closed:
            raise BrokenPipeError('closed')
        self.out += data

    def write_eof(self):
        pass

    def close(self):
        self.closed = True

    async def wait_closed(self):
        pass

    def get_extra_info(self, name, default=None):
        return default


class StubChan:
    def get_connection(self):
        return None

    def get_extra_info(self, name, default=None):
        return default


async def turns(n=30):
    for _ in range(n):
        await asyncio.sleep(0)


def take_frames(buf):
    out = []
    while len(buf) >= 4:
        n = struct.unpack('>I', buf[:4])[0]
        if len(buf) < 4 + n:
            break
        out.append(bytes(buf[4:4 + n]))
        del buf[:4 + n]
    return out


class SftpSession:
    """one SFTP server session fed by hand"""

    def __init__(self, server, version=3):
        import asyncssh.sftp as sftp
        self.r, self.w = MemReader(), MemWriter()
        self.task = asyncio.ensure_future(sftp.run_sftp_server(server, self.r, self.w, version))

    async def init(self, v=3):
        self.r.feed(frame(b'\x01' + u32(v)))
        await turns()
        fr = take_frames(self.w.out)
        return bool(fr) and fr[0][0] == 2

    async def send(self, data, n=40):
        self.r.feed(data)
        await turns(n)
        return take_frames(self.w.out)

    async def finish(self):
        """-> exception that escaped run_sftp_server, or None"""
        self.r.feed_eof()
        await turns()
        if not self.task.done():
            self.task.cancel()
            try:
                await self.task
            except BaseException:                       # noqa
                pass
            return 'task did not end at EOF'
        if self.task.cancelled():
            return None
        e = self.task.exception()
        return None if e is None else '%s: %s' % (type(e).__name__, e)


def gen_sftp_stream(rng):
    pk = []
    for _ in range(rng.randint(0, 5)):
        t = rng.choice([0, 1, 2, 99, 250, 255, 200, 200])
        rid = rng.choice([0, 1, 7, 2 ** 31, 2 ** 32 - 1, rng.randint(0, 1000)])
        body = bytes([t]) + u32(rid)
        if t == 200:
            body += rng.choice([sstr(b'frob@example.com'), sstr(b''), b'', u32(99), sstr(b'x') + b'tail'])
        else:
            body += rng.randbytes(rng.randint(0, 6))
        r = rng.random()
        if r < 0.12:
            body = body[:rng.randint(0, 4)]             # shorter than type + id: bad message
        pk.append(frame(body))
    s = b''.join(pk)
    r = rng.random()
    if r < 0.2 and s:
        s = s[:rng.randint(0, len(s))]
    elif r < 0.3:
        s += u32(rng.choice([0, 1, 4, 2 ** 31, 2 ** 32 - 1])) + rng.randbytes(rng.randint(0, 3))
    elif r < 0.35:
        s += rng.randbytes(rng.randint(1, 3))
    return s


async def sftp_framing_run(rng, n, root):
    import asyncssh
    cases, bad, stats = [], [], {'ended': 0, 'waiting': 0, 'replies': 0}
    for _ in range(n):
        stream = gen_sftp_stream(rng)
        PROGRESS['item'] = ['sftp stream', stream.hex()]
        sess = SftpSession(asyncssh.SFTPServer(StubChan(), chroot=root))
        if not await sess.init():
            raise RuntimeError('sftp bring-up: no FXP_VERSION')
        if rng.random() < 0.5 or not stream:
            frames = await sess.send(stream)
        else:
            cut = rng.randint(0, len(stream))
            frames = await sess.send(stream[:cut]) + await sess.send(stream[cut:])
        ended = sess.w.closed
        ids = [struct.unpack('>I', f[1:5])[0] for f in frames if len(f) >= 5]
        esc = await sess.finish()
        if esc:
            bad.append(('run_sftp_server', stream, esc))
        stats['ended' if ended else 'waiting'] += 1
        stats['replies'] += len(ids)
        cases.append('(%s, (%s, %s))' % (zl(stream), clist(ids, str), cbool(ended)))
    return cases, bad, stats


BLOCK = 256 * 1024


async def copy_observe(root, same, sz, roff, length, woff, cap, how=None):
    """-> (read calls, bytes written, capped)"""
    import asyncssh

    class Counting(asyncssh.SFTPServer):
        reads = 0
        written = 0
        capped = False

        def read(self, file_obj, offset, size):
            if Counting.reads >= cap:
                Counting.capped = True
                raise asyncssh.SFTPFailure('c10 cap on read calls reached')
            Counting.reads += 1
            return super().read(file_obj, offset, size)

        def write(self, file_obj, offset, data):
            Counting.written += len(data)
            return super().write(file_obj, offset, data)
    for name in os.listdir(root):
        q = os.path.join(root, name)
        if os.path.isdir(q) and not os.path.islink(q):
            shutil.rmtree(q, ignore_errors=True)
        else:
            os.remove(q)
    src = os.path.join(root, 'src')
    with open(src, 'wb') as f:
        f.write(b'\xa5' * sz)
    how = how or ('two_opens' if same else 'distinct')
    p1, p2, rw = b'/src', b'/dst', 0x01 | 0x02
    if how == 'hardlink':
        os.link(src, os.path.join(root, 'dst'))
    elif how == 'symlink':
        os.symlink('src', os.path.join(root, 'dst'))
    elif how in ('two_opens', 'same_handle', 'renamed_after_open', 'unlinked_after_open', 'replaced_after_open'):
        p2 = b'/src'
    elif how == 'equal_names_other_dir':
        os.mkdir(os.path.join(root, 'a'))
        os.mkdir(os.path.join(root, 'b'))
        os.rename(src, os.path.join(root, 'a', 'f'))
        with open(os.path.join(root, 'b', 'f'), 'wb') as f:
            f.write(b'\x5a' * sz)
        p1, p2 = b'/a/f', b'/b/f'
    sess = SftpSession(Counting(StubChan(), chroot=root))
    if not await sess.init():
        raise RuntimeError('sftp bring-up: no FXP_VERSION')

    async def sopen(rid, path, flags):
        # v3 open: path, pflags, attrs(flags=0)
        fr = await sess.send(frame(b'\x03' + u32(rid) + sstr(path) + u32(flags) + u32(0)))
        return fr[0][9:9 + struct.unpack('>I', fr[0][5:9])[0]] if fr and fr[0][0] == 102 else None
    h1 = await sopen(1, p1, rw if same else 0x01)
    if how == 'replaced_after_open':
        # the name now belongs to ANOTHER file of the same size: not the same file
        await sess.send(frame(b'\x12' + u32(10) + sstr(b'/src') + sstr(b'/old')))
        with open(src, 'wb') as f:
            f.write(b'\x5a' * sz)
    h2 = h1 if how == 'same_handle' else await sopen(2, p2, rw if how != 'distinct' else (0x02 | 0x08))
    if how == 'renamed_after_open':
        await sess.send(frame(b'\x12' + u32(10) + sstr(b'/src') + sstr(b'/moved')))
    elif how == 'unlinked_after_open':
        await sess.send(frame(b'\x0d' + u32(10) + sstr(b'/src')))
    if h1 is None or h2 is None:
        raise RuntimeError('sftp bring-up: open failed (%s)' % how)
    req = b'\xc8' + u32(3) + sstr(b'copy-data') + sstr(h1) + u64(roff) + u64(length) + sstr(h2) + u64(woff)
    fr = await sess.send(frame(req), n=60)
    replied = bool(fr)
    esc = await sess.finish()
    return Counting.reads, Counting.written, Counting.capped, replied, esc


async def copy_run(rng, tier, root, only=None):
    cases, bad, stats = [], [], {'done': 0, 'capped': 0, 'same_file_refused': 0, 'multi_block': 0}
    sizes = [0, 1, BLOCK - 1, BLOCK, BLOCK + 1, 2 * BLOCK + 5]
    params = []
    for sz in sizes:
        for roff in (0, 1, sz, sz + 7):
            for length in (0, 1, BLOCK, BLOCK + 1, 2 ** 32 - 1, 2 ** 63, 2 ** 64 - 1):
                params.append((False, sz, roff, length, rng.choice([0, 0, 3, BLOCK]), 12))
    rng.shuffle(params)
    params = params[:(len(params) if tier == 'thorough' else 36)]
    # copies that need several read calls, whatever the shuffle kept (the multi_block coverage guard must not
    # depend on the seed)
    params += [(False, 2 * BLOCK + 5, 0, 0, 0, 12), (False, 2 * BLOCK + 5, 1, 2 ** 64 - 1, 3, 12),
               (False, 2 * BLOCK + 5, 0, 2 * BLOCK + 5, BLOCK, 12), (False, BLOCK + 1, 0, 0, 0, 12)]
    # the same file as source and destination (a cap on read calls stands in for the disk filling up)
    for sz, woff, length in ((BLOCK, BLOCK, 0), (BLOCK + 9, 2 * BLOCK, 0), (BLOCK, BLOCK - 1, 0), (3 * BLOCK, 5, 0),
                             (BLOCK, BLOCK, 2 ** 64 - 1), (10, 20, 0), (BLOCK, 0, 0)):
        params.append((True, sz, 0, length, woff, 6))
    params = [p + (None,) for p in params]
    # every way two handles can denote one file (refused: nothing read, nothing written), and two ways they can
    # look alike without being the same file (copied normally)
    for how in ('same_handle', 'two_opens', 'hardlink', 'symlink', 'renamed_after_open', 'unlinked_after_open'):
        params.append((True, BLOCK, 0, 0, BLOCK, 6, how))
        params.append((True, BLOCK + 9, 0, 2 ** 64 - 1, 2 * BLOCK, 6, how))
    for how in ('replaced_after_open', 'equal_names_other_dir'):
        params.append((False, 2 * BLOCK + 5, 0, 0, BLOCK, 12, how))
        params.append((False, BLOCK, 0, 0, BLOCK, 12, how))
    if only is not None:
        params = [tuple(only) + ((None,) if len(only) == 6 else ())]
    for same, sz, roff, length, woff, cap, how in params:
        PROGRESS['item'] = ['copy-data', same, sz, roff, length, woff, cap, how]
        reads, written, capped, replied, esc = await copy_observe(root, same, sz, roff, length, woff, cap, how)
        stats['how.%s' % (how or ('two_opens' if same else 'distinct'))] = \
            stats.get('how.%s' % (how or ('two_opens' if same else 'distinct')), 0) + 1
        if capped:
            stats.setdefault('capped_how', []).append(how or ('two_opens' if same else 'distinct'))
        if esc:
            bad.append(('copy-data', repr((same, sz, roff, length, woff)), esc))
        if not replied:
            bad.append(('copy-data', repr((same, sz, roff, length, woff)), 'no reply to the request'))
        stats['capped' if capped else 'done'] += 1
        if same and reads == 0 and written == 0:
            stats['same_file_refused'] += 1
        if reads >= 2 and not capped:
            stats['multi_block'] += 1
        cases.append('((%s, %d, %d, %d, %d, %d), (%d, %d, %s))' % (cbool(same), sz, roff, length, woff, cap,
                                                                   reads, written, cbool(capped)))
    return cases, bad, stats, params


# ================================================================================================
# Part 2: documented exception classes only

def rle(data):
    out = []
    for b in data:
        if out and out[-1][0] == b:
            out[-1][1] += 1
        else:
            out.append([b, 1])
    return out


def rle_coq(data):
    return clist(rle(data), lambda p: '(%d, %d)' % (p[0], p[1]))


def key_corpus():
    """valid keys / certificates in every text and binary format asyncssh exports"""
    import asyncssh
    out = []
    keys = [asyncssh.generate_private_key('ssh-ed25519', comment='c10'),
            asyncssh.generate_private_key('ecdsa-sha2-nistp256'),
            asyncssh.generate_private_key('ssh-rsa', key_size=1024)]
    for k in keys:
        for fmt in ('openssh', 'pkcs8-pem', 'pkcs8-der', 'pkcs1-pem', 'pkcs1-der'):
            try:
                out.append(('private', k.export_private_key(fmt)))
            except Exception:                           # noqa: format not available for this key type
                pass
        for fmt in ('openssh', 'rfc4716', 'pkcs8-pem', 'pkcs8-der', 'pkcs1-pem', 'pkcs1-der'):
            try:
                out.append(('public', k.export_public_key(fmt)))
            except Exception:                           # noqa
                pass
        try:
            out.append(('private', k.export_private_key('pkcs8-pem', passphrase='pw')))
            out.append(('private_pw', k.export_private_key('pkcs8-pem', passphrase='pw')))
            out.append(('private_pw', k.export_private_key('pkcs8-der', passphrase='pw')))
        except Exception:                               # noqa
            pass
    ca = keys[0]
    cert = ca.generate_user_certificate(keys[1], 'id', principals=['u'], valid_after=0)
    for fmt in ('openssh', 'rfc4716', 'der'):
        try:
            out.append(('cert', cert.export_certificate(fmt)))
        except Exception:                               # noqa
            pass
    return out


DER_SEEDS = ['300403020101', '30040c02c328', '3000', '0500', '0101ff', '020100', '0400', '0c00', '3100',
             '06032a0304', '0303000102', 'a003020101', '1f8101', '30800000', '3081', '30820001', '0282000101',
             '0600', '068180', '0301', '030108', '0c02eda0', '30060c01e902017f', '1e0200', 'bf1f00', '30848000000000']


def mutate(rng, data):
    b = bytearray(data)
    k = rng.randint(0, 8)
    if k == 0 and b:
        del b[rng.randrange(len(b)):]
    elif k == 1 and b:
        i = rng.randrange(len(b))
        b[i] ^= 1 << rng.randrange(8)
    elif k == 2 and b:
        i = rng.randrange(len(b))
        b[i] = rng.choice([0, 1, 0x7f, 0x80, 0x81, 0xff, 0x28, 0x29, 0x5b, 0x2a, 0x0c, 0x03, 0x1f])
    elif k == 3 and b:
        i, j = sorted((rng.randrange(len(b)), rng.randrange(len(b))))
        del b[i:j]
    elif k == 4:
        i = rng.randrange(len(b) + 1)
        b[i:i] = rng.choice([b'\x00', b'\xff\xff\xff\xff', b'\x80', b'(', b'\x0c\x02\xc3\x28', b'\x03\x02\x01\x01',
                             b'-----', b'\n', b': ', b'\\', b'\x30\x80'])
    elif k == 5 and len(b) > 4:
        i = rng.randrange(len(b) - 4)
        b[i:i + 4] = u32(rng.choice([0, 1, 2 ** 31, 2 ** 32 - 1, len(b)]))
    elif k == 6 and b:
        i = rng.randrange(len(b))
        b[i:] = b[i:][::-1]
    elif k == 7:
        b += rng.randbytes(rng.randint(1, 8))
    else:
        i = rng.randrange(len(b) + 1)
        b[i:i] = b[max(0, i - 20):i]
    return bytes(b)


def pem_header_variants(rng, text):
    """edits of the BEGIN/END header of a PEM-like text"""
    out = []
    for junk in (b'( ', b'[', b'* ', b'?', b'\\', b'+ ', b'{1,', b')'):
        out.append(text.replace(b'-----BEGIN ', b'-----BEGIN ' + junk, 1))
        out.append(text.replace(b'-----BEGIN ', b'-----BEGIN ' + junk).replace(b'-----END ', b'-----END ' + junk))
    return out


def der_len(n):
    if n < 128:
        return bytes([n])
    b = n.to_bytes((n.bit_length() + 7) // 8, 'big')
    return bytes([0x80 | len(b)]) + b


def der_tlv(tag, content):
    return bytes([tag]) + der_len(len(content)) + content


def nested_der(depth, tags, inner=b'\x02\x01\x00'):
    """inner wrapped in [depth] constructed values, tags taken in turn from [tags]"""
    d = inner
    for i in range(depth):
        d = der_tlv(tags[i % len(tags)], d)
    return d


def pem_block(name, der):
    b = base64.b64encode(der)
    return b'-----BEGIN ' + name + b'-----\n' + b'\n'.join(b[i:i + 64] for i in range(0, len(b), 64)) + \
        b'\n-----END ' + name + b'-----\n'


PEM_TYPES = [b'PRIVATE KEY', b'RSA PRIVATE KEY', b'EC PRIVATE KEY', b'DSA PRIVATE KEY', b'ENCRYPTED PRIVATE KEY',
             b'PUBLIC KEY', b'RSA PUBLIC KEY', b'CERTIFICATE', b'X509 CERTIFICATE', b'TRUSTED CERTIFICATE',
             b'OPENSSH PRIVATE KEY', b'SSH2 PUBLIC KEY']
DEPTHS = [100, 450, 600, 1500, 5000]
RSA_OID = bytes.fromhex('06092a864886f70d010101')
PBES2_OID = bytes.fromhex('06092a864886f70d01050d')


def deep_der_inputs():
    """deeply nested DER in every container the import functions accept -> [(label, bytes)]"""
    out = []
    shapes = {'seq': [0x30], 'set': [0x31], 'ctx': [0xa0], 'app': [0x60], 'mixed': [0x30, 0xa0, 0x31, 0xa3]}
    for depth in DEPTHS:
        for sname, tags in shapes.items():
            if sname in ('set', 'app') and depth not in (600, 1500):
                continue
            d = nested_der(depth, tags)
            seq = d if d[0] == 0x30 else der_tlv(0x30, d)
            out.append(('raw %s depth %d' % (sname, depth), d))
            if d[0] != 0x30:
                out.append(('raw seq{%s} depth %d' % (sname, depth), seq))
            if sname in ('seq', 'mixed'):
                for name in PEM_TYPES:
                    out.append(('PEM %s %s depth %d' % (name.decode(), sname, depth), pem_block(name, seq)))
                # TRUSTED CERTIFICATE: a certificate followed by trust data
                out.append(('PEM TRUSTED CERTIFICATE seq+trailer depth %d' % depth,
                            pem_block(b'TRUSTED CERTIFICATE', seq + der_tlv(0x30, b''))))
                # PKCS#8 wrappers: the nesting in the algorithm parameters, in the key OCTET STRING, and in an
                # encrypted wrapper's parameters
                alg = der_tlv(0x30, RSA_OID + b'\x05\x00')
                out.append(('pkcs8 inner key depth %d' % depth, der_tlv(0x30, b'\x02\x01\x00' + alg + der_tlv(0x04, seq))))
                out.append(('pkcs8 alg params depth %d' % depth,
                            der_tlv(0x30, b'\x02\x01\x00' + der_tlv(0x30, RSA_OID + seq) + der_tlv(0x04, b'\x30\x00'))))
                out.append(('spki alg params depth %d' % depth,
                            der_tlv(0x30, der_tlv(0x30, RSA_OID + seq) + der_tlv(0x03, b'\x00\x30\x00'))))
                out.append(('spki key bits depth %d' % depth, der_tlv(0x30, alg + der_tlv(0x03, b'\x00' + seq))))
                enc = der_tlv(0x30, der_tlv(0x30, PBES2_OID + seq) + der_tlv(0x04, b'\x00' * 16))
                out.append(('encrypted pkcs8 params depth %d' % depth, enc))
                out.append(('PEM ENCRYPTED PRIVATE KEY params depth %d' % depth, pem_block(b'ENCRYPTED PRIVATE KEY', enc)))
                out.append(('PEM PRIVATE KEY pkcs8 inner depth %d' % depth,
                            pem_block(b'PRIVATE KEY', der_tlv(0x30, b'\x02\x01\x00' + alg + der_tlv(0x04, seq)))))
    return out


def import_targets():
    """name -> (callable on bytes, documented exception classes)"""
    import asyncssh
    from asyncssh.asn1 import der_decode, der_decode_partial, ASN1DecodeError
    doc_key = (asyncssh.KeyImportError, asyncssh.KeyEncryptionError)
    return {
        'import_private_key': (lambda d: asyncssh.import_private_key(d), doc_key),
        'import_private_key(passphrase)': (lambda d: asyncssh.import_private_key(d, 'pw'), doc_key),
        'import_public_key': (lambda d: asyncssh.import_public_key(d), (asyncssh.KeyImportError,)),
        'import_certificate': (lambda d: asyncssh.import_certificate(d), (asyncssh.KeyImportError,)),
        'der_decode': (lambda d: der_decode(d), (ASN1DecodeError,)),
        'der_decode_partial': (lambda d: der_decode_partial(d), (ASN1DecodeError,)),
    }


def fuzz_imports(rng, n, only=None):
    """-> findings [(func, input bytes, exception class name)], stats"""
    targets = import_targets()
    if only is not None:
        fn, doc = targets[only[0]]
        d = bytes.fromhex(only[1])
        try:
            fn(d)
        except doc:
            pass
        except Exception as e:                          # noqa
            return [(only[0], d, type(e).__module__.split('.')[-1] + '.' + type(e).__name__)], {}
        return [], {}
    try:
        from .c10_corpus import CORPUS as corpus
    except ImportError:                                 # corpus file missing: fresh (non-reproducible) keys
        corpus = key_corpus()
    inputs = []
    for hx in DER_SEEDS:
        inputs.append(bytes.fromhex(hx))
    inputs.append(b'-----BEGIN ( PRIVATE KEY-----\nAAAA\n-----END ( PRIVATE KEY-----\n')
    deep = deep_der_inputs()
    inputs += [d for _, d in deep]
    for kind, data in corpus:
        inputs.append(data)
        if data.startswith(b'-----') or data.startswith(b'---- '):
            inputs += pem_header_variants(rng, data)
    for _ in range(n):
        kind, data = rng.choice(corpus)
        d = data
        for _ in range(rng.randint(1, 3)):
            d = mutate(rng, d)
        inputs.append(d)
        if rng.random() < 0.3:
            raw = bytes.fromhex(rng.choice(DER_SEEDS))
            inputs.append(mutate(rng, raw))
        if rng.random() < 0.2 and (data.startswith(b'ssh-') or data.startswith(b'ecdsa-')):
            # OpenSSH one-line format: damage the blob inside the base64
            parts = data.split()
            try:
                blob = base64.b64decode(parts[1])
                inputs.append(parts[0] + b' ' + base64.b64encode(mutate(rng, blob)) + b' x\n')
            except Exception:                           # noqa
                pass
    findings, stats = [], {'ok': 0, 'documented': 0, 'undocumented': 0, 'calls': 0, 'deep_der_inputs': len(deep)}
    for d in inputs:
        for name, (fn, doc) in targets.items():
            stats['calls'] += 1
            PROGRESS['item'] = [name, d.hex()]
            try:
                fn(d)
                stats['ok'] += 1
            except doc:
                stats['documented'] += 1
            except Exception as e:                      # noqa
                stats['undocumented'] += 1
                findings.append((name, d, type(e).__module__.split('.')[-1] + '.' + type(e).__name__))
    return findings, stats


# ---- SFTP requests and replies at the handler level ---------------------------------------------

def sftp_request_bodies(rng, handle):
    """(label, frame body) hostile variants of every SFTP v3 request"""
    S = sstr
    attrs0 = u32(0)
    reqs = {
        3: S(b'/f') + u32(1) + attrs0, 4: S(handle), 5: S(handle) + u64(0) + u32(10), 6: S(handle) + u64(0) + S(b'data'),
        7: S(b'/f'), 8: S(handle), 9: S(b'/f') + attrs0, 10: S(handle) + attrs0, 11: S(b'/'), 12: S(handle),
        13: S(b'/nofile'), 14: S(b'/d') + attrs0, 15: S(b'/nodir'), 16: S(b'/f'), 17: S(b'/f'), 18: S(b'/a') + S(b'/b'),
        19: S(b'/l'), 20: S(b'/l') + S(b'/t'),
    }
    out = []
    for t, body in reqs.items():
        base = bytes([t]) + u32(t) + body
        out.append(('t%d:wf' % t, base))
        for c in sorted({5, 6, 8, 9, len(base) - 1} & set(range(5, len(base)))):
            out.append(('t%d:trunc%d' % (t, c), base[:c]))
        out.append(('t%d:ext' % t, base + b'\0\0\0\1'))
        # every 4-byte aligned field of the body at its extremes
        for off in range(5, len(base) - 3, 4):
            for x in (0, 1, 2 ** 31, 2 ** 32 - 1):
                out.append(('t%d:@%d=%d' % (t, off, x), base[:off] + u32(x) + base[off + 4:]))
    for name, body in ((b'copy-data', S(handle) + u64(0) + u64(0) + S(handle) + u64(0)),
                       (b'posix-rename@openssh.com', S(b'/a') + S(b'/b')), (b'statvfs@openssh.com', S(b'/')),
                       (b'fstatvfs@openssh.com', S(handle)), (b'hardlink@openssh.com', S(b'/a') + S(b'/b')),
                       (b'fsync@openssh.com', S(handle)), (b'lsetstat@openssh.com', S(b'/f') + attrs0),
                       (b'limits@openssh.com', b''), (b'ranges@asyncssh.com', S(handle) + u64(0) + u64(10)),
                       (b'frob@example.com', b'x')):
        base = b'\xc8' + u32(77) + S(name) + body
        out.append(('ext:%s:wf' % name.decode(), base))
        out.append(('ext:%s:ext' % name.decode(), base + b'\xff'))
        for c in sorted({len(base) - 1, len(base) - 4, len(base) - 9} & set(range(9 + len(name), len(base)))):
            out.append(('ext:%s:trunc%d' % (name.decode(), c), base[:c]))
        for off in range(9 + len(name), len(base) - 3, 4):
            for x in (0, 2 ** 32 - 1):
                out.append(('ext:%s:@%d=%d' % (name.decode(), off, x), base[:off] + u32(x) + base[off + 4:]))
    # attrs with every flag bit and hostile extended counts
    for flags in (0xffffffff, 0x80000000, 0x0000000f, 0x40000000):
        out.append(('setstat:flags=%x' % flags, b'\x09' + u32(5) + S(b'/f') + u32(flags) + b'\0' * rng.choice([0, 4, 28, 64])))
        out.append(('setstat:flags=%x+count' % flags, b'\x09' + u32(5) + S(b'/f') + u32(flags) + u64(1) + u32(1) + u32(2) + u32(0o644) +
                    u32(1) + u32(2) + u32(2 ** 32 - 1) + S(b'k') + S(b'v')))
    return out


async def fuzz_sftp_server(rng, root, full):
    """every request must be answered by exactly one reply with its id (or the session ended by the server
    with the handler task finishing normally); no exception may leave run_sftp_server"""
    import asyncssh
    findings, stats = [], {'requests': 0, 'replied': 0, 'ended': 0}
    inits = [b'\x01' + u32(3) + sstr(b'supported') + sstr(b''), b'\x01' + u32(3) + sstr(b'supported2') + sstr(b'\0' * 3),
             b'\x01' + u32(3) + sstr(b'vendor-id') + sstr(b'x'), b'\x01' + u32(3) + sstr(b'acl-supported') + sstr(b''),
             b'\x01' + u32(3) + sstr(b'x'), b'\x01' + u32(2 ** 32 - 1), b'\x01' + u32(0), b'\x01', b'\x02' + u32(3),
             b'\x01' + u32(6) + b'zz', b'', b'\x01' + u32(3) + u32(2 ** 32 - 1)]
    for init in inits:
        sess = SftpSession(asyncssh.SFTPServer(StubChan(), chroot=root))
        await sess.send(frame(init))
        esc = await sess.finish()
        stats['requests'] += 1
        if esc:
            findings.append(('run_sftp_server(init)', frame(init), esc))
    open(os.path.join(root, 'f'), 'wb').write(b'0123456789' * 10)
    sess = None
    bodies = None
    for round_ in range(2 if full else 1):
        sess = SftpSession(asyncssh.SFTPServer(StubChan(), chroot=root))
        await sess.init()
        fr = await sess.send(frame(b'\x03' + u32(1) + sstr(b'/f') + u32(3) + u32(0)))
        handle = fr[0][9:] if fr and fr[0][0] == 102 else b'\0\0\0\0'
        bodies = sftp_request_bodies(rng, handle)
        if not full:
            keep = [b for b in bodies if b[0].endswith(':wf')] + rng.sample(bodies, min(len(bodies), 260))
            bodies = keep
        for label, body in bodies:
            if sess.w.closed or sess.task.done():
                esc = await sess.finish()
                if esc:
                    findings.append(('run_sftp_server', 'after ' + label, esc))
                sess = SftpSession(asyncssh.SFTPServer(StubChan(), chroot=root))
                await sess.init()
                stats['ended'] += 1
            stats['requests'] += 1
            PROGRESS['item'] = ['sftp request', label, body.hex()]
            rid = struct.unpack('>I', body[1:5])[0] if len(body) >= 5 else None
            fr = await sess.send(frame(body))
            if len(body) >= 5:
                ids = [struct.unpack('>I', f[1:5])[0] for f in fr if len(f) >= 5]
                if ids == [rid]:
                    stats['replied'] += 1
                elif not (sess.w.closed or sess.task.done()):
                    findings.append(('sftp request ' + label, frame(body), 'replies %r to request id %r' % (ids, rid)))
        esc = await sess.finish()
        if esc:
            findings.append(('run_sftp_server', 'end of round', esc))
    for name in os.listdir(root):
        p = os.path.join(root, name)
        if os.path.isdir(p) and not os.path.islink(p):
            shutil.rmtree(p, ignore_errors=True)
        else:
            os.remove(p)
    return findings, stats


class ConnStub:
    def __init__(self):
        self.tasks = []

    def create_task(self, coro, *a, **k):
        t = asyncio.ensure_future(coro)
        self.tasks.append(t)
        return t


async def fuzz_sftp_client(rng, full):
    """hostile SERVER replies to an SFTP client: every client call returns or raises SFTPError (or a
    documented ValueError / OSError-free class); nothing else, and it must not wait for ever once the reply and
    EOF are there"""
    import asyncssh
    import asyncssh.sftp as sftp
    findings, stats = [], {'calls': 0, 'ok': 0, 'sftp_error': 0, 'other_documented': 0}
    name_attrs = sstr(b'n') + sstr(b'-rw-r--r-- 1 u g 0 Jan 1 00:00 n') + u32(0)
    replies = {
        'status_ok': lambda rid: b'\x65' + u32(rid) + u32(0) + sstr(b'') + sstr(b''),
        'status_eof': lambda rid: b'\x65' + u32(rid) + u32(1) + sstr(b'') + sstr(b''),
        'status_huge': lambda rid: b'\x65' + u32(rid) + u32(2 ** 32 - 1) + sstr(b'\xff') + sstr(b'\xff'),
        'status_short': lambda rid: b'\x65' + u32(rid) + u32(4),
        'handle': lambda rid: b'\x66' + u32(rid) + sstr(b'h'),
        'handle_long': lambda rid: b'\x66' + u32(rid) + sstr(b'h' * 300) + b'x',
        'data': lambda rid: b'\x67' + u32(rid) + sstr(b'abc'),
        'data_big': lambda rid: b'\x67' + u32(rid) + sstr(b'z' * 70000),
        'data_len': lambda rid: b'\x67' + u32(rid) + u32(2 ** 32 - 1) + b'abc',
        'name1': lambda rid: b'\x68' + u32(rid) + u32(1) + name_attrs,
        'name_count_max': lambda rid: b'\x68' + u32(rid) + u32(2 ** 32 - 1) + name_attrs,
        'name_count0': lambda rid: b'\x68' + u32(rid) + u32(0),
        'name_badutf8': lambda rid: b'\x68' + u32(rid) + u32(1) + sstr(b'\xff\xfe') + sstr(b'\xff') + u32(0),
        'name_flags': lambda rid: b'\x68' + u32(rid) + u32(1) + sstr(b'n') + sstr(b'l') + u32(0xffffffff) + b'\0' * 40,
        'attrs': lambda rid: b'\x69' + u32(rid) + u32(0),
        'attrs_all': lambda rid: b'\x69' + u32(rid) + u32(0x8000000f) + u64(2 ** 64 - 1) + u32(2 ** 32 - 1) * 2 + u32(2 ** 32 - 1) +
                                 u32(2 ** 32 - 1) * 2 + u32(2 ** 32 - 1) + sstr(b'k') + sstr(b'v'),
        'attrs_short': lambda rid: b'\x69' + u32(rid) + u32(1) + b'\0\0',
        'ext_reply': lambda rid: b'\xc9' + u32(rid) + u64(1) * 11,
        'ext_reply_short': lambda rid: b'\xc9' + u32(rid) + u64(1),
        'unknown_type': lambda rid: b'\x99' + u32(rid),
        'wrong_id': lambda rid: b'\x65' + u32(rid ^ 0x5555) + u32(0) + sstr(b'') + sstr(b''),
        'no_id': lambda rid: b'\x65',
        'empty': lambda rid: b'',
        'version_again': lambda rid: b'\x02' + u32(3),
    }
    calls = {
        'stat': lambda c: c.stat('x'), 'lstat': lambda c: c.lstat('x'), 'listdir': lambda c: c.listdir('d'),
        'realpath': lambda c: c.realpath('p'), 'readlink': lambda c: c.readlink('l'), 'open': lambda c: c.open('f'),
        'remove': lambda c: c.remove('f'), 'statvfs': lambda c: c.statvfs('/'), 'mkdir': lambda c: c.mkdir('d'),
        'exists': lambda c: c.exists('f'), 'getsize': lambda c: c.getsize('f'),
    }
    doc = (asyncssh.SFTPError,)
    inits = [b'\x02' + u32(3), b'\x02' + u32(3) + sstr(b'limits@openssh.com') + sstr(b'1'),
             b'\x02' + u32(3) + sstr(b'statvfs@openssh.com') + sstr(b'2') + sstr(b'x'), b'\x02' + u32(2 ** 32 - 1),
             b'\x02', b'\x01' + u32(3), b'\x02' + u32(3) + u32(2 ** 32 - 1), b'', b'\x02' + u32(0),
             b'\x02' + u32(3) + sstr(b'supported') + sstr(b''), b'\x02' + u32(3) + sstr(b'supported2') + sstr(b'\0' * 5),
             b'\x02' + u32(3) + sstr(b'vendor-id') + sstr(b'\0\0\0\1v'), b'\x02' + u32(3) + sstr(b'acl-supported') + sstr(b'\0'),
             b'\x02' + u32(3) + sstr(b'vendor-id') + sstr(sstr(b'\xff') + sstr(b'p') + sstr(b'v') + u64(1))]
    combos = [(cn, rn) for cn in calls for rn in replies]
    if not full:
        combos = rng.sample(combos, 90)
    jobs = [('init', i, None) for i in inits] + [('call', cn, rn) for cn, rn in combos]
    for kind, a, b in jobs:
        PROGRESS['item'] = ['sftp client', kind, a if isinstance(a, str) else a.hex(), b]
        r, w = MemReader(), MemWriter()
        conn = ConnStub()
        stats['calls'] += 1

        async def server_side():
            # answer INIT, then every request with the chosen reply, then EOF
            seen = 0
            for _ in range(400):
                await asyncio.sleep(0)
                frames = take_frames(w.out)
                for fr in frames:
                    seen += 1
                    if fr[:1] == b'\x01':
                        r.feed(frame(a if kind == 'init' else b'\x02' + u32(3) + sstr(b'statvfs@openssh.com') + sstr(b'2')))
                        if kind == 'init':
                            r.feed_eof()
                    elif kind == 'call':
                        rid = struct.unpack('>I', fr[1:5])[0]
                        r.feed(frame(replies[b](rid)))
                        if fr[0] != 200 or b'limits' not in fr:
                            r.feed_eof()
        srv = asyncio.ensure_future(server_side())
        outcome = None
        try:
            client = await asyncio.wait_for(sftp.start_sftp_client(
                conn, asyncio.get_running_loop(), 'strict', r, w, 'utf-8', 'strict', 3), 5)
            if kind == 'call':
                res = await asyncio.wait_for(calls[a](client), 5)
            stats['ok'] += 1
        except doc:
            stats['sftp_error'] += 1
        except asyncio.TimeoutError:
            outcome = 'waits for ever although the reply and EOF were delivered'
        except Exception as e:                          # noqa
            outcome = type(e).__module__.split('.')[-1] + '.' + type(e).__name__ + ': ' + str(e)[:80]
        srv.cancel()
        for t in conn.tasks:
            t.cancel()
        await turns(5)
        for t in conn.tasks:
            if t.done() and not t.cancelled() and t.exception() is not None:
                e = t.exception()
                findings.append(('sftp client receive task', 'reply %s to %s' % (b, a), type(e).__name__ + ': ' + str(e)[:80]))
        if outcome:
            findings.append(('sftp client %s' % (a if kind == 'call' else 'start'), ('reply ' + b) if kind == 'call' else ('FXP_VERSION body ' + a.hex()), outcome))
    return findings, stats


# ================================================================================================
# X11 setup block parser (x11.py SSHX11ClientForwarder), driven directly

class _X11Listener:
    """stands in for SSHX11ClientListener: the cookie check only"""

    def __init__(self, remote, local):
        self.remote, self.local = remote, local

    def validate_auth(self, remote_auth):
        if remote_auth != self.remote:
            raise KeyError(remote_auth)
        return self.local


class _ChanTransport:
    def __init__(self):
        self.w, self.eof, self.closed = bytearray(), False, False

    def write(self, d):
        self.w += d

    def write_eof(self):
        self.eof = True

    def close(self):
        self.closed = True

    def abort(self):
        self.closed = True

    def get_extra_info(self, n, d=None):
        return d

    def pause_reading(self):
        pass

    def resume_reading(self):
        pass

    def can_write_eof(self):
        return True


def x11_block(endian=b'B', name=b'MIT-MAGIC-COOKIE-1', data=b'', name_len=None, data_len=None, major=11):
    """an X11 connection setup block; the two length fields can lie"""
    def u16(v):
        return v.to_bytes(2, 'big' if endian == b'B' else 'little')

    def pad(b):
        return b + b'\0' * (-len(b) % 4)
    return (endian + b'\0' + u16(major) + u16(0) + u16(len(name) if name_len is None else name_len) +
            u16(len(data) if data_len is None else data_len) + b'\0\0' + pad(name) + pad(data))


X11_LENGTHS = [0, 1, 2, 3, 4, 16, 18, 255, 65535]


def gen_x11(rng, remote):
    endian = rng.choice([b'B', b'B', b'l', b'l', b'\0', b'X', b'b'])
    cookie = rng.choice([remote, remote, remote[:-1] + bytes([remote[-1] ^ 1]), b'', remote[:8], remote + b'x', b'\0' * 16])
    name = rng.choice([b'MIT-MAGIC-COOKIE-1', b'', b'X', b'XDM-AUTHORIZATION-1', b'n' * 255])
    kw = {}
    r = rng.random()
    if r < 0.3:
        kw['name_len'] = rng.choice(X11_LENGTHS)
    elif r < 0.6:
        kw['data_len'] = rng.choice(X11_LENGTHS)
    elif r < 0.7:
        kw['name_len'], kw['data_len'] = rng.choice(X11_LENGTHS), rng.choice(X11_LENGTHS)
    s = x11_block(endian, name, cookie, **kw)
    r = rng.random()
    if r < 0.2:
        s = s[:rng.randint(0, len(s))]
    elif r < 0.5:
        s += rng.choice([b'\x01', b'tail of the X11 conversation', b'\0' * 5])
    k = rng.random()
    if k < 0.4:
        chunks = [s]
    elif k < 0.55:
        chunks = [s[i:i + 1] for i in range(len(s))]
    else:
        cuts = sorted(rng.sample(range(len(s) + 1), min(len(s) + 1, rng.randint(1, 3))))
        chunks = [s[a:b] for a, b in zip([0] + cuts, cuts + [len(s)])]
    chunks = [c for c in chunks if c] or [b'']
    if rng.random() < 0.3:
        chunks.append(rng.choice([b'later data', b'\0']))
    return chunks


def x11_fixed(remote):
    out = []
    for endian in (b'B', b'l', b'?'):
        out.append([x11_block(endian, data=remote)])
        out.append([x11_block(endian, data=remote[::-1])])
        for nl in X11_LENGTHS:
            out.append([x11_block(endian, data=remote, name_len=nl)])
        for dl in X11_LENGTHS:
            out.append([x11_block(endian, data=remote, data_len=dl)])
            out.append([x11_block(endian, name=b'', data=b'', data_len=dl) + b'\0' * 8])
        out.append([x11_block(endian, name=b'', data=b'')])                    # both lengths zero
        out.append([x11_block(endian, name=b'', data=b''), b'more'])
    return out


def x11_observe(remote, local, chunks):
    """-> (raised, bytes passed to the X server, bytes written back, eof written back)"""
    from asyncssh.x11 import SSHX11ClientForwarder
    from asyncssh.forward import SSHForwarder
    xserver = SSHForwarder()
    xt = _ChanTransport()
    xserver.connection_made(xt)
    f = SSHX11ClientForwarder(_X11Listener(remote, local), xserver)
    ct = _ChanTransport()
    f.connection_made(ct)
    raised = None
    for ch in chunks:
        try:
            f.data_received(ch)
        except Exception as e:                          # noqa
            raised = type(e).__name__
            break
    return raised, bytes(xt.w), bytes(ct.w), ct.eof


def x11_run(rng, n):
    remote, local = bytes(range(0x10, 0x20)), bytes(range(0xa0, 0xb0))
    cases, bad, stats = [], [], {'accepted': 0, 'rejected': 0, 'waiting': 0, 'zero_length_cookie': 0}
    inputs = x11_fixed(remote) + [gen_x11(rng, remote) for _ in range(n)]
    for chunks in inputs:
        PROGRESS['item'] = ['x11 setup', [c.hex() for c in chunks]]
        raised, fwd, reply, eof = x11_observe(remote, local, chunks)
        if raised:
            bad.append(('SSHX11ClientForwarder.data_received', b'|'.join(chunks), raised))
        stats['rejected' if reply else ('accepted' if fwd else 'waiting')] += 1
        cases.append('((%s, %s, %s), (%s, %s, %s))' % (zl(remote), zl(local), clist(chunks, zl), zl(fwd), zl(reply), cbool(eof)))
    stats['zero_length_cookie'] = sum(1 for ch in inputs if len(ch[0]) >= 12 and ch[0][8:10] == b'\0\0')
    return cases, bad, stats
