"""C11 with the independent peer: a real asyncssh endpoint (tapped) against MiniSSH.

MiniSSH derives its keys itself (RFC 4253 7.2, hashlib) from ITS view of every exchange, so
 - traffic asyncssh sends after its NEWKEYS verifying under MiniSSH's new receive keys, and NOT under the
   keys of the previous epoch, is the statement "protected with freshly derived keys" on the wire;
 - asyncssh accepting MiniSSH's post-NEWKEYS traffic (new keys) and dropping the connection on a packet
   sealed with the previous epoch's keys is the same statement for asyncssh's receive side;
 - the session identifier enters every derivation, so a changed identifier breaks the next epoch.
MiniSSH also changes its algorithm lists between exchanges and starts exchanges itself (twice in a row).
"""
import asyncio

from . import c11_sim as S
from . import minissh as M
from . import minissh_selftest as T

MY_CHAN = T.MY_CHAN


class TapLink(T.Link):
    """Link that taps the asyncssh connection before its connection_made and records every write."""

    def __init__(self, mini, patches, is_client):
        super().__init__(mini)
        self.patches, self.is_client = patches, is_client
        self.tap = None
        self.writes = []                # (type, tag, bytes) of every packet asyncssh wrote

    def attach(self, conn):
        self.tap = S.Tap(conn, self.is_client, self.patches)
        orig = self.transport.write

        def write(data):
            data = bytes(data)
            self.tap.note_write(len(data))
            ev = self.tap.events[-1]
            if ev[0] == 'write':
                self.writes.append((ev[1], ev[2], data))
            return orig(data)
        self.transport.write = write
        super().attach(conn)


async def until(link, cond, what, serve=None, turns=6000):
    """Link.until without wall-clock waits: a bounded number of event-loop turns (a stalled exchange must stay cheap)"""
    for i in range(turns):
        moved = link.pump()
        if serve:
            serve()
            moved = link.pump() or moved
        if cond():
            return
        if link.closed and not link.to_mini:
            raise T.Failure('%s: asyncssh closed the connection (disconnect=%r)' % (what, link.mini.peer_disconnect))
        await asyncio.sleep(0 if (moved or i % 25) else 0.001)
    raise T.Failure('stalled waiting for ' + what)


async def expect(link, msgtype, what):
    found = []

    def scan():
        while link.cursor < len(link.mini.inbox) and not found:
            t, p = link.mini.inbox[link.cursor]
            link.cursor += 1
            if t == msgtype:
                found.append(p)
            elif t == M.MSG_CHANNEL_DATA:
                r = M.Reader(p, 1)
                r.get_u32()
                link.echoed += r.get_string()
            elif t in (M.MSG_DISCONNECT, M.MSG_USERAUTH_FAILURE, M.MSG_CHANNEL_OPEN_FAILURE, M.MSG_CHANNEL_FAILURE):
                raise T.Failure('%s: got message %d instead' % (what, t))
        return bool(found)
    await until(link, scan, what)
    return found[0]


def snapshot(mini):
    return {'k': mini.shared_secret, 'h': mini.exchange_hash, 'neg': dict(mini.negotiated), 'sid': mini.session_id}


def old_protection(snap, mini, direction):
    """receive protection for `direction` rebuilt from the key material of an EARLIER exchange"""
    neg = snap['neg']
    hash_name = M.KEX_ALGS[neg['kex']][1]
    iv_x, key_x, mac_x = (b'A', b'C', b'E') if direction == 'cs' else (b'B', b'D', b'F')
    enc, mac = neg['enc_' + direction], neg['mac_' + direction]
    _, keylen, ivlen, _ = M.CIPHERS[enc]

    def d(letter, need):
        return M.derive_key(hash_name, snap['k'], snap['h'], letter, snap['sid'], need)
    mac_key = b'' if mac == M.IMPLICIT_MAC else d(mac_x, M.MACS[mac][1])
    return M._Protection(enc, mac, d(key_x, keylen), d(iv_x, ivlen), mac_key, sending=False)


async def session(sc):
    """sc: role ('client' = MiniSSH is the client), kex, encs (list, rotated per exchange), mac, strict,
    rekey_bytes (asyncssh side), plan: list of steps 'mini' | 'mini2' | 'async' | 'algs', tail: None|'oldkeys'|'newkeys'"""
    import asyncssh
    P = S.Patches()
    res = {'sc': sc, 'problems': [], 'exchanges': 0, 'checked_old': 0}
    role = sc['role']
    encs = [e.encode() for e in sc['encs']]
    mac = sc['mac'].encode() if sc['mac'] else None
    kex = sc['kex'].encode()
    conn = acc = None
    lost = {'exc': 'none'}
    try:
        class Srv(T.NoAuthServer):
            def connection_lost(self, exc):
                lost['exc'] = exc

        class Cli(asyncssh.SSHClient):
            def connection_lost(self, exc):
                lost['exc'] = exc
        comp = sc.get('comp', 'none')
        rekey_seconds = sc.get('rekey_seconds', 3600)
        akw = {'kex_algs': [sc['kex']], 'encryption_algs': sc['encs'], 'compression_algs': [comp],
               'rekey_bytes': sc['rekey_bytes'], 'rekey_seconds': rekey_seconds}
        P.clock.now = 0.0
        if sc['mac']:
            akw['mac_algs'] = [sc['mac']]
        if role == 'client':
            mini = M.MiniSSH('client', kex_algs=[kex], enc_algs=[encs[0]], mac_algs=[mac] if mac else None,
                             hostkey_algs=[b'ssh-ed25519'], strict_kex=sc['strict'], comp_algs=(comp.encode(),))
            link = TapLink(mini, P, is_client=False)
            acc = await asyncssh.listen('mem', 22, tunnel=link, server_factory=Srv, encoding=None,
                                        server_host_keys=[T.asyncssh_key('ssh-ed25519')], **akw)
            conn = link.server_factory('10.0.0.1', 40000)
            link.attach(conn)
            await until(link, lambda: mini.kex_count == 1, 'initial key exchange')
            mini.send(M.client_service_request('ssh-userauth'))
            await expect(link, M.MSG_SERVICE_ACCEPT, 'SERVICE_ACCEPT')
            mini.send(M.client_auth_none('u'))
            await expect(link, M.MSG_USERAUTH_SUCCESS, 'USERAUTH_SUCCESS')
            mini.send(M.channel_open_session(MY_CHAN, T.WINDOW, T.MAXPKT))
            r = M.Reader(await expect(link, M.MSG_CHANNEL_OPEN_CONFIRMATION, 'CHANNEL_OPEN_CONFIRMATION'), 1)
            r.get_u32()
            chan = r.get_u32()
            mini.send(M.channel_request_shell(chan))
            await expect(link, M.MSG_CHANNEL_SUCCESS, 'CHANNEL_SUCCESS')
            serve = None
            sent = bytearray()

            def push(data):                       # MiniSSH -> asyncssh echo server -> MiniSSH
                mini.send(M.channel_data(chan, data))
                sent.extend(data)

            def echoed():
                link.serve_client()
                return bytes(link.echoed)
            rx_dir = 'sc'
        else:
            mini = M.MiniSSH('server', host_key=T.crypto_key(b'ssh-ed25519'), kex_algs=[kex], enc_algs=[encs[0]],
                             mac_algs=[mac] if mac else None, hostkey_algs=[b'ssh-ed25519'], strict_kex=sc['strict'],
                             comp_algs=(comp.encode(),))
            link = TapLink(mini, P, is_client=True)
            connect = asyncio.ensure_future(asyncssh.connect(
                'mem', 22, tunnel=link, known_hosts=None, username='u', client_keys=None, config=None,
                client_factory=Cli, server_host_key_algs=['ssh-ed25519'], **akw))
            await until(link, connect.done, 'asyncssh connect()', serve=link.serve)
            conn = connect.result()
            opening = asyncio.ensure_future(conn.create_session(T.CollectClientSession, encoding=None))
            await until(link, opening.done, 'create_session()', serve=link.serve)
            achan, asess = opening.result()
            serve = link.serve
            sent = bytearray()

            def push(data):                       # asyncssh client -> MiniSSH echo server -> asyncssh client
                achan.write(data)
                sent.extend(data)

            def echoed():
                return bytes(asess.got)
            rx_dir = 'cs'
        snaps = [snapshot(mini)]
        sid0 = mini.session_id
        nblob = [0]

        async def traffic(n, size=200):
            for _ in range(n):
                push(bytes((nblob[0] * 13 + i) % 251 + 1 for i in range(size)))
                nblob[0] += 1
                link.pump()
                if serve:
                    serve()
            await until(link, lambda: len(echoed()) >= len(sent), 'echo', serve=serve)
            if echoed() != bytes(sent):
                res['problems'].append(('order', 'echoed stream differs from the sent stream (%d of %d bytes)'
                                        % (len(echoed()), len(sent))))

        async def settle_exchange(before):
            await until(link, lambda: mini.kex_count > before and not mini.kex_in_progress, 're-exchange', serve=serve)
            res['exchanges'] += 1
            snaps.append(snapshot(mini))
            if mini.session_id != sid0:
                res['problems'].append(('sid', 'MiniSSH: session id changed'))
            await traffic(2)
            check_fresh(len(snaps) - 1)

        def check_fresh(n):
            """first packet asyncssh wrote after its NEWKEYS number n (0 = initial): must not verify under the
            receive keys of exchange n-1 (MiniSSH has already verified it under those of exchange n)"""
            idx = [i for i, w in enumerate(link.writes) if w[0] == M.MSG_NEWKEYS]
            if len(idx) <= n or idx[n] + 1 >= len(link.writes):
                return
            data = link.writes[idx[n] + 1][2]
            recs = [p for p in mini.raw_packets if p['payload'] is not None]
            # sequence number MiniSSH used for that packet: the one following the n-th NEWKEYS it received
            nk = [i for i, p in enumerate(recs) if (p.get('uncompressed') or p['payload'])[:1] == bytes([M.MSG_NEWKEYS])]
            if len(nk) <= n or nk[n] + 1 >= len(recs):
                return
            rec = recs[nk[n] + 1]
            if not rec['mac_ok']:
                res['problems'].append(('fresh', 'post-NEWKEYS packet does not verify under the newly derived keys'))
            try:
                old = old_protection(snaps[n - 1], mini, rx_dir)
                if old.peek_length(rec['seq'], data) is not None and len(data) >= old.taglen + 8:
                    body = old.open(rec['seq'], data)
                else:
                    body = None
            except Exception:
                body = None
            res['checked_old'] += 1
            if body is not None:
                res['problems'].append(('fresh', 'first packet after NEWKEYS %d still verifies under the keys of the '
                                                 'previous exchange' % n))

        await traffic(3)
        rot = 0
        for step in sc['plan']:
            if lost['exc'] != 'none':
                break
            before = mini.kex_count
            if step == 'algs':                    # algorithm sets change between exchanges
                rot += 1
                mini.enc_algs = [encs[rot % len(encs)]]
                continue
            if step == 'mini':
                mini.start_rekey()
                push(b'during-rekey-%d' % before)             # data while the exchange runs, both directions
                await settle_exchange(before)
            elif step == 'async':                 # asyncssh starts it: byte limit, or (sessions with compression,
                if sc.get('time_trigger'):        # where the model does not know the framed lengths) the time limit
                    P.clock.now += rekey_seconds + 50
                    link.tap.tick(P.clock.now)
                for _ in range(400):
                    if mini.kex_count > before or mini.kex_in_progress:
                        break
                    await traffic(1, 600)
                await settle_exchange(before)
        old_tx = None
        res['kex_count'] = mini.kex_count
        res['negotiated'] = [s['neg'].get('enc_cs', b'').decode() for s in snaps]
        # ---- hostile tails ---------------------------------------------------------------------------
        if sc.get('tail') and lost['exc'] == 'none' and len(snaps) >= 2 and not mini.kex_in_progress:
            if sc['tail'] == 'newkeys':
                mini.send_raw_packet(bytes([M.MSG_NEWKEYS]))
            elif sc['tail'] == 'kexinit_early':
                # asyncssh has sent its NEWKEYS, MiniSSH's NEWKEYS is withheld and a KEXINIT (still under the old
                # keys, with the sequence number the NEWKEYS would have had) arrives in its place.  Needs a cipher
                # without running state (chacha20-poly1305) and non-strict kex (sequence numbers keep counting).
                old_tx = mini._tx
                mini.start_rekey()
                held = None
                for _ in range(400):
                    out = mini.take_output()
                    if out and mini._stage == 'wait_newkeys':
                        held = out                      # NEWKEYS (+ anything sent right behind it): withheld
                        break
                    if out:
                        link.conn.data_received(out)
                    elif link.to_mini:
                        mini.feed(link.to_mini.popleft())
                    else:
                        await asyncio.sleep(0)
                if held is None or mini.strict or old_tx.kind != 'chachapoly':
                    res['problems'].append(('harness', 'kexinit_early: could not reach the state with NEWKEYS withheld'))
                else:
                    payload = mini.our_kexinit_payload
                    padlen = 8 - (1 + len(payload)) % 8
                    if padlen < 4:
                        padlen += 8
                    body = bytes([padlen]) + payload + bytes(padlen)
                    seq = (mini.send_seq - 1) % 2 ** 32         # the number the withheld NEWKEYS used
                    link.conn.data_received(old_tx.seal(seq, body))
            elif sc['tail'] == 'kexinit2':         # a second KEXINIT while the exchange it started is still running
                mini.start_rekey()
                for _ in range(6):
                    try:
                        link.pump()
                    except (M.MiniSSHError, T.Failure):
                        break
                    await asyncio.sleep(0)
                mini.send_raw_packet(mini.our_kexinit_payload)
            else:                                  # a packet sealed with the send keys of the PREVIOUS exchange
                tx_dir = 'cs' if role == 'client' else 'sc'
                neg = snaps[-2]['neg']
                hash_name = M.KEX_ALGS[neg['kex']][1]
                iv_x, key_x, mac_x = (b'A', b'C', b'E') if tx_dir == 'cs' else (b'B', b'D', b'F')
                enc, macn = neg['enc_' + tx_dir], neg['mac_' + tx_dir]
                _, keylen, ivlen, _ = M.CIPHERS[enc]

                def d(letter, need):
                    return M.derive_key(hash_name, snaps[-2]['k'], snaps[-2]['h'], letter, sid0, need)
                mk = b'' if macn == M.IMPLICIT_MAC else d(mac_x, M.MACS[macn][1])
                cur = mini._tx
                mini._tx = M._Protection(enc, macn, d(key_x, keylen), d(iv_x, ivlen), mk, sending=True)
                mini.send_raw_packet(M.channel_data(0, b'stale keys'))
                mini._tx = cur
            for _ in range(40):
                try:
                    link.pump()
                    if serve:
                        serve()
                    else:
                        link.serve_client()
                except (M.MiniSSHError, T.Failure):
                    break
                await asyncio.sleep(0)
                if lost['exc'] != 'none' or link.closed:
                    break
            for _ in range(10):
                await asyncio.sleep(0)
            exc = lost['exc']
            errored = not isinstance(exc, str) and exc is not None
            if sc['tail'] in ('newkeys', 'kexinit2', 'kexinit_early'):
                rejected = errored
            else:       # accepted = the stale packet's content reached the application (a stall on a garbage length is not)
                rejected = b'stale keys' not in echoed()
            res['tail'] = {'kind': sc['tail'], 'lost': exc if isinstance(exc, str) else type(exc).__name__,
                           'rejected': rejected, 'errored': errored}
        res['tap'] = link.tap
        ops = S.to_ops(link.tap)
        code = 0
        if res.get('tail', {}).get('errored'):
            if sc['tail'] in ('newkeys', 'kexinit2', 'kexinit_early'):
                code, which = (2, 'RecvNewKeys') if sc['tail'] == 'newkeys' else (1, 'RecvKexInit')
                last = max((i for i, o in enumerate(ops) if o['act'][0] == which), default=len(ops) - 1)
                ops = ops[:last + 1]
            else:
                # a MAC failure is outside the send-side model: compare the trace up to the last normal operation
                while ops and ops[-1]['act'][0] == 'Send' and ops[-1]['act'][1] == 1:
                    ops.pop()
        res['ops'] = ops
        res['final'] = (code, None, None, None)
        res['cfg'] = (role == 'server', sc['rekey_bytes'], int(rekey_seconds))
        return res
    finally:
        P.restore()
        try:
            if conn is not None:
                conn.abort()
            if acc is not None:
                acc.close()
        except Exception:
            pass
        for _ in range(4):
            await asyncio.sleep(0)


def gen(rng, k):
    fams = [(['chacha20-poly1305@openssh.com', 'aes128-gcm@openssh.com'], None),
            (['aes128-gcm@openssh.com', 'aes256-gcm@openssh.com', 'chacha20-poly1305@openssh.com'], None),
            (['aes128-ctr', 'aes256-ctr'], 'hmac-sha2-256-etm@openssh.com'),
            (['aes128-ctr', 'aes128-cbc', '3des-cbc'], 'hmac-sha2-256'),
            (['aes256-ctr', 'chacha20-poly1305@openssh.com'], 'hmac-sha2-512-etm@openssh.com')]
    encs, mac = fams[k % len(fams)]
    plans = [['mini', 'mini', 'algs', 'mini'], ['async', 'algs', 'mini', 'async'], ['mini', 'algs', 'async', 'algs', 'mini'],
             ['async', 'async', 'algs', 'async']]
    if k % 7 == 6:      # KEXINIT in place of the peer's NEWKEYS (see session(): stateless cipher, non-strict kex)
        return {'role': 'client', 'kex': 'curve25519-sha256', 'encs': ['chacha20-poly1305@openssh.com'], 'mac': None,
                'strict': False, 'rekey_bytes': 1 << 30, 'plan': ['mini'], 'tail': 'kexinit_early', 'comp': 'none'}
    sc = {'role': 'client' if k % 2 == 0 else 'server',
            'kex': rng.choice(['curve25519-sha256', 'ecdh-sha2-nistp256', 'diffie-hellman-group14-sha256']) if k % 3 == 0 else 'curve25519-sha256',
            'encs': encs, 'mac': mac, 'strict': k % 4 != 3, 'rekey_bytes': rng.choice([3000, 8192]) if 'async' in plans[k % len(plans)] else 1 << 30,
            'plan': plans[k % len(plans)], 'tail': [None, 'oldkeys', 'newkeys', 'kexinit2', 'newkeys'][k % 5]}
    sc['comp'] = ['none', 'zlib', 'zlib@openssh.com'][(k // 2) % 3]
    if sc['comp'] != 'none':
        # with compression the framed lengths are not known to the model: the asyncssh side re-keys on its time
        # limit (virtual clock) instead of its byte limit
        sc.update(rekey_bytes=1 << 30, rekey_seconds=100, time_trigger=True)
    return sc
